(** * Proofs/SimplifyProofs.v — soundness of the dispatcher, of rebuilding a node from
    simplified children, and of the fixed-point driver. *)
From Coq Require Import Lia.
From Patronus Require Import Simplify BVLemmas ExprLemmas EvalProofs BVRuleLemmas ExprEqb SimplifyBuilders
     SimplifyRules1 SimplifyRules2 SimplifyMask SimplifyRules3.
Open Scope N_scope.

(** ** the dispatcher on a node and its own children *)
Lemma simplify_sound e r : wt e = true -> simplify e (children e) = Ok (Some r) -> ok_rw e r.
Proof.
  intros Hwt Hs. destruct e; cbn [simplify children] in Hs; try discriminate;
    try (inversion Hs as [Hs']; clear Hs).
  - now apply simplify_bv_zero_ext_sound.
  - now apply simplify_bv_sign_ext_sound.
  - now apply simplify_bv_slice_sound.
  - now apply simplify_bv_not_sound.
  - now apply simplify_bv_equal_sound.
  - subst r. now apply simplify_implies_sound.
  - now apply simplify_bv_greater_equal_sound.
  - now apply simplify_bv_concat_sound.
  - now apply simplify_bv_and_sound.
  - now apply simplify_bv_or_sound.
  - now apply simplify_bv_xor_sound.
  - now apply simplify_bv_shift_left_sound.
  - now apply simplify_bv_arithmetic_shift_right_sound.
  - now apply simplify_bv_shift_right_sound.
  - now apply simplify_bv_add_sound.
  - now apply simplify_bv_mul_sound.
  - now apply simplify_ite_sound.
Qed.

(** ** rebuilding a node from replaced children *)
Lemma forallb_N_ext n p q : (forall i, p i = q i) -> forallb_N n p = forallb_N n q.
Proof.
  intros H. unfold forallb_N. induction n using N.peano_ind; [reflexivity|].
  rewrite !N.recursion_succ; try (intros ? ? -> ? ? ->; reflexivity); try reflexivity.
  now rewrite IHn, H.
Qed.

Lemma arr_eqb_ext iw f g f' g' : (forall i, f i = f' i) -> (forall i, g i = g' i) ->
  arr_eqb iw f g = arr_eqb iw f' g'.
Proof. intros Hf Hg. unfold arr_eqb. apply forallb_N_ext. intros i. now rewrite Hf, Hg. Qed.

Lemma wt_children e : wt e = true -> Forall (fun c => wt c = true) (children e).
Proof.
  destruct e; cbn [wt children]; rewrite ?andb_true_iff; intros H;
    repeat match goal with H : _ /\ _ |- _ => destruct H end; repeat constructor; assumption.
Qed.

Ltac use_rw :=
  repeat match goal with
         | H : ok_rw _ _ |- _ =>
             let W := fresh "W" in let T := fresh "T" in let S := fresh "S" in destruct H as (W & T & S)
         end.

Ltac rebuild_wt Hwt :=
  cbn [wt]; apply andb_true_iff; split;
  [ pose proof (wt_node_ok _ Hwt) as Hn; unfold node_ok in *; cbn [check1 leaf_ok] in *;
    unfold expect_same_width_bvs_of, expect_same_width_bvs, expect_bv_of, expect_same_size_arrays, bind_ty in *;
    repeat match goal with T : type_of _ = type_of _ |- _ => rewrite T; clear T end; exact Hn
  | repeat match goal with W : wt _ = true |- _ => rewrite W; clear W end; reflexivity ].

Ltac rebuild_sem :=
  let rho := fresh "rho" in let Hr := fresh "Hr" in
  intros rho Hr;
  repeat match goal with
         | S : sem_eq _ _ |- _ =>
             let E := fresh "E" in let A := fresh "A" in destruct (S rho Hr) as [E A]; clear S
         end;
  cbn [ebv earr]; unfold width, index_width;
  repeat match goal with T : type_of _ = type_of _ |- _ => try rewrite T; clear T end;
  repeat match goal with E : ebv _ _ = ebv _ _ |- _ => try rewrite E; clear E end.

Lemma rebuild_ok e cs : wt e = true -> Forall2 ok_rw (children e) cs ->
  ok_rw e (rebuild e cs) /\ children (rebuild e cs) = cs /\ simplify e cs = simplify (rebuild e cs) cs.
Proof.
  intros Hwt Hcs.
  destruct e; cbn [children] in Hcs;
    repeat match goal with
           | H : Forall2 _ (_ :: _) _ |- _ => inversion H; subst; clear H
           | H : Forall2 _ [] _ |- _ => inversion H; subst; clear H
           end;
    cbn [rebuild]; (split; [|split; reflexivity]);
    try (now apply ok_rw_refl);
    pose proof Hwt as Hwt0; use_rw;
    (split; [rebuild_wt Hwt | split; [cbn [type_of]; try reflexivity; try assumption | rebuild_sem]]).
  all: try (split; [reflexivity | intros; reflexivity]).
  - (* BVArrayRead *) split; [|intros; reflexivity]. apply A0.
  - (* ArrayEqual *) split; [|intros; reflexivity]. f_equal. now apply arr_eqb_ext.
  - (* ArrayStore *) split; [reflexivity|]. intros i. unfold arr_store. destruct (i =? ebv rho e2); auto.
  - (* ArrayIte *) split; [reflexivity|]. intros i. destruct (ebv rho e1 =? 1); auto.
Qed.

(** ** the fixed-point driver *)
Lemma simp_children_ok (f : expr -> sres) cs cs' :
  (forall c c', In c cs -> f c = SOk c' -> ok_rw c c') ->
  simp_children f cs = inr cs' -> Forall2 ok_rw cs cs'.
Proof.
  revert cs'. induction cs as [|c rest IH]; intros cs' Hf Hs; cbn [simp_children] in Hs.
  - inversion Hs. constructor.
  - destruct (f c) as [c'| |] eqn:Ec; try discriminate.
    destruct (simp_children f rest) as [err|rest'] eqn:Er; [discriminate|].
    inversion Hs; subst cs'. constructor.
    + apply Hf; [now left|assumption].
    + apply IH; [|reflexivity]. intros x x' Hx. apply Hf. now right.
Qed.

Lemma simp_children_inl (f : expr -> sres) cs err : simp_children f cs = inl err -> forall x, err <> SOk x.
Proof.
  induction cs as [|c rest IH]; cbn [simp_children]; [discriminate|].
  destruct (f c) as [c'| |] eqn:Ec.
  - destruct (simp_children f rest) as [err'|rest'] eqn:Er; [|discriminate].
    intros H; inversion H; subst err'. now apply IH.
  - intros H; inversion H. discriminate.
  - intros H; inversion H. discriminate.
Qed.

Theorem simp_sound_lemma : forall fuel e r, wt e = true -> simp fuel e = SOk r -> ok_rw e r.
Proof.
  induction fuel as [|f IH]; intros e r Hwt Hs; cbn [simp] in Hs; [discriminate|].
  destruct (simp_children (simp f) (children e)) as [err|cs] eqn:Ecs;
    [exfalso; exact (simp_children_inl _ _ _ Ecs _ Hs)|].
  assert (Hcs : Forall2 ok_rw (children e) cs).
  { apply (simp_children_ok (simp f)); [|exact Ecs]. intros c c' Hin Hc. apply IH; [|exact Hc].
    pose proof (wt_children e Hwt) as Hall. rewrite Forall_forall in Hall. now apply Hall. }
  destruct (rebuild_ok e cs Hwt Hcs) as (Hrb & Hch & Hsimp).
  destruct (simplify e cs) as [[r0|]|] eqn:Es; try discriminate.
  - (* a rule fired *)
    assert (Hr0 : ok_rw e r0).
    { eapply ok_rw_trans; [exact Hrb|]. apply simplify_sound; [apply Hrb|]. rewrite Hch, <- Hsimp. reflexivity. }
    destruct (expr_eqb r0 e).
    + inversion Hs; subst r. now apply ok_rw_refl.
    + eapply ok_rw_trans; [exact Hr0|]. apply IH; [apply Hr0|exact Hs].
  - (* no rule: rebuild if a child changed *)
    destruct (list_eqb cs (children e)).
    + inversion Hs; subst r. now apply ok_rw_refl.
    + eapply ok_rw_trans; [exact Hrb|]. apply IH; [apply Hrb|exact Hs].
Qed.

(** C01, on expressions: the result of the simplifier (model) is well-typed, has the type of
    the input and evaluates to the same value under every well-formed environment *)
Theorem simp_sound : forall fuel e r, wt e = true -> simp fuel e = SOk r ->
  wt r = true /\ type_of r = type_of e /\
  forall rho, env_wf rho -> ebv rho r = ebv rho e /\ forall i, earr rho r i = earr rho e i.
Proof. intros fuel e r Hwt Hs. exact (simp_sound_lemma fuel e r Hwt Hs). Qed.
