(** * Model/ContextOracle.v — the property oracle of C12 as executable predicates

    The oracle looks only at what was OBSERVED of a context (implementation or
    model): for every reference [r] of the table its [cx_key] (the node with symbol
    name and literal value resolved), its type, the [is_true]/[is_false] flags, and
    for every call of the history what it returned and what the returned reference
    denoted at that moment.  It does not run the model.

    - [cx_keys_nodup]   same structure => same reference (no two references denote the same key)
    - [cx_obs_stable]   what a reference denoted when it was returned is what it denotes at the end
    - [cx_tf_ok]        get_true = 1, get_false = 0 and they denote the 1-bit literals 1 and 0
    - [cx_flags_ok]     is_true / is_false (decided by interner index) agree with the literal VALUE
    - [cx_denotes]      the reference returned by a call denotes the requested expression
                        (operator, operand references, scalars; stored widths = observed operand types)

    [Proofs/ContextProofs.v] shows that the model passes every one of them on every
    history ([oracle_holds_on_model]).  No proofs here. *)
From Coq Require Import NArith List String Bool.
From Patronus Require Import Context.
Import ListNotations.
Open Scope N_scope.

Definition cx_ostr_eqb (a b : option string) : bool :=
  match a, b with
  | Some x, Some y => String.eqb x y
  | None, None => true
  | _, _ => false
  end.

Definition cx_key_eqb (a b : cx_key) : bool :=
  match a, b with
  | CkSym n w, CkSym n' w' => cx_ostr_eqb n n' && (w =? w')
  | CkArrSym n i d, CkArrSym n' i' d' => cx_ostr_eqb n n' && (i =? i') && (d =? d')
  | CkLit w ws, CkLit w' ws' => (w =? w') && cx_words_eqb ws ws'
  | CkNode n, CkNode n' => cx_node_eqb n n'
  | _, _ => false
  end.

Fixpoint cx_key_absent (k : cx_key) (l : list cx_key) : bool :=
  match l with
  | [] => true
  | k' :: t => negb (cx_key_eqb k k') && cx_key_absent k t
  end.

Fixpoint cx_keys_nodup (l : list cx_key) : bool :=
  match l with
  | [] => true
  | k :: t => cx_key_absent k t && cx_keys_nodup t
  end.

Fixpoint cx_obs_stable (final : list cx_key) (obs : list (N * cx_key)) : bool :=
  match obs with
  | [] => true
  | (r, k) :: t =>
      match cx_nth final r with
      | Some k' => cx_key_eqb k k' && cx_obs_stable final t
      | None => false
      end
  end.

Definition cx_key_is (final : list cx_key) (r : N) (k : cx_key) : bool :=
  match cx_nth final r with
  | Some k' => cx_key_eqb k k'
  | None => false
  end.

Definition cx_tf_ok (final : list cx_key) (t f : N) : bool :=
  (t =? 1) && (f =? 0) && cx_key_is final 0 (CkLit 1 [0]) && cx_key_is final 1 (CkLit 1 [1]).

Definition cx_flags_ok (k : cx_key) (is_true is_false : bool) : bool :=
  match k with
  | CkLit w ws =>
      Bool.eqb is_true ((w =? 1) && cx_words_eqb ws [1]) &&
      Bool.eqb is_false ((w =? 1) && cx_words_eqb ws [0])
  | _ => negb is_true && negb is_false
  end.

Fixpoint cx_all_flags_ok (final : list cx_key) (flags : list (bool * bool)) : bool :=
  match final, flags with
  | [], [] => true
  | k :: t, (a, b) :: t' => cx_flags_ok k a b && cx_all_flags_ok t t'
  | _, _ => false
  end.

(* ---- "the returned reference denotes the requested expression" ---- *)
Section Denotes.
  Variable keys : list cx_key.
  Variable types : list (cx_res cx_ty).
  Variable strings : list string.

  Definition cx_obs_bv (r : N) : option N :=
    match cx_nth types r with Some (CxOk (CtBV w)) => Some w | _ => None end.
  Definition cx_obs_ty (r : N) : option cx_ty :=
    match cx_nth types r with Some (CxOk t) => Some t | _ => None end.

  Definition cx_is_node (r : N) (n : cx_node) : bool := cx_key_is keys r (CkNode n).

  Definition cx_with_bv (r : N) (f : N -> bool) : bool :=
    match cx_obs_bv r with Some w => f w | None => false end.

  Definition cx_denotes_equal (a b r : N) : bool :=
    match cx_obs_ty a with
    | Some (CtBV _) => cx_is_node r (CnBVEqual a b)
    | Some (CtArr _ _) => cx_is_node r (CnArrayEqual a b)
    | None => false
    end.

  Definition cx_denotes_bin (o : cx_binop) (a b r : N) : bool :=
    cx_with_bv b (fun w => cx_is_node r (CnBVBin o a b w)).

  Definition cx_find_node (r : N) : option cx_node :=
    match cx_nth keys r with Some (CkNode n) => Some n | _ => None end.

  Fixpoint cx_denotes_stores (entries : list ((N * list N) * (N * list N))) (base r : N) : bool :=
    (* [entries] latest store first *)
    match entries with
    | [] => r =? base
    | (i, d) :: t =>
        match cx_find_node r with
        | Some (CnArrayStore a i' d') =>
            cx_key_is keys i' (CkLit (fst i) (snd i)) && cx_key_is keys d' (CkLit (fst d) (snd d)) &&
            cx_denotes_stores t base a
        | _ => false
        end
    end.

  (** the base (constant array) below [n] stores *)
  Fixpoint cx_store_base (n : nat) (r : N) : option N :=
    match n with
    | O => Some r
    | S k => match cx_find_node r with
             | Some (CnArrayStore a _ _) => cx_store_base k a
             | _ => None
             end
    end.

  Definition cx_denotes (o : cx_op) (out : cx_out) : bool :=
    match o, out with
    | CoString s, CxStr r => match cx_nth strings r with Some s' => String.eqb s s' | None => false end
    | CoBvSymbol s w, CxExpr r => cx_key_is keys r (CkSym (Some s) w)
    | CoArraySymbol s iw dw, CxExpr r => cx_key_is keys r (CkArrSym (Some s) iw dw)
    | CoSymbol n (CtBV w), CxExpr r => cx_key_is keys r (CkSym (cx_nth strings n) w)
    | CoSymbol n (CtArr iw dw), CxExpr r => cx_key_is keys r (CkArrSym (cx_nth strings n) iw dw)
    | CoBvLit w ws, CxExpr r => cx_key_is keys r (CkLit w ws)
    | CoBitVecVal v w, CxExpr r => cx_key_is keys r (CkLit w (cx_words_of w v))
    | CoZero w, CxExpr r => cx_key_is keys r (CkLit w (cx_words_of w 0))
    | CoOne w, CxExpr r => cx_key_is keys r (CkLit w (cx_words_of w 1))
    | CoOnes w, CxExpr r => cx_key_is keys r (CkLit w (cx_words_of w (2 ^ w - 1)))
    | CoZeroArray iw dw, CxExpr r =>
        match cx_find_node r with
        | Some (CnArrayConstant e iw' dw') =>
            (iw' =? iw) && (dw' =? dw) && cx_key_is keys e (CkLit dw (cx_words_of dw 0))
        | _ => false
        end
    | CoLitArr iw d es, CxExpr r =>
        match cx_store_base (List.length es) r with
        | Some base =>
            cx_denotes_stores (rev es) base r &&
            match cx_find_node base with
            | Some (CnArrayConstant e iw' dw') =>
                (iw' =? iw) && (dw' =? fst d) && cx_key_is keys e (CkLit (fst d) (snd d))
            | _ => false
            end
        | None => false
        end
    | CoGetTrue, CxExpr r => r =? 1
    | CoGetFalse, CxExpr r => r =? 0
    | CoEqual a b, CxExpr r => cx_denotes_equal a b r
    | CoDistinct a b, CxExpr r =>
        match cx_find_node r with
        | Some (CnBVNot e w) => (w =? 1) && cx_denotes_equal a b e
        | _ => false
        end
    | CoIte c t f, CxExpr r =>
        match cx_obs_ty t with
        | Some (CtBV _) => cx_is_node r (CnBVIte c t f)
        | Some (CtArr _ _) => cx_is_node r (CnArrayIte c t f)
        | None => false
        end
    | CoImplies a b, CxExpr r => cx_is_node r (CnBVImplies a b)
    | CoGreater a b, CxExpr r => cx_is_node r (CnBVGreater a b)
    | CoGreaterEq a b, CxExpr r => cx_is_node r (CnBVGreaterEqual a b)
    | CoGreaterSigned a b, CxExpr r => cx_with_bv b (fun w => cx_is_node r (CnBVGreaterSigned a b w))
    | CoGreaterEqSigned a b, CxExpr r => cx_with_bv b (fun w => cx_is_node r (CnBVGreaterEqualSigned a b w))
    | CoNot e, CxExpr r => cx_with_bv e (fun w => cx_is_node r (CnBVNot e w))
    | CoNegate e, CxExpr r => cx_with_bv e (fun w => cx_is_node r (CnBVNegate e w))
    | CoBin o a b, CxExpr r => cx_denotes_bin o a b r
    | CoXor3 a b c, CxExpr r =>
        match cx_find_node r with
        | Some (CnBVBin CxXor x c' w) => (c' =? c) && cx_denotes_bin CxXor a b x && cx_denotes_bin CxXor x c r
        | _ => false
        end
    | CoMajority a b c, CxExpr r =>
        match cx_find_node r with
        | Some (CnBVBin CxOr x bc _) =>
            cx_denotes_bin CxAnd b c bc && cx_denotes_bin CxOr x bc r &&
            match cx_find_node x with
            | Some (CnBVBin CxOr ab ac _) =>
                cx_denotes_bin CxAnd a b ab && cx_denotes_bin CxAnd a c ac && cx_denotes_bin CxOr ab ac x
            | _ => false
            end
        | _ => false
        end
    | CoConcat a b, CxExpr r =>
        cx_with_bv a (fun wa => cx_with_bv b (fun wb => cx_is_node r (CnBVConcat a b (wa + wb))))
    | CoSlice e hi lo, CxExpr r =>
        if (lo =? 0) && (match cx_obs_bv e with Some we => hi + 1 =? we | None => false end)
        then r =? e
        else cx_is_node r (CnBVSlice e hi lo)
    | CoZeroExt e by_, CxExpr r =>
        if by_ =? 0 then r =? e else cx_with_bv e (fun we => cx_is_node r (CnBVZeroExt e by_ (we + by_)))
    | CoSignExt e by_, CxExpr r =>
        if by_ =? 0 then r =? e else cx_with_bv e (fun we => cx_is_node r (CnBVSignExt e by_ (we + by_)))
    | CoExtend e by_ s, CxExpr r =>
        if by_ =? 0 then r =? e
        else cx_with_bv e (fun we => cx_is_node r (if s then CnBVSignExt e by_ (we + by_) else CnBVZeroExt e by_ (we + by_)))
    | CoArrayStore a i d, CxExpr r => cx_is_node r (CnArrayStore a i d)
    | CoArrayConst e iw, CxExpr r => cx_with_bv e (fun dw => cx_is_node r (CnArrayConstant e iw dw))
    | CoArrayRead a i, CxExpr r =>
        match cx_obs_ty a with
        | Some (CtArr _ dw) => cx_is_node r (CnBVArrayRead a i dw)
        | _ => false
        end
    | _, _ => false
    end.
End Denotes.

(** the observations the model makes of itself (same shape as the harness' dump) *)
Fixpoint cx_types_from (es rest : list cx_node) (i : N) : list (cx_res cx_ty) :=
  match rest with
  | [] => []
  | _ :: t => cx_type_of es i :: cx_types_from es t (N.succ i)
  end.
Definition cx_types (c : cx) : list (cx_res cx_ty) := cx_types_from (cx_exprs c) (cx_exprs c) 0.

Definition cx_flags (c : cx) : list (bool * bool) :=
  map (fun n => (cx_is_true n, cx_is_false n)) (cx_exprs c).

(** the observations the model makes while it runs a history: for every call that returned
    a valid expression reference, the reference and what it denoted at that moment *)
Fixpoint cx_observe (ops : list cx_op) (c : cx) : list (N * cx_key) :=
  match ops with
  | [] => []
  | o :: t =>
      let (c', r) := cx_run_op o c in
      match r with
      | CxOk (CxExpr i) =>
          match cx_lookup c' i with
          | Some n => (i, cx_key_of c' n) :: cx_observe t c'
          | None => cx_observe t c'
          end
      | _ => cx_observe t c'
      end
  end.

(** [Context::symbol] takes a [StringRef]; outside the crate a [StringRef] can only be
    obtained from [Context::string] or read off a node, so it is always valid.  A history
    is well formed when its [CoSymbol] calls respect that. *)
Definition cx_op_names_ok (c : cx) (o : cx_op) : bool :=
  match o with
  | CoSymbol n _ => match cx_nth (cx_strings c) n with Some _ => true | None => false end
  | _ => true
  end.

Fixpoint cx_hist_ok (ops : list cx_op) (c : cx) : bool :=
  match ops with
  | [] => true
  | o :: t => cx_op_names_ok c o && cx_hist_ok t (fst (cx_run_op o c))
  end.
