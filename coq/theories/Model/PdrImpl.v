(** * Model/PdrImpl.v — a CONCRETE executable model of patronus/src/mc/pdr.rs (as repaired by
    /repo a4b99b1), function by function, over an abstract solver.

    What is kept of the Rust code: [FrameId] and its increment/decrement (with the panics),
    cubes as lists of literals, the frame trace as data (the per-frame bookkeeping lists
    [Frame.cubes], the infinite frame, and — separately — the clauses that have been PERMANENTLY
    ASSERTED under each frame's activation literal: [mem::take] in propagate_blocked_cubes
    empties a bookkeeping list while the solver keeps the clause), the counter of activation
    literals, and the control flow of [get_bad_cube], [rel_ind] (with the unsat-core
    generalisation and [fix_gen_cube]), [block_cube] with its proof-obligation queue and the
    pushing loop, [add_frame], [add_blocked_cube], [propagate_blocked_cubes] (including the
    clean-up before Success and the offer to the infinite frame), and the main loop [pdr] with
    the frame limit and the BMC fallback.

    What is abstracted: the SMT encoding and the solver.  Every call of the Rust helper [query]
    becomes one [query] record (which frame is assumed — as the list of clauses active under
    [frame_assumptions] —, whether the bad states / the negated cube at FROM_STEP are asserted,
    which literals are asserted at TO_STEP, which of them the unsat core may select) that is
    handed to an oracle [solve : nat -> query -> answer] together with the running number of
    the query; [ASat m] carries the FROM_STEP state of the model ([get_bit_level_cube]),
    [AUnsat core] the literals of the unsat assumptions.  The BMC fallback is an oracle too
    ([bmc_result]).  Loops carry fuel; [fix_gen_cube]'s and the pushing loop's fuel is
    computed and never runs out (theorems), the fuel of [block_cube] and of the main loop is a
    parameter.

    Every state also carries a log of events (queries with their answers, blocked cubes,
    added frames): this is what the correspondence check compares with the trace hook of the
    real pdr.rs.

    FAULTS (property C15).  The oracle may also answer [AErr e] (the solver reported an error, died,
    wrote garbage: whatever makes the SolverContext method return [Err]) or [AUnknown] at ANY query;
    the commands that carry no answer (declare-const / assert / define: every one of them is followed
    by `?` in pdr.rs) may fail too: [cmd_fail : nat -> option EM] says whether the n-th command of the
    run fails; the BMC fallback (restart + bmc, both with `?`) may fail with [BmcErr e].  The model
    does exactly what pdr.rs does: `?` returns the error at once, [CheckSatResponse::Unknown] is
    handled site by site (get_bad_cube, init_steps_into and block_cube return an error; the pushing
    loop and propagate_blocked_cubes treat it like "not unsat" and go on).  An [Err] carries the event
    log at the moment of the error, so that "the first error is the one that is returned" can be
    stated.

    Executable definitions only; proofs in Proofs/PdrImplProofs.v. *)
From Coq Require Import List Bool Arith.
From Patronus Require Import Ic3.
Import ListNotations.

Section PdrImpl.
  Variable lit : Type.
  Variable lit_eqb : lit -> lit -> bool.
  Variable St : Type.                          (* valuations of the state symbols *)
  Variable cube_of_state : St -> list lit.     (* [get_bit_level_cube]: the full bit-level cube of a state *)
  Variable W : Type.                           (* witnesses produced by the BMC fallback *)
  Variable EM : Type.                          (* error messages of the solver context *)

  Definition ccube : Type := list lit.

  (** the frame a query assumes: the initial frame (init equations, with the inputs of the initial
      step) or the clauses active under [frame_assumptions] *)
  Inductive from_spec : Type := FromInit | FromClauses (cs : list ccube).

  Inductive qkind : Type :=
  | KBad          (* get_bad_cube *)
  | KRelInd       (* rel_ind *)
  | KGenCheck     (* fix_gen_cube: first test of the generalised cube *)
  | KGenFix       (* fix_gen_cube: one iteration of the restore loop *)
  | KInf.         (* propagate_blocked_cubes: query against the infinite frame *)

  Record query : Type := {
    q_kind : qkind;
    q_frame : frame_id;          (* the frame id handed to frame_assumptions *)
    q_from : from_spec;          (* its meaning *)
    q_bad : bool;                (* bad states asserted at FROM_STEP (then nothing is asked of TO_STEP) *)
    q_neg : option ccube;        (* negated cube asserted at FROM_STEP *)
    q_fixed : ccube;             (* literals asserted at TO_STEP as one assumption *)
    q_sel : ccube;               (* literals asserted at TO_STEP through one activation literal each *)
    q_core : bool                (* get_unsat_core *)
  }.

  Inductive answer : Type :=
  | ASat (m : St)
  | AUnsat (core : list lit)
  | AUnknown
  | AErr (e : EM).              (* the SolverContext method returned Err (check, get-value or get-unsat-assumptions) *)

  Variable solve : nat -> query -> answer.
  Variable cmd_fail : nat -> option EM.        (* does the n-th declare/assert/define command of the run fail? *)
  Variable n_init : nat.                       (* commands issued before the main loop (set-logic, encoding, BasePdr::init) *)
  Variable gen_on : bool.                      (* not disable_unsat_cores *)
  Variable has_bads : bool.                    (* sys.bad_states is not empty *)

  Inductive bmc_answer : Type := BmcFail (w : W) | BmcOther | BmcErr (e : EM).
  Variable bmc_result : bmc_answer.            (* bmc(.., k_max = MAX_FRAMES) after the restart *)

  Definition MAX_FRAMES : nat := 1000.

  Inductive err : Type :=
  | EUnknown (k : qkind)        (* UnexpectedResponse "unknown query" *)
  | EOrigCube                   (* "original cube is reachable from init in one step" *)
  | ESolver (e : EM).           (* an error of the solver context, propagated with `?` *)

  Inductive event : Type :=
  | EvQuery (q : query) (a : answer)
  | EvBlock (f : frame_id) (c : ccube)
  | EvAddFrame (act : nat)      (* the id of the frame's activation literal *)
  | EvCmdFail (idx : nat) (e : EM)
  | EvBmcErr (e : EM).

  Inductive res (A : Type) : Type :=
  | Ok (a : A)
  | Err (e : err) (log : list event)   (* the log at the moment of the error, newest first *)
  | Panic (code : nat)          (* a Rust panic: 1 decrement, 2 increment, 3 frame index, 4 assert in fix_gen_cube *)
  | Fuel.                       (* the model's own fuel ran out *)
  Arguments Ok {A}. Arguments Err {A}. Arguments Panic {A}. Arguments Fuel {A}.

  Inductive verdict : Type := VSuccess | VFail (w : W) | VUnknown.

  Record pst : Type := {
    p_frames : list (list ccube);              (* Frame.cubes of the finite frames 1 .. frontier *)
    p_inf : list ccube;                        (* inf_frame.cubes *)
    p_asserted : list (frame_id * ccube);      (* act_f => not c, permanently asserted *)
    p_next_act : nat;                          (* next_act_id *)
    p_q : nat;                                 (* number of queries so far *)
    p_c : nat;                                 (* number of declare/assert/define commands so far *)
    p_log : list event                         (* newest first *)
  }.

  Definition init_state : pst :=
    {| p_frames := []; p_inf := []; p_asserted := []; p_next_act := 0; p_q := 0; p_c := 0; p_log := [] |}.

  (** ** FrameId *)
  Definition fid_key (f : frame_id) : nat :=
    match f with FInit => 0 | FFinite k => k | FInf => S (S MAX_FRAMES) end.
  Definition fid_le (a b : frame_id) : bool :=
    match a, b with
    | FInit, _ => true
    | FFinite x, FFinite y => x <=? y
    | FFinite _, FInf => true
    | FInf, FInf => true
    | _, _ => false
    end.
  Definition is_init (f : frame_id) : bool := match f with FInit => true | _ => false end.
  Definition decrement (f : frame_id) : option frame_id :=
    match f with
    | FFinite (S O) => Some FInit
    | FFinite (S (S k)) => Some (FFinite (S k))
    | _ => None
    end.
  Definition increment (f : frame_id) : option frame_id :=
    match f with
    | FInit => Some (FFinite 1)
    | FFinite k => Some (FFinite (S k))
    | FInf => None
    end.

  Definition frontier (st : pst) : nat := length (p_frames st).
  Definition frontier_id (st : pst) : frame_id :=
    match frontier st with O => FInit | n => FFinite n end.

  (** ** frame_assumptions: the clauses active for a frame *)
  Definition lvl_ge (l : frame_id) (k : nat) : bool :=
    match l with FInit => false | FFinite j => k <=? j | FInf => true end.
  Definition is_inf (l : frame_id) : bool := match l with FInf => true | _ => false end.

  Definition clauses_at (st : pst) (k : nat) : list ccube :=
    map snd (filter (fun p => lvl_ge (fst p) k) (p_asserted st)).
  Definition clauses_inf (st : pst) : list ccube :=
    map snd (filter (fun p => is_inf (fst p)) (p_asserted st)).

  (** [None] = the assertion in frame_assumptions fails *)
  Definition from_of (st : pst) (f : frame_id) : option from_spec :=
    match f with
    | FInit => Some FromInit
    | FFinite k => if k <=? frontier st then Some (FromClauses (clauses_at st k)) else None
    | FInf => Some (FromClauses (clauses_inf st))
    end.

  (** ** the solver *)
  Definition ask (st : pst) (q : query) : answer * pst :=
    let a := solve (p_q st) q in
    (a, {| p_frames := p_frames st; p_inf := p_inf st; p_asserted := p_asserted st;
           p_next_act := p_next_act st; p_q := S (p_q st); p_c := p_c st; p_log := EvQuery q a :: p_log st |}).

  Definition new_acts (st : pst) (n : nat) : pst :=
    {| p_frames := p_frames st; p_inf := p_inf st; p_asserted := p_asserted st;
       p_next_act := n + p_next_act st; p_q := p_q st; p_c := p_c st; p_log := p_log st |}.

  Definition lit_mem (l : lit) (core : list lit) : bool := existsb (lit_eqb l) core.

  (** a block of [n] declare/assert/define commands, each followed by `?` *)
  Definition tick (st : pst) : pst :=
    {| p_frames := p_frames st; p_inf := p_inf st; p_asserted := p_asserted st;
       p_next_act := p_next_act st; p_q := p_q st; p_c := S (p_c st); p_log := p_log st |}.

  Fixpoint cmds (n : nat) (st : pst) : res pst :=
    match n with
    | O => Ok st
    | S n' =>
        match cmd_fail (p_c st) with
        | Some e => Err (ESolver e) (EvCmdFail (p_c st) e :: p_log st)
        | None => cmds n' (tick st)
        end
    end.

  Definition fail {A} (e : err) (st : pst) : res A := Err e (p_log st).

  (** ** get_bad_cube *)
  Definition get_bad_cube (st : pst) : res (option ccube * pst) :=
    match from_of st (frontier_id st) with
    | None => Panic 3
    | Some from =>
        let '(a, st1) := ask st {| q_kind := KBad; q_frame := frontier_id st; q_from := from; q_bad := true;
                                   q_neg := None; q_fixed := []; q_sel := []; q_core := false |} in
        match a with
        | ASat m => Ok (Some (cube_of_state m), st1)
        | AUnsat _ => Ok (None, st1)
        | AUnknown => fail (EUnknown KBad) st1
        | AErr e => fail (ESolver e) st1
        end
    end.

  (** ** fix_gen_cube *)
  Definition init_query (k : qkind) (fixed sel : ccube) (core : bool) : query :=
    {| q_kind := k; q_frame := FInit; q_from := FromInit; q_bad := false; q_neg := None;
       q_fixed := fixed; q_sel := sel; q_core := core |}.

  Fixpoint fix_loop (fuel : nat) (st : pst) (gen lm : ccube) (first : bool) : res (ccube * pst) :=
    match fuel with
    | O => Fuel
    | S fuel' =>
        let '(a, st1) := ask st (init_query KGenFix gen lm true) in
        match a with
        | AErr e => fail (ESolver e) st1
        | AUnknown => fail (EUnknown KGenFix) st1
        | ASat _ =>
            if first then
              (* "Clean up activation literals" (each assert with `?`), then the error *)
              match cmds (length lm) st1 with
              | Ok st2 => fail EOrigCube st2
              | Err e l => Err e l
              | Panic n => Panic n
              | Fuel => Fuel
              end
            else Panic 4
        | AUnsat core =>
            let lm' := filter (fun l => lit_mem l core) lm in
            (* "Permanently disable literals that were removed" *)
            match cmds (length lm - length lm') st1 with
            | Ok st2 =>
                if length lm' =? length lm then
                  (* fixpoint: clean up the remaining activation literals *)
                  match cmds (length lm') st2 with
                  | Ok st3 => Ok (gen ++ lm', st3)
                  | Err e l => Err e l
                  | Panic n => Panic n
                  | Fuel => Fuel
                  end
                else fix_loop fuel' st2 gen lm' false
            | Err e l => Err e l
            | Panic n => Panic n
            | Fuel => Fuel
            end
        end
    end.

  Definition fix_gen_cube (st : pst) (gen rm : ccube) : res (ccube * pst) :=
    let '(a, st1) := ask st (init_query KGenCheck gen [] false) in
    match a with
    | AErr e => fail (ESolver e) st1
    | AUnknown => fail (EUnknown KGenCheck) st1
    | AUnsat _ => Ok (gen, st1)
    | ASat _ =>
        (* one activation literal (declare + assert) per removed literal *)
        match cmds (2 * length rm) (new_acts st1 (length rm)) with
        | Ok st2 => fix_loop (S (length rm)) st2 gen rm true
        | Err e l => Err e l
        | Panic n => Panic n
        | Fuel => Fuel
        end
    end.

  (** ** rel_ind *)
  Inductive rel_result : Type :=
  | RSat (pred : ccube)
  | RUnsat (g : option ccube)
  | RUnknown.

  Definition rel_ind (st : pst) (c : ccube) (f : frame_id) (extended : bool) : res (rel_result * pst) :=
    match decrement f with
    | None => Panic 1
    | Some prev =>
        match from_of st prev with
        | None => Panic 3
        | Some from =>
            (* one activation literal (declare + assert) per literal of the cube *)
            match cmds (2 * length c) (new_acts st (length c)) with
            | Err e l => Err e l
            | Panic n => Panic n
            | Fuel => Fuel
            | Ok st0 =>
                let neg := if extended && negb (is_init prev) then Some c else None in
                let '(a, st1) := ask st0
                                     {| q_kind := KRelInd; q_frame := prev; q_from := from; q_bad := false;
                                        q_neg := neg; q_fixed := []; q_sel := c; q_core := gen_on |} in
                (* "Disable all created activation literals as cleanup" *)
                let finish (r : rel_result) (st2 : pst) : res (rel_result * pst) :=
                  match cmds (length c) st2 with
                  | Ok st3 => Ok (r, st3)
                  | Err e l => Err e l
                  | Panic n => Panic n
                  | Fuel => Fuel
                  end in
                match a with
                | AErr e => fail (ESolver e) st1
                | ASat m => finish (RSat (cube_of_state m)) st1
                | AUnknown => finish RUnknown st1
                | AUnsat core =>
                    if gen_on then
                      match fix_gen_cube st1 (filter (fun l => lit_mem l core) c)
                                             (filter (fun l => negb (lit_mem l core)) c) with
                      | Ok (fx, st2) => finish (RUnsat (Some fx)) st2
                      | Err e l => Err e l
                      | Panic n => Panic n
                      | Fuel => Fuel
                      end
                    else finish (RUnsat None) st1
                end
            end
        end
    end.

  (** ** add_frame / add_blocked_cube *)
  Definition add_frame (st : pst) : res pst :=
    (* create_act_lit: declare-const *)
    match cmds 1 st with
    | Ok st1 =>
        Ok {| p_frames := p_frames st1 ++ [[]]; p_inf := p_inf st1; p_asserted := p_asserted st1;
              p_next_act := S (p_next_act st1); p_q := p_q st1; p_c := p_c st1;
              p_log := EvAddFrame (p_next_act st1) :: p_log st1 |}
    | Err e l => Err e l
    | Panic n => Panic n
    | Fuel => Fuel
    end.

  (** add [c] at the END of the list at (1-based) position [k] ([Vec::push]) *)
  Fixpoint push_at (k : nat) (c : ccube) (fs : list (list ccube)) : option (list (list ccube)) :=
    match k, fs with
    | O, _ => None
    | _, [] => None
    | S O, f :: r => Some ((f ++ [c]) :: r)
    | S k', f :: r => match push_at k' c r with Some r' => Some (f :: r') | None => None end
    end.

  (** the bookkeeping part of add_blocked_cube ([None] = index out of bounds) *)
  Definition record_cube (st : pst) (c : ccube) (f : frame_id) : option pst :=
    match f with
    | FInit => None
    | FFinite k =>
        match push_at k c (p_frames st) with
        | Some fs => Some {| p_frames := fs; p_inf := p_inf st; p_asserted := (f, c) :: p_asserted st;
                             p_next_act := p_next_act st; p_q := p_q st; p_c := p_c st; p_log := EvBlock f c :: p_log st |}
        | None => None
        end
    | FInf => Some {| p_frames := p_frames st; p_inf := p_inf st ++ [c]; p_asserted := (f, c) :: p_asserted st;
                      p_next_act := p_next_act st; p_q := p_q st; p_c := p_c st; p_log := EvBlock f c :: p_log st |}
    end.

  (** add_blocked_cube: index the frame (panic if impossible), assert the clause (`?`), push the cube *)
  Definition add_blocked_cube (st : pst) (c : ccube) (f : frame_id) : res pst :=
    match record_cube st c f with
    | None => Panic 3
    | Some _ =>
        match cmds 1 st with
        | Ok st1 => match record_cube st1 c f with Some st2 => Ok st2 | None => Panic 3 end
        | Err e l => Err e l
        | Panic n => Panic n
        | Fuel => Fuel
        end
    end.

  (** ** block_cube *)
  Definition tcube : Type := (ccube * frame_id)%type.

  (** the obligation with the smallest frame *)
  Fixpoint pop_min (q : list tcube) : option (tcube * list tcube) :=
    match q with
    | [] => None
    | o :: r =>
        match pop_min r with
        | None => Some (o, [])
        | Some (m, r') => if fid_key (snd o) <=? fid_key (snd m) then Some (o, r) else Some (m, o :: r')
        end
    end.

  (** "Push cube as far as possible in the frame trace": returns the first frame at which the cube
      is NOT known to be blocked *)
  Fixpoint push_loop (fuel : nat) (st : pst) (cand : ccube) (f : frame_id) : res (frame_id * pst) :=
    match fuel with
    | O => Fuel
    | S fuel' =>
        if fid_le f (frontier_id st) then
          match rel_ind st cand f true with
          | Ok (RUnsat _, st1) =>
              match increment f with
              | Some f' => push_loop fuel' st1 cand f'
              | None => Panic 2
              end
          | Ok (_, st1) => Ok (f, st1)
          | Err e l => Err e l
          | Panic n => Panic n
          | Fuel => Fuel
          end
        else Ok (f, st)
    end.

  Fixpoint block_loop (fuel : nat) (st : pst) (work : list tcube) : res (bool * pst) :=
    match fuel with
    | O => Fuel
    | S fuel' =>
        match pop_min work with
        | None => Ok (true, st)
        | Some ((c, f), rest) =>
            if is_init f then Ok (false, st)
            else
              match rel_ind st c f true with
              | Ok (RSat p, st1) =>
                  match decrement f with
                  | Some pf => block_loop fuel' st1 ((p, pf) :: (c, f) :: rest)
                  | None => Panic 1
                  end
              | Ok (RUnsat og, st1) =>
                  let cand := match og with Some g => g | None => c end in
                  match increment f with
                  | None => Panic 2
                  | Some tf =>
                      match push_loop (S (S (frontier st1))) st1 cand tf with
                      | Ok (tf', st2) =>
                          match decrement tf' with
                          | None => Panic 1
                          | Some bf =>
                              match add_blocked_cube st2 cand bf with
                              | Ok st3 => block_loop fuel' st3 rest
                              | Err e l => Err e l
                              | Panic n => Panic n
                              | Fuel => Fuel
                              end
                          end
                      | Err e l => Err e l
                      | Panic n => Panic n
                      | Fuel => Fuel
                      end
                  end
              | Ok (RUnknown, st1) => fail (EUnknown KRelInd) st1
              | Err e l => Err e l
              | Panic n => Panic n
              | Fuel => Fuel
              end
        end
    end.

  Definition block_cube (fuel : nat) (st : pst) (c : ccube) (f : frame_id) : res (bool * pst) :=
    block_loop fuel st [(c, f)].

  (** ** propagate_blocked_cubes *)
  Fixpoint set_nth {A} (k : nat) (x : A) (l : list A) : list A :=     (* 1-based *)
    match k, l with
    | O, _ => l
    | _, [] => []
    | S O, _ :: r => x :: r
    | S k', a :: r => a :: set_nth k' x r
    end.

  Definition set_frame (st : pst) (k : nat) (cs : list ccube) : pst :=
    {| p_frames := set_nth k cs (p_frames st); p_inf := p_inf st; p_asserted := p_asserted st;
       p_next_act := p_next_act st; p_q := p_q st; p_c := p_c st; p_log := p_log st |}.

  Definition frame_cubes (st : pst) (k : nat) : list ccube := nth (pred k) (p_frames st) [].

  Definition keep_cube (st : pst) (k : nat) (c : ccube) : pst := set_frame st k (frame_cubes st k ++ [c]).

  (** the cubes taken out of frame [id], one after the other *)
  Fixpoint prop_cubes (st : pst) (id : nat) (cs : list ccube) : res pst :=
    match cs with
    | [] => Ok st
    | c :: r =>
        match rel_ind st c (FFinite (S id)) false with
        | Ok (RUnsat _, st1) =>
            match add_blocked_cube st1 c (FFinite (S id)) with
            | Ok st2 => prop_cubes st2 id r
            | Err e l => Err e l
            | Panic n => Panic n
            | Fuel => Fuel
            end
        | Ok (_, st1) => prop_cubes (keep_cube st1 id c) id r
        | Err e l => Err e l
        | Panic n => Panic n
        | Fuel => Fuel
        end
    end.

  (** "Add all learned invariants to infinite frame" (frames id+1 .. frontier) *)
  Fixpoint to_inf (st : pst) (cs : list ccube) : res pst :=
    match cs with
    | [] => Ok st
    | c :: r =>
        match add_blocked_cube st c FInf with
        | Ok st1 => to_inf st1 r
        | Err e l => Err e l
        | Panic n => Panic n
        | Fuel => Fuel
        end
    end.

  Fixpoint cleanup (n : nat) (st : pst) (iid : nat) : res pst :=    (* n frames starting at iid *)
    match n with
    | O => Ok st
    | S n' =>
        match to_inf (set_frame st iid []) (frame_cubes st iid) with
        | Ok st1 => cleanup n' st1 (S iid)
        | Err e l => Err e l
        | Panic n => Panic n
        | Fuel => Fuel
        end
    end.

  (** frames id, id+1, .. below the frontier ([n] of them); [true] = inductive invariant found *)
  Fixpoint prop_frames (n : nat) (st : pst) (id : nat) : res (bool * pst) :=
    match n with
    | O => Ok (false, st)
    | S n' =>
        match prop_cubes (set_frame st id []) id (frame_cubes st id) with
        | Ok st1 =>
            match frame_cubes st1 id with
            | [] =>
                match cleanup (frontier st1 - id) st1 (S id) with
                | Ok st2 => Ok (true, st2)
                | Err e l => Err e l
                | Panic n => Panic n
                | Fuel => Fuel
                end
            | _ => prop_frames n' st1 (S id)
            end
        | Err e l => Err e l
        | Panic n => Panic n
        | Fuel => Fuel
        end
    end.

  Fixpoint prop_last (st : pst) (front : nat) (cs : list ccube) : res pst :=
    match cs with
    | [] => Ok st
    | c :: r =>
        let '(a, st1) := ask st {| q_kind := KInf; q_frame := FInf; q_from := FromClauses (clauses_inf st);
                                   q_bad := false; q_neg := Some c; q_fixed := c; q_sel := []; q_core := false |} in
        match a with
        | AErr e => fail (ESolver e) st1
        | AUnsat _ =>
            match add_blocked_cube st1 c FInf with
            | Ok st2 => prop_last st2 front r
            | Err e l => Err e l
            | Panic n => Panic n
            | Fuel => Fuel
            end
        | _ => prop_last (keep_cube st1 front c) front r
        end
    end.

  Definition propagate_blocked_cubes (st : pst) : res (bool * pst) :=
    let front := frontier st in
    match prop_frames (pred front) st 1 with
    | Ok (true, st1) => Ok (true, st1)
    | Ok (false, st1) =>
        match prop_last (set_frame st1 front []) front (frame_cubes st1 front) with
        | Ok st2 => Ok (false, st2)
        | Err e l => Err e l
        | Panic n => Panic n
        | Fuel => Fuel
        end
    | Err e l => Err e l
    | Panic n => Panic n
    | Fuel => Fuel
    end.

  (** ** pdr *)
  Fixpoint pdr_loop (fuel block_fuel : nat) (st : pst) : res (verdict * pst) :=
    match fuel with
    | O => Fuel
    | S fuel' =>
        if frontier st <=? MAX_FRAMES then
          match get_bad_cube st with
          | Ok (Some b, st1) =>
              match block_cube block_fuel st1 b (frontier_id st1) with
              | Ok (true, st2) => pdr_loop fuel' block_fuel st2
              | Ok (false, st2) =>
                  (* smt_ctx.restart()?; bmc(..)? *)
                  match bmc_result with
                  | BmcFail w => Ok (VFail w, st2)
                  | BmcOther => Ok (VUnknown, st2)
                  | BmcErr e => Err (ESolver e) (EvBmcErr e :: p_log st2)
                  end
              | Err e l => Err e l
              | Panic n => Panic n
              | Fuel => Fuel
              end
          | Ok (None, st1) =>
              match add_frame st1 with
              | Ok sta =>
                  match propagate_blocked_cubes sta with
                  | Ok (true, st2) => Ok (VSuccess, st2)
                  | Ok (false, st2) => pdr_loop fuel' block_fuel st2
                  | Err e l => Err e l
                  | Panic n => Panic n
                  | Fuel => Fuel
                  end
              | Err e l => Err e l
              | Panic n => Panic n
              | Fuel => Fuel
              end
          | Err e l => Err e l
          | Panic n => Panic n
          | Fuel => Fuel
          end
        else Ok (VUnknown, st)
    end.

  Definition pdr (fuel block_fuel : nat) : res (verdict * pst) :=
    if has_bads then
      (* set-logic, the encoding's init_at/unroll, BasePdr::init: each command with `?` *)
      match cmds n_init init_state with
      | Ok st0 => pdr_loop fuel block_fuel st0
      | Err e l => Err e l
      | Panic n => Panic n
      | Fuel => Fuel
      end
    else Ok (VSuccess, init_state).
End PdrImpl.

(** ** an exhaustive-search oracle over an explicitly listed state space (for Examples: it shows
    that the hypotheses of the theorems about the model are satisfiable; Proofs/PdrImplProofs.v
    proves that it is truthful) *)
Section EnumOracle.
  Variable lit : Type.
  Variable St : Type.
  Variable EM : Type.
  Variable lit_holds : lit -> St -> bool.
  Variable bad0 : St -> bool.
  Variable step0 trans : St -> St -> bool.
  Variable bad : St -> bool.
  Variable states : list St.

  Definition ech (c : list lit) (s : St) : bool := forallb (fun l => lit_holds l s) c.

  Definition enum_ok (q : query lit) (m : St) : bool :=
    match q_from lit q with FromInit _ => true | FromClauses _ cs => negb (existsb (fun c => ech c m) cs) end &&
    match q_neg lit q with None => true | Some c => negb (ech c m) end &&
    match q_from lit q, q_bad lit q with
    | FromInit _, true => bad0 m
    | FromInit _, false => existsb (fun s' => step0 m s' && ech (q_fixed lit q ++ q_sel lit q) s') states
    | FromClauses _ _, true => bad m
    | FromClauses _ _, false => existsb (fun s' => trans m s' && ech (q_fixed lit q ++ q_sel lit q) s') states
    end.

  (** the first model in the list, or "unsat" with the full core *)
  Definition enum_solve (n : nat) (q : query lit) : answer lit St EM :=
    match find (enum_ok q) states with
    | Some m => ASat lit St EM m
    | None => AUnsat lit St EM (q_sel lit q)
    end.

  (** an executable test of the oracle hypothesis ([truthful] of Proofs/PdrImplProofs.v) for ONE
      recorded answer: a model must satisfy the query; "unsat" must be right for the query restricted
      to the literals the core selects.  The driver applies it to the answers of the real solver. *)
  Variable lit_eqb : lit -> lit -> bool.
  Definition restrict_q (q : query lit) (core : list lit) : query lit :=
    {| q_kind := q_kind lit q; q_frame := q_frame lit q; q_from := q_from lit q; q_bad := q_bad lit q;
       q_neg := q_neg lit q; q_fixed := q_fixed lit q;
       q_sel := filter (fun l => existsb (lit_eqb l) core) (q_sel lit q); q_core := q_core lit q |}.
  Definition answer_ok (q : query lit) (a : answer lit St EM) : bool :=
    match a with
    | ASat _ _ _ m => enum_ok q m
    | AUnsat _ _ _ core => negb (existsb (enum_ok (if q_core lit q then restrict_q q core else q)) states)
    | AUnknown _ _ _ => true
    | AErr _ _ _ _ => true
    end.
End EnumOracle.

