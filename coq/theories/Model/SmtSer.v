(** * Model/SmtSer.v — model of patronus/src/smt/serialize.rs (the SMT-LIB writer).

    [ser e mb] is the recursive equivalent of the iterative [serialize_expr]:
    the work list entry [(e, pc, must_be_bit_vec)] becomes the call [ser e mb]; the text
    written at [pc = 0] is the head of the list, the children are written with
    [child_must_be_bit_vec = always_consumes_bit_vec(expr)], and the result is wrapped
    according to [convert_result_to_bv] / [convert_result_to_bool].  The output is an
    S-expression ([Smt.sx]); the correspondence check compares its token sequence with
    the tokens of the text the implementation writes (white space is not modelled).

    [consumes_bv] = [always_consumes_bit_vec], [produces_bv] = [always_produces_bit_vec],
    [ser_type] = [serialize_type], [ser_cmd] = [serialize_cmd], [escape_id] =
    [escape_smt_identifier], [is_simple_id] = [is_simple_smt_identifier].

    Two shapes are outside the model's domain and excluded by [built] (the invariant that
    the public constructors [Context::slice / zero_extend / sign_extend] establish;
    [Context::add_expr] is [pub(crate)]):
    - a no-op slice ([lo = 0], [hi = width - 1]): the writer prints the child and then an
      unmatched closing parenthesis (latent defect, not reachable through the public API);
      [ser] returns the child's term for it;
    - an extension by 0 bits: the debug assertion [by > 0] fires in debug builds.

    Two variants of the code are mirrored, selected by [v : variant]:
    - [Cur]: /repo as it is;
    - [Fix]: /repo with patches/0014 ([is_simple_smt_identifier] refuses the reserved words of
      SMT-LIB, so that they are written [|quoted|]) and patches/0015 ([SetInfo] is written
      [set-info]).

    Executable definitions only. *)

From Patronus Require Export Expr Smt EvalImpl.
Open Scope string_scope.
Open Scope list_scope.
Open Scope N_scope.

Inductive variant : Type := Cur | Fix | Fix2.

(** [SMT_RESERVED_WORDS] of patches/0014 *)
Definition smt_reserved_words : list string :=
  [ "!"; "_"; "as"; "BINARY"; "DECIMAL"; "exists"; "HEXADECIMAL"; "forall"; "let"; "match";
    "NUMERAL"; "par"; "STRING"; "assert"; "check-sat"; "check-sat-assuming"; "declare-const";
    "declare-datatype"; "declare-datatypes"; "declare-fun"; "declare-sort"; "define-fun";
    "define-fun-rec"; "define-funs-rec"; "define-sort"; "echo"; "exit"; "get-assertions";
    "get-assignment"; "get-info"; "get-model"; "get-option"; "get-proof"; "get-unsat-assumptions";
    "get-unsat-core"; "get-value"; "pop"; "push"; "reset"; "reset-assertions"; "set-info";
    "set-logic"; "set-option" ].

Section V.
Variable v : variant.

(** ** identifiers *)

(** the "other allowed characters" of [is_simple_smt_identifier] *)
Definition id_specials : list ascii := list_ascii_of_string "+-/*=%?!.$_~&^<>@".

Definition id_char_ok (c : ascii) : bool :=
  let n := N_of_ascii c in
  (n <? 128) &&
  ( ((65 <=? n) && (n <=? 90)) || ((97 <=? n) && (n <=? 122))     (* is_alpha *)
    || ((48 <=? n) && (n <=? 57))                                  (* is_num *)
    || existsb (Ascii.eqb c) id_specials ).

Definition id_is_num (c : ascii) : bool := let n := N_of_ascii c in (48 <=? n) && (n <=? 57).

(** the loop of [is_simple_smt_identifier]; [first] = [is_first] *)
Fixpoint id_chars_ok (s : string) (first : bool) : bool :=
  match s with
  | EmptyString => true
  | String c r =>
      if negb (id_char_ok c) then false
      else if id_is_num c && first then false
      else id_chars_ok r false
  end.

Definition is_simple_id (s : string) : bool :=
  match s with
  | EmptyString => false
  | _ =>
      match v with
      | Cur => id_chars_ok s true
      | Fix | Fix2 => negb (str_in s smt_reserved_words) && id_chars_ok s true
      end
  end.

Definition escape_id (s : string) : string :=
  if is_simple_id s then s else String.append "|" (String.append s "|").

(** ** literals *)

(** [to_bit_str]: exactly [k] characters, most significant first *)
Fixpoint bits_str_nat (k : nat) (v : N) : string :=
  match k with
  | O => EmptyString
  | S k' => String (if N.testbit v (N.of_nat k') then "1"%char else "0"%char) (bits_str_nat k' v)
  end.
Definition bits_str (w v : N) : string := bits_str_nat (N.to_nat w) v.

(** ["0".repeat(by)] *)
Fixpoint zeros_nat (k : nat) : string :=
  match k with O => EmptyString | S k' => String "0"%char (zeros_nat k') end.
Definition zeros (n : N) : string := zeros_nat (N.to_nat n).

(** ** types *)

Definition bitvec_sx (w : N) : sx := SxList [SxAtom "_"; SxAtom "BitVec"; SxAtom (dec_string w)].

Definition ser_type (t : ty) : sx :=
  match t with
  | TBV w => if w =? 1 then SxAtom "Bool" else bitvec_sx w
  | TArr i d =>
      match i =? 1, d =? 1 with
      | true, true => SxList [SxAtom "Array"; SxAtom "Bool"; SxAtom "Bool"]
      | true, false => SxList [SxAtom "Array"; SxAtom "Bool"; bitvec_sx d]
      | false, true => SxList [SxAtom "Array"; bitvec_sx i; SxAtom "Bool"]
      | false, false => SxList [SxAtom "Array"; bitvec_sx i; bitvec_sx d]
      end
  end.

(** ** the two classification tables *)

Definition consumes_bv (e : expr) : bool :=
  match e with
  | BVSignExt _ _ _ | BVNegate _ _ | BVGreater _ _ | BVGreaterSigned _ _ _
  | BVGreaterEqual _ _ | BVGreaterEqualSigned _ _ _ | BVConcat _ _ _
  | BVShiftLeft _ _ _ | BVArithmeticShiftRight _ _ _ | BVShiftRight _ _ _
  | BVAdd _ _ _ | BVMul _ _ _ | BVSignedDiv _ _ _ | BVUnsignedDiv _ _ _
  | BVSignedMod _ _ _ | BVSignedRem _ _ _ | BVUnsignedRem _ _ _ | BVSub _ _ _ => true
  | _ => false
  end.

Definition produces_bv (e : expr) : bool :=
  match e with
  | BVZeroExt _ _ _ | BVSignExt _ _ _ | BVConcat _ _ _ | BVSlice _ _ _
  | BVNegate _ _ | BVShiftLeft _ _ _ | BVArithmeticShiftRight _ _ _ | BVShiftRight _ _ _
  | BVAdd _ _ _ | BVMul _ _ _ | BVSignedDiv _ _ _ | BVUnsignedDiv _ _ _
  | BVSignedMod _ _ _ | BVSignedRem _ _ _ | BVUnsignedRem _ _ _ | BVSub _ _ _ => true
  | _ => false
  end.

(** [e.get_bv_type(ctx) == Some(1)] = [e.get_type(ctx).is_bool()] *)
Definition is_1bit (e : expr) : bool :=
  match type_of e with TBV w => w =? 1 | TArr _ _ => false end.

(** ** terms *)

Definition wrap (r1 produces mb : bool) (core : sx) : sx :=
  if r1 && mb && negb produces then SxList [SxAtom "ite"; core; SxAtom "#b1"; SxAtom "#b0"]
  else if r1 && negb mb && produces then SxList [SxAtom "="; core; SxAtom "#b1"]
  else core.

Definition indexed (name : string) (indices : list N) : sx :=
  SxList (SxAtom "_" :: SxAtom name :: map (fun i => SxAtom (dec_string i)) indices).

Fixpoint ser (e : expr) (mb : bool) {struct e} : sx :=
  let c := consumes_bv e in
  let app1 (h : string) (a : expr) := SxList [SxAtom h; ser a c] in
  let app2 (h : string) (a b : expr) := SxList [SxAtom h; ser a c; ser b c] in
  let app3 (h : string) (a b d : expr) := SxList [SxAtom h; ser a c; ser b c; ser d c] in
  wrap (is_1bit e) (produces_bv e) mb
    match e with
    | BVSymbol n _ => SxAtom (escape_id n)
    | BVLiteral w v =>
        if 1 <? w then SxAtom (String.append "#b" (bits_str w v))
        else if (w =? 1) && (v =? 1) then SxAtom "true"
        else SxAtom "false"
    | BVZeroExt a by_ _ =>
        if is_1bit a then
          SxList [SxAtom "ite"; ser a c;
                  SxAtom (String.append "#b" (String.append (zeros by_) "1"));
                  SxAtom (String.append "#b" (String.append (zeros by_) "0"))]
        else SxList [indexed "zero_extend" [by_]; ser a c]
    | BVSignExt a by_ _ => SxList [indexed "sign_extend" [by_]; ser a c]
    | BVSlice a hi lo =>
        if (lo =? 0) && (width a - 1 =? hi) then ser a c    (* see the header: plus an unmatched closing parenthesis *)
        else SxList [indexed "extract" [hi; lo]; ser a c]
    | BVNot a _ => if is_1bit a then app1 "not" a else app1 "bvnot" a
    | BVNegate a _ => app1 "bvneg" a
    | BVEqual a b => app2 "=" a b
    | BVImplies a b => app2 "=>" a b
    | BVGreater a b => app2 "bvugt" a b
    | BVGreaterSigned a b _ => app2 "bvsgt" a b
    | BVGreaterEqual a b => app2 "bvuge" a b
    | BVGreaterEqualSigned a b _ => app2 "bvsge" a b
    | BVConcat a b _ => app2 "concat" a b
    | BVAnd a b _ => if is_1bit e then app2 "and" a b else app2 "bvand" a b
    | BVOr a b _ => if is_1bit e then app2 "or" a b else app2 "bvor" a b
    | BVXor a b _ => if is_1bit e then app2 "xor" a b else app2 "bvxor" a b
    | BVShiftLeft a b _ => app2 "bvshl" a b
    | BVArithmeticShiftRight a b _ => app2 "bvashr" a b
    | BVShiftRight a b _ => app2 "bvlshr" a b
    | BVAdd a b _ => app2 "bvadd" a b
    | BVMul a b _ => app2 "bvmul" a b
    | BVSignedDiv a b _ => app2 "bvsdiv" a b
    | BVUnsignedDiv a b _ => app2 "bvudiv" a b
    | BVSignedMod a b _ => app2 "bvsmod" a b
    | BVSignedRem a b _ => app2 "bvsrem" a b
    | BVUnsignedRem a b _ => app2 "bvurem" a b
    | BVSub a b _ => app2 "bvsub" a b
    | BVArrayRead a i _ => app2 "select" a i
    | BVIte a b d => app3 "ite" a b d
    | ArraySymbol n _ _ => SxAtom (escape_id n)
    | ArrayConstant a iw dw =>
        SxList [SxList [SxAtom "as"; SxAtom "const"; ser_type (TArr iw dw)]; ser a c]
    | ArrayEqual a b => app2 "=" a b
    | ArrayStore a i d => app3 "store" a i d
    | ArrayIte a b d => app3 "ite" a b d
    end.

(** the invariant of the public expression constructors *)
Fixpoint built (e : expr) : bool :=
  match e with
  | BVSymbol _ _ | BVLiteral _ _ | ArraySymbol _ _ _ => true
  | BVZeroExt a by_ _ | BVSignExt a by_ _ => (0 <? by_) && built a
  | BVSlice a hi lo => negb ((lo =? 0) && (width a - 1 =? hi)) && built a
  | BVNot a _ | BVNegate a _ | ArrayConstant a _ _ => built a
  | BVEqual a b | BVImplies a b | BVGreater a b | BVGreaterSigned a b _
  | BVGreaterEqual a b | BVGreaterEqualSigned a b _ | BVConcat a b _
  | BVAnd a b _ | BVOr a b _ | BVXor a b _ | BVShiftLeft a b _
  | BVArithmeticShiftRight a b _ | BVShiftRight a b _ | BVAdd a b _ | BVMul a b _
  | BVSignedDiv a b _ | BVUnsignedDiv a b _ | BVSignedMod a b _ | BVSignedRem a b _
  | BVUnsignedRem a b _ | BVSub a b _ | BVArrayRead a b _ | ArrayEqual a b => built a && built b
  | BVIte a b c | ArrayStore a b c | ArrayIte a b c => built a && built b && built c
  end.

(** ** commands *)

Inductive logic : Type := LoAll | LoQfAufbv | LoQfAbv | LoQfBv.

Definition logic_str (l : logic) : string :=
  match l with
  | LoAll => "ALL" | LoQfAufbv => "QF_AUFBV" | LoQfAbv => "QF_ABV" | LoQfBv => "QF_BV"
  end.

Inductive smt_cmd : Type :=
| CExit
| CCheckSat
| CSetLogic (l : logic)
| CSetOption (k v : string)
| CSetInfo (k v : string)
| CAssert (e : expr)
| CDeclareConst (sym : expr)
| CDefineConst (sym value : expr)
| CCheckSatAssuming (es : list expr)
| CPush (n : N)
| CPop (n : N)
| CGetValue (e : expr)
| CGetUnsatAssumptions.

(** [ctx.get_symbol_name(e)] *)
Definition symbol_name_of (e : expr) : option string :=
  match e with
  | BVSymbol n _ | ArraySymbol n _ _ => Some n
  | _ => None
  end.

(** [Panic] where [get_symbol_name(..).unwrap()] fails *)
Definition ser_cmd (c : smt_cmd) : res sx :=
  match c with
  | CExit => Ok (SxList [SxAtom "exit"])
  | CCheckSat => Ok (SxList [SxAtom "check-sat"])
  | CSetLogic l => Ok (SxList [SxAtom "set-logic"; SxAtom (logic_str l)])
  | CSetOption k x => Ok (SxList [SxAtom "set-option"; SxAtom (String.append ":" k); SxAtom (escape_id x)])
  | CSetInfo k x =>
      Ok (SxList [SxAtom (match v with Cur => "set-option" | Fix | Fix2 => "set-info" end);
                  SxAtom (String.append ":" k); SxAtom (escape_id x)])
  | CAssert e => Ok (SxList [SxAtom "assert"; ser e false])
  | CDeclareConst s =>
      match symbol_name_of s with
      | Some n => Ok (SxList [SxAtom "declare-const"; SxAtom (escape_id n); ser_type (type_of s)])
      | None => Panic
      end
  | CDefineConst s v =>
      match symbol_name_of s with
      | Some n =>
          Ok (SxList [SxAtom "define-fun"; SxAtom (escape_id n); SxList []; ser_type (type_of s); ser v false])
      | None => Panic
      end
  | CCheckSatAssuming es =>
      Ok (SxList [SxAtom "check-sat-assuming"; SxList (map (fun e => ser e false) es)])
  | CPush n => Ok (SxList [SxAtom "push"; SxAtom (dec_string n)])
  | CPop n => Ok (SxList [SxAtom "pop"; SxAtom (dec_string n)])
  | CGetValue e => Ok (SxList [SxAtom "get-value"; SxList [ser e false]])
  | CGetUnsatAssumptions => Ok (SxList [SxAtom "get-unsat-assumptions"])
  end.

(** the SMT-LIB command name each [SmtCommand] variant stands for *)
Definition cmd_std_head (c : smt_cmd) : string :=
  match c with
  | CExit => "exit" | CCheckSat => "check-sat" | CSetLogic _ => "set-logic"
  | CSetOption _ _ => "set-option" | CSetInfo _ _ => "set-info" | CAssert _ => "assert"
  | CDeclareConst _ => "declare-const" | CDefineConst _ _ => "define-fun"
  | CCheckSatAssuming _ => "check-sat-assuming" | CPush _ => "push" | CPop _ => "pop"
  | CGetValue _ => "get-value" | CGetUnsatAssumptions => "get-unsat-assumptions"
  end.

Definition sx_head (t : sx) : option string :=
  match t with SxList (SxAtom h :: _) => Some h | _ => None end.

(** ** the bridge between the IR's world and the SMT world (used by the theorems and by
    the property oracle) *)

Definition elem_sort (w : N) : ssort := if w =? 1 then SoBool else SoBV w.

(** the sort at which a symbol of type [t] is declared = the sort [ser_type t] denotes *)
Definition sort_of_ty (t : ty) : ssort :=
  match t with
  | TBV w => elem_sort w
  | TArr i d => SoArr (elem_sort i) (elem_sort d)
  end.

(** the sort of [ser e mb] *)
Definition sort_for (t : ty) (mb : bool) : ssort :=
  match t with
  | TBV w => if mb then SoBV w else elem_sort w
  | TArr _ _ => sort_of_ty t
  end.

(** symbols of an expression with their types *)
Fixpoint symbols (e : expr) : list (string * ty) :=
  match e with
  | BVSymbol n w => [(n, TBV w)]
  | ArraySymbol n i d => [(n, TArr i d)]
  | BVLiteral _ _ => []
  | BVZeroExt a _ _ | BVSignExt a _ _ | BVSlice a _ _ | BVNot a _ | BVNegate a _
  | ArrayConstant a _ _ => symbols a
  | BVEqual a b | BVImplies a b | BVGreater a b | BVGreaterSigned a b _
  | BVGreaterEqual a b | BVGreaterEqualSigned a b _ | BVConcat a b _
  | BVAnd a b _ | BVOr a b _ | BVXor a b _ | BVShiftLeft a b _
  | BVArithmeticShiftRight a b _ | BVShiftRight a b _ | BVAdd a b _ | BVMul a b _
  | BVSignedDiv a b _ | BVUnsignedDiv a b _ | BVSignedMod a b _ | BVSignedRem a b _
  | BVUnsignedRem a b _ | BVSub a b _ | BVArrayRead a b _ | ArrayEqual a b => symbols a ++ symbols b
  | BVIte a b c | ArrayStore a b c | ArrayIte a b c => symbols a ++ symbols b ++ symbols c
  end.

(** names the writer can represent: the escaped form is one symbol token that denotes the
    name, no theory owns the name and it is not reserved for solver use (leading [.] or [@]) *)
Definition name_ok (n : string) : bool :=
  match symbol_name (escape_id n) with
  | Some n' => String.eqb n' n && negb (is_theory_name n || is_solver_reserved n)
  | None => false
  end.

(** the context declares symbol [n] at the sort of its type *)
Definition declared (G : sctx) (nt : string * ty) : bool :=
  name_ok (fst nt) &&
  match G (fst nt) with Some s => ssort_eqb s (sort_of_ty (snd nt)) | None => false end.

Definition symbols_declared (G : sctx) (e : expr) : bool := forallb (declared G) (symbols e).

(** the SMT model induced by an IR environment under a context *)
Definition smodel_of (G : sctx) (rho : env) : smodel :=
  fun n =>
    match G n with
    | Some SoBool => Some (SVBool (rho_bv rho n 1 =? 1))
    | Some (SoBV w) => Some (SVBits w (rho_bv rho n w))
    | Some (SoArr i d) => Some (SVArr i d (rho_arr rho n (sort_bits i) (sort_bits d)))
    | None => None
    end.

(** the SMT value that [ser e mb] must have when [e] has the IR value [v] / [f] *)
Definition sval_for (t : ty) (mb : bool) (v : N) (f : N -> N) : sval :=
  match t with
  | TBV w => if mb then SVBits w v else if w =? 1 then SVBool (v =? 1) else SVBits w v
  | TArr i d => SVArr (elem_sort i) (elem_sort d) f
  end.

End V.
