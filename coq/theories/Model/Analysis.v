(** * Model/Analysis.v — use counts and serialization order
    (patronus/src/expr/analysis.rs [count_expr_uses], patronus/src/system/analysis.rs
    [determine_simples_uses], [analyze_for_serialization]).

    The implementation works on the hash-consed DAG: "the same node" is
    reference equality.  The model works on trees, with structural equality
    [expr_eqb] standing in for node identity (justified by C12).

    - [count_uses roots e]: the worklist of [count_expr_uses] pops every root
      (once per occurrence in the root list: the list is not de-duplicated) and
      every distinct non-root descendant exactly once; each popped node adds one
      to the count of each of its children (per occurrence); roots start at 1.
      The result does not depend on the order in which nodes are popped, so the
      model computes it as a sum over the popped multiset.
    - [analyze]: the explicit-stack traversal of [analyze_for_serialization] is a
      post-order depth-first search that descends into the children of a node in
      REVERSE order (they are pushed first-to-last and popped last-to-first),
      skips nodes already visited, and finalises a node with the kind it had when
      it was first reached (as a root, or as a child = kind None).  It is written
      here as a structurally recursive function with the visited set and the
      order as accumulators.

    Executable definitions only. *)

From Coq Require Import List Bool.
From Patronus Require Export System.
Import ListNotations.
Open Scope N_scope.

Definition mem (e : expr) (l : list expr) : bool := existsb (expr_eqb e) l.

(** keeps the first occurrence of every element ([seen.insert]) *)
Fixpoint dedup_from (seen : list expr) (l : list expr) : list expr :=
  match l with
  | [] => []
  | x :: r => if mem x seen then dedup_from seen r else x :: dedup_from (x :: seen) r
  end.
Definition dedup (l : list expr) : list expr := dedup_from [] l.

(** all sub-expressions, the expression itself first *)
Fixpoint subterms (e : expr) : list expr :=
  e :: match e with
       | BVSymbol _ _ | BVLiteral _ _ | ArraySymbol _ _ _ => []
       | BVZeroExt a _ _ | BVSignExt a _ _ | BVSlice a _ _ | BVNot a _ | BVNegate a _
       | ArrayConstant a _ _ => subterms a
       | BVEqual a b | BVImplies a b | BVGreater a b | BVGreaterSigned a b _
       | BVGreaterEqual a b | BVGreaterEqualSigned a b _ | BVConcat a b _
       | BVAnd a b _ | BVOr a b _ | BVXor a b _ | BVShiftLeft a b _
       | BVArithmeticShiftRight a b _ | BVShiftRight a b _ | BVAdd a b _ | BVMul a b _
       | BVSignedDiv a b _ | BVUnsignedDiv a b _ | BVSignedMod a b _ | BVSignedRem a b _
       | BVUnsignedRem a b _ | BVSub a b _ | BVArrayRead a b _ | ArrayEqual a b => subterms a ++ subterms b
       | BVIte a b c | ArrayStore a b c | ArrayIte a b c => subterms a ++ subterms b ++ subterms c
       end.

Definition proper_subterms (e : expr) : list expr := flat_map subterms (children e).

(** ** [count_expr_uses] *)
Definition count_in (e : expr) (l : list expr) : N :=
  fold_right (fun x acc => if expr_eqb e x then acc + 1 else acc) 0 l.

(** the multiset of nodes popped from the worklist *)
Definition popped (roots : list expr) : list expr :=
  roots ++ filter (fun d => negb (mem d roots)) (dedup (flat_map proper_subterms roots)).

Definition count_uses (roots : list expr) : expr -> N :=
  let ps := popped roots in
  fun e => (if mem e roots then 1 else 0) +
           fold_right (fun p acc => count_in e (children p) + acc) 0 ps.

(** ** [determine_simples_uses] *)
Record uses : Type := mkUses { u_next : N; u_init : N; u_other : N }.
Definition u_total (u : uses) : N := u_next u + u_init u + u_other u.

Definition opt_list {A} (o : option A) : list A := match o with Some x => [x] | None => [] end.

Definition init_exprs (sy : sys) : list expr := flat_map (fun st => opt_list (st_init st)) (s_states sy).
Definition next_exprs (sy : sys) : list expr := flat_map (fun st => opt_list (st_next st)) (s_states sy).
(** [get_assert_assume_exprs] / [get_assert_assume_output_exprs] *)
Definition other_exprs (include_outputs : bool) (sy : sys) : list expr :=
  (if include_outputs then map snd (s_outputs sy) else []) ++ s_bads sy ++ s_constraints sy.

Definition uses_of (include_outputs : bool) (sy : sys) : expr -> uses :=
  let ci := count_uses (init_exprs sy) in
  let cn := count_uses (next_exprs sy) in
  let co := count_uses (other_exprs include_outputs sy) in
  fun e => {| u_next := cn e; u_init := ci e; u_other := co e |}.

(** ** [analyze_for_serialization]: the signal order *)

(** one visit: [out] = the node is reached as an output/constraint/bad-state root *)
Fixpoint visit (us : expr -> uses) (out : bool) (e : expr) (st : list expr * list expr)
  : list expr * list expr :=
  if mem e (fst st) then st else
  let st1 :=
    match e with
    | BVSymbol _ _ | BVLiteral _ _ | ArraySymbol _ _ _ => st
    | BVZeroExt a _ _ | BVSignExt a _ _ | BVSlice a _ _ | BVNot a _ | BVNegate a _
    | ArrayConstant a _ _ => visit us false a st
    | BVEqual a b | BVImplies a b | BVGreater a b | BVGreaterSigned a b _
    | BVGreaterEqual a b | BVGreaterEqualSigned a b _ | BVConcat a b _
    | BVAnd a b _ | BVOr a b _ | BVXor a b _ | BVShiftLeft a b _
    | BVArithmeticShiftRight a b _ | BVShiftRight a b _ | BVAdd a b _ | BVMul a b _
    | BVSignedDiv a b _ | BVUnsignedDiv a b _ | BVSignedMod a b _ | BVSignedRem a b _
    | BVUnsignedRem a b _ | BVSub a b _ | BVArrayRead a b _ | ArrayEqual a b =>
        visit us false a (visit us false b st)
    | BVIte a b c | ArrayStore a b c | ArrayIte a b c =>
        visit us false a (visit us false b (visit us false c st))
    end in
  let has_children := match children e with [] => false | _ => true end in
  let incl := (has_children || out) && (out || (1 <? u_total (us e))) in
  (e :: fst st1, if incl then snd st1 ++ [e] else snd st1).

(** the root list in the order in which the roots are visited, with their "output-like" flag *)
Definition analysis_roots (include_outputs : bool) (sy : sys) : list (bool * expr) :=
  (if include_outputs then map (fun o => (true, snd o)) (s_outputs sy) else []) ++
  map (fun e => (true, e)) (s_constraints sy) ++
  map (fun e => (true, e)) (s_bads sy) ++
  map (fun e => (false, e)) (init_exprs sy) ++
  map (fun e => (false, e)) (next_exprs sy).

(** [signal_order] (expressions only; possibly with repetitions: an input that is
    also a bad state or constraint is listed twice) *)
Definition analyze (include_outputs : bool) (sy : sys) : list expr :=
  let us := uses_of include_outputs sy in
  s_inputs sy ++
  snd (fold_left (fun st r => visit us (fst r) (snd r) st) (analysis_roots include_outputs sy) ([], [])).
