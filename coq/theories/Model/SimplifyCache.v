(** * Model/SimplifyCache.v — the MEMOISING fixed-point driver: [Simplifier::simplify]
    (patronus/src/expr/simplify.rs:33-42) = [do_transform_expr] in FixedPoint mode
    (patronus/src/expr/transform.rs:33-99) over a persistent cache, followed by
    [get_fixed_point] (patronus/src/expr/meta.rs:28-48, pointer chasing with path update).

    [Model/Simplify.simp] is the cache-free reading of the same driver; this file models the
    code as it is written: an explicit work stack, the cache as a finite map
    [expr -> option expr] (absent = [None], the default value of both cache containers), the
    children-first scheduling with re-queuing of the parent, the overwrite of an entry when a
    node is processed again, the test "[transformed[new].is_none()]" before re-queuing a result
    and the pointer updates of [get_fixed_point].

    The cache CONTAINER (SparseExprMap / DenseExprMetaData) is abstracted to the finite map
    interface both implement ([Index]/[IndexMut] with default [None]); the difference between the two
    containers is exercised by the correspondence check, not by this model.

    All loops take fuel; [RFuel]/[GFuel]/[VFuel] are the out-of-fuel answers and are excluded by the
    statements of the theorems.  Executable definitions only. *)

From Patronus Require Export Simplify.
Open Scope N_scope.

(** ** the cache: newest binding first; a key that is absent maps to [None] *)
Definition cache := list (expr * expr).

Fixpoint lookup (c : cache) (k : expr) : option expr :=
  match c with
  | [] => None
  | (k', v) :: rest => if expr_eqb k' k then Some v else lookup rest k
  end.

(** [m[k] = Some(v)] *)
Definition update (c : cache) (k v : expr) : cache := (k, v) :: c.

(** ** [get_fixed_point] *)
Inductive gfp : Type :=
| GSome (c : cache) (v : expr)   (* [Some(v)], cache after the pointer updates *)
| GNone (c : cache)              (* [None]: the chain reaches a key that is not mapped *)
| GFuel.

(** first loop: [while value != m[value]? { value = m[value]? }];
    outer [None] = out of fuel, [Some None] = the [?] returned [None] *)
Fixpoint chase (fuel : nat) (c : cache) (v : expr) : option (option expr) :=
  match fuel with
  | O => None
  | S f =>
      match lookup c v with
      | None => Some None
      | Some v' => if expr_eqb v v' then Some (Some v) else chase f c v'
      end
  end.

(** second loop: [while value != final { next = m[value]?; m[value] = Some(final); value = next }] *)
Fixpoint compress (fuel : nat) (c : cache) (v final : expr) : gfp :=
  match fuel with
  | O => GFuel
  | S f =>
      if expr_eqb v final then GSome c v
      else match lookup c v with
           | None => GNone c
           | Some next => compress f (update c v final) next final
           end
  end.

Definition get_fixed_point (fuel : nat) (c : cache) (key : expr) : gfp :=
  match lookup c key with
  | None => GNone c
  | Some v0 =>
      if expr_eqb key v0 then GSome c key          (* fast path *)
      else match chase fuel c key with
           | None => GFuel
           | Some None => GNone c
           | Some (Some final) => compress fuel c key final
           end
  end.

(** ** the [for_each_child] closure of [do_transform_expr]: the fixed points of the children that
    have one ([children]), whether one of them differs from the child ([children_changed]), and the
    children that have none yet, in the order met (each is pushed on the stack) *)
Inductive vres : Type :=
| VOk (c : cache) (cs : list expr) (changed : bool) (missing : list expr)
| VFuel.

Fixpoint visit (fuel : nat) (c : cache) (chs : list expr) : vres :=
  match chs with
  | [] => VOk c [] false []
  | ch :: rest =>
      match get_fixed_point fuel c ch with
      | GFuel => VFuel
      | GSome c1 v =>
          match visit fuel c1 rest with
          | VOk c2 cs chg miss => VOk c2 (v :: cs) (negb (expr_eqb v ch) || chg) miss
          | VFuel => VFuel
          end
      | GNone c1 =>
          match visit fuel c1 rest with
          | VOk c2 cs chg miss => VOk c2 cs chg (ch :: miss)
          | VFuel => VFuel
          end
      end
  end.

(** ** the [while let Some(expr_ref) = todo.pop()] loop; the head of [todo] is the top of the stack *)
Inductive rres : Type :=
| ROk (c : cache)
| RPanic
| RFuel.

Definition is_none (o : option expr) : bool := match o with None => true | Some _ => false end.

Fixpoint run (fuel : nat) (c : cache) (todo : list expr) : rres :=
  match fuel with
  | O => RFuel
  | S f =>
      match todo with
      | [] => ROk c
      | e :: rest =>
          match visit f c (children e) with
          | VFuel => RFuel
          | VOk c1 cs chg (m :: ms) =>
              (* not all children are transformed: push the node again, then every missing child *)
              run f c1 (rev (m :: ms) ++ e :: rest)
          | VOk c1 cs chg [] =>
              match simplify e cs with
              | Panic => RPanic
              | Ok o =>
                  let new := match o with
                             | Some r => r
                             | None => if chg then rebuild e cs else e
                             end in
                  let c2 := update c1 e new in
                  if negb (expr_eqb e new) && is_none (lookup c2 new)
                  then run f c2 (new :: rest)
                  else run f c2 rest
              end
          end
      end
  end.

(** ** [Simplifier::simplify]: run the loop on [vec![e]], then [get_fixed_point(cache, e).unwrap()] *)
Definition simplify_cached (fuel : nat) (c : cache) (e : expr) : cache * sres :=
  match run fuel c [e] with
  | ROk c1 =>
      match get_fixed_point fuel c1 e with
      | GSome c2 r => (c2, SOk r)
      | GNone c2 => (c2, SPanic)       (* [unwrap] of [None] *)
      | GFuel => (c1, SFuel)
      end
  | RPanic => (c, SPanic)              (* the cache after a panic is not specified *)
  | RFuel => (c, SFuel)
  end.

(** one simplifier instance fed a sequence of expressions *)
Fixpoint simplify_batch (fuel : nat) (c : cache) (es : list expr) : cache * list sres :=
  match es with
  | [] => (c, [])
  | e :: rest =>
      let '(c1, r) := simplify_cached fuel c e in
      let '(c2, rs) := simplify_batch fuel c1 rest in
      (c2, r :: rs)
  end.

Definition cache_fuel (e : expr) : nat := N.to_nat (100000 + 2000 * N.of_nat (size e)).
