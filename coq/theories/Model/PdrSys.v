(** * Model/PdrSys.v — the semantics that patronus::mc::pdr works with, for a transition system of
    Spec/System.v with finitely many bit-vector signals (class [fin_class] of Spec/ReachFix.v):
    states = valuations of the STATE symbols (one number, mixed radix like Spec/ReachFix.v),
    inputs existentially quantified.  These are the instances of the parameters [St], [lit],
    [lit_holds], [cube_of_state], [bad0], [step0], [trans], [bad] of Model/PdrImpl.v /
    Proofs/PdrImplProofs.v.  Executable definitions only. *)
From Coq Require Import List NArith Bool.
From Patronus Require Export ReachFix.
Import ListNotations.
Open Scope N_scope.

Section PdrSys.
  Variable sy : sys.

  Definition isigs : list sig := input_sigs sy.
  Definition ssigs : list sig := state_sigs sy.
  Definition ibits : N := bits_of isigs.
  Definition sbits : N := bits_of ssigs.

  (** the valuation with state part [s] and input part [i] *)
  Definition mk_env (s i : N) : env :=
    {| rho_bv := fun n w => if sig_mem (n, w) isigs then rho_bv (env_of isigs i) n w
                            else rho_bv (env_of ssigs s) n w;
       rho_arr := fun _ _ _ _ => 0 |}.

  Definition sidx (rho : env) : N := idx_of ssigs rho.
  Definition iidx (rho : env) : N := idx_of isigs rho.
  Definition all_inputs : list N := nrange (2 ^ ibits).

  (** [s] with input [i] is an initial valuation satisfying the constraints *)
  Definition init_at (s i : N) : bool := is_initial_b sy (mk_env s i) && constraints_hold sy (mk_env s i).

  (** from valuation [rho] the step with new inputs [i'] and new free-state values as in [s'] leads
      to the state [s'] and satisfies the constraints there *)
  Definition steps_to (rho : env) (s' : N) : bool :=
    existsb (fun i' => let e := next_env sy rho (mk_env s' i') in (sidx e =? s') && constraints_hold sy e) all_inputs.

  Definition sys_bad0 (s : N) : bool := existsb (fun i => init_at s i && some_bad sy (mk_env s i)) all_inputs.
  Definition sys_step0 (s s' : N) : bool := existsb (fun i => init_at s i && steps_to (mk_env s i) s') all_inputs.
  Definition sys_trans (s s' : N) : bool :=
    existsb (fun i => constraints_hold sy (mk_env s i) && steps_to (mk_env s i) s') all_inputs.
  Definition sys_bad (s : N) : bool :=
    existsb (fun i => constraints_hold sy (mk_env s i) && some_bad sy (mk_env s i)) all_inputs.

  (** states as bounded numbers, so that a bit-level cube determines the state *)
  Definition sstate : Type := { n : N | (n <? 2 ^ sbits) = true }.

  Lemma mod_bound (n : N) : (n mod 2 ^ sbits <? 2 ^ sbits) = true.
  Proof. apply N.ltb_lt. apply N.mod_lt. apply N.pow_nonzero. discriminate. Qed.

  Definition st_of (n : N) : sstate := exist _ (n mod 2 ^ sbits) (mod_bound n).
  Definition st_val (s : sstate) : N := proj1_sig s.

  Definition slit : Type := (N * bool)%type.          (* bit position in the state number, polarity *)
  Definition slit_eqb (a b : slit) : bool := (fst a =? fst b) && Bool.eqb (snd a) (snd b).
  Definition slit_holds (l : slit) (s : sstate) : bool := Bool.eqb (N.testbit (st_val s) (fst l)) (snd l).
  Definition scube (s : sstate) : list slit := map (fun b => (b, N.testbit (st_val s) b)) (nrange sbits).

  Definition st_bad0 (s : sstate) : bool := sys_bad0 (st_val s).
  Definition st_step0 (s s' : sstate) : bool := sys_step0 (st_val s) (st_val s').
  Definition st_trans (s s' : sstate) : bool := sys_trans (st_val s) (st_val s').
  Definition st_bad (s : sstate) : bool := sys_bad (st_val s).
End PdrSys.
