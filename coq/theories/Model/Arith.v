(** * Model/Arith.v — the arithmetic e-graph language of patronus-egraphs
    (arithmetic.rs, rewrites.rs) as trees.

    - [arith]        = [enum Arith] (define_language!, arithmetic.rs:12-33) plus the pattern
                       variable of [egg::ENodeOrVar] ([AVar]); a [RecExpr<Arith>] is an [arith]
                       without [AVar].  The implementation's flat [RecExpr] (children = indices
                       into a vector) is read as a tree: [from_arith] walks it from the root
                       with an explicit stack and *no* memoisation (arithmetic.rs:303-370), so
                       shared nodes are simply evaluated once per use.
    - [eval_width_max_plus_1], [eval_width_left_shift]  (arithmetic.rs:39-51) on [u32]
      ([WidthInt]), with the [>= 32] saturation; an overflowing [u32] addition is [Panic]
      (the harness builds with overflow checks, harness/Cargo.toml).
    - [get_width], [from_arith] (with [get_child_widths], [patronus_bin_op], [extend],
      [get_u64]); [Panic] where the Rust has [todo!], [unreachable!], [unwrap] on [None],
      a failing [debug_assert] (debug assertions are on in the observed build) or an
      arithmetic overflow.
    - [to_arith] (with [convert_bin_op], [remove_ext]) on [Expr.expr] trees.
    - the rule table of [create_rewrites] (rewrites.rs:34-77): name, both patterns, the
      side-condition closure over the listed condition variables; [eval_condition].
    - [subst_of]/[inst]: how a pattern is instantiated for a width/sign assignment
      (tools/egraphs-cond-synth/src/samples.rs: [gen_substitution], [instantiate_pattern]).

    Executable definitions only (no proofs). *)

From Coq Require Export Ascii.
From Patronus Require Export EvalImpl.
Open Scope N_scope.

Definition bind {A B : Type} (r : res A) (f : A -> res B) : res B :=
  match r with Ok a => f a | Panic => Panic end.
Notation "x <- e ;; k" := (bind e (fun x => k)) (at level 61, e at next level, right associativity).

(** ** the language *)

Inductive binop : Type := OAdd | OSub | OMul | OShl | OLshr | OAshr.

(** children of a binary operation, in the order of arithmetic.rs:15:
    [w, w_a, s_a, a, w_b, s_b, b] *)
Inductive arith : Type :=
| ABin (op : binop) (wo wa sa a wb sb b : arith)
| AMaxP1 (a b : arith)            (* "max+1" *)
| AWlsh (a b : arith)             (* "wlsh"  *)
| AWidth (w : N)                  (* W<w>, a u32 *)
| ASign (s : bool)                (* sign (true) / unsign (false) *)
| AConst (v : N)                  (* a u64 value constant *)
| ASymbol (name : string)
| AVar (name : string).           (* pattern variable "?x" (patterns only) *)

Definition binop_eqb (x y : binop) : bool :=
  match x, y with
  | OAdd, OAdd | OSub, OSub | OMul, OMul | OShl, OShl | OLshr, OLshr | OAshr, OAshr => true
  | _, _ => false
  end.

Fixpoint arith_eqb (x y : arith) : bool :=
  match x, y with
  | ABin o a0 a1 a2 a3 a4 a5 a6, ABin o' b0 b1 b2 b3 b4 b5 b6 =>
      binop_eqb o o' && arith_eqb a0 b0 && arith_eqb a1 b1 && arith_eqb a2 b2 && arith_eqb a3 b3
      && arith_eqb a4 b4 && arith_eqb a5 b5 && arith_eqb a6 b6
  | AMaxP1 a b, AMaxP1 a' b' => arith_eqb a a' && arith_eqb b b'
  | AWlsh a b, AWlsh a' b' => arith_eqb a a' && arith_eqb b b'
  | AWidth w, AWidth w' => w =? w'
  | ASign s, ASign s' => Bool.eqb s s'
  | AConst v, AConst v' => v =? v'
  | ASymbol n, ASymbol n' => String.eqb n n'
  | AVar n, AVar n' => String.eqb n n'
  | _, _ => false
  end.

(** ** width arithmetic on u32 *)

Definition u32_max : N := 4294967295.

(** a [u32] result; exceeding the type is an overflow panic (overflow checks on) *)
Definition checked32 (x : N) : res N := if x <=? u32_max then Ok x else Panic.

(** arithmetic.rs:39 *)
Definition eval_width_max_plus_1 (wa wb : N) : res N := checked32 (N.max wa wb + 1).

(** arithmetic.rs:43: [if wb >= 32 { u32::MAX } else { wa + ((1 << wb) - 1) }] *)
Definition eval_width_left_shift (wa wb : N) : res N :=
  if 32 <=? wb then Ok u32_max else checked32 (wa + (2 ^ wb - 1)).

(** arithmetic.rs:397 *)
Fixpoint get_width (e : arith) : res N :=
  match e with
  | AWidth w => Ok w
  | AMaxP1 a b => x <- get_width a ;; y <- get_width b ;; eval_width_max_plus_1 x y
  | AWlsh a b => x <- get_width a ;; y <- get_width b ;; eval_width_left_shift x y
  | _ => Panic                                         (* todo!("calculate width for ..") *)
  end.

(** ** from_arith *)

(** arithmetic.rs:454; only ever applied to literals of at most 32 bits (the results of
    width/sign positions), so [to_u64().unwrap()] cannot fail *)
Definition get_u64 (e : expr) : res N :=
  match e with BVLiteral _ v => Ok v | _ => Panic end.

(** [get_u64(..) as WidthInt] *)
Definition as_u32 (v : N) : N := v mod 2 ^ 32.

Definition mk_op (op : binop) (a b : expr) (w : N) : expr :=
  match op with
  | OAdd => BVAdd a b w
  | OSub => BVSub a b w
  | OMul => BVMul a b w
  | OShl => BVShiftLeft a b w
  | OLshr => BVShiftRight a b w
  | OAshr => BVArithmeticShiftRight a b w
  end.

(** arithmetic.rs:464 with [Context::zero_extend]/[sign_extend] (context.rs:392-407) *)
Definition extend (e : expr) (w_out w_in : N) (signed : bool) : res expr :=
  match type_of e with
  | TBV w =>
      if negb (w =? w_in) then Panic                      (* debug_assert_eq!(type, w_in) *)
      else if w_out <? w_in then Panic                    (* unreachable!("cannot extend") *)
      else if w_out =? w_in then Ok e
      else if signed then Ok (BVSignExt e (w_out - w_in) (w + (w_out - w_in)))
      else Ok (BVZeroExt e (w_out - w_in) (w + (w_out - w_in)))
  | TArr _ _ => Panic                                     (* get_bv_type(..).unwrap() *)
  end.

(** arithmetic.rs:426; the binary builders of context.rs store the width of [b] and
    debug-assert that both operands have the same type *)
Definition patronus_bin_op (op : binop) (wo wa : N) (sa : bool) (a : expr)
                           (wb : N) (sb : bool) (b : expr) : res expr :=
  let calc_width := N.max (N.max wa wb) wo in
  a' <- extend a calc_width wa sa ;;
  b' <- extend b calc_width wb sb ;;
  match type_of a', type_of b' with
  | TBV ta, TBV tb =>
      if negb (ta =? tb) then Panic
      else
        let r := mk_op op a' b' tb in
        if calc_width =? wo then Ok r
        else if wo =? 0 then Panic                        (* wo - 1 underflows *)
        else Ok (BVSlice r (wo - 1) 0)
  | _, _ => Panic
  end.

(** arithmetic.rs:303.  [ew] is the [expected_width] that the parent hands down
    (0 = "don't care").  Children are evaluated last-to-first; since a panic anywhere is a
    panic of the whole call the order is not observable. *)
Fixpoint from_arith (ew : N) (e : arith) {struct e} : res expr :=
  match e with
  | ASymbol name => if ew =? 0 then Panic else Ok (BVSymbol name ew)
  | AConst v =>
      if ew =? 0 then Panic
      else Ok (BVLiteral ew (if ew <? 64 then v mod 2 ^ ew else v))
  | AWidth w => Ok (BVLiteral 32 w)
  | ASign s => Ok (BVLiteral 1 (b2n s))
  | AMaxP1 a b =>
      rb <- from_arith 32 b ;; ra <- from_arith 32 a ;;
      va <- get_u64 ra ;; vb <- get_u64 rb ;;
      w <- eval_width_max_plus_1 (as_u32 va) (as_u32 vb) ;;
      Ok (BVLiteral 32 w)
  | AWlsh a b =>
      rb <- from_arith 32 b ;; ra <- from_arith 32 a ;;
      va <- get_u64 ra ;; vb <- get_u64 rb ;;
      w <- eval_width_left_shift (as_u32 va) (as_u32 vb) ;;
      Ok (BVLiteral 32 w)
  | ABin op c0 c1 c2 c3 c4 c5 c6 =>
      aw <- get_width c1 ;; bw <- get_width c4 ;;          (* get_child_widths *)
      r6 <- from_arith bw c6 ;; r5 <- from_arith 0 c5 ;; r4 <- from_arith 0 c4 ;;
      r3 <- from_arith aw c3 ;; r2 <- from_arith 0 c2 ;; r1 <- from_arith 0 c1 ;;
      r0 <- from_arith 0 c0 ;;
      wo <- get_u64 r0 ;; wa <- get_u64 r1 ;; sa <- get_u64 r2 ;;
      wb <- get_u64 r4 ;; sb <- get_u64 r5 ;;
      patronus_bin_op op (as_u32 wo) (as_u32 wa) (negb (sa =? 0)) r3
                         (as_u32 wb) (negb (sb =? 0)) r6
  | AVar _ => Panic                                       (* not a RecExpr node *)
  end.

(** ** to_arith *)

(** [remove_ext(..).0] (arithmetic.rs:294) *)
Fixpoint strip (e : expr) : expr :=
  match e with
  | BVZeroExt e' _ _ => strip e'
  | BVSignExt e' _ _ => strip e'
  | _ => e
  end.

(** [remove_ext(..).1]: the kind of the *outermost* extension only *)
Definition ext_sign (e : expr) : bool :=
  match e with BVSignExt _ _ _ => true | _ => false end.

(** arithmetic.rs:259; [ca], [cb] are the converted (stripped) children *)
Definition convert_bin_op (op : binop) (a b : expr) (width_out : N) (ca cb : res arith) : res arith :=
  ca' <- ca ;; cb' <- cb ;;
  match type_of (strip a), type_of (strip b), type_of a, type_of b with
  | TBV width_a, TBV width_b, TBV ta, TBV tb =>
      if negb ((width_out =? ta) && (width_out =? tb)) then Panic     (* debug_assert_eq! *)
      else Ok (ABin op (AWidth width_out) (AWidth width_a) (ASign (ext_sign a)) ca'
                       (AWidth width_b) (ASign (ext_sign b)) cb')
  | _, _, _, _ => Panic
  end.

(** [conv e] = the result of the bottom-up traversal of arithmetic.rs:179 started at
    [strip e] (children are replaced by [remove_ext(child).0] before they are visited, so an
    extension node is only ever *visited* when it is the root). *)
Fixpoint conv (e : expr) : res arith :=
  match e with
  | BVZeroExt e' _ _ => conv e'
  | BVSignExt e' _ _ => conv e'
  | BVSymbol name _ => Ok (ASymbol name)
  | BVAdd a b w => convert_bin_op OAdd a b w (conv a) (conv b)
  | BVSub a b w => convert_bin_op OSub a b w (conv a) (conv b)
  | BVMul a b w => convert_bin_op OMul a b w (conv a) (conv b)
  | BVShiftLeft a b w => convert_bin_op OShl a b w (conv a) (conv b)
  | BVShiftRight a b w => convert_bin_op OLshr a b w (conv a) (conv b)
  | BVArithmeticShiftRight a b w => convert_bin_op OAshr a b w (conv a) (conv b)
  | _ => Panic                                            (* todo!(..) *)
  end.

Definition to_arith (e : expr) : res arith :=
  match e with
  | BVZeroExt _ _ _ | BVSignExt _ _ _ => Panic            (* the root is not stripped: todo! *)
  | _ => conv e
  end.

(** the round trip *)
Definition roundtrip (e : expr) : res expr := t <- to_arith e ;; from_arith 0 t.

(** ** the convertible fragment *)

(** all extensions of a chain are zero (resp. sign) extensions *)
Fixpoint all_zext (e : expr) : bool :=
  match e with BVZeroExt e' _ _ => all_zext e' | BVSignExt _ _ _ => false | _ => true end.
Fixpoint all_sext (e : expr) : bool :=
  match e with BVSignExt e' _ _ => all_sext e' | BVZeroExt _ _ _ => false | _ => true end.

(** an operand whose (possibly empty) chain of extensions is of one kind *)
Definition uniform_ext (e : expr) : bool :=
  match e with
  | BVZeroExt e' _ _ => all_zext e'
  | BVSignExt e' _ _ => all_sext e'
  | _ => true
  end.

(** at most one extension on top of a non-extension *)
Definition one_ext (e : expr) : bool :=
  match e with
  | BVZeroExt e' _ _ | BVSignExt e' _ _ =>
      match e' with BVZeroExt _ _ _ | BVSignExt _ _ _ => false | _ => true end
  | _ => true
  end.

(** add/sub/mul/shifts over (extended) symbols and such operations, every stored width a
    [u32]; [opnd] is the per-operand restriction on the chain of extensions *)
Fixpoint frag (opnd : expr -> bool) (e : expr) : bool :=
  match e with
  | BVZeroExt e' _ _ | BVSignExt e' _ _ => frag opnd e'
  | BVSymbol _ w => w <=? u32_max
  | BVAdd a b w | BVSub a b w | BVMul a b w | BVShiftLeft a b w | BVShiftRight a b w
  | BVArithmeticShiftRight a b w =>
      (w <=? u32_max) && opnd a && opnd b && frag opnd a && frag opnd b
  | _ => false
  end.

Definition is_binop_root (e : expr) : bool :=
  match e with
  | BVAdd _ _ _ | BVSub _ _ _ | BVMul _ _ _ | BVShiftLeft _ _ _ | BVShiftRight _ _ _
  | BVArithmeticShiftRight _ _ _ => true
  | _ => false
  end.

(** the domain of the round-trip theorem: rooted at an operation *)
Definition convertible (e : expr) : bool := is_binop_root e && frag uniform_ext e.
Definition convertible_one_ext (e : expr) : bool := is_binop_root e && frag one_ext e.
(** same shape, no restriction on the extension chains (the defect lives in the difference) *)
Definition convertible_shape (e : expr) : bool := is_binop_root e && frag (fun _ => true) e.

(** ** patterns, substitutions *)

Local Open Scope string_scope.

Fixpoint inst (sigma : string -> arith) (p : arith) : arith :=
  match p with
  | AVar v => sigma v
  | ABin op c0 c1 c2 c3 c4 c5 c6 =>
      ABin op (inst sigma c0) (inst sigma c1) (inst sigma c2) (inst sigma c3)
              (inst sigma c4) (inst sigma c5) (inst sigma c6)
  | AMaxP1 a b => AMaxP1 (inst sigma a) (inst sigma b)
  | AWlsh a b => AWlsh (inst sigma a) (inst sigma b)
  | other => other
  end.

(** the [Assignment] of rewrites.rs:226: variable name (with the "?") -> u32 *)
Definition assignment : Type := list (string * N).

Fixpoint lookup {A : Type} (k : string) (l : list (string * A)) : option A :=
  match l with
  | [] => None
  | (k', v) :: tl => if String.eqb k k' then Some v else lookup k tl
  end.

Definition second_char (s : string) : option Ascii.ascii :=
  match s with String _ (String c _) => Some c | _ => None end.

Definition drop_first (s : string) : string :=
  match s with String _ tl => tl | EmptyString => EmptyString end.

(** samples.rs [analyze_pattern]/[gen_substitution]: "?w.." are widths, "?s.." are signs
    (0 = unsign, 1 = sign), every other variable "?x" stands for an operand; [ops] gives the
    operand terms, default the symbol named "x" *)
Definition subst_of (asg : assignment) (ops : list (string * arith)) : string -> arith :=
  fun v =>
    match second_char v with
    | Some "w"%char => match lookup v asg with Some w => AWidth w | None => AVar v end
    | Some "s"%char => match lookup v asg with Some s => ASign (negb (s =? 0)%N) | None => AVar v end
    | _ => match lookup v ops with Some t => t | None => ASymbol (drop_first v) end
    end.

(** ** the rules *)

Record rule : Type := {
  r_name : string;
  r_lhs : arith;
  r_rhs : arith;
  r_cond_vars : list string;
  r_cond : option (list N -> res bool)
}.

Definition V := AVar.
Definition unsign := ASign false.

Definition nth_w (ws : list N) (i : nat) : res N :=
  match nth_error ws i with Some w => Ok w | None => Panic end.

(** rewrites.rs:80-92 *)
Definition mul_no_ov (wo wa wb : N) : res bool := s <- checked32 (wa + wb) ;; Ok (s <=? wo)%N.
Definition lsh_no_ov (wo wa wb : N) : res bool := l <- eval_width_left_shift wa wb ;; Ok (l <=? wo)%N.

Definition rule_commute_add : rule := {|
  r_name := "commute-add";
  r_lhs := ABin OAdd (V "?wo") (V "?wa") (V "?sa") (V "?a") (V "?wb") (V "?sb") (V "?b");
  r_rhs := ABin OAdd (V "?wo") (V "?wb") (V "?sb") (V "?b") (V "?wa") (V "?sa") (V "?a");
  r_cond_vars := []; r_cond := None |}.

Definition rule_commute_mul : rule := {|
  r_name := "commute-mul";
  r_lhs := ABin OMul (V "?wo") (V "?wa") (V "?sa") (V "?a") (V "?wb") (V "?sb") (V "?b");
  r_rhs := ABin OMul (V "?wo") (V "?wb") (V "?sb") (V "?b") (V "?wa") (V "?sa") (V "?a");
  r_cond_vars := []; r_cond := None |}.

Definition rule_merge_left_shift : rule := {|
  r_name := "merge-left-shift";
  r_lhs := ABin OShl (V "?wo") (V "?wab") (V "?sa")
             (ABin OShl (V "?wab") (V "?wa") (V "?sa") (V "?a") (V "?wb") unsign (V "?b"))
             (V "?wc") unsign (V "?c");
  r_rhs := ABin OShl (V "?wo") (V "?wa") (V "?sa") (V "?a")
             (AMaxP1 (V "?wb") (V "?wc")) unsign
             (ABin OAdd (AMaxP1 (V "?wb") (V "?wc")) (V "?wb") unsign (V "?b") (V "?wc") unsign (V "?c"));
  r_cond_vars := ["?wo"; "?wab"];
  r_cond := Some (fun w => w0 <- nth_w w 0 ;; w1 <- nth_w w 1 ;; Ok (w0 <=? w1)%N) |}.

Definition rule_unmerge_left_shift : rule := {|
  r_name := "unmerge-left-shift";
  r_lhs := ABin OShl (V "?wo") (V "?wa") (V "?sa") (V "?a") (V "?wbc") unsign
             (ABin OAdd (V "?wbc") (V "?wb") unsign (V "?b") (V "?wc") unsign (V "?c"));
  r_rhs := ABin OShl (V "?wo") (AWlsh (V "?wa") (V "?wb")) (V "?sa")
             (ABin OShl (AWlsh (V "?wa") (V "?wb")) (V "?wa") (V "?sa") (V "?a") (V "?wb") unsign (V "?b"))
             (V "?wc") unsign (V "?c");
  r_cond_vars := ["?wbc"; "?wb"; "?wc"];
  r_cond := Some (fun w => w0 <- nth_w w 0 ;; w1 <- nth_w w 1 ;; w2 <- nth_w w 2 ;;
                           m <- checked32 (N.max w1 w2 + 1) ;; Ok (m <=? w0)%N) |}.

Definition rule_mult_to_add : rule := {|
  r_name := "mult-to-add";
  r_lhs := ABin OMul (V "?wo") (V "?wa") (V "?sa") (V "?a") (V "?wb") (V "?sb") (AConst 2);
  r_rhs := ABin OAdd (V "?wo") (V "?wa") (V "?sa") (V "?a") (V "?wa") (V "?sa") (V "?a");
  r_cond_vars := ["?wb"; "?sb"; "?wo"];
  r_cond := Some (fun w => w0 <- nth_w w 0 ;; w1 <- nth_w w 1 ;; w2 <- nth_w w 2 ;;
                           Ok (((w1 =? 0) && (1 <? w0)) || ((w1 =? 1) && (2 <? w0)) || (w2 <=? w0))%N) |}.

Definition rule_left_shift_mult : rule := {|
  r_name := "left-shift-mult";
  r_lhs := ABin OShl (V "?wo") (V "?wab") unsign
             (ABin OMul (V "?wab") (V "?wa") unsign (V "?a") (V "?wb") unsign (V "?b"))
             (V "?wc") unsign (V "?c");
  r_rhs := ABin OMul (V "?wo") (AWlsh (V "?wa") (V "?wc")) unsign
             (ABin OShl (AWlsh (V "?wa") (V "?wc")) (V "?wa") unsign (V "?a") (V "?wc") unsign (V "?c"))
             (V "?wb") unsign (V "?b");
  r_cond_vars := ["?wab"; "?wa"; "?wb"; "?wo"; "?wc"];
  r_cond := Some (fun w => w0 <- nth_w w 0 ;; w1 <- nth_w w 1 ;; w2 <- nth_w w 2 ;;
                           w3 <- nth_w w 3 ;; w4 <- nth_w w 4 ;;
                           m <- mul_no_ov w0 w1 w2 ;;
                           if m then lsh_no_ov w3 w0 w4 else Ok false) |}.   (* && short-circuits *)

(** [create_rewrites()] *)
Definition rules : list rule :=
  [ rule_commute_add; rule_commute_mul; rule_merge_left_shift; rule_unmerge_left_shift;
    rule_mult_to_add; rule_left_shift_mult ].

Fixpoint lookup_all (vars : list string) (asg : assignment) : res (list N) :=
  match vars with
  | [] => Ok []
  | v :: tl =>
      match lookup v asg with
      | Some x => rest <- lookup_all tl asg ;; Ok (x :: rest)
      | None => Panic                                     (* find(..).unwrap() *)
      end
  end.

(** rewrites.rs:172 *)
Definition eval_condition (r : rule) (asg : assignment) : res bool :=
  match r_cond r with
  | Some c => ws <- lookup_all (r_cond_vars r) asg ;; c ws
  | None => Ok true
  end.

Fixpoint find_rule (name : string) (l : list rule) : option rule :=
  match l with
  | [] => None
  | r :: tl => if String.eqb name (r_name r) then Some r else find_rule name tl
  end.

(** ** what [from_arith] builds for a binary node, and its value *)

Local Close Scope string_scope.

Definition ext_expr (e : expr) (w_out w_in : N) (signed : bool) : expr :=
  if w_out =? w_in then e
  else if signed then BVSignExt e (w_out - w_in) w_out
  else BVZeroExt e (w_out - w_in) w_out.

Definition bin_expr (op : binop) (wo wa : N) (sa : bool) (a : expr) (wb : N) (sb : bool) (b : expr) : expr :=
  let W := N.max (N.max wa wb) wo in
  let r := mk_op op (ext_expr a W wa sa) (ext_expr b W wb sb) W in
  if W =? wo then r else BVSlice r (wo - 1) 0.

(** value of an operand of width [w] extended to width [W >= w] *)
Definition extv (s : bool) (w W x : N) : N := if s then bv_sext w (W - w) x else x.

Definition op_val (op : binop) (W x y : N) : N :=
  match op with
  | OAdd => bv_add W x y
  | OSub => bv_sub W x y
  | OMul => bv_mul W x y
  | OShl => bv_shl W x y
  | OLshr => bv_lshr W x y
  | OAshr => bv_ashr W x y
  end.

(** the denotation of [(op wo wa sa a wb sb b)]: extend both operands to
    [W = max wo wa wb], operate at width [W], keep the low [wo] bits *)
Definition den_bin (op : binop) (wo wa : N) (sa : bool) (x : N) (wb : N) (sb : bool) (y : N) : N :=
  let W := N.max (N.max wa wb) wo in
  trunc wo (op_val op W (extv sa wa W x) (extv sb wb W y)).

(** the denotation of a ground term under an environment (via the real lowering) *)
Definition den (rho : env) (ew : N) (t : arith) : res N :=
  e <- from_arith ew t ;; Ok (ebv rho e).

(** ** vocabulary of the soundness statements (Props/C19.v) *)

(** a width parameter: a positive [u32] *)
Definition width_ok (w : N) : Prop := 1 <= w <= u32_max.

(** an operand term: lowers, at the declared width, to a well-typed expression of that width
    (a symbol is the instance used by the repository's rule checker) *)
Definition operand_ok (w : N) (t : arith) : Prop :=
  exists e, from_arith w t = Ok e /\ type_of e = TBV w /\ wt e = true.

(** both terms lower without panic to well-typed expressions of width [wo] that have the same
    value under every environment *)
Definition same_value (wo : N) (l r : arith) : Prop :=
  exists el er, from_arith 0 l = Ok el /\ from_arith 0 r = Ok er /\
    wt el = true /\ wt er = true /\ type_of el = TBV wo /\ type_of er = TBV wo /\
    forall rho, env_wf rho -> ebv rho el = ebv rho er.

Local Open Scope string_scope.

Definition asg_commute (wo wa wb : N) (sa sb : bool) : assignment :=
  [("?wo", wo); ("?wa", wa); ("?wb", wb); ("?sa", b2n sa); ("?sb", b2n sb)].
Definition asg_merge (wo wab wa wb wc : N) (sa : bool) : assignment :=
  [("?wo", wo); ("?wab", wab); ("?wa", wa); ("?wb", wb); ("?wc", wc); ("?sa", b2n sa)].
Definition asg_unmerge (wo wa wbc wb wc : N) (sa : bool) : assignment :=
  [("?wo", wo); ("?wa", wa); ("?wbc", wbc); ("?wb", wb); ("?wc", wc); ("?sa", b2n sa)].
Definition asg_lsm (wo wab wa wb wc : N) : assignment :=
  [("?wo", wo); ("?wab", wab); ("?wa", wa); ("?wb", wb); ("?wc", wc)].

Definition ops1 (ta : arith) : list (string * arith) := [("?a", ta)].
Definition ops2 (ta tb : arith) : list (string * arith) := [("?a", ta); ("?b", tb)].
Definition ops3 (ta tb tc : arith) : list (string * arith) := [("?a", ta); ("?b", tb); ("?c", tc)].


Local Close Scope string_scope.

(** ** the repaired conversion (patches/0001-fix-to_arith-mixed-extension-chain.diff)

    [Cur] = [to_arith] as shipped (above); [Fix] = with the patch: [remove_ext] strips only a run
    of extensions of ONE kind, and an extension that is visited as a node (the root, or the top of
    a run of the other kind below a stripped run) is converted to [ext(x) + 0] at its width. *)

Inductive variant : Type := Cur | Fix.

(** patched [strip_ext] *)
Fixpoint strip_kind (s : bool) (e : expr) : expr :=
  match e with
  | BVZeroExt e' _ _ => if s then e else strip_kind s e'
  | BVSignExt e' _ _ => if s then strip_kind s e' else e
  | _ => e
  end.

(** patched [remove_ext]: (operand without the run of its outermost kind, that kind) *)
Definition remove_ext_fix (e : expr) : expr * bool := (strip_kind (ext_sign e) e, ext_sign e).

Definition convert_bin_op_fix (op : binop) (a b : expr) (width_out : N) (ca cb : res arith) : res arith :=
  ca' <- ca ;; cb' <- cb ;;
  let '(base_a, sign_a) := remove_ext_fix a in
  let '(base_b, sign_b) := remove_ext_fix b in
  match type_of base_a, type_of base_b, type_of a, type_of b with
  | TBV width_a, TBV width_b, TBV ta, TBV tb =>
      if negb ((width_out =? ta) && (width_out =? tb)) then Panic     (* debug_assert_eq! *)
      else Ok (ABin op (AWidth width_out) (AWidth width_a) (ASign sign_a) ca'
                       (AWidth width_b) (ASign sign_b) cb')
  | _, _, _, _ => Panic
  end.

(** the new match arm for an extension node [e] of stored width [w]; [c] = its converted child *)
Definition convert_ext_node (e : expr) (w : N) (c : res arith) : res arith :=
  c' <- c ;;
  let '(base, sign) := remove_ext_fix e in
  match type_of base with
  | TBV width_base =>
      Ok (ABin OAdd (AWidth w) (AWidth width_base) (ASign sign) c' (AWidth 1) (ASign false) (AConst 0))
  | TArr _ _ => Panic
  end.

(** [convf m e] = the result of the patched traversal started at the node
    [match m with None => e | Some s => strip_kind s e end]: mode [Some s] absorbs extensions of
    kind [s] (they were stripped by the parent), any other extension is visited as a node. *)
Fixpoint convf (m : option bool) (e : expr) : res arith :=
  match e with
  | BVZeroExt e' _ w =>
      match m with
      | Some false => convf m e'
      | _ => convert_ext_node e w (convf (Some false) e')
      end
  | BVSignExt e' _ w =>
      match m with
      | Some true => convf m e'
      | _ => convert_ext_node e w (convf (Some true) e')
      end
  | BVSymbol name _ => Ok (ASymbol name)
  | BVAdd a b w => convert_bin_op_fix OAdd a b w (convf (Some (ext_sign a)) a) (convf (Some (ext_sign b)) b)
  | BVSub a b w => convert_bin_op_fix OSub a b w (convf (Some (ext_sign a)) a) (convf (Some (ext_sign b)) b)
  | BVMul a b w => convert_bin_op_fix OMul a b w (convf (Some (ext_sign a)) a) (convf (Some (ext_sign b)) b)
  | BVShiftLeft a b w => convert_bin_op_fix OShl a b w (convf (Some (ext_sign a)) a) (convf (Some (ext_sign b)) b)
  | BVShiftRight a b w => convert_bin_op_fix OLshr a b w (convf (Some (ext_sign a)) a) (convf (Some (ext_sign b)) b)
  | BVArithmeticShiftRight a b w =>
      convert_bin_op_fix OAshr a b w (convf (Some (ext_sign a)) a) (convf (Some (ext_sign b)) b)
  | _ => Panic                                            (* todo!(..) *)
  end.

Definition to_arith_v (v : variant) (e : expr) : res arith :=
  match v with Cur => to_arith e | Fix => convf None e end.

Definition roundtrip_v (v : variant) (e : expr) : res expr := t <- to_arith_v v e ;; from_arith 0 t.

(** the domain of the round trip of the repaired code: add/sub/mul/shifts over symbols under ANY
    extensions, every stored width a u32, not a bare symbol (rooted at an operation or an extension) *)
Fixpoint frag_fix (e : expr) : bool :=
  match e with
  | BVZeroExt e' _ w | BVSignExt e' _ w => (w <=? u32_max) && frag_fix e'
  | BVSymbol _ w => w <=? u32_max
  | BVAdd a b w | BVSub a b w | BVMul a b w | BVShiftLeft a b w | BVShiftRight a b w
  | BVArithmeticShiftRight a b w => (w <=? u32_max) && frag_fix a && frag_fix b
  | _ => false
  end.

Definition is_bv_symbol (e : expr) : bool := match e with BVSymbol _ _ => true | _ => false end.

Definition convertible_fix (e : expr) : bool := negb (is_bv_symbol e) && frag_fix e.

(** the domain in which the property is claimed, per variant of the code *)
Definition roundtrip_domain (v : variant) (e : expr) : bool :=
  match v with Cur => convertible_shape e | Fix => convertible_fix e end.

(** ** the repaired side conditions (patches/0016-fix-egraph-rules-derived-width-fits-u32.diff)

    [Cur] = the rule table [rules] above; [Fix] = with the patch: the conditions are computed with
    checked u32 arithmetic ([checked_add], [checked_width_left_shift]) and additionally require
    that the width derived on the right-hand side ([max+1 ?wb ?wc], [wlsh ?wa ?wb]) fits a u32.
    Patterns and names are unchanged; no condition can panic any more. *)

Local Open Scope string_scope.

(** arithmetic.rs [checked_width_left_shift(..).is_some()] / [.is_some_and(|w| wo >= w)] *)
Definition fits32 (r : res N) : bool := match r with Ok _ => true | Panic => false end.
Definition le_checked (r : res N) (wo : N) : bool := match r with Ok w => (w <=? wo)%N | Panic => false end.

Definition rule_merge_left_shift_fix : rule := {|
  r_name := r_name rule_merge_left_shift;
  r_lhs := r_lhs rule_merge_left_shift;
  r_rhs := r_rhs rule_merge_left_shift;
  r_cond_vars := ["?wo"; "?wab"; "?wb"; "?wc"];
  r_cond := Some (fun w => w0 <- nth_w w 0 ;; w1 <- nth_w w 1 ;; w2 <- nth_w w 2 ;; w3 <- nth_w w 3 ;;
                           Ok ((w0 <=? w1) && (N.max w2 w3 <? u32_max))%N) |}.

Definition rule_unmerge_left_shift_fix : rule := {|
  r_name := r_name rule_unmerge_left_shift;
  r_lhs := r_lhs rule_unmerge_left_shift;
  r_rhs := r_rhs rule_unmerge_left_shift;
  r_cond_vars := ["?wbc"; "?wb"; "?wc"; "?wa"];
  r_cond := Some (fun w => w0 <- nth_w w 0 ;; w1 <- nth_w w 1 ;; w2 <- nth_w w 2 ;; w3 <- nth_w w 3 ;;
                           Ok ((N.max w1 w2 <? w0)%N && fits32 (eval_width_left_shift w3 w1))) |}.

Definition rule_left_shift_mult_fix : rule := {|
  r_name := r_name rule_left_shift_mult;
  r_lhs := r_lhs rule_left_shift_mult;
  r_rhs := r_rhs rule_left_shift_mult;
  r_cond_vars := r_cond_vars rule_left_shift_mult;
  r_cond := Some (fun w => w0 <- nth_w w 0 ;; w1 <- nth_w w 1 ;; w2 <- nth_w w 2 ;;
                           w3 <- nth_w w 3 ;; w4 <- nth_w w 4 ;;
                           Ok (le_checked (checked32 (w1 + w2)) w0 && le_checked (eval_width_left_shift w0 w4) w3)) |}.

Local Close Scope string_scope.

Definition rules_v (v : variant) : list rule :=
  match v with
  | Cur => rules
  | Fix => [ rule_commute_add; rule_commute_mul; rule_merge_left_shift_fix; rule_unmerge_left_shift_fix;
             rule_mult_to_add; rule_left_shift_mult_fix ]
  end.
