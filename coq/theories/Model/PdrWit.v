(** * Model/PdrWit.v — [patronus::mc::pdr] with its witness path: the concrete PDR model of
    Model/PdrImpl.v whose BMC fallback is no longer an oracle but the model of [bmc] itself.

    pdr.rs, when a cube reaches the initial frame and cannot be blocked:

        smt_ctx.restart()?;
        return match bmc(ctx, smt_ctx, sys, false, false, MAX_FRAMES as u64)? {
            ModelCheckResult::Fail(wit) => Ok(ModelCheckResult::Fail(wit)),
            _ => Ok(ModelCheckResult::Unknown),
        };

    [PdrImpl.pdr] has the Section variable [bmc_result : bmc_answer W EM] for this.  Here it is
    instantiated:  [restart_fault] says whether [restart()] returns an error; after the restart the
    solver process is new, everything PDR told it is gone, and [bmc] talks to it from the beginning: this
    conversation is [BmcWitFull.bmc_model_full sv sy nm false false MAX_FRAMES] over the solver [sv]
    (the same abstract solver, now seen through the whole script it has been given since the restart,
    which is all its answers can depend on).  The PDR conversation before the restart stays the oracle
    [solve] of Model/PdrImpl.v.

    [bmc] can also panic; [bmc_answer] has no place for that, so the witness type is instantiated with
    [option witness] ([None] = the fallback panicked) and [pdr_wit] maps it back: the result type is that
    of [PdrImpl.pdr] with [W := witness].

    Executable definitions only; proofs in Proofs/PdrWitProofs.v. *)
From Coq Require Import List Bool.
From Patronus Require Export BmcWitFull PdrSys PdrImpl.
Import ListNotations.

Section PdrWit.
  Variable EM : Type.
  Variables (sy : sys) (nm : expr -> string).
  Variable solve : nat -> PdrImpl.query slit -> PdrImpl.answer slit (sstate sy) EM.
  Variable cmd_fail : nat -> option EM.
  Variable n_init : nat.
  Variable gen_on : bool.
  Variable restart_fault : option EM.           (* does smt_ctx.restart() fail? *)
  Variable sv : solver EM.                      (* the restarted solver, as [bmc] sees it *)

  Definition has_bads_b : bool := match s_bads sy with [] => false | _ => true end.

  (** bmc(ctx, smt_ctx, sys, false, false, MAX_FRAMES) *)
  Definition fallback_bmc : bmc_result_f EM := bmc_model_full EM sv sy nm false false MAX_FRAMES.

  Definition fallback : bmc_answer (option witness) EM :=
    match restart_fault with
    | Some e => BmcErr (option witness) EM e
    | None =>
        match fallback_bmc with
        | FFail _ w => PdrImpl.BmcFail (option witness) EM (Some w)
        | FSuccess | FUnknown => BmcOther (option witness) EM
        | FErr e => BmcErr (option witness) EM e
        | FPanic => PdrImpl.BmcFail (option witness) EM None
        end
    end.

  Definition pdr_raw (fuel bf : nat) :=
    pdr slit slit_eqb (sstate sy) (scube sy) (option witness) EM solve cmd_fail n_init gen_on has_bads_b fallback fuel bf.

  Definition pdr_wit (fuel bf : nat) : res slit (sstate sy) EM (PdrImpl.verdict witness * pst slit (sstate sy) EM) :=
    match pdr_raw fuel bf with
    | Ok _ _ _ _ (VSuccess _, st) => Ok _ _ _ _ (VSuccess witness, st)
    | Ok _ _ _ _ (VUnknown _, st) => Ok _ _ _ _ (VUnknown witness, st)
    | Ok _ _ _ _ (VFail _ (Some w), st) => Ok _ _ _ _ (VFail witness w, st)
    | Ok _ _ _ _ (VFail _ None, st) => Panic _ _ _ _ 5          (* the panic of the fallback *)
    | Err _ _ _ _ e l => Err _ _ _ _ e l
    | Panic _ _ _ _ n => Panic _ _ _ _ n
    | Fuel _ _ _ _ => Fuel _ _ _ _
    end.
End PdrWit.

(** the exhaustive-search oracle of Model/PdrImpl.v on the state space of a system (for Examples) *)
Definition sys_states (sy : sys) : list (sstate sy) := map (st_of sy) (ReachFix.nrange (2 ^ sbits sy)).

Definition sys_enum_solve (EM : Type) (sy : sys) : nat -> PdrImpl.query slit -> PdrImpl.answer slit (sstate sy) EM :=
  enum_solve slit (sstate sy) EM (slit_holds sy) (st_bad0 sy) (st_step0 sy) (st_trans sy) (st_bad sy) (sys_states sy).
