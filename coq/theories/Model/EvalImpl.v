(** * Model/EvalImpl.v — the explicit-stack evaluator of patronus/src/expr/eval.rs
    ([eval_expr_internal], lines 209-378) as a small abstract machine.

    - [todo] stack of [(expr, args_available)], head = top of the Rust [SmallVec];
    - separate bit-vector and array value stacks;
    - child push order from foreach.rs ([children]), hence evaluation order
      last child first;
    - the pop orders of [un_op]/[bin_op], [BVIte], [ArrayStore] (in place on the
      array stack top), [ArrayIte], [BVArrayRead], [ArrayConstant], [ArrayEqual];
    - the value provider is consulted *before* descending (short circuit), keyed
      on the constructor-level [is_array_type] test exactly as eval.rs:229-241;
    - [Panic] for missing symbols, empty stacks and the five unimplemented
      division/remainder operators.

    Stack values carry their own width, as [baa::BitVecValue] does: result
    widths are computed from operand widths, not from the expression node.

    Executable definitions only. *)

From Patronus Require Export Eval.
Open Scope N_scope.

Inductive res (A : Type) : Type :=
| Ok (a : A)
| Panic.
Arguments Ok {A} a.
Arguments Panic {A}.

(** what a [GetExprValue] provider returns *)
Record provider : Type := {
  get_bv : expr -> option (N * N);                 (* width, value *)
  get_array : expr -> option (N * N * (N -> N))    (* index width, data width, contents *)
}.

Definition bvval : Type := (N * N)%type.
Definition arrval : Type := (N * N * (N -> N))%type.

Record mstate : Type := {
  todo : list (expr * bool);
  bvs : list bvval;
  arrs : list arrval
}.

Definition un_op (st : list bvval) (op : bvval -> bvval) : res (list bvval) :=
  match st with
  | e :: st' => Ok (op e :: st')
  | [] => Panic
  end.

(** [bin_op]: the first value popped is [a] (the first child) *)
Definition bin_op (st : list bvval) (op : bvval -> bvval -> bvval) : res (list bvval) :=
  match st with
  | a :: b :: st' => Ok (op a b :: st')
  | _ => Panic
  end.

Definition to_bool (v : bvval) : option bool :=
  let '(w, x) := v in if w =? 1 then Some (x =? 1) else None.

Definition bool_val (b : bool) : bvval := (1, b2n b).

(** the action of a node whose arguments are on the stacks *)
Definition apply_node (e : expr) (bs : list bvval) (ars : list arrval)
  : res (list bvval * list arrval) :=
  let bv (r : res (list bvval)) : res (list bvval * list arrval) :=
    match r with Ok bs' => Ok (bs', ars) | Panic => Panic end in
  match e with
  | BVSymbol _ _ => Panic
  | BVLiteral w v => Ok ((w, v) :: bs, ars)
  | BVZeroExt _ by_ _ => bv (un_op bs (fun '(w, x) => (w + by_, bv_zext x)))
  | BVSignExt _ by_ _ => bv (un_op bs (fun '(w, x) => (w + by_, bv_sext w by_ x)))
  | BVSlice _ hi lo => bv (un_op bs (fun '(w, x) => (hi - lo + 1, bv_slice hi lo x)))
  | BVNot _ _ => bv (un_op bs (fun '(w, x) => (w, bv_not w x)))
  | BVNegate _ _ => bv (un_op bs (fun '(w, x) => (w, bv_neg w x)))
  | BVEqual _ _ => bv (bin_op bs (fun '(_, x) '(_, y) => (1, bv_eq x y)))
  | BVImplies _ _ => bv (bin_op bs (fun '(w, x) '(_, y) => (w, N.lor (bv_not w x) y)))
  | BVGreater _ _ => bv (bin_op bs (fun '(_, x) '(_, y) => (1, bv_ugt x y)))
  | BVGreaterSigned _ _ _ => bv (bin_op bs (fun '(w, x) '(_, y) => (1, bv_sgt w x y)))
  | BVGreaterEqual _ _ => bv (bin_op bs (fun '(_, x) '(_, y) => (1, bv_uge x y)))
  | BVGreaterEqualSigned _ _ _ => bv (bin_op bs (fun '(w, x) '(_, y) => (1, bv_sge w x y)))
  | BVConcat _ _ _ => bv (bin_op bs (fun '(wa, x) '(wb, y) => (wa + wb, bv_concat wb x y)))
  | BVAnd _ _ _ => bv (bin_op bs (fun '(w, x) '(_, y) => (w, bv_and x y)))
  | BVOr _ _ _ => bv (bin_op bs (fun '(w, x) '(_, y) => (w, bv_or x y)))
  | BVXor _ _ _ => bv (bin_op bs (fun '(w, x) '(_, y) => (w, bv_xor x y)))
  | BVShiftLeft _ _ _ => bv (bin_op bs (fun '(w, x) '(_, y) => (w, bv_shl w x y)))
  | BVArithmeticShiftRight _ _ _ => bv (bin_op bs (fun '(w, x) '(_, y) => (w, bv_ashr w x y)))
  | BVShiftRight _ _ _ => bv (bin_op bs (fun '(w, x) '(_, y) => (w, bv_lshr w x y)))
  | BVAdd _ _ _ => bv (bin_op bs (fun '(w, x) '(_, y) => (w, bv_add w x y)))
  | BVMul _ _ _ => bv (bin_op bs (fun '(w, x) '(_, y) => (w, bv_mul w x y)))
  | BVSignedDiv _ _ _ | BVUnsignedDiv _ _ _ | BVSignedMod _ _ _
  | BVSignedRem _ _ _ | BVUnsignedRem _ _ _ => Panic           (* todo!() *)
  | BVSub _ _ _ => bv (bin_op bs (fun '(w, x) '(_, y) => (w, bv_sub w x y)))
  | BVIte _ _ _ =>
      match bs with
      | c :: bs1 =>
          match to_bool c with
          | Some true =>
              match bs1 with
              | tru :: _ :: bs2 => Ok (tru :: bs2, ars)
              | _ => Panic
              end
          | Some false =>
              match bs1 with
              | _ :: bs2 => Ok (bs2, ars)
              | [] => Panic
              end
          | None => Panic
          end
      | [] => Panic
      end
  | BVArrayRead _ _ _ =>
      match ars, bs with
      | (iw, dw, f) :: ars', (_, i) :: bs' => Ok ((dw, f i) :: bs', ars')
      | _, _ => Panic
      end
  | ArraySymbol _ _ _ => Panic
  | ArrayConstant _ iw _ =>
      match bs with
      | (dw, d) :: bs' => Ok (bs', (iw, dw, fun _ => d) :: ars)
      | [] => Panic
      end
  | ArrayEqual _ _ =>
      match ars with
      | (iw, _, f) :: (_, _, g) :: ars' => Ok (bool_val (arr_eqb iw f g) :: bs, ars')
      | _ => Panic
      end
  | ArrayStore _ _ _ =>
      match ars, bs with
      | (iw, dw, f) :: ars', (_, i) :: (_, d) :: bs' => Ok (bs', (iw, dw, arr_store f i d) :: ars')
      | _, _ => Panic
      end
  | ArrayIte _ _ _ =>
      match bs with
      | c :: bs1 =>
          match to_bool c with
          | Some true =>
              match ars with
              | tru :: _ :: ars2 => Ok (bs1, tru :: ars2)
              | _ => Panic
              end
          | Some false =>
              match ars with
              | _ :: ars2 => Ok (bs1, ars2)
              | [] => Panic
              end
          | None => Panic
          end
      | [] => Panic
      end
  end.

(** one iteration of the [while let Some(..) = todo.pop()] loop;
    [None] = the loop has ended *)
Definition step (p : provider) (st : mstate) : option (res mstate) :=
  match todo st with
  | [] => None
  | (e, avail) :: rest =>
      let run_node :=
        match apply_node e (bvs st) (arrs st) with
        | Ok (bs, ars) => Ok {| todo := rest; bvs := bs; arrs := ars |}
        | Panic => Panic
        end in
      Some
        (if avail then run_node
         else
           let provided :=
             if is_array_type e then
               match get_array p e with
               | Some a => Some {| todo := rest; bvs := bvs st; arrs := a :: arrs st |}
               | None => None
               end
             else
               match get_bv p e with
               | Some v => Some {| todo := rest; bvs := v :: bvs st; arrs := arrs st |}
               | None => None
               end in
           match provided with
           | Some st' => Ok st'
           | None =>
               match children e with
               | [] => run_node
               | cs => Ok {| todo := rev (map (fun c => (c, false)) cs) ++ (e, true) :: rest;
                             bvs := bvs st; arrs := arrs st |}
               end
           end)
  end.

Fixpoint run (p : provider) (fuel : nat) (st : mstate) : res (option mstate) :=
  match step p st with
  | None => Ok (Some st)
  | Some Panic => Panic
  | Some (Ok st') =>
      match fuel with
      | O => Ok None                      (* out of fuel: not a result *)
      | S n => run p n st'
      end
  end.

Fixpoint size (e : expr) : nat :=
  match e with
  | BVSymbol _ _ | BVLiteral _ _ | ArraySymbol _ _ _ => 1
  | BVZeroExt e _ _ | BVSignExt e _ _ | BVSlice e _ _ | BVNot e _ | BVNegate e _
  | ArrayConstant e _ _ => S (size e)
  | BVEqual a b | BVImplies a b | BVGreater a b | BVGreaterSigned a b _
  | BVGreaterEqual a b | BVGreaterEqualSigned a b _ | BVConcat a b _
  | BVAnd a b _ | BVOr a b _ | BVXor a b _ | BVShiftLeft a b _
  | BVArithmeticShiftRight a b _ | BVShiftRight a b _ | BVAdd a b _ | BVMul a b _
  | BVSignedDiv a b _ | BVUnsignedDiv a b _ | BVSignedMod a b _ | BVSignedRem a b _
  | BVUnsignedRem a b _ | BVSub a b _ | BVArrayRead a b _ | ArrayEqual a b => S (size a + size b)
  | BVIte a b c | ArrayStore a b c | ArrayIte a b c => S (size a + size b + size c)
  end.

Inductive mresult : Type :=
| RBV (w v : N)
| RArr (iw dw : N) (f : N -> N)
| RPanic
| RBadStacks                 (* the final debug_assert on the stack sizes fails *)
| ROutOfFuel.

(** [eval_expr]: run to completion with enough fuel for any tree *)
Definition eval_impl (p : provider) (e : expr) : mresult :=
  match run p (2 * size e) {| todo := [(e, false)]; bvs := []; arrs := [] |} with
  | Panic => RPanic
  | Ok None => ROutOfFuel
  | Ok (Some st) =>
      match bvs st, arrs st with
      | [(w, v)], [] => RBV w v
      | [], [(iw, dw, f)] => RArr iw dw f
      | _, _ => RBadStacks
      end
  end.

(** The provider induced by a symbol environment: defined exactly on symbols
    (what the three concrete providers of eval.rs give when every symbol is
    bound and no inner expression is). *)
Definition sym_provider (rho : env) : provider :=
  {| get_bv := fun e => match e with BVSymbol n w => Some (w, rho_bv rho n w) | _ => None end;
     get_array := fun e => match e with
                           | ArraySymbol n iw dw => Some (iw, dw, rho_arr rho n iw dw)
                           | _ => None end |}.

(** ** Domain of the property: which expressions can be evaluated with provider [p].

    [provided p e]: the provider answers for [e] (asked the way eval.rs asks).
    [covered p e]: every symbol reachable from [e] without passing through a
    provided node is provided, and no division/remainder node is reachable. *)
Definition provided (p : provider) (e : expr) : bool :=
  if is_array_type e then is_some (get_array p e) else is_some (get_bv p e).

Fixpoint covered (p : provider) (e : expr) : bool :=
  provided p e ||
  match e with
  | BVSymbol _ _ | ArraySymbol _ _ _ => false
  | BVSignedDiv _ _ _ | BVUnsignedDiv _ _ _ | BVSignedMod _ _ _
  | BVSignedRem _ _ _ | BVUnsignedRem _ _ _ => false
  | BVLiteral _ _ => true
  | BVZeroExt e _ _ | BVSignExt e _ _ | BVSlice e _ _ | BVNot e _ | BVNegate e _
  | ArrayConstant e _ _ => covered p e
  | BVEqual a b | BVImplies a b | BVGreater a b | BVGreaterSigned a b _
  | BVGreaterEqual a b | BVGreaterEqualSigned a b _ | BVConcat a b _
  | BVAnd a b _ | BVOr a b _ | BVXor a b _ | BVShiftLeft a b _
  | BVArithmeticShiftRight a b _ | BVShiftRight a b _ | BVAdd a b _ | BVMul a b _
  | BVSub a b _ | BVArrayRead a b _ | ArrayEqual a b => covered p a && covered p b
  | BVIte a b c | ArrayStore a b c | ArrayIte a b c => covered p a && covered p b && covered p c
  end.

(** provided values have the type of the expression they stand for *)
Definition provider_ok (p : provider) : Prop :=
  (forall e w v, get_bv p e = Some (w, v) -> type_of e = TBV w) /\
  (forall e iw dw f, get_array p e = Some (iw, dw, f) -> type_of e = TArr iw dw).

(** ** The specification with cut-offs: evaluation where a provided inner
    expression is replaced by its provided value. *)
Fixpoint cbv (p : provider) (rho : env) (e : expr) {struct e} : N :=
  match (if is_array_type e then None else get_bv p e) with
  | Some (_, v) => v
  | None =>
  match e with
  | BVSymbol n w => rho_bv rho n w
  | BVLiteral _ v => v
  | BVZeroExt e _ _ => bv_zext (cbv p rho e)
  | BVSignExt e by_ _ => bv_sext (width e) by_ (cbv p rho e)
  | BVSlice e hi lo => bv_slice hi lo (cbv p rho e)
  | BVNot e w => bv_not w (cbv p rho e)
  | BVNegate e w => bv_neg w (cbv p rho e)
  | BVEqual a b => bv_eq (cbv p rho a) (cbv p rho b)
  | BVImplies a b => bv_implies (cbv p rho a) (cbv p rho b)
  | BVGreater a b => bv_ugt (cbv p rho a) (cbv p rho b)
  | BVGreaterSigned a b _ => bv_sgt (width a) (cbv p rho a) (cbv p rho b)
  | BVGreaterEqual a b => bv_uge (cbv p rho a) (cbv p rho b)
  | BVGreaterEqualSigned a b _ => bv_sge (width a) (cbv p rho a) (cbv p rho b)
  | BVConcat a b _ => bv_concat (width b) (cbv p rho a) (cbv p rho b)
  | BVAnd a b _ => bv_and (cbv p rho a) (cbv p rho b)
  | BVOr a b _ => bv_or (cbv p rho a) (cbv p rho b)
  | BVXor a b _ => bv_xor (cbv p rho a) (cbv p rho b)
  | BVShiftLeft a b w => bv_shl w (cbv p rho a) (cbv p rho b)
  | BVArithmeticShiftRight a b w => bv_ashr w (cbv p rho a) (cbv p rho b)
  | BVShiftRight a b w => bv_lshr w (cbv p rho a) (cbv p rho b)
  | BVAdd a b w => bv_add w (cbv p rho a) (cbv p rho b)
  | BVMul a b w => bv_mul w (cbv p rho a) (cbv p rho b)
  | BVSignedDiv a b w => bv_sdiv w (cbv p rho a) (cbv p rho b)
  | BVUnsignedDiv a b w => bv_udiv w (cbv p rho a) (cbv p rho b)
  | BVSignedMod a b w => bv_smod w (cbv p rho a) (cbv p rho b)
  | BVSignedRem a b w => bv_srem w (cbv p rho a) (cbv p rho b)
  | BVUnsignedRem a b w => bv_urem w (cbv p rho a) (cbv p rho b)
  | BVSub a b w => bv_sub w (cbv p rho a) (cbv p rho b)
  | BVArrayRead a i _ => carr p rho a (cbv p rho i)
  | BVIte c t f => if cbv p rho c =? 1 then cbv p rho t else cbv p rho f
  | ArrayEqual a b => b2n (arr_eqb (index_width a) (carr p rho a) (carr p rho b))
  | ArraySymbol _ _ _ | ArrayConstant _ _ _ | ArrayStore _ _ _ | ArrayIte _ _ _ => 0
  end
  end
with carr (p : provider) (rho : env) (e : expr) {struct e} : N -> N :=
  match (if is_array_type e then get_array p e else None) with
  | Some (_, _, f) => f
  | None =>
  match e with
  | ArraySymbol n iw dw => rho_arr rho n iw dw
  | ArrayConstant e _ _ => let d := cbv p rho e in fun _ => d
  | ArrayStore a i d => arr_store (carr p rho a) (cbv p rho i) (cbv p rho d)
  | ArrayIte c t f => if cbv p rho c =? 1 then carr p rho t else carr p rho f
  | _ => fun _ => 0
  end
  end.
