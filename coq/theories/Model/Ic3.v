(** * Model/Ic3.v — the abstract IC3/PDR logic of patronus/src/mc/pdr.rs.

    NOT a line-by-line model of pdr.rs (DESIGN.md "### C10", section 9): the
    activation-literal plumbing, the SMT encoding and the solver are abstracted
    away.  What is kept is the logical content of the algorithm:

    - the state space is an abstract type [St] with boolean predicates [init],
      [bad] and a boolean transition relation [trans] (for pdr.rs: [St] = the
      valuations of the STATE symbols; [init s] = some input satisfies the init
      equations and the constraints together with [s]; [trans s s'] = some
      inputs satisfy the constraints at [s], produce [s'] and satisfy the
      constraints at [s']; [bad s] = some input makes a bad-state expression
      true under the constraints);
    - a literal is a state predicate, a cube a conjunction of literals
      ([Cube], pdr.rs:32-64);
    - the frame trace is delta encoded ([BasePdr.frames], [inf_frame],
      pdr.rs:339-372): the cubes stored in frame k are blocked in F_1 .. F_k, the
      cubes of the infinite frame in every frame; [frame_holds tr i] is F_i,
      F_0 = init ([frame_assumptions], pdr.rs:529-559);
    - [add_frame] (pdr.rs:882), [add_blocked_cube] (pdr.rs:891; [None] where
      the Rust indexing panics), [propagate_frame] (one frame of
      [propagate_blocked_cubes], pdr.rs:1008-1056, with the solver's answers as a
      list of booleans), and one step of
      the proof-obligation loop [block_step] (pdr.rs:929-985) with the answer
      of the relative-induction query as a parameter;
    - obligations are single states: [get_bit_level_cube] (pdr.rs:197-235)
      always returns a full assignment of all state bits.

    Executable definitions only (the checker [check_inv] decides the frame
    invariants over an explicitly listed state space: used in Examples and
    available to a trace replay).  Proofs: Proofs/Ic3Proofs.v. *)
From Coq Require Import List Bool Arith.
Import ListNotations.

Section Ic3.
  Variable St : Type.
  Variable init bad : St -> bool.
  Variable trans : St -> St -> bool.

  Definition lit : Type := St -> bool.
  Definition cube : Type := list lit.

  Definition cube_holds (c : cube) (s : St) : bool := forallb (fun l => l s) c.
  Definition blocked_by (cs : list cube) (s : St) : bool := existsb (fun c => cube_holds c s) cs.

  (** [FrameId] (pdr.rs:121-131) *)
  Inductive frame_id : Type := FInit | FFinite (k : nat) | FInf.

  Record trace : Type := {
    frames : list (list cube);      (* frames[k-1] = delta of frame k, k = 1 .. frontier *)
    inf : list cube                 (* the infinite frame *)
  }.

  Definition frontier (tr : trace) : nat := length (frames tr).

  Definition empty_trace : trace := {| frames := []; inf := [] |}.

  (** F_infinity *)
  Definition inf_holds (tr : trace) (s : St) : bool := negb (blocked_by (inf tr) s).

  (** F_i: i = 0 is the initial frame; for i >= 1 every cube stored in a frame >= i is excluded;
      beyond the frontier only the infinite frame is left *)
  Definition frame_holds (tr : trace) (i : nat) (s : St) : bool :=
    match i with
    | O => init s
    | S j => negb (blocked_by (concat (skipn j (frames tr))) s) && inf_holds tr s
    end.

  (** ** operations *)
  Definition add_frame (tr : trace) : trace := {| frames := frames tr ++ [[]]; inf := inf tr |}.

  (** add [c] to the list at (1-based) position [k] *)
  Fixpoint add_at (k : nat) (c : cube) (fs : list (list cube)) : option (list (list cube)) :=
    match k, fs with
    | O, _ => None
    | _, [] => None
    | S O, f :: r => Some ((c :: f) :: r)
    | S k', f :: r => match add_at k' c r with Some r' => Some (f :: r') | None => None end
    end.

  Definition add_blocked_cube (tr : trace) (fid : frame_id) (c : cube) : option trace :=
    match fid with
    | FInit => None                                         (* "Cannot index init frame" *)
    | FFinite k => match add_at k c (frames tr) with
                   | Some fs => Some {| frames := fs; inf := inf tr |}
                   | None => None                           (* index out of bounds *)
                   end
    | FInf => Some {| frames := frames tr; inf := c :: inf tr |}
    end.

  (** split the cubes of a frame by the solver's answers ([true] = the relative-induction
      query was UNSAT, the cube moves on); missing answers count as "not UNSAT" *)
  Fixpoint split_by (cs : list cube) (ans : list bool) : list cube * list cube :=
    match cs with
    | [] => ([], [])
    | c :: r =>
        let a := match ans with a :: _ => a | [] => false end in
        let p := split_by r (tl ans) in
        if a then (c :: fst p, snd p) else (fst p, c :: snd p)
    end.

  (** replace the lists at positions [k] and [k+1] (1-based) *)
  Fixpoint move_at (k : nat) (ans : list bool) (fs : list (list cube)) : option (list (list cube) * bool) :=
    match k, fs with
    | O, _ => None
    | S O, f :: g :: r =>
        let p := split_by f ans in
        Some (snd p :: (fst p ++ g) :: r, match snd p with [] => true | _ => false end)
    | S O, _ => None
    | S k', f :: r => match move_at k' ans r with Some (r', b) => Some (f :: r', b) | None => None end
    | _, [] => None
    end.

  (** the cubes of frame [k] whose query was answered UNSAT *)
  Definition moved_cubes (tr : trace) (k : nat) (ans : list bool) : list cube :=
    fst (split_by (nth (pred k) (frames tr) []) ans).

  (** one frame of [propagate_blocked_cubes]: the result says whether frame [k] became empty
      (fixpoint: F_k = F_{k+1}) *)
  Definition propagate_frame (tr : trace) (k : nat) (ans : list bool) : option (trace * bool) :=
    match move_at k ans (frames tr) with
    | Some (fs, b) => Some ({| frames := fs; inf := inf tr |}, b)
    | None => None
    end.

  (** [propagate_blocked_cubes] finally offers every cube of the frontier frame to the infinite
      frame (pdr.rs:1059-1103): logically this is [add_blocked_cube tr FInf c] for the cubes whose
      query was UNSAT (the copy that stays behind in the frontier frame is redundant), so there is
      no separate operation for it; likewise the clean-up that precedes [Success]
      (pdr.rs:1033-1052) happens after the verdict is determined. *)

  (** ** proof obligations *)
  Definition obligation : Type := (St * nat)%type.       (* state, frame *)

  (** the obligation with the smallest frame ([BinaryHeap] with the reversed order, pdr.rs:95-104) *)
  Fixpoint pop_min (q : list obligation) : option (obligation * list obligation) :=
    match q with
    | [] => None
    | o :: r =>
        match pop_min r with
        | None => Some (o, [])
        | Some (m, r') => if snd o <=? snd m then Some (o, r) else Some (m, o :: r')
        end
    end.

  (** the solver's answer to the relative-induction query of an obligation *)
  Inductive answer : Type :=
  | Sat (pred : St)                    (* a predecessor in the previous frame *)
  | Unsat (g : cube) (target : nat).   (* blocked: generalised cube and the frame it is pushed to *)

  Inductive block_result : Type :=
  | AllBlocked                                   (* [Ok(true)] *)
  | CounterExample (s : St)                      (* an obligation reached the initial frame: [Ok(false)] *)
  | Continue (tr : trace) (q : list obligation)
  | Panic.

  Definition block_step (tr : trace) (q : list obligation) (ans : answer) : block_result :=
    match pop_min q with
    | None => AllBlocked
    | Some ((s, O), _) => CounterExample s
    | Some ((s, S j), q') =>
        match ans with
        | Sat p => Continue tr ((p, j) :: (s, S j) :: q')
        | Unsat g t =>
            match add_blocked_cube tr (FFinite t) g with
            | Some tr' => Continue tr' q'
            | None => Panic
            end
        end
    end.

  (** ** a checker of the frame invariants over an explicitly listed state space *)
  Variable states : list St.

  Definition all_states (p : St -> bool) : bool := forallb p states.
  Definition implb' (a b : bool) : bool := if a then b else true.

  Definition check_frame (tr : trace) (i : nat) : bool :=
    (* F_i /\ T => F'_{i+1} ;  F_i => not Bad   (for i below the frontier) *)
    all_states (fun s => implb' (frame_holds tr i s)
                           (forallb (fun s' => implb' (trans s s') (frame_holds tr (S i) s')) states)) &&
    all_states (fun s => implb' (frame_holds tr i s) (negb (bad s))).

  (* Init => F_i   (for i up to the frontier) *)
  Definition check_init (tr : trace) (i : nat) : bool :=
    all_states (fun s => implb' (init s) (frame_holds tr i s)).

  Definition check_inf (tr : trace) : bool :=
    all_states (fun s => implb' (init s) (inf_holds tr s)) &&
    all_states (fun s => implb' (inf_holds tr s)
                           (forallb (fun s' => implb' (trans s s') (inf_holds tr s')) states)).

  Definition check_inv (tr : trace) : bool :=
    forallb (check_frame tr) (seq 0 (frontier tr)) &&
    forallb (check_init tr) (seq 0 (S (frontier tr))) &&
    check_inf tr.
End Ic3.
