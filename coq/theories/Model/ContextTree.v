(** * Model/ContextTree.v — the tree a reference stands for

    [cx_tree fuel c r] unfolds the DAG below reference [r] of context [c] into the
    tree type of Model/Expr.v (the type every other property reasons about):
    symbol nodes get their name string, literal nodes their value.  It is [None]
    when the fuel runs out or a reference / name reference below [r] does not exist.
    No proofs here. *)
From Coq Require Import NArith List String.
From Patronus Require Import Expr Context.
Import ListNotations.
Open Scope N_scope.

Definition cx_bin_expr (o : cx_binop) (a b : expr) (w : N) : expr :=
  match o with
  | CxAnd => BVAnd a b w | CxOr => BVOr a b w | CxXor => BVXor a b w | CxShl => BVShiftLeft a b w
  | CxAshr => BVArithmeticShiftRight a b w | CxLshr => BVShiftRight a b w | CxAdd => BVAdd a b w
  | CxMul => BVMul a b w | CxSDiv => BVSignedDiv a b w | CxUDiv => BVUnsignedDiv a b w
  | CxSMod => BVSignedMod a b w | CxSRem => BVSignedRem a b w | CxURem => BVUnsignedRem a b w
  | CxSub => BVSub a b w
  end.

Definition cx_o1 (x : option expr) (f : expr -> expr) : option expr :=
  match x with Some a => Some (f a) | None => None end.
Definition cx_o2 (x y : option expr) (f : expr -> expr -> expr) : option expr :=
  match x, y with Some a, Some b => Some (f a b) | _, _ => None end.
Definition cx_o3 (x y z : option expr) (f : expr -> expr -> expr -> expr) : option expr :=
  match x, y, z with Some a, Some b, Some c => Some (f a b c) | _, _, _ => None end.

Fixpoint cx_tree (fuel : nat) (c : cx) (r : N) : option expr :=
  match fuel with
  | O => None
  | S k =>
      let t := cx_tree k c in
      match cx_lookup c r with
      | None => None
      | Some n =>
          match n with
          | CnBVSymbol s w => match cx_nth (cx_strings c) s with Some nm => Some (BVSymbol nm w) | None => None end
          | CnBVLiteral idx w => Some (BVLiteral w (cx_value_of_words (cx_words_at (cx_values c) idx w)))
          | CnBVZeroExt e b w => cx_o1 (t e) (fun x => BVZeroExt x b w)
          | CnBVSignExt e b w => cx_o1 (t e) (fun x => BVSignExt x b w)
          | CnBVSlice e hi lo => cx_o1 (t e) (fun x => BVSlice x hi lo)
          | CnBVNot e w => cx_o1 (t e) (fun x => BVNot x w)
          | CnBVNegate e w => cx_o1 (t e) (fun x => BVNegate x w)
          | CnBVEqual a b => cx_o2 (t a) (t b) BVEqual
          | CnBVImplies a b => cx_o2 (t a) (t b) BVImplies
          | CnBVGreater a b => cx_o2 (t a) (t b) BVGreater
          | CnBVGreaterSigned a b w => cx_o2 (t a) (t b) (fun x y => BVGreaterSigned x y w)
          | CnBVGreaterEqual a b => cx_o2 (t a) (t b) BVGreaterEqual
          | CnBVGreaterEqualSigned a b w => cx_o2 (t a) (t b) (fun x y => BVGreaterEqualSigned x y w)
          | CnBVConcat a b w => cx_o2 (t a) (t b) (fun x y => BVConcat x y w)
          | CnBVBin o a b w => cx_o2 (t a) (t b) (fun x y => cx_bin_expr o x y w)
          | CnBVArrayRead a i w => cx_o2 (t a) (t i) (fun x y => BVArrayRead x y w)
          | CnBVIte cnd tr fl => cx_o3 (t cnd) (t tr) (t fl) BVIte
          | CnArraySymbol s iw dw => match cx_nth (cx_strings c) s with Some nm => Some (ArraySymbol nm iw dw) | None => None end
          | CnArrayConstant e iw dw => cx_o1 (t e) (fun x => ArrayConstant x iw dw)
          | CnArrayEqual a b => cx_o2 (t a) (t b) ArrayEqual
          | CnArrayStore a i d => cx_o3 (t a) (t i) (t d) ArrayStore
          | CnArrayIte cnd tr fl => cx_o3 (t cnd) (t tr) (t fl) ArrayIte
          end
      end
  end.

(** words are machine words *)
Definition cx_words_bounded (ws : list N) : bool := forallb (fun x => x <? cx_word_base) ws.

Definition cx_op_words_ok (o : cx_op) : bool :=
  match o with
  | CoBvLit _ ws => cx_words_bounded ws
  | CoLitArr _ d es =>
      cx_words_bounded (snd d) &&
      forallb (fun e => cx_words_bounded (snd (fst e)) && cx_words_bounded (snd (snd e))) es
  | _ => true
  end.
