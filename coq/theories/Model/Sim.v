(** * Model/Sim.v — the interpreter-based simulator of patronus/src/sim/interpreter.rs
    together with the value store [SymbolValueStore] of patronus/src/expr/eval.rs:21-90.

    - [store]: the value store as an association list keyed by expression
      ([ExprRef] equality = structural equality, property C12), in definition
      order.  [define] = [define_bv]/[define_array] (eval.rs:29-49, the
      [debug_assert!(!contains_key)] makes a second definition a panic in the
      builds the correspondence check observes), [update] = [update] /
      [update_bv] / [update_array] (eval.rs:37-61: [self.lookup[&symbol]]
      panics for an unknown key), [store_provider] = [impl GetExprValue for
      SymbolValueStore] (eval.rs:70-90: the width of a bit-vector is taken from
      the type of the expression asked for, any expression may be asked for).
    - [exec]: [init] (interpreter.rs:106-126: clear, allocate states then
      inputs with generated values, then evaluate the init expressions
      sequentially, in state order, over the store being updated), [step]
      (128-149: all next values first, then commit, then count), [set] (151),
      [get] (155), [step_count] (159), [take_snapshot] (163: clone the store),
      [restore_snapshot] (169: clone back, the step count is left alone).
    - expression evaluation is [EvalImpl.eval_impl], the stack machine of eval.rs.

    Three-way results: [Done], [Crash] (the Rust code panics) and [Unmodelled]:
    the Rust code does *not* panic but does something this abstract store cannot
    express - [update_bv] with a value whose width differs from the defined one,
    or with the key of an array (eval.rs:37-42 builds the word index from the
    width of the *new* value and the raw index of whatever is stored under the
    key, so neighbouring words are overwritten or an unrelated array slot is
    used).  Theorem [no_crash] shows that neither happens for well-formed
    systems and histories; the harness does not generate such calls.

    Abstractions (stated in the report): [step_count : u64] and the snapshot id
    ([u32]) are unbounded [N] here; the 64-bit word layout of [bit_vec_words] is
    not modelled (it is exercised by the correspondence check with widths on
    both sides of 64 and 128); waveform dumping is absent ([wavedump = None]).

    Executable definitions only. *)

From Patronus Require Export SimSpec EvalImpl.
Open Scope N_scope.

Inductive sval : Type :=
| SBV (w v : N)
| SArr (iw dw : N) (f : N -> N).

Definition store : Type := list (expr * sval).

Fixpoint lookup (k : expr) (st : store) : option sval :=
  match st with
  | [] => None
  | (k', v) :: r => if expr_eqb k' k then Some v else lookup k r
  end.

Inductive outcome (A : Type) : Type :=
| Done (a : A)
| Crash
| Unmodelled.
Arguments Done {A} a.
Arguments Crash {A}.
Arguments Unmodelled {A}.

Definition bind {A B : Type} (x : outcome A) (f : A -> outcome B) : outcome B :=
  match x with Done a => f a | Crash => Crash | Unmodelled => Unmodelled end.

(** [define_bv] / [define_array] *)
Definition define (k : expr) (v : sval) (st : store) : outcome store :=
  match lookup k st with
  | Some _ => Crash                                (* debug_assert!(!self.lookup.contains_key(&symbol)) *)
  | None => Done (st ++ [(k, v)])
  end.

Definition same_shape (a b : sval) : bool :=
  match a, b with
  | SBV w _, SBV w' _ => w =? w'
  | SArr iw dw _, SArr iw' dw' _ => (iw =? iw') && (dw =? dw')
  | _, _ => false
  end.

Fixpoint replace (k : expr) (v : sval) (st : store) : store :=
  match st with
  | [] => []
  | (k', v') :: r => if expr_eqb k' k then (k', v) :: r else (k', v') :: replace k v r
  end.

(** [update] *)
Definition update (k : expr) (v : sval) (st : store) : outcome store :=
  match lookup k st with
  | None => Crash                                  (* self.lookup[&symbol] *)
  | Some old => if same_shape old v then Done (replace k v st) else Unmodelled
  end.

(** [impl GetExprValue for SymbolValueStore] *)
Definition store_provider (st : store) : provider :=
  {| get_bv := fun e =>
       match type_of e with                        (* symbol.get_bv_type(ctx)? *)
       | TBV w => match lookup e st with
                  | Some (SBV _ v) => Some (w, v)
                  | _ => None
                  end
       | TArr _ _ => None
       end;
     get_array := fun e =>
       match lookup e st with
       | Some (SArr iw dw f) => Some (iw, dw, f)
       | _ => None
       end |}.

(** [eval_expr(&self.ctx, &self.data, e)] *)
Definition eval_store (st : store) (e : expr) : outcome sval :=
  match eval_impl (store_provider st) e with
  | RBV w v => Done (SBV w v)
  | RArr iw dw f => Done (SArr iw dw f)
  | RPanic | RBadStacks => Crash
  | ROutOfFuel => Unmodelled                       (* artefact of the fuelled machine; never happens *)
  end.

(** [InitValueGenerator::generate(tpe)]: the [pos]-th generated value *)
Definition gen_value (k : init_kind) (pos : nat) (t : ty) : sval :=
  match t with
  | TBV w => SBV w (gen_bv k pos)
  | TArr iw dw => SArr iw dw (gen_arr k pos)
  end.

(** the two allocation loops of [init] ([init_signal] for every symbol) *)
Fixpoint alloc (k : init_kind) (pos : nat) (syms : list expr) (st : store) : outcome store :=
  match syms with
  | [] => Done st
  | s :: r => bind (define s (gen_value k pos (type_of s)) st) (alloc k (S pos) r)
  end.

(** the third loop of [init]: sequential, over the store being updated *)
Fixpoint run_inits (sts : list state) (st : store) : outcome store :=
  match sts with
  | [] => Done st
  | s :: r =>
      match st_init s with
      | None => run_inits r st
      | Some e => bind (eval_store st e) (fun v => bind (update (st_sym s) v st) (run_inits r))
      end
  end.

(** [step]: first all next values ... *)
Fixpoint next_values (sts : list state) (st : store) : outcome (list (option sval)) :=
  match sts with
  | [] => Done []
  | s :: r =>
      match st_next s with
      | None => bind (next_values r st) (fun vs => Done (None :: vs))
      | Some e => bind (eval_store st e) (fun v => bind (next_values r st) (fun vs => Done (Some v :: vs)))
      end
  end.

(** ... then commit them in state order *)
Fixpoint commit (sts : list state) (vals : list (option sval)) (st : store) : outcome store :=
  match sts, vals with
  | s :: r, Some v :: vs => bind (update (st_sym s) v st) (commit r vs)
  | _ :: r, None :: vs => commit r vs st
  | _, _ => Done st
  end.

Record sim : Type := { data : store; snaps : list store; steps : N }.

Definition sim0 : sim := {| data := []; snaps := []; steps := 0 |}.

Inductive obs : Type :=
| ONone
| OVal (v : sval)
| ONum (n : N).

Definition exec (sy : sys) (s : sim) (o : op) : outcome (sim * obs) :=
  match o with
  | OInit k =>
      bind (alloc k 0 (decls sy) [])
        (fun st => bind (run_inits (s_states sy) st)
           (fun st' => Done ({| data := st'; snaps := snaps s; steps := steps s |}, ONone)))
  | OSet sym w v =>
      bind (update sym (SBV w v) (data s))
        (fun st => Done ({| data := st; snaps := snaps s; steps := steps s |}, ONone))
  | OStep =>
      bind (next_values (s_states sy) (data s))
        (fun vs => bind (commit (s_states sy) vs (data s))
           (fun st => Done ({| data := st; snaps := snaps s; steps := steps s + 1 |}, ONone)))
  | OGet e => bind (eval_store (data s) e) (fun v => Done (s, OVal v))
  | OCount => Done (s, ONum (steps s))
  | OSnapshot =>
      Done ({| data := data s; snaps := snaps s ++ [data s]; steps := steps s |},
            ONum (N.of_nat (length (snaps s))))
  | ORestore i =>
      match nth_error (snaps s) (N.to_nat i) with
      | Some st => Done ({| data := st; snaps := snaps s; steps := steps s |}, ONone)
      | None => Crash                              (* self.snapshots[id as usize] *)
      end
  end.

Fixpoint run (sy : sys) (s : sim) (h : list op) : outcome (sim * list obs) :=
  match h with
  | [] => Done (s, [])
  | o :: r => bind (exec sy s o) (fun '(s1, b) =>
              bind (run sy s1 r) (fun '(s2, bs) => Done (s2, b :: bs)))
  end.

(** the valuation a store denotes (symbols that are not stored read as 0) *)
Definition env_of (st : store) : env :=
  {| rho_bv := fun n w => match lookup (BVSymbol n w) st with Some (SBV _ v) => v | _ => 0 end;
     rho_arr := fun n iw dw => match lookup (ArraySymbol n iw dw) st with
                               | Some (SArr _ _ f) => f | _ => fun _ => 0 end |}.

(** renumbering of the snapshot ids of a continuation that is replayed after
    [delta] further snapshots were taken: ids below [base] are old snapshots *)
Definition shift_op (base delta : N) (o : op) : op :=
  match o with
  | ORestore i => if i <? base then ORestore i else ORestore (i + delta)
  | _ => o
  end.
