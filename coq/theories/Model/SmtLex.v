(** * Model/SmtLex.v — the lexer at the end of patronus/src/smt/parser.rs, as a
    character-level state machine.

    [lex_impl s] is the sequence of tokens the iterator [Lexer::next] yields on input [s].
    The Rust lexer is lazy; a call of [next] that would panic is represented by the final
    element [TkLexPanic] (nothing follows it).  The two ways to panic:
    - the input ends inside a [|quoted symbol], inside a string literal, or directly after
      the closing quote of a string literal ([todo!] at parser.rs:1072);
    - an empty comment terminated by a line break: [&input[start..pos - 1]] with
      [pos = start] (parser.rs:1043).

    Token payloads: [TkValue] the characters of the token; [TkEscaped] the characters between
    the bars; [TkStringLit] the characters between the outer quotes (doubled quotes kept);
    comments carry nothing (the parser ignores them).

    Variant [Fix] mirrors patches/0005 and 0006: at the end of the input a string literal whose
    closing quote was the last character is returned, an open quoted symbol / string literal is
    returned as the token [TkUnterminated] (which the parser answers with an error), and an empty
    comment is a comment.  [TkLexPanic] does not occur in that variant.

    Executable definitions only. *)

From Coq Require Export String Ascii List.
From Patronus Require Export Smt SmtSer.
Open Scope string_scope.
Open Scope list_scope.
Open Scope N_scope.

Inductive ltok : Type :=
| TkOpen
| TkClose
| TkValue (s : string)
| TkEscaped (s : string)
| TkStringLit (s : string)
| TkComment
| TkLexPanic
| TkUnterminated.

(** [LexState]; accumulators are reversed *)
Inductive lxstate : Type :=
| XSearching
| XToken (acc : string)
| XEscaped (acc : string)
| XString (acc : string)
| XStringQuote (acc : string)          (* StringLiteralQuoteFound *)
| XComment (nonempty : bool).

(** white space of the lexer: space, line feed, carriage return, tab *)
Definition lx_ws (c : ascii) : bool :=
  Ascii.eqb c " "%char || (cn c =? 10) || (cn c =? 13) || (cn c =? 9).

(** characters that end a plain token (and are not consumed by it) *)
Definition lx_token_end (c : ascii) : bool :=
  Ascii.eqb c c_bar || Ascii.eqb c c_open || Ascii.eqb c c_close || lx_ws c.

(** the [Searching] arm: the character is consumed *)
Definition lx_search (c : ascii) (out : list ltok) : lxstate * list ltok :=
  if Ascii.eqb c c_bar then (XEscaped EmptyString, out)
  else if Ascii.eqb c c_open then (XSearching, TkOpen :: out)
  else if Ascii.eqb c c_close then (XSearching, TkClose :: out)
  else if lx_ws c then (XSearching, out)
  else if Ascii.eqb c c_dquote then (XString EmptyString, out)
  else if Ascii.eqb c c_semi then (XComment false, out)
  else (XToken (String c EmptyString), out).

Section V.
Variable v : variant.

(** [out] is reversed; the result is in order *)
Fixpoint lx_go (st : lxstate) (s : string) (out : list ltok) : list ltok :=
  match s with
  | EmptyString =>
      match st with
      | XSearching => rev out
      | XToken acc => rev (TkValue (srev acc) :: out)
      | XComment _ => rev (TkComment :: out)
      | XStringQuote acc =>
          match v with Cur => rev (TkLexPanic :: out) | Fix | Fix2 => rev (TkStringLit (srev acc) :: out) end
      | XEscaped _ | XString _ =>
          match v with Cur => rev (TkLexPanic :: out) | Fix | Fix2 => rev (TkUnterminated :: out) end
      end
  | String c r =>
      match st with
      | XSearching => let (st', out') := lx_search c out in lx_go st' r out'
      | XToken acc =>
          if lx_token_end c then
            (* the token is returned, the character is looked at again when searching *)
            let (st', out') := lx_search c (TkValue (srev acc) :: out) in lx_go st' r out'
          else lx_go (XToken (String c acc)) r out
      | XEscaped acc =>
          if Ascii.eqb c c_bar then lx_go XSearching r (TkEscaped (srev acc) :: out)
          else lx_go (XEscaped (String c acc)) r out
      | XString acc =>
          if Ascii.eqb c c_dquote then lx_go (XStringQuote acc) r out
          else lx_go (XString (String c acc)) r out
      | XStringQuote acc =>
          if Ascii.eqb c c_dquote then lx_go (XString (String c (String c acc))) r out
          else let (st', out') := lx_search c (TkStringLit (srev acc) :: out) in lx_go st' r out'
      | XComment nonempty =>
          if (cn c =? 10) || (cn c =? 13) then
            if nonempty || match v with Cur => false | Fix | Fix2 => true end then
              let (st', out') := lx_search c (TkComment :: out) in lx_go st' r out'
            else rev (TkLexPanic :: out)
          else lx_go (XComment true) r out
      end
  end.

Definition lex_impl (s : string) : list ltok := lx_go XSearching s [].

End V.

(** the implementation's tokens for a reference token: the writer only produces plain
    tokens and |quoted| symbols *)
Definition ltok_of_atom (a : string) : ltok :=
  match a with
  | String c r =>
      if Ascii.eqb c c_bar then
        match quoted_body r with Some b => TkEscaped b | None => TkValue a end
      else TkValue a
  | EmptyString => TkValue a
  end.

Definition ltok_of (t : stok) : ltok :=
  match t with StOpen => TkOpen | StClose => TkClose | StAtom a => ltok_of_atom a end.

(** canonical text of a token sequence: every token followed by one space *)
Fixpoint render (ts : list stok) : string :=
  match ts with
  | [] => EmptyString
  | StOpen :: r => String c_open (String " "%char (render r))
  | StClose :: r => String c_close (String " "%char (render r))
  | StAtom a :: r => String.append a (String " "%char (render r))
  end.
