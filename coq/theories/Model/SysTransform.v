(** * Model/SysTransform.v — patronus/src/system/transform.rs and
    [TransitionSystem::update_expressions] (transition_system.rs:123-167).

    [do_transform] collects all expressions of the system, transforms them (fixed point for
    the simplifier, single step for the zero substitution) and re-points inputs,
    constraints, bad states, outputs, state symbol/init/next through the result map.
    Signal names ([names] map) are not part of this model: the property does not constrain
    them.  Executable definitions only. *)
From Patronus Require Export System Simplify.
Open Scope N_scope.

Definition opt_map {A B} (f : A -> option B) (o : option A) : option (option B) :=
  match o with
  | None => Some None
  | Some x => match f x with Some y => Some (Some y) | None => None end
  end.

Fixpoint map_opt {A B} (f : A -> option B) (l : list A) : option (list B) :=
  match l with
  | [] => Some []
  | x :: rest => match f x, map_opt f rest with
                 | Some y, Some ys => Some (y :: ys)
                 | _, _ => None
                 end
  end.

(** re-point every expression of the system through [upd] ([None] = the transformation failed) *)
Definition update_sys (upd : expr -> option expr) (sy : sys) : option sys :=
  match map_opt upd (s_inputs sy),
        map_opt (fun st => match upd (st_sym st), opt_map upd (st_init st), opt_map upd (st_next st) with
                           | Some s, Some i, Some n => Some {| st_sym := s; st_init := i; st_next := n |}
                           | _, _, _ => None end) (s_states sy),
        map_opt (fun o => match upd (snd o) with Some e => Some (fst o, e) | None => None end) (s_outputs sy),
        map_opt upd (s_bads sy),
        map_opt upd (s_constraints sy) with
  | Some i, Some s, Some o, Some b, Some c =>
      Some {| s_inputs := i; s_states := s; s_outputs := o; s_bads := b; s_constraints := c |}
  | _, _, _, _, _ => None
  end.

(** [simplify_expressions] *)
Definition simp_opt (fuel : nat) (e : expr) : option expr :=
  match simp fuel e with SOk r => Some r | _ => None end.

Definition simplify_sys (fuel : nat) (sy : sys) : option sys := update_sys (simp_opt fuel) sy.

(** ** [replace_anonymous_inputs_with_zero] *)
Definition DEFAULT_INPUT_PREFIX : string := "_input".
Definition DEFAULT_STATE_PREFIX : string := "_state".

Definition sym_name (e : expr) : option string :=
  match e with BVSymbol n _ | ArraySymbol n _ _ => Some n | _ => None end.

Definition is_anonymous (e : expr) : bool :=
  match sym_name e with
  | Some n => String.prefix DEFAULT_INPUT_PREFIX n || String.prefix DEFAULT_STATE_PREFIX n
  | None => false
  end.

Definition zero_of (e : expr) : expr :=
  match type_of e with
  | TBV w => mk_zero w
  | TArr iw dw => ArrayConstant (mk_zero dw) iw dw
  end.

Definition mem_expr (e : expr) (l : list expr) : bool := existsb (expr_eqb e) l.

(** the node [e] with [f] applied to every child ([update_expr_children] with mapped children) *)
Definition map_children (f : expr -> expr) (e : expr) : expr :=
  match e with
  | BVSymbol _ _ | BVLiteral _ _ | ArraySymbol _ _ _ => e
  | BVZeroExt a by_ w => BVZeroExt (f a) by_ w
  | BVSignExt a by_ w => BVSignExt (f a) by_ w
  | BVSlice a hi lo => BVSlice (f a) hi lo
  | BVNot a w => BVNot (f a) w
  | BVNegate a w => BVNegate (f a) w
  | BVEqual a b => BVEqual (f a) (f b)
  | BVImplies a b => BVImplies (f a) (f b)
  | BVGreater a b => BVGreater (f a) (f b)
  | BVGreaterSigned a b w => BVGreaterSigned (f a) (f b) w
  | BVGreaterEqual a b => BVGreaterEqual (f a) (f b)
  | BVGreaterEqualSigned a b w => BVGreaterEqualSigned (f a) (f b) w
  | BVConcat a b w => BVConcat (f a) (f b) w
  | BVAnd a b w => BVAnd (f a) (f b) w
  | BVOr a b w => BVOr (f a) (f b) w
  | BVXor a b w => BVXor (f a) (f b) w
  | BVShiftLeft a b w => BVShiftLeft (f a) (f b) w
  | BVArithmeticShiftRight a b w => BVArithmeticShiftRight (f a) (f b) w
  | BVShiftRight a b w => BVShiftRight (f a) (f b) w
  | BVAdd a b w => BVAdd (f a) (f b) w
  | BVMul a b w => BVMul (f a) (f b) w
  | BVSignedDiv a b w => BVSignedDiv (f a) (f b) w
  | BVUnsignedDiv a b w => BVUnsignedDiv (f a) (f b) w
  | BVSignedMod a b w => BVSignedMod (f a) (f b) w
  | BVSignedRem a b w => BVSignedRem (f a) (f b) w
  | BVUnsignedRem a b w => BVUnsignedRem (f a) (f b) w
  | BVSub a b w => BVSub (f a) (f b) w
  | BVArrayRead a i w => BVArrayRead (f a) (f i) w
  | BVIte c t e' => BVIte (f c) (f t) (f e')
  | ArrayConstant a iw dw => ArrayConstant (f a) iw dw
  | ArrayEqual a b => ArrayEqual (f a) (f b)
  | ArrayStore a i d => ArrayStore (f a) (f i) (f d)
  | ArrayIte c t e' => ArrayIte (f c) (f t) (f e')
  end.

(** single-step transformation with [tran e = Some (zero_of e)] on the removed inputs:
    bottom-up, a replaced node is not visited again *)
Fixpoint subst_zero (removed : list expr) (e : expr) {struct e} : expr :=
  if mem_expr e removed then zero_of e
  else map_children (subst_zero removed) e.

Definition replace_anonymous_inputs_with_zero (sy : sys) : sys :=
  let removed := filter is_anonymous (s_inputs sy) in
  let kept := filter (fun i => negb (is_anonymous i)) (s_inputs sy) in
  let sy1 := {| s_inputs := kept; s_states := s_states sy; s_outputs := s_outputs sy;
                s_bads := s_bads sy; s_constraints := s_constraints sy |} in
  match update_sys (fun e => Some (subst_zero removed e)) sy1 with
  | Some r => r
  | None => sy1
  end.

(** occurrence of a symbol in an expression *)
Definition any_child (p : expr -> bool) (e : expr) : bool :=
  match e with
  | BVSymbol _ _ | BVLiteral _ _ | ArraySymbol _ _ _ => false
  | BVZeroExt a _ _ | BVSignExt a _ _ | BVSlice a _ _ | BVNot a _ | BVNegate a _
  | ArrayConstant a _ _ => p a
  | BVEqual a b | BVImplies a b | BVGreater a b | BVGreaterSigned a b _
  | BVGreaterEqual a b | BVGreaterEqualSigned a b _ | BVConcat a b _
  | BVAnd a b _ | BVOr a b _ | BVXor a b _ | BVShiftLeft a b _
  | BVArithmeticShiftRight a b _ | BVShiftRight a b _ | BVAdd a b _ | BVMul a b _
  | BVSignedDiv a b _ | BVUnsignedDiv a b _ | BVSignedMod a b _ | BVSignedRem a b _
  | BVUnsignedRem a b _ | BVSub a b _ | BVArrayRead a b _ | ArrayEqual a b => p a || p b
  | BVIte a b c | ArrayStore a b c | ArrayIte a b c => p a || p b || p c
  end.

Fixpoint occurs (s : expr) (e : expr) {struct e} : bool :=
  expr_eqb s e || any_child (occurs s) e.

(** generous default fuel used when the model is run against the implementation *)
Definition sys_fuel (sy : sys) : nat :=
  N.to_nat (fold_left (fun acc e => acc + 500 * N.of_nat (size e)) (all_exprs sy) 50000).
Definition simplify_sys_default (sy : sys) : option sys := simplify_sys (sys_fuel sy) sy.
