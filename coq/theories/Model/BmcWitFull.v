(** * Model/BmcWitFull.v — [bmc] of patronus/src/mc/bmc.rs with ALL its parameters and all its exits.

    Model/BmcWit.v models [bmc(ctx, smt, sys, false, individually, k_max)] over a solver that only ever
    answers "sat + model" or "unsat".  This file models the whole function:

      - [check_constraints = true]: after the constraints of step [k] have been asserted, a plain
        (check-sat): "unknown" ends the run with the verdict Unknown, "unsat" trips
        [assert_eq!(res, Sat, "Found unsatisfiable constraints in cycle k")] (a panic), an error is returned;
      - [check_bad_states_individually] both ways, with the calls in the order of the code: in the
        individual mode [get_signal_at] is called bad state by bad state (a panic there comes after the
        queries of the earlier bad states), in the joint mode all step symbols are collected first and
        [reduce(or).unwrap()] follows;
      - the answers of the solver: [SSat m] (with the model [m]), [SUnsat], [SUnknown] (verdict Unknown
        since /repo 957ea88) and [SErr e] (the SolverContext method returned [Err]: returned with `?`);
      - every other SolverContext call of the function can fail too ([sv_fault]: set-logic, the header,
        init_at, each assert, check_assuming_end (the pop of the push/pop emulation), unroll), and so can
        every single (get-value) of [get_witness] ([sv_value] answers [GVal v] or [GErr e]);
      - [get_witness] with its calls in the order of the code (bad states at [k], states at 0, inputs at
        [0..k]): the first failing get-value is the error that is returned; an array value for a bad state
        is [unreachable!] (panic); [get_signal_at] on something that is not a signal panics;
      - [assert!(k_max <= 2000)].

    [sv_check sc asserts assumps] stands for (check-sat-assuming assumps) / push, assert, check-sat after
    the definitions [sc] and the assertions [asserts]; the plain (check-sat) of [check_constraints] is
    [sv_check sc asserts []].  [sv_value sc m s] is the answer to (get-value (s)) after a "sat" answer with
    the model [m].

    Executable definitions only; proofs in Proofs/BmcWitFullProofs.v. *)
From Coq Require Import List Bool Arith.
From Patronus Require Export Bmc Witness BmcWit.
Import ListNotations.
Open Scope N_scope.

Section Full.
  Variable EM : Type.                         (* error messages of the solver context *)

  Inductive sanswer : Type :=
  | SSat (m : env)
  | SUnsat
  | SUnknown
  | SErr (e : EM).

  Inductive gvres : Type :=
  | GVal (x : val)
  | GErr (e : EM).

  (** the SolverContext calls that carry no answer *)
  Inductive phase : Type :=
  | PhSetLogic
  | PhHeader
  | PhInit
  | PhAssert (k : N) (i : nat)                (* the i-th constraint of step k *)
  | PhCheckEnd (k : N) (i : nat)              (* check_assuming_end after the i-th query of step k *)
  | PhUnroll (k : N).

  Record solver : Type := {
    sv_check : list cmd -> list expr -> list expr -> sanswer;
    sv_value : list cmd -> env -> expr -> gvres;
    sv_fault : phase -> option EM
  }.

  Inductive bmc_result_f : Type :=
  | FSuccess
  | FUnknown
  | FFail (k : N) (w : witness)
  | FErr (e : EM)
  | FPanic.

  (** results of the pieces: a value, an error (`?`), a panic *)
  Inductive wres (A : Type) : Type :=
  | WOk (a : A)
  | WErr (e : EM)
  | WPan.
  Arguments WOk {A}. Arguments WErr {A}. Arguments WPan {A}.

  Definition wbind {A B : Type} (x : wres A) (f : A -> wres B) : wres B :=
    match x with
    | WOk a => f a
    | WErr e => WErr e
    | WPan => WPan
    end.

  (** ** get_witness *)
  Section GetWitness.
    Variable en : enc.
    Variable gv : expr -> gvres.

    (** which bad states did we hit? *)
    Fixpoint failed_f (bads : list expr) (k i : N) : wres (list N) :=
      match bads with
      | [] => WOk []
      | b :: r =>
          match get_signal_at en b k with
          | None => WPan
          | Some s =>
              match gv s with
              | GErr e => WErr e
              | GVal (VA _) => WPan                       (* unreachable!("should always be a bitvector!") *)
              | GVal (VB x) =>
                  wbind (failed_f r k (i + 1)) (fun l => WOk (if x =? 0 then l else i :: l))
              end
          end
      end.

    (** the values of the step-[k] symbols of [syms], in order *)
    Fixpoint values_f (syms : list expr) (k : N) : wres (list (option val)) :=
      match syms with
      | [] => WOk []
      | s :: r =>
          match get_signal_at en s k with
          | None => WPan
          | Some x =>
              match gv x with
              | GErr e => WErr e
              | GVal y => wbind (values_f r k) (fun l => WOk (Some y :: l))
              end
          end
      end.

    Fixpoint inputs_f (ks : list N) : wres (list (list (option val))) :=
      match ks with
      | [] => WOk []
      | k :: r =>
          wbind (values_f (s_inputs (e_sys en)) k) (fun a =>
          wbind (inputs_f r) (fun l => WOk (a :: l)))
      end.

    Definition get_witness_f (k : N) : wres witness :=
      wbind (failed_f (s_bads (e_sys en)) k 0) (fun failed =>
      wbind (values_f (state_syms (e_sys en)) 0) (fun init =>
      wbind (inputs_f (range (k + 1))) (fun ins =>
      WOk {| w_init := init;
             w_init_names := map (fun s => Some (sym_name_of s)) (state_syms (e_sys en));
             w_inputs := ins;
             w_input_names := map (fun s => Some (sym_name_of s)) (s_inputs (e_sys en));
             w_failed := failed |}))).
  End GetWitness.

  (** ** the loop *)
  Section LoopF.
    Variable v : variant.
    Variable sv : solver.

    (** the result of the bad-state queries of one step *)
    Inductive hit : Type :=
    | HSat (m : env)
    | HNone
    | HUnknown
    | HErr (e : EM)
    | HPanic.

    Definition after_unsat (k : N) (i : nat) (cont : hit) : hit :=
      match sv_fault sv (PhCheckEnd k i) with
      | Some e => HErr e
      | None => cont
      end.

    (** one query per bad state, in order, until the first answer that is not "unsat" *)
    Fixpoint first_hit (en : enc) (sc : list cmd) (asserts : list expr) (bads : list expr) (k : N) (i : nat) : hit :=
      match bads with
      | [] => HNone
      | b :: r =>
          match get_signal_at en b k with
          | None => HPanic
          | Some s =>
              match sv_check sv sc asserts [s] with
              | SSat m => HSat m
              | SUnknown => HUnknown
              | SErr e => HErr e
              | SUnsat => after_unsat k i (first_hit en sc asserts r k (S i))
              end
          end
      end.

    (** one query for the disjunction *)
    Definition joint_hit (en : enc) (sc : list cmd) (asserts : list expr) (bads : list expr) (k : N) : hit :=
      match signals_at en bads k with
      | None => HPanic
      | Some bs =>
          match or_all bs with
          | None => HPanic                                  (* reduce(..).unwrap() on an empty list *)
          | Some any =>
              match sv_check sv sc asserts [any] with
              | SSat m => HSat m
              | SUnknown => HUnknown
              | SErr e => HErr e
              | SUnsat => after_unsat k 0 HNone
              end
          end
      end.

    (** assert the step-[k] symbol of every constraint *)
    Fixpoint assert_cons (en : enc) (cs : list expr) (k : N) (i : nat) (acc : list expr) : wres (list expr) :=
      match cs with
      | [] => WOk acc
      | c :: r =>
          match get_signal_at en c k with
          | None => WPan
          | Some s =>
              match sv_fault sv (PhAssert k i) with
              | Some e => WErr e
              | None => assert_cons en r k (S i) (acc ++ [s])
              end
          end
      end.

    (** make sure the constraints are not contradictory: [None] = go on *)
    Definition constraint_check (cc : bool) (sc : list cmd) (asserts : list expr) : option bmc_result_f :=
      if cc then
        match sv_check sv sc asserts [] with
        | SSat _ => None
        | SUnknown => Some FUnknown
        | SUnsat => Some FPanic                             (* assert_eq!(res, Sat, ..) *)
        | SErr e => Some (FErr e)
        end
      else None.

    Fixpoint bmc_loop_f (en : enc) (cc individually : bool) (sc : list cmd) (asserts : list expr) (k : N) (fuel : nat)
      : bmc_result_f :=
      match assert_cons en (s_constraints (e_sys en)) k 0 asserts with
      | WPan => FPanic
      | WErr e => FErr e
      | WOk asserts' =>
          match constraint_check cc sc asserts' with
          | Some r => r
          | None =>
              let h := if individually then first_hit en sc asserts' (s_bads (e_sys en)) k 0
                       else joint_hit en sc asserts' (s_bads (e_sys en)) k in
              match h with
              | HSat m =>
                  match get_witness_f en (sv_value sv sc m) k with
                  | WOk w => FFail k w
                  | WErr e => FErr e
                  | WPan => FPanic
                  end
              | HUnknown => FUnknown
              | HErr e => FErr e
              | HPanic => FPanic
              | HNone =>
                  match sv_fault sv (PhUnroll k) with
                  | Some e => FErr e
                  | None =>
                      match fuel with
                      | O => FSuccess
                      | S f => bmc_loop_f en cc individually (sc ++ unroll v en 0 k) asserts' (k + 1) f
                      end
                  end
              end
          end
      end.
  End LoopF.

  (** [bmc(ctx, smt_ctx, sys, check_constraints, check_bad_states_individually, k_max)] with the encoding
      of /repo ([init_at3], then [unroll Fixed]) *)
  Definition bmc_model_full (sv : solver) (sy : sys) (nm : expr -> string) (cc individually : bool) (k_max : nat)
    : bmc_result_f :=
    if Nat.ltb 2000 k_max then FPanic                        (* assert!(k_max <= 2000) *)
    else
      match s_bads sy with
      | [] => FSuccess
      | _ =>
          match sv_fault sv PhSetLogic with
          | Some e => FErr e
          | None =>
              match sv_fault sv PhHeader with
              | Some e => FErr e
              | None =>
                  match sv_fault sv PhInit with
                  | Some e => FErr e
                  | None =>
                      let en := enc_new sy nm in
                      bmc_loop_f Fixed sv en cc individually (init_at3 en) [] 0 k_max
                  end
              end
          end
      end.

  (** ** the solver of Model/BmcWit.v as a solver of this file: it never says unknown, never fails, and
      (get-value) reports the value of the symbol under the model extended by the definitions *)
  Definition lift_solver (solver_model : list cmd -> list expr -> list expr -> option env) : solver :=
    {| sv_check := fun sc a b => match solver_model sc a b with Some m => SSat m | None => SUnsat end;
       sv_value := fun sc m s => GVal (val_of (script_eval m sc) s);
       sv_fault := fun _ => None |}.

  Definition lift_result (r : bmc_result_w) : bmc_result_f :=
    match r with
    | WSuccess => FSuccess
    | WFail k w => FFail k w
    | WPanic => FPanic
    end.
End Full.

Arguments WOk {EM A}. Arguments WErr {EM A}. Arguments WPan {EM A}.
Arguments SSat {EM}. Arguments SUnsat {EM}. Arguments SUnknown {EM}. Arguments SErr {EM}.
Arguments GVal {EM}. Arguments GErr {EM}.
Arguments FSuccess {EM}. Arguments FUnknown {EM}. Arguments FFail {EM}. Arguments FErr {EM}. Arguments FPanic {EM}.
Arguments sv_check {EM}. Arguments sv_value {EM}. Arguments sv_fault {EM}.

(** ** an enumerating solver for scripts over bit-vector symbols (for Examples): all valuations of the
    declared bit-vector constants, the first one that is a model is the answer; arrays are constant 0 *)
From Coq Require Import String.
Definition bv_decls (sc : list cmd) : list (string * N) :=
  flat_map (fun c => match c with DeclareConst n (TBV w) => [(n, w)] | _ => [] end) sc.

Fixpoint all_tables (ds : list (string * N)) : list (list (string * N * N)) :=
  match ds with
  | [] => [[]]
  | (n, w) :: r =>
      flat_map (fun x => map (fun t => (n, w, x) :: t) (all_tables r)) (range (2 ^ w))
  end.

Definition table_env (t : list (string * N * N)) : env :=
  {| rho_bv := fun n w =>
       match find (fun e => String.eqb (fst (fst e)) n && (snd (fst e) =? w)) t with
       | Some e => snd e mod 2 ^ w
       | None => 0
       end;
     rho_arr := fun _ _ _ _ => 0 |}.

Definition model_b (sc : list cmd) (asserts assumps : list expr) (m : env) : bool :=
  forallb (holds (script_eval m sc)) asserts && forallb (holds (script_eval m sc)) assumps.

Definition enum_model (sc : list cmd) (asserts assumps : list expr) : option env :=
  find (model_b sc asserts assumps) (map table_env (all_tables (bv_decls sc))).

Definition enum_solver (EM : Type) : solver EM := lift_solver EM enum_model.
