(** * Model/Btor2Ser.v — the btor2 writer of patronus/src/btor2/serialize.rs, as a function
    from systems to token lines.

    Modelled: the emission order of [serialize_sys] (inputs; per state: init tree, declaration,
    init line; outputs; constraints; bad states; next trees and lines), the sort table
    ([sort_id], array sorts emit their component sorts first), post-order node emission with the
    id cache ([emit_expr], children in [for_each_child] order, then the sort of the node, then
    its id), the unwrapping of a constant-array init of an array state, the spelling of
    operators and of literals (zero / one / ones / const <bits>), the error for an
    [ArrayConstant] anywhere else and the panic for a symbol that is not a declared input or
    state.

    Not modelled (string heuristics, exercised by the round-trip test only): names.  The model
    emits no name tokens and no trailing alias lines ([uext <sort> <id> 0 <name>]); the reader
    then generates default names, so the model's round trip is compared with the
    implementation's modulo the names of symbols.

    Executable definitions only. *)
From Coq Require Import List String Ascii NArith Bool.
From Patronus Require Export Btor2Parse.
Import ListNotations.
Open Scope N_scope.

Record wstate : Type := mkW {
  w_next : N;                        (* next_id *)
  w_sorts : list (ty * N);           (* sort_ids *)
  w_exprs : list (expr * N);         (* expr_ids *)
  w_lines : list (list string)       (* emitted lines, newest first *)
}.

Definition w_empty : wstate := mkW 1 [] [] [].

Definition num (n : N) : string := dec_string n.

Definition new_id (st : wstate) : wstate * N :=
  (mkW (w_next st + 1) (w_sorts st) (w_exprs st) (w_lines st), w_next st).

Definition emit (st : wstate) (l : list string) : wstate :=
  mkW (w_next st) (w_sorts st) (w_exprs st) (l :: w_lines st).

Definition reg_sort (st : wstate) (t : ty) (id : N) : wstate :=
  mkW (w_next st) ((t, id) :: w_sorts st) (w_exprs st) (w_lines st).

Definition reg_expr (st : wstate) (e : expr) (id : N) : wstate :=
  mkW (w_next st) (w_sorts st) ((e, id) :: w_exprs st) (w_lines st).

Fixpoint find_sort (t : ty) (l : list (ty * N)) : option N :=
  match l with [] => None | (t', id) :: l' => if ty_eqb t t' then Some id else find_sort t l' end.

Fixpoint find_expr (e : expr) (l : list (expr * N)) : option N :=
  match l with [] => None | (e', id) :: l' => if expr_eqb e e' then Some id else find_expr e l' end.

Definition bv_sort_id (st : wstate) (w : N) : wstate * N :=
  match find_sort (TBV w) (w_sorts st) with
  | Some id => (st, id)
  | None =>
      let '(st1, id) := new_id st in
      (reg_sort (emit st1 [num id; "sort"; "bitvec"; num w]%string) (TBV w) id, id)
  end.

Definition sort_id (st : wstate) (t : ty) : wstate * N :=
  match find_sort t (w_sorts st) with
  | Some id => (st, id)
  | None =>
      match t with
      | TBV w => bv_sort_id st w
      | TArr iw dw =>
          let '(st1, ix) := bv_sort_id st iw in
          let '(st2, dx) := bv_sort_id st1 dw in
          let '(st3, id) := new_id st2 in
          (reg_sort (emit st3 [num id; "sort"; "array"; num ix; num dx]%string) t id, id)
      end
  end.

(** [to_bit_str]: exactly [w] binary digits, most significant first *)
Fixpoint bits_of (w : nat) (v : N) : string :=
  match w with
  | O => EmptyString
  | S w' => String (if N.testbit v (N.of_nat w') then "1"%char else "0"%char) (bits_of w' v)
  end.

(** operator spelling (serialize.rs:475-570); [None] for the nodes that are not written this way *)
Definition op_name (e : expr) : option string :=
  match e with
  | BVZeroExt _ _ _ => Some "uext" | BVSignExt _ _ _ => Some "sext" | BVSlice _ _ _ => Some "slice"
  | BVNot _ _ => Some "not" | BVNegate _ _ => Some "neg"
  | BVEqual _ _ | ArrayEqual _ _ => Some "eq"
  | BVImplies _ _ => Some "implies" | BVGreater _ _ => Some "ugt" | BVGreaterSigned _ _ _ => Some "sgt"
  | BVGreaterEqual _ _ => Some "ugte" | BVGreaterEqualSigned _ _ _ => Some "sgte" | BVConcat _ _ _ => Some "concat"
  | BVAnd _ _ _ => Some "and" | BVOr _ _ _ => Some "or" | BVXor _ _ _ => Some "xor"
  | BVShiftLeft _ _ _ => Some "sll" | BVArithmeticShiftRight _ _ _ => Some "sra" | BVShiftRight _ _ _ => Some "srl"
  | BVAdd _ _ _ => Some "add" | BVMul _ _ _ => Some "mul" | BVSignedDiv _ _ _ => Some "sdiv"
  | BVUnsignedDiv _ _ _ => Some "udiv" | BVSignedMod _ _ _ => Some "smod" | BVSignedRem _ _ _ => Some "srem"
  | BVUnsignedRem _ _ _ => Some "urem" | BVSub _ _ _ => Some "sub" | BVArrayRead _ _ _ => Some "read"
  | BVIte _ _ _ | ArrayIte _ _ _ => Some "ite" | ArrayStore _ _ _ => Some "write"
  | _ => None
  end%string.

(** [write_node]: the tokens of the line for node [e] with id [id], sort id [sort] and child ids [cs] *)
Definition node_line (id sort : N) (e : expr) (cs : list N) : pres (list string) :=
  match e with
  | BVSymbol _ _ | ArraySymbol _ _ _ => PPanic PUnsupported   (* unreachable in the Rust *)
  | ArrayConstant _ _ _ => PErr
  | BVLiteral w v =>
      if v =? 0 then POk [num id; "zero"; num sort]%string
      else if v =? 1 then POk [num id; "one"; num sort]%string
      else if v =? 2 ^ w - 1 then POk [num id; "ones"; num sort]%string
      else POk [num id; "const"; num sort; bits_of (N.to_nat w) v]%string
  | BVZeroExt _ by_ _ | BVSignExt _ by_ _ =>
      POk ([num id; match op_name e with Some s => s | None => EmptyString end; num sort] ++ map num cs ++ [num by_])
  | BVSlice _ hi lo => POk ([num id; "slice"%string; num sort] ++ map num cs ++ [num hi; num lo])
  | _ => POk ([num id; match op_name e with Some s => s | None => EmptyString end; num sort] ++ map num cs)
  end.

(** [emit_expr]: post-order with the id cache *)
Fixpoint emit_expr (e : expr) (st : wstate) : pres (wstate * N) :=
  match find_expr e (w_exprs st) with
  | Some id => POk (st, id)
  | None =>
      let finish (st1 : wstate) (cs : list N) : pres (wstate * N) :=
        let '(st2, sort) := sort_id st1 (type_of e) in
        let '(st3, id) := new_id st2 in
        l <- node_line id sort e cs ;;
        POk (reg_expr (emit st3 l) e id, id) in
      match e with
      | BVSymbol _ _ | ArraySymbol _ _ _ => PPanic PWrongKind    (* unregistered symbol *)
      | BVLiteral _ _ => finish st []
      | BVZeroExt x _ _ | BVSignExt x _ _ | BVSlice x _ _ | BVNot x _ | BVNegate x _ | ArrayConstant x _ _ =>
          r <- emit_expr x st ;; let '(st1, a) := r in finish st1 [a]
      | BVEqual x y | BVImplies x y | BVGreater x y | BVGreaterSigned x y _
      | BVGreaterEqual x y | BVGreaterEqualSigned x y _ | BVConcat x y _
      | BVAnd x y _ | BVOr x y _ | BVXor x y _ | BVShiftLeft x y _
      | BVArithmeticShiftRight x y _ | BVShiftRight x y _ | BVAdd x y _ | BVMul x y _
      | BVSignedDiv x y _ | BVUnsignedDiv x y _ | BVSignedMod x y _ | BVSignedRem x y _
      | BVUnsignedRem x y _ | BVSub x y _ | BVArrayRead x y _ | ArrayEqual x y =>
          r <- emit_expr x st ;; let '(st1, a) := r in
          r2 <- emit_expr y st1 ;; let '(st2, b) := r2 in finish st2 [a; b]
      | BVIte x y z | ArrayStore x y z | ArrayIte x y z =>
          r <- emit_expr x st ;; let '(st1, a) := r in
          r2 <- emit_expr y st1 ;; let '(st2, b) := r2 in
          r3 <- emit_expr z st2 ;; let '(st3, c) := r3 in finish st3 [a; b; c]
      end
  end.

(** ** the system *)
Definition emit_input (st : wstate) (i : expr) : wstate :=
  let '(st1, sort) := sort_id st (type_of i) in
  let '(st2, id) := new_id st1 in
  reg_expr (emit st2 [num id; "input"; num sort]%string) i id.

Definition emit_state_init (st : wstate) (s : state) (init : expr) : pres (wstate * N) :=
  match type_of (st_sym s), init with
  | TArr _ _, ArrayConstant e _ _ => emit_expr e st
  | _, _ => emit_expr init st
  end.

(** one state: sort, init tree, declaration, init line; returns the state's id *)
Definition emit_state (st : wstate) (s : state) : pres (wstate * N) :=
  let '(st1, sort) := sort_id st (type_of (st_sym s)) in
  r <- match st_init s with
       | Some init => r <- emit_state_init st1 s init ;; let '(st2, iid) := r in POk (st2, Some iid)
       | None => POk (st1, None)
       end ;;
  let '(st2, init_id) := r in
  let '(st3, sid) := new_id st2 in
  let st4 := reg_expr (emit st3 [num sid; "state"; num sort]%string) (st_sym s) sid in
  match init_id with
  | Some iid =>
      let '(st5, lid) := new_id st4 in
      POk (emit st5 [num lid; "init"; num sort; num sid; num iid]%string, sid)
  | None => POk (st4, sid)
  end.

Fixpoint emit_states (st : wstate) (l : list state) : pres (wstate * list N) :=
  match l with
  | [] => POk (st, [])
  | s :: l' =>
      r <- emit_state st s ;; let '(st1, sid) := r in
      r2 <- emit_states st1 l' ;; let '(st2, ids) := r2 in
      POk (st2, sid :: ids)
  end.

Fixpoint emit_props (kind : string) (st : wstate) (l : list expr) : pres wstate :=
  match l with
  | [] => POk st
  | e :: l' =>
      r <- emit_expr e st ;; let '(st1, body) := r in
      let '(st2, id) := new_id st1 in
      emit_props kind (emit st2 [num id; kind; num body]) l'
  end.

Fixpoint emit_nexts (st : wstate) (l : list state) (ids : list N) : pres wstate :=
  match l, ids with
  | s :: l', sid :: ids' =>
      match st_next s with
      | Some nx =>
          let '(st1, sort) := sort_id st (type_of (st_sym s)) in
          r <- emit_expr nx st1 ;; let '(st2, nid) := r in
          let '(st3, id) := new_id st2 in
          emit_nexts (emit st3 [num id; "next"; num sort; num sid; num nid]%string) l' ids'
      | None => emit_nexts st l' ids'
      end
  | _, _ => POk st
  end.

Definition serialize (sy : sys) : pres (list (list string)) :=
  let st1 := fold_left emit_input (s_inputs sy) w_empty in
  r <- emit_states st1 (s_states sy) ;; let '(st2, ids) := r in
  st3 <- emit_props "output" st2 (map snd (s_outputs sy)) ;;
  st4 <- emit_props "constraint" st3 (s_constraints sy) ;;
  st5 <- emit_props "bad" st4 (s_bads sy) ;;
  st6 <- emit_nexts st5 (s_states sy) ids ;;
  POk (rev (w_lines st6)).

(** write, then read *)
Definition roundtrip (dbg : bool) (sy : sys) : pres sys :=
  ls <- serialize sy ;; parse_lines dbg ls.

(** ** node-level inverse: what the reader rebuilds from the line the writer emits for [e],
    when the operand ids of that line resolve to the children of [e] and the declared sort is
    the type of [e] (used in Props/C09.v) *)
Definition reread_node (dbg : bool) (e : expr) : pres expr :=
  match node_line 0 0 e (map (fun _ => 0) (children e)) with
  | POk toks =>
      let op := tokn toks 1 in
      match un_table op, children e with
      | Some u, [a] => r <- lower_unary dbg toks u a ;; POk (fst r)
      | _, _ =>
          match bin_table op, children e with
          | Some bo, [a; b] => lower_binary dbg (type_of e) bo a b
          | _, _ =>
              match children e with
              | [a; b; c] => lower_ternary dbg (seq op "ite") a b c
              | _ => PErr
              end
          end
      end
  | PErr => PErr
  | PPanic k => PPanic k
  end.

(** the normal form the builders of context.rs produce: a slice of the whole operand and an
    extension by zero bits are the operand itself *)
Definition norm_node (e : expr) : expr :=
  match e with
  | BVSlice x hi lo => if (lo =? 0) && (hi + 1 =? width x) then x else e
  | BVZeroExt x by_ _ | BVSignExt x by_ _ => if by_ =? 0 then x else e
  | _ => e
  end.

(** all numeric attributes of the node fit the reader's u32 fields *)
Definition node_fits (e : expr) : bool :=
  match e with
  | BVZeroExt _ by_ w | BVSignExt _ by_ w => (by_ <=? U32MAX) && (w <=? U32MAX)
  | BVSlice _ hi lo => (hi <? U32MAX) && (lo <=? U32MAX)
  | BVConcat _ _ w => w <=? U32MAX
  | _ => true
  end.
