(** * Model/Simplify.v — patronus/src/expr/simplify.rs (rules) and the
    fixed-point driver of patronus/src/expr/transform.rs, as Gallina functions.

    One function per Rust rule function, same case order.  [ExprRef == ExprRef]
    is structural equality [expr_eqb] (justified by C12).  The smart
    constructors of context.rs are the [mk_*] functions (stored widths computed
    exactly as the builders compute them, e.g. from the *second* operand).

    Constant folding calls the [BV.v] operators; where [baa] panics (literal
    multiplication above 128 bits) the model returns [Panic].

    The shift rules compare the full shift amount with the width (the code after
    the "fix:" commit; before it the amount was truncated to 32 bits first).

    Not modelled: the [assert!(hi >= lo)] inside [Context::slice] (every call
    site satisfies it on well-typed input) and u32 overflow of width sums.

    Executable definitions only. *)

From Patronus Require Export EvalImpl.
Open Scope N_scope.

(** ** builders of context.rs *)
Definition mk_not (e : expr) : expr := BVNot e (width e).
Definition mk_negate (e : expr) : expr := BVNegate e (width e).
Definition mk_and (a b : expr) : expr := BVAnd a b (width b).
Definition mk_or (a b : expr) : expr := BVOr a b (width b).
Definition mk_xor (a b : expr) : expr := BVXor a b (width b).
Definition mk_add (a b : expr) : expr := BVAdd a b (width b).
Definition mk_sub (a b : expr) : expr := BVSub a b (width b).
Definition mk_mul (a b : expr) : expr := BVMul a b (width b).
Definition mk_shl (a b : expr) : expr := BVShiftLeft a b (width b).
Definition mk_concat (a b : expr) : expr := BVConcat a b (width a + width b).
Definition mk_slice (e : expr) (hi lo : N) : expr :=
  if (lo =? 0) && (hi + 1 =? width e) then e else BVSlice e hi lo.
Definition mk_zext (e : expr) (by_ : N) : expr :=
  if by_ =? 0 then e else BVZeroExt e by_ (width e + by_).
Definition mk_sext (e : expr) (by_ : N) : expr :=
  if by_ =? 0 then e else BVSignExt e by_ (width e + by_).
Definition mk_equal (a b : expr) : expr :=
  match type_of a with TBV _ => BVEqual a b | TArr _ _ => ArrayEqual a b end.
Definition mk_ite (c t f : expr) : expr :=
  match type_of t with TBV _ => BVIte c t f | TArr _ _ => ArrayIte c t f end.
Definition mk_zero (w : N) : expr := BVLiteral w 0.
Definition mk_ones (w : N) : expr := BVLiteral w (N.ones w).
Definition mk_true : expr := BVLiteral 1 1.
Definition mk_false : expr := BVLiteral 1 0.

(** ** literal predicates of baa used by the rules *)
Definition lit_is_true (w v : N) : bool := (w =? 1) && (v =? 1).
Definition lit_is_false (w v : N) : bool := (w =? 1) && (v =? 0).
Definition lit_is_all_ones (w v : N) : bool := v =? N.ones w.
(** [is_pow_2]: [Some k] iff exactly bit [k] is set *)
Definition lit_is_pow_2 (v : N) : option N :=
  if v =? 0 then None else if v =? 2 ^ N.log2 v then Some (N.log2 v) else None.

(** [bit_set_intervals]: maximal runs [start, end) of one-bits, ascending *)
Fixpoint intervals_aux (n : nat) (pos : N) (v : N) (cur : option N) : list (N * N) :=
  match n with
  | O => match cur with Some s => [(s, pos)] | None => [] end
  | S n' =>
      if N.testbit v pos
      then intervals_aux n' (pos + 1) v (Some (match cur with Some s => s | None => pos end))
      else match cur with
           | Some s => (s, pos) :: intervals_aux n' (pos + 1) v None
           | None => intervals_aux n' (pos + 1) v None
           end
  end.
Definition bit_set_intervals (w v : N) : list (N * N) := intervals_aux (N.to_nat w) 0 v None.

Inductive lits : Type :=
| LTwo (wa va wb vb : N)
| LOne (w v : N) (lit_expr other : expr)
| LNone.

Definition find_lits_commutative (a b : expr) : lits :=
  match a, b with
  | BVLiteral wa va, BVLiteral wb vb => LTwo wa va wb vb
  | BVLiteral wa va, _ => LOne wa va a b
  | _, BVLiteral wb vb => LOne wb vb b a
  | _, _ => LNone
  end.

Definition find_one_concat (a b : expr) : option (expr * expr * expr) :=
  match a, b with
  | BVConcat ca cb _, _ => Some (ca, cb, b)
  | _, BVConcat ca cb _ => Some (ca, cb, a)
  | _, _ => None
  end.

(** ** the rules *)
Definition simplify_ite (cond tru fals : expr) : option expr :=
  if expr_eqb tru fals then Some tru
  else match cond with
  | BVLiteral w v => if lit_is_false w v then Some fals else Some tru
  | _ =>
    if width tru =? 1 then
      match tru, fals with
      | BVLiteral _ vt, BVLiteral _ vf =>
          match vt =? 1, vf =? 1 with
          | true, false => Some cond
          | false, true => Some (mk_not cond)
          | _, _ => None (* unreachable!() *)
          end
      | BVLiteral _ vt, _ =>
          if vt =? 1 then Some (mk_or cond fals) else Some (mk_and (mk_not cond) fals)
      | _, BVLiteral _ vf =>
          if vf =? 1 then Some (mk_or (mk_not cond) tru) else Some (mk_and cond tru)
      | _, _ => None
      end
    else None
  end.

Definition simplify_bv_equal (a b : expr) : option expr :=
  if expr_eqb a b then Some mk_true
  else
    let after_lits :=
      match find_one_concat a b with
      | Some (ca, cb, other) =>
          let aw := width ca in
          let bw := width cb in
          let w := aw + bw in
          let eq_a := mk_equal ca (mk_slice other (w - 1) (w - aw)) in
          let eq_b := mk_equal cb (mk_slice other (bw - 1) 0) in
          Some (mk_and eq_a eq_b)
      | None => None
      end in
    match find_lits_commutative a b with
    | LTwo _ _ _ _ => Some mk_false
    | LOne w v _ e =>
        if lit_is_true w v then Some e
        else if lit_is_false w v then Some (mk_not e)
        else after_lits
    | LNone => after_lits
    end.

(** the pieces of [x & mask], lowest first: zero gaps and slices of [x] *)
Fixpoint mask_pieces (x : expr) (ivs : list (N * N)) (bit : N) : list expr * N :=
  match ivs with
  | [] => ([], bit)
  | (s, e) :: rest =>
      let gap := if bit <? s then [mk_zero (s - bit)] else [] in
      let '(more, last) := mask_pieces x rest e in
      (gap ++ mk_slice x (e - 1) s :: more, last)
  end.

Definition reduce_concat (vals_low_first : list expr) : option expr :=
  match rev vals_low_first with
  | [] => None
  | hd :: tl => Some (fold_left mk_concat tl hd)
  end.

Definition simplify_bv_and (a b : expr) : option expr :=
  if expr_eqb a b then Some a
  else match find_lits_commutative a b with
  | LTwo _ va _ vb => Some (BVLiteral (width a) (bv_and va vb))
  | LOne w v lit_expr e =>
      if v =? 0 then Some lit_expr
      else if lit_is_all_ones w v then Some e
      else match e with
      | BVConcat ca cb cw =>
          let bw := width cb in
          let a_mask := BVLiteral (cw - 1 - bw + 1) (bv_slice (cw - 1) bw v) in
          let b_mask := BVLiteral (bw - 1 - 0 + 1) (bv_slice (bw - 1) 0 v) in
          Some (mk_concat (mk_and ca a_mask) (mk_and cb b_mask))
      | _ =>
          let ew := width e in
          let '(vals, bit) := mask_pieces e (bit_set_intervals w v) 0 in
          let vals := if bit <? ew then vals ++ [mk_zero (ew - bit)] else vals in
          reduce_concat vals
      end
  | LNone =>
      match a, b with
      | BVNot inner w, _ =>
          if expr_eqb inner b then Some (mk_zero w)
          else match b with
               | BVNot inner_b _ =>
                   if expr_eqb inner_b a then Some (mk_zero (width b))
                   else Some (mk_not (mk_or inner inner_b))
               | _ => None
               end
      | _, BVNot inner w => if expr_eqb inner a then Some (mk_zero w) else None
      | _, _ => None
      end
  end.

Definition simplify_bv_or (a b : expr) : option expr :=
  if expr_eqb a b then Some a
  else match find_lits_commutative a b with
  | LTwo _ va _ vb => Some (BVLiteral (width a) (bv_or va vb))
  | LOne w v lit_expr e =>
      if v =? 0 then Some e
      else if lit_is_all_ones w v then Some lit_expr
      else None
  | LNone =>
      match a, b with
      | BVNot inner w, _ =>
          if expr_eqb inner b then Some (mk_ones w)
          else match b with
               | BVNot inner_b _ =>
                   if expr_eqb inner_b a then Some (mk_ones (width b))
                   else Some (mk_not (mk_and inner inner_b))
               | _ => None
               end
      | _, BVNot inner w => if expr_eqb inner a then Some (mk_ones w) else None
      | _, _ => None
      end
  end.

Definition simplify_bv_xor (a b : expr) : option expr :=
  if expr_eqb a b then Some (mk_zero (width a))
  else match find_lits_commutative a b with
  | LTwo _ va _ vb => Some (BVLiteral (width a) (bv_xor va vb))
  | LOne w v _ e =>
      if v =? 0 then Some e
      else if lit_is_all_ones w v then Some (mk_not e)
      else None
  | LNone =>
      match a, b with
      | BVNot inner w, _ =>
          if expr_eqb inner b then Some (mk_ones w)
          else match b with
               | BVNot inner_b wb => if expr_eqb inner_b a then Some (mk_ones wb) else None
               | _ => None
               end
      | _, BVNot inner w => if expr_eqb inner a then Some (mk_ones w) else None
      | _, _ => None
      end
  end.

Definition simplify_bv_greater_equal (a b : expr) : option expr :=
  match a, b with
  | BVLiteral _ va, BVLiteral _ vb => Some (BVLiteral 1 (bv_uge va vb))
  | BVLiteral wa va, _ => if va =? N.ones (width a) then Some mk_true else None
  | _, BVLiteral wb vb =>
      if vb =? 0 then Some mk_true
      else if vb =? N.ones (width a) then Some (mk_equal a b)
      else None
  | _, _ => None
  end.

Definition simplify_bv_not (e : expr) : option expr :=
  match e with
  | BVNot inner _ => Some inner
  | BVLiteral w v => Some (BVLiteral w (bv_not w v))
  | _ => None
  end.

Definition simplify_bv_zero_ext (e : expr) (by_ : N) : option expr :=
  if by_ =? 0 then Some e
  else match e with
  | BVLiteral w v => Some (BVLiteral (w + by_) (bv_zext v))
  | _ => Some (mk_concat (mk_zero by_) e)
  end.

Definition simplify_bv_sign_ext (e : expr) (by_ : N) : option expr :=
  if by_ =? 0 then Some e
  else match e with
  | BVLiteral w v => Some (BVLiteral (w + by_) (bv_sext w by_ v))
  | BVSignExt inner inner_by _ => Some (mk_sext inner (by_ + inner_by))
  | _ => None
  end.

Definition simplify_bv_concat (a b : expr) : option expr :=
  match a, b with
  | BVConcat aa ab _, _ => Some (mk_concat aa (mk_concat ab b))
  | BVLiteral wa va, BVLiteral wb vb => Some (BVLiteral (wa + wb) (bv_concat wb va vb))
  | BVLiteral wa va, BVConcat ba bb _ =>
      match ba with
      | BVLiteral wba vba => Some (mk_concat (BVLiteral (wa + wba) (bv_concat wba va vba)) bb)
      | _ => None
      end
  | BVSlice ea hi_a lo_a, BVSlice eb hi_b lo_b =>
      if expr_eqb ea eb && (lo_a =? hi_b + 1) then Some (mk_slice ea hi_a lo_b) else None
  | _, _ => None
  end.

Definition simplify_bv_slice (e : expr) (hi lo : N) : option expr :=
  match e with
  | BVSlice inner_e _ inner_lo => Some (mk_slice inner_e (hi + inner_lo) (lo + inner_lo))
  | BVLiteral w v => Some (BVLiteral (hi - lo + 1) (bv_slice hi lo v))
  | BVConcat a b _ =>
      let bw := width b in
      if hi <? bw then Some (mk_slice b hi lo)
      else if bw <=? lo then Some (mk_slice a (hi - bw) (lo - bw))
      else Some (mk_concat (mk_slice a (hi - bw) 0) (mk_slice b (bw - 1) lo))
  | BVSignExt inner _ _ =>
      let ew := width inner in
      if ew <=? lo then Some (mk_sext (mk_slice inner (ew - 1) (ew - 1)) (hi - lo))
      else if hi <? ew then Some (mk_slice inner hi lo)
      else Some (mk_sext (mk_slice inner (ew - 1) lo) (hi - ew + 1))
  | BVIte c t f => Some (mk_ite c (mk_slice t hi lo) (mk_slice f hi lo))
  | BVNot inner _ => Some (mk_not (mk_slice inner hi lo))
  | BVNegate inner _ => if lo =? 0 then Some (mk_negate (mk_slice inner hi lo)) else None
  | BVAnd a b _ => Some (mk_and (mk_slice a hi lo) (mk_slice b hi lo))
  | BVOr a b _ => Some (mk_or (mk_slice a hi lo) (mk_slice b hi lo))
  | BVXor a b _ => Some (mk_xor (mk_slice a hi lo) (mk_slice b hi lo))
  | BVAdd a b _ => if lo =? 0 then Some (mk_add (mk_slice a hi lo) (mk_slice b hi lo)) else None
  | BVSub a b _ => if lo =? 0 then Some (mk_sub (mk_slice a hi lo) (mk_slice b hi lo)) else None
  | BVMul a b _ => if lo =? 0 then Some (mk_mul (mk_slice a hi lo) (mk_slice b hi lo)) else None
  | _ => None
  end.

Definition simplify_bv_shift_left (a b : expr) (w : N) : option expr :=
  match a, b with
  | BVLiteral wa va, BVLiteral _ vb => Some (BVLiteral wa (bv_shl wa va vb))
  | _, BVLiteral _ by_ =>
      if w <=? by_ then Some (mk_zero w)
      else if by_ =? 0 then Some a
      else Some (mk_concat (mk_slice a (w - 1 - by_) 0) (mk_zero by_))
  | _, _ => None
  end.

Definition simplify_bv_shift_right (a b : expr) (w : N) : option expr :=
  match a, b with
  | BVLiteral wa va, BVLiteral _ vb => Some (BVLiteral wa (bv_lshr wa va vb))
  | _, BVLiteral _ by_ =>
      if w <=? by_ then Some (mk_zero w)
      else if by_ =? 0 then Some a
      else Some (mk_zext (mk_slice a (w - 1) by_) by_)
  | _, _ => None
  end.

Definition simplify_bv_arithmetic_shift_right (a b : expr) (w : N) : option expr :=
  match a, b with
  | BVLiteral wa va, BVLiteral _ vb => Some (BVLiteral wa (bv_ashr wa va vb))
  | _, BVLiteral _ by_ =>
      if w <=? by_ then Some (mk_sext (mk_slice a (w - 1) (w - 1)) (w - 1))
      else if by_ =? 0 then Some a
      else Some (mk_sext (mk_slice a (w - 1) by_) by_)
  | _, _ => None
  end.

Definition simplify_bv_add (a b : expr) : option expr :=
  if width a =? 1 then Some (mk_xor a b)
  else match find_lits_commutative a b with
  | LTwo wa va _ vb => Some (BVLiteral wa (bv_add wa va vb))
  | LOne _ v _ e => if v =? 0 then Some e else None
  | LNone => None
  end.

Definition simplify_bv_mul (a b : expr) : res (option expr) :=
  if width a =? 1 then Ok (Some (mk_and a b))
  else match find_lits_commutative a b with
  | LTwo wa va _ vb => if 128 <? wa then Panic else Ok (Some (BVLiteral wa (bv_mul wa va vb)))
  | LOne w v lit_expr e =>
      if v =? 0 then Ok (Some lit_expr)
      else if v =? 1 then Ok (Some e)
      else match lit_is_pow_2 v with
      | Some k => Ok (Some (mk_shl e (BVLiteral w k)))
      | None => Ok None
      end
  | LNone => Ok None
  end.

(** [simplify]: dispatch on the ORIGINAL node [e] with the NEW children [cs] *)
Definition simplify (e : expr) (cs : list expr) : res (option expr) :=
  match e, cs with
  | BVNot _ _, [x] => Ok (simplify_bv_not x)
  | BVZeroExt _ by_ _, [x] => Ok (simplify_bv_zero_ext x by_)
  | BVSlice _ hi lo, [x] => Ok (simplify_bv_slice x hi lo)
  | BVIte _ _ _, [c; t; f] => Ok (simplify_ite c t f)
  | BVConcat _ _ _, [a; b] => Ok (simplify_bv_concat a b)
  | BVEqual _ _, [a; b] => Ok (simplify_bv_equal a b)
  | BVAnd _ _ _, [a; b] => Ok (simplify_bv_and a b)
  | BVOr _ _ _, [a; b] => Ok (simplify_bv_or a b)
  | BVXor _ _ _, [a; b] => Ok (simplify_bv_xor a b)
  | BVImplies _ _, [a; b] => Ok (Some (mk_or (mk_not a) b))
  | BVGreaterEqual _ _, [a; b] => Ok (simplify_bv_greater_equal a b)
  | BVAdd _ _ _, [a; b] => Ok (simplify_bv_add a b)
  | BVMul _ _ _, [a; b] => simplify_bv_mul a b
  | BVShiftLeft _ _ w, [a; b] => Ok (simplify_bv_shift_left a b w)
  | BVShiftRight _ _ w, [a; b] => Ok (simplify_bv_shift_right a b w)
  | BVSignExt _ by_ _, [x] => Ok (simplify_bv_sign_ext x by_)
  | BVArithmeticShiftRight _ _ w, [a; b] => Ok (simplify_bv_arithmetic_shift_right a b w)
  | _, _ => Ok None
  end.

(** [update_expr_children]: same node, new children ([e] itself if the arity is wrong) *)
Definition rebuild (e : expr) (cs : list expr) : expr :=
  match e, cs with
  | BVZeroExt _ by_ w, [x] => BVZeroExt x by_ w
  | BVSignExt _ by_ w, [x] => BVSignExt x by_ w
  | BVSlice _ hi lo, [x] => BVSlice x hi lo
  | BVNot _ w, [x] => BVNot x w
  | BVNegate _ w, [x] => BVNegate x w
  | BVEqual _ _, [a; b] => BVEqual a b
  | BVImplies _ _, [a; b] => BVImplies a b
  | BVGreater _ _, [a; b] => BVGreater a b
  | BVGreaterSigned _ _ w, [a; b] => BVGreaterSigned a b w
  | BVGreaterEqual _ _, [a; b] => BVGreaterEqual a b
  | BVGreaterEqualSigned _ _ w, [a; b] => BVGreaterEqualSigned a b w
  | BVConcat _ _ w, [a; b] => BVConcat a b w
  | BVAnd _ _ w, [a; b] => BVAnd a b w
  | BVOr _ _ w, [a; b] => BVOr a b w
  | BVXor _ _ w, [a; b] => BVXor a b w
  | BVShiftLeft _ _ w, [a; b] => BVShiftLeft a b w
  | BVArithmeticShiftRight _ _ w, [a; b] => BVArithmeticShiftRight a b w
  | BVShiftRight _ _ w, [a; b] => BVShiftRight a b w
  | BVAdd _ _ w, [a; b] => BVAdd a b w
  | BVMul _ _ w, [a; b] => BVMul a b w
  | BVSignedDiv _ _ w, [a; b] => BVSignedDiv a b w
  | BVUnsignedDiv _ _ w, [a; b] => BVUnsignedDiv a b w
  | BVSignedMod _ _ w, [a; b] => BVSignedMod a b w
  | BVSignedRem _ _ w, [a; b] => BVSignedRem a b w
  | BVUnsignedRem _ _ w, [a; b] => BVUnsignedRem a b w
  | BVSub _ _ w, [a; b] => BVSub a b w
  | BVArrayRead _ _ w, [a; i] => BVArrayRead a i w
  | BVIte _ _ _, [c; t; f] => BVIte c t f
  | ArrayConstant _ iw dw, [x] => ArrayConstant x iw dw
  | ArrayEqual _ _, [a; b] => ArrayEqual a b
  | ArrayStore _ _ _, [a; i; d] => ArrayStore a i d
  | ArrayIte _ _ _, [c; t; f] => ArrayIte c t f
  | _, _ => e
  end.

(** ** the fixed-point driver ([do_transform_expr] in FixedPoint mode + [get_fixed_point]) *)
Inductive sres : Type :=
| SOk (e : expr)
| SPanic
| SFuel.

Fixpoint list_eqb (xs ys : list expr) : bool :=
  match xs, ys with
  | [], [] => true
  | x :: xs', y :: ys' => expr_eqb x y && list_eqb xs' ys'
  | _, _ => false
  end.

(** simplify every child, stop at the first failure *)
Fixpoint simp_children (f : expr -> sres) (cs : list expr) : sres + list expr :=
  match cs with
  | [] => inr []
  | c :: rest =>
      match f c with
      | SOk c' => match simp_children f rest with
                  | inr rest' => inr (c' :: rest')
                  | inl err => inl err
                  end
      | err => inl err
      end
  end.

Fixpoint simp (fuel : nat) (e : expr) : sres :=
  match fuel with
  | O => SFuel
  | S f =>
      match simp_children (simp f) (children e) with
      | inl err => err
      | inr cs =>
          match simplify e cs with
          | Panic => SPanic
          | Ok (Some r) => if expr_eqb r e then SOk e else simp f r
          | Ok None => if list_eqb cs (children e) then SOk e else simp f (rebuild e cs)
          end
      end
  end.

(** generous default fuel used when the model is run against the implementation (the result does not
    depend on the fuel once it suffices: SimplifyFix.simp_fuel_mono); wide masks expand into long concat
    chains whose re-association needs thousands of steps *)
Definition simp_default (e : expr) : sres :=
  simp (N.to_nat (50000 + 500 * N.of_nat (size e))) e.
