(** * Model/Encoding.v — the unrolled SMT encoding (patronus/src/mc/encoding.rs).

    [UnrollSmtEncoding::new]        -> [enc_new]
    [signal_sym_in_step]/[get_signal_at] -> [sig_sym]
    [expr_in_step]                  -> [expr_in_step]
    [define_signals]                -> [define_signals]
    [init_at]                       -> [init_at]
    [unroll]                        -> [unroll]
    and the list of abstract commands sent to the solver by
    [init_at j; unroll^n]           -> [script].

    The default name of an unnamed signal is ["__n" ++ index of the node in the
    expression store]; the store is not modelled, so the naming of the non-state
    signals is a parameter [nm] (the correspondence check feeds the names the
    implementation uses; the theorems assume what they need about it).

    [variant] selects the code that is mirrored:
    - [Current]: encoding.rs as it is today.  A signal used by an init expression
      and by a next expression and by nothing else is defined at step 0 by
      [init_at] and a second time by the first [unroll].
      [init_at j] for [j > 0] defines the signals that only init expressions use,
      although some of them read signals that only the next [unroll] defines.
    - [Fixed]: the proposed repair: the first [unroll] after [init_at 0] does not
      define again what [init_at] already defined, and [init_at j] ([j > 0])
      defines exactly what [unroll] defines for a new step (inputs and signals
      used by constraints / bad states).

    Executable definitions only. *)

From Coq Require Import List Bool Ascii DecimalString.
From Patronus Require Export Analysis Script.
Import ListNotations.
Open Scope N_scope.

Inductive variant : Type := Current | Fixed.

(** ** names *)
Definition dec (k : N) : string := NilEmpty.string_of_uint (N.to_uint k).
(** [name_at]: [format!("{}@{}", name, step)] *)
Definition name_at (n : string) (k : N) : string := (n ++ "@" ++ dec k)%string.

Definition sym_name (e : expr) : string :=
  match e with BVSymbol n _ => n | ArraySymbol n _ _ => n | _ => EmptyString end.

(** [State::is_const] *)
Definition st_is_const (st : state) : bool :=
  match st_next st with Some n => expr_eqb n (st_sym st) | None => false end.

(** ** [UnrollSmtEncoding::new] *)
Record sig : Type := { sg_expr : expr; sg_name : string; sg_uses : uses; sg_input : bool }.

Record enc : Type := { e_sys : sys; e_sigs : list sig }.

Definition is_state_sym (sy : sys) (e : expr) : bool :=
  existsb (fun st => expr_eqb (st_sym st) e) (s_states sy).

Definition enc_new (sy : sys) (nm : expr -> string) : enc :=
  let us := uses_of false sy in
  {| e_sys := sy;
     e_sigs := map (fun e => {| sg_expr := e; sg_name := nm e; sg_uses := us e; sg_input := mem e (s_inputs sy) |})
                   (dedup (filter (fun e => negb (is_state_sym sy e)) (analyze false sy))) |}.

(** ** step symbols *)
Definition find_sig (en : enc) (e : expr) : option sig :=
  find (fun s => expr_eqb (sg_expr s) e) (e_sigs en).
Definition find_state (en : enc) (e : expr) : option state :=
  find (fun st => expr_eqb (st_sym st) e) (s_states (e_sys en)).

(** name of a state at a step: constant states have one symbol for all steps *)
Definition state_name_at (st : state) (k : N) : string :=
  if st_is_const st then sym_name (st_sym st) else name_at (sym_name (st_sym st)) k.

(** [signal_sym_in_step] (the [symbols_at] table) *)
Definition sig_sym (en : enc) (e : expr) (k : N) : option expr :=
  match find_state en e with
  | Some st => Some (mk_sym (state_name_at st k) (type_of e))
  | None =>
      match find_sig en e with
      | Some s => Some (mk_sym (name_at (sg_name s) k) (type_of e))
      | None => None
      end
  end.

(** replace every maximal sub-expression that is a signal by its step symbol;
    [top = true]: not the root itself *)
Fixpoint subst (sg : expr -> option expr) (top : bool) (e : expr) : expr :=
  match (if top then None else sg e) with
  | Some s => s
  | None =>
      let r := subst sg false in
      match e with
      | BVSymbol _ _ | BVLiteral _ _ | ArraySymbol _ _ _ => e
      | BVZeroExt a by_ w => BVZeroExt (r a) by_ w
      | BVSignExt a by_ w => BVSignExt (r a) by_ w
      | BVSlice a hi lo => BVSlice (r a) hi lo
      | BVNot a w => BVNot (r a) w
      | BVNegate a w => BVNegate (r a) w
      | BVEqual a b => BVEqual (r a) (r b)
      | BVImplies a b => BVImplies (r a) (r b)
      | BVGreater a b => BVGreater (r a) (r b)
      | BVGreaterSigned a b w => BVGreaterSigned (r a) (r b) w
      | BVGreaterEqual a b => BVGreaterEqual (r a) (r b)
      | BVGreaterEqualSigned a b w => BVGreaterEqualSigned (r a) (r b) w
      | BVConcat a b w => BVConcat (r a) (r b) w
      | BVAnd a b w => BVAnd (r a) (r b) w
      | BVOr a b w => BVOr (r a) (r b) w
      | BVXor a b w => BVXor (r a) (r b) w
      | BVShiftLeft a b w => BVShiftLeft (r a) (r b) w
      | BVArithmeticShiftRight a b w => BVArithmeticShiftRight (r a) (r b) w
      | BVShiftRight a b w => BVShiftRight (r a) (r b) w
      | BVAdd a b w => BVAdd (r a) (r b) w
      | BVMul a b w => BVMul (r a) (r b) w
      | BVSignedDiv a b w => BVSignedDiv (r a) (r b) w
      | BVUnsignedDiv a b w => BVUnsignedDiv (r a) (r b) w
      | BVSignedMod a b w => BVSignedMod (r a) (r b) w
      | BVSignedRem a b w => BVSignedRem (r a) (r b) w
      | BVUnsignedRem a b w => BVUnsignedRem (r a) (r b) w
      | BVSub a b w => BVSub (r a) (r b) w
      | BVArrayRead a i w => BVArrayRead (r a) (r i) w
      | BVIte c t f => BVIte (r c) (r t) (r f)
      | ArrayConstant a iw dw => ArrayConstant (r a) iw dw
      | ArrayEqual a b => ArrayEqual (r a) (r b)
      | ArrayStore a i d => ArrayStore (r a) (r i) (r d)
      | ArrayIte c t f => ArrayIte (r c) (r t) (r f)
      end
  end.

(** [expr_in_step]: a symbol is replaced by its step symbol; of any other
    expression everything below the root is replaced *)
Definition expr_in_step (en : enc) (e : expr) (k : N) : expr :=
  subst (fun x => sig_sym en x k) (negb (is_symbol e)) e.

(** ** [define_signals] *)
Definition define_signals (en : enc) (k : N) (filter : sig -> bool) : list cmd :=
  flat_map (fun s =>
    if filter s then
      [ if is_symbol (sg_expr s)
        then DeclareConst (name_at (sg_name s) k) (type_of (sg_expr s))
        else DefineFun (name_at (sg_name s) k) (type_of (sg_expr s)) (expr_in_step en (sg_expr s) k) ]
    else []) (e_sigs en).

Definition pos (n : N) : bool := 0 <? n.

(** signals that [unroll] defines for the previous step *)
Definition next_only (s : sig) : bool :=
  pos (u_next (sg_uses s)) && (u_other (sg_uses s) =? 0) && negb (sg_input s).

(** ** [init_at] *)
Definition init_at (v : variant) (en : enc) (j : N) : list cmd :=
  (if j =? 0 then define_signals en 0 (fun s => pos (u_init (sg_uses s))) else []) ++
  map (fun st =>
         let n := state_name_at st j in
         let t := type_of (st_sym st) in
         match (j =? 0), st_init st with
         | true, Some v => DefineFun n t (expr_in_step en v j)
         | _, _ => DeclareConst n t
         end) (s_states (e_sys en)) ++
  (if j =? 0
   then define_signals en j (fun s => (pos (u_other (sg_uses s)) || sg_input s) && (u_init (sg_uses s) =? 0))
   else define_signals en j (fun s =>
          match v with
          | Current => negb (next_only s)
          | Fixed => pos (u_other (sg_uses s)) || sg_input s
          end)).

(** ** [unroll] from step [p] to step [p+1]; [j] is the step of [init_at] *)
Definition unroll (v : variant) (en : enc) (j p : N) : list cmd :=
  define_signals en p (fun s =>
    next_only s &&
    match v with
    | Current => true
    | Fixed => negb ((p =? 0) && pos (u_init (sg_uses s)))
    end) ++
  flat_map (fun st =>
         let n := name_at (sym_name (st_sym st)) (p + 1) in
         let t := type_of (st_sym st) in
         match st_next st with
         | Some nx => if st_is_const st then [] else [DefineFun n t (expr_in_step en nx p)]
         | None => [DeclareConst n t]
         end) (s_states (e_sys en)) ++
  define_signals en (p + 1) (fun s => pos (u_other (sg_uses s)) || sg_input s).

Fixpoint unrolls (v : variant) (en : enc) (j p : N) (n : nat) : list cmd :=
  match n with
  | O => []
  | S m => unroll v en j p ++ unrolls v en j (p + 1) m
  end.

(** everything sent to the solver by [init_at j] followed by [n] calls of [unroll] *)
Definition script (v : variant) (en : enc) (j : N) (n : nat) : list cmd :=
  init_at v en j ++ unrolls v en j j n.

(** the same, one block per call (for the per-step comparison) *)
Fixpoint unroll_blocks (v : variant) (en : enc) (j p : N) (n : nat) : list (list cmd) :=
  match n with
  | O => []
  | S m => unroll v en j p :: unroll_blocks v en j (p + 1) m
  end.
Definition script_blocks (v : variant) (en : enc) (j : N) (n : nat) : list (list cmd) :=
  init_at v en j :: unroll_blocks v en j j n.

(** [get_signal_at]: Boolean literals that are not signals stand for themselves;
    anything else that is not a signal makes the implementation panic ([None]) *)
Definition get_signal_at (en : enc) (e : expr) (k : N) : option expr :=
  match sig_sym en e k with
  | Some s => Some s
  | None => match e with
            | BVLiteral 1 _ => Some e
            | _ => None
            end
  end.

(** ** a checkable condition on names under which step symbols are distinct:
    the base names of signals and states are pairwise distinct and contain no ['@'] *)
Fixpoint no_at (s : string) : bool :=
  match s with
  | EmptyString => true
  | String c r => negb (Ascii.eqb c "@"%char) && no_at r
  end.

Fixpoint nodup_strings (l : list string) : bool :=
  match l with
  | [] => true
  | x :: r => negb (existsb (String.eqb x) r) && nodup_strings r
  end.

Definition base_names (en : enc) : list string :=
  map sg_name (e_sigs en) ++ map (fun st => sym_name (st_sym st)) (s_states (e_sys en)).

Definition names_ok (en : enc) : bool :=
  nodup_strings (base_names en) && forallb no_at (base_names en).

(** ** executable versions of the classes used in the theorems (for the evidence) *)
(** [known_class]: the use patterns on which the current code fails *)
Definition known_class_b (en : enc) (j : N) : bool :=
  existsb (fun s =>
    if j =? 0 then next_only s && pos (u_init (sg_uses s))
    else negb (next_only s) && negb (pos (u_other (sg_uses s)) || sg_input s)) (e_sigs en).

(** [init_reads_ok]: init signals mention no state; inits read earlier states only *)
Fixpoint symbols_in (e : expr) : list expr :=
  match e with
  | BVSymbol _ _ | ArraySymbol _ _ _ => [e]
  | BVLiteral _ _ => []
  | BVZeroExt a _ _ | BVSignExt a _ _ | BVSlice a _ _ | BVNot a _ | BVNegate a _
  | ArrayConstant a _ _ => symbols_in a
  | BVEqual a b | BVImplies a b | BVGreater a b | BVGreaterSigned a b _
  | BVGreaterEqual a b | BVGreaterEqualSigned a b _ | BVConcat a b _
  | BVAnd a b _ | BVOr a b _ | BVXor a b _ | BVShiftLeft a b _
  | BVArithmeticShiftRight a b _ | BVShiftRight a b _ | BVAdd a b _ | BVMul a b _
  | BVSignedDiv a b _ | BVUnsignedDiv a b _ | BVSignedMod a b _ | BVSignedRem a b _
  | BVUnsignedRem a b _ | BVSub a b _ | BVArrayRead a b _ | ArrayEqual a b => symbols_in a ++ symbols_in b
  | BVIte a b c | ArrayStore a b c | ArrayIte a b c => symbols_in a ++ symbols_in b ++ symbols_in c
  end.

Fixpoint inits_read_earlier (seen : list expr) (sts : list state) (all : list expr) : bool :=
  match sts with
  | [] => true
  | st :: r =>
      match st_init st with
      | Some e => forallb (fun y => negb (mem y all) || mem y seen) (symbols_in e)
      | None => true
      end && inits_read_earlier (st_sym st :: seen) r all
  end.

Definition init_reads_ok_b (en : enc) : bool :=
  let state_syms := map st_sym (s_states (e_sys en)) in
  forallb (fun s => negb (pos (u_init (sg_uses s))) ||
                    forallb (fun y => negb (mem y state_syms)) (symbols_in (sg_expr s))) (e_sigs en) &&
  inits_read_earlier [] (s_states (e_sys en)) state_syms.

(** ** second proposed repair (patches/0002): [init_at 0] defines a signal used by init
    expressions right before the first state whose init expression needs it (instead of all of
    them before all states), so that the states it reads are already declared.  Later entries
    and [unroll] are those of [Fixed]. *)
Definition needs (v : expr) (s : sig) : bool := mem (sg_expr s) (subterms v).

Fixpoint init_states2 (en : enc) (done : list expr) (sts : list state) : list cmd :=
  match sts with
  | [] => []
  | st :: r =>
      let n := state_name_at st 0 in
      let t := type_of (st_sym st) in
      match st_init st with
      | Some v =>
          define_signals en 0 (fun s => pos (u_init (sg_uses s)) && needs v s &&
                                        negb (existsb (fun d => needs d s) done)) ++
          DefineFun n t (expr_in_step en v 0) :: init_states2 en (v :: done) r
      | None => DeclareConst n t :: init_states2 en done r
      end
  end.

Definition init_at2 (en : enc) : list cmd :=
  init_states2 en [] (s_states (e_sys en)) ++
  define_signals en 0 (fun s => (pos (u_other (sg_uses s)) || sg_input s) && (u_init (sg_uses s) =? 0)).

Definition script2 (en : enc) (n : nat) : list cmd := init_at2 en ++ unrolls Fixed en 0 0 n.

(** ** third proposed repair (patches/0003): at step 0 the states are emitted in dependency order
    of their init expressions: [init_order] of encoding.rs.  Every pass emits, in declaration
    order, the states all of whose init dependencies have been emitted; the passes stop when one
    emits nothing; what is left (states on a cyclic init dependency) follows in declaration order. *)
Definition state_ready (en : enc) (emitted : list expr) (st : state) : bool :=
  match st_init st with
  | Some v => forallb (fun y => negb (is_state_sym (e_sys en) y) || mem y emitted) (symbols_in v)
  | None => true
  end.

Fixpoint order_pass (en : enc) (emitted : list state) (sts : list state) : list state :=
  match sts with
  | [] => emitted
  | st :: r =>
      if mem (st_sym st) (map st_sym emitted) then order_pass en emitted r
      else if state_ready en (map st_sym emitted) st then order_pass en (emitted ++ [st]) r
      else order_pass en emitted r
  end.

Fixpoint order_passes (en : enc) (fuel : nat) (emitted : list state) : list state :=
  match fuel with
  | O => emitted
  | S f =>
      let e' := order_pass en emitted (s_states (e_sys en)) in
      if Nat.eqb (length e') (length emitted) then emitted else order_passes en f e'
  end.

Definition init_order (en : enc) : list state :=
  let e := order_passes en (length (s_states (e_sys en))) [] in
  e ++ filter (fun st => negb (mem (st_sym st) (map st_sym e))) (s_states (e_sys en)).

(** executable: the passes order every state (the case when the init dependencies are acyclic) *)
Definition init_order_complete_b (en : enc) : bool :=
  Nat.eqb (length (order_passes en (length (s_states (e_sys en))) [])) (length (s_states (e_sys en))).

Definition init_at3 (en : enc) : list cmd :=
  init_states2 en [] (init_order en) ++
  define_signals en 0 (fun s => (pos (u_other (sg_uses s)) || sg_input s) && (u_init (sg_uses s) =? 0)).

Definition script3 (en : enc) (n : nat) : list cmd := init_at3 en ++ unrolls Fixed en 0 0 n.
