(** * Model/Coi.v — executable model of the cone-of-influence analysis
    (patronus/src/system/analysis.rs:56-130, [cone_of_influence{,_init,_comb}] and the
    shared worklist [cone_of_influence_impl]).

    What the Rust does, and what is mirrored here line by line:
    - [states = sys.state_map()]: a hash map symbol -> state built with [from_iter] over the
      state list, so for a repeated symbol the LAST state wins  -> [find_state];
    - [inputs = sys.input_set()]                                 -> [is_input];
    - [todo] is a [Vec] used as a stack (push / pop at the end)  -> list, head = top;
    - a popped, already visited expression is skipped;
    - the children not yet visited are pushed in [for_each_child] order, then (if the popped
      expression is a key of [states], whether or not it is a symbol) the state's [init]
      if [follow_init], then its [next] if [follow_next], each only if not yet visited;
      [visited] does not yet contain the popped expression at that point (so a constant
      state, [next] = own symbol, pushes itself once more and is skipped later);
    - the expression is appended to [out] iff it is a symbol and (a key of [states] or a
      member of [inputs]); symbols that are neither are visited but not reported;
    - [visited.insert].
    [ExprRef] equality is structural equality [expr_eqb] (justified by C12).

    The loop is fuelled ([None] = out of fuel, which Proofs/CoiProofs.v shows never happens
    with [coi_fuel]).  Executable definitions only. *)

From Patronus Require Export CoiSpec.
Open Scope N_scope.

Definition mem (e : expr) (l : list expr) : bool := existsb (expr_eqb e) l.

(** [states.get(&e)] *)
Fixpoint find_state (sts : list state) (e : expr) : option state :=
  match sts with
  | [] => None
  | st :: rest =>
      match find_state rest e with
      | Some x => Some x
      | None => if expr_eqb (st_sym st) e then Some st else None
      end
  end.

Definition opt_list (o : option expr) : list expr :=
  match o with Some e => [e] | None => [] end.

(** what is pushed for a key of the state map, in push order *)
Definition state_links (v : variant) (sy : sys) (e : expr) : list expr :=
  match find_state (s_states sy) e with
  | Some st => (if follow_init v then opt_list (st_init st) else []) ++
               (if follow_next v then opt_list (st_next st) else [])
  | None => []
  end.

Definition succs (v : variant) (sy : sys) (e : expr) : list expr :=
  children e ++ state_links v sy e.

Definition is_state_sym (sy : sys) (e : expr) : bool := is_some (find_state (s_states sy) e).
Definition is_input (sy : sys) (e : expr) : bool := mem e (s_inputs sy).
Definition is_sys_sym (sy : sys) (e : expr) : bool := is_state_sym sy e || is_input sy e.

(** [expr.is_symbol() && (states.contains_key(&e) || inputs.contains(&e))] *)
Definition reported (sy : sys) (e : expr) : bool := is_symbol e && is_sys_sym sy e.

(** the worklist; [out] is kept in reverse push order. Result: (visited, out) *)
Fixpoint coi_loop (fuel : nat) (v : variant) (sy : sys) (todo visited out : list expr)
  : option (list expr * list expr) :=
  match fuel with
  | O => None
  | S fuel' =>
      match todo with
      | [] => Some (visited, out)
      | e :: rest =>
          if mem e visited then coi_loop fuel' v sy rest visited out
          else
            let pushed := filter (fun c => negb (mem c visited)) (succs v sy e) in
            coi_loop fuel' v sy (rev pushed ++ rest) (e :: visited)
                     (if reported sy e then e :: out else out)
      end
  end.

(** every expression the traversal can ever meet *)
Definition state_exprs (st : state) : list expr := opt_list (st_init st) ++ opt_list (st_next st).
Definition universe (sy : sys) (root : expr) : list expr :=
  subexprs root ++ flat_map (fun st => flat_map subexprs (state_exprs st)) (s_states sy).

Definition coi_fuel (sy : sys) (root : expr) : nat := 2 + 5 * length (universe sy root).

(** the reported cone, in the order in which the implementation reports it *)
Definition coi_opt (v : variant) (sy : sys) (root : expr) : option (list expr) :=
  match coi_loop (coi_fuel sy root) v sy [root] [] [] with
  | Some (_, out) => Some (rev out)
  | None => None
  end.

(** ** helpers of the property oracle (ocaml/driver/c17.ml); their meaning is fixed by the
    perturbation theorems of Props/C17.v *)

(** no two states share a symbol (decides [states_distinct]) *)
Fixpoint distinct_b (l : list expr) : bool :=
  match l with
  | [] => true
  | x :: r => negb (mem x r) && distinct_b r
  end.
Definition states_distinct_b (sy : sys) : bool := distinct_b (map st_sym (s_states sy)).

(** [perturb sy C base alt]: the valuation [base] with every input / state symbol of the
    system that is NOT in the cone [C] replaced by its value in [alt] *)
Definition keep_sym (sy : sys) (C : list expr) (s : expr) : bool :=
  negb (is_sys_sym sy s) || mem s C.

Definition perturb (sy : sys) (C : list expr) (base alt : env) : env :=
  {| rho_bv := fun n w => if keep_sym sy C (BVSymbol n w) then rho_bv base n w else rho_bv alt n w;
     rho_arr := fun n iw dw => if keep_sym sy C (ArraySymbol n iw dw) then rho_arr base n iw dw
                               else rho_arr alt n iw dw |}.

Fixpoint perturb_all (sy : sys) (C : list expr) (bases alts : list env) : list env :=
  match bases, alts with
  | b :: bs, a :: als => perturb sy C b a :: perturb_all sy C bs als
  | _, _ => bases
  end.
