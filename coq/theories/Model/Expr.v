(** * Model/Expr.v — the expression IR of patronus/src/expr/nodes.rs, as trees.

    Constructor by constructor the same as the Rust [Expr] enum, *including the
    redundant stored widths* ([BVAnd a b w], [BVZeroExt e by w]) and the missing
    ones ([BVIte], [BVSlice], [ArrayStore], [ArrayIte]).  The implementation's
    hash-consed DAG is related to trees by property C12 (reference equality <->
    structural equality).

    [type_of]  = [TypeCheck::get_type]   (fast, trusts stored widths)
    [check1]   = [TypeCheck::type_check] (one level, uses [type_of] of children)
    [wt]       = every node passes [check1], literals are canonical, widths > 0.

    Executable definitions only. *)

From Coq Require Export String.
From Patronus Require Export BV.
Open Scope N_scope.

Inductive ty : Type :=
| TBV (w : N)
| TArr (iw dw : N).

Definition ty_eqb (a b : ty) : bool :=
  match a, b with
  | TBV x, TBV y => x =? y
  | TArr i d, TArr i' d' => (i =? i') && (d =? d')
  | _, _ => false
  end.

Inductive expr : Type :=
| BVSymbol (name : string) (w : N)
| BVLiteral (w v : N)
| BVZeroExt (e : expr) (by_ w : N)
| BVSignExt (e : expr) (by_ w : N)
| BVSlice (e : expr) (hi lo : N)
| BVNot (e : expr) (w : N)
| BVNegate (e : expr) (w : N)
| BVEqual (a b : expr)
| BVImplies (a b : expr)
| BVGreater (a b : expr)
| BVGreaterSigned (a b : expr) (w : N)
| BVGreaterEqual (a b : expr)
| BVGreaterEqualSigned (a b : expr) (w : N)
| BVConcat (a b : expr) (w : N)
| BVAnd (a b : expr) (w : N)
| BVOr (a b : expr) (w : N)
| BVXor (a b : expr) (w : N)
| BVShiftLeft (a b : expr) (w : N)
| BVArithmeticShiftRight (a b : expr) (w : N)
| BVShiftRight (a b : expr) (w : N)
| BVAdd (a b : expr) (w : N)
| BVMul (a b : expr) (w : N)
| BVSignedDiv (a b : expr) (w : N)
| BVUnsignedDiv (a b : expr) (w : N)
| BVSignedMod (a b : expr) (w : N)
| BVSignedRem (a b : expr) (w : N)
| BVUnsignedRem (a b : expr) (w : N)
| BVSub (a b : expr) (w : N)
| BVArrayRead (array index : expr) (w : N)
| BVIte (cond tru fals : expr)
| ArraySymbol (name : string) (iw dw : N)
| ArrayConstant (e : expr) (iw dw : N)
| ArrayEqual (a b : expr)
| ArrayStore (array index data : expr)
| ArrayIte (cond tru fals : expr).

(** [TypeCheck::get_type] *)
Fixpoint type_of (e : expr) : ty :=
  match e with
  | BVSymbol _ w => TBV w
  | BVLiteral w _ => TBV w
  | BVZeroExt _ _ w => TBV w
  | BVSignExt _ _ w => TBV w
  | BVSlice _ hi lo => TBV (hi - lo + 1)
  | BVNot _ w => TBV w
  | BVNegate _ w => TBV w
  | BVEqual _ _ => TBV 1
  | BVImplies _ _ => TBV 1
  | BVGreater _ _ => TBV 1
  | BVGreaterSigned _ _ _ => TBV 1
  | BVGreaterEqual _ _ => TBV 1
  | BVGreaterEqualSigned _ _ _ => TBV 1
  | BVConcat _ _ w => TBV w
  | BVAnd _ _ w => TBV w
  | BVOr _ _ w => TBV w
  | BVXor _ _ w => TBV w
  | BVShiftLeft _ _ w => TBV w
  | BVArithmeticShiftRight _ _ w => TBV w
  | BVShiftRight _ _ w => TBV w
  | BVAdd _ _ w => TBV w
  | BVMul _ _ w => TBV w
  | BVSignedDiv _ _ w => TBV w
  | BVUnsignedDiv _ _ w => TBV w
  | BVSignedMod _ _ w => TBV w
  | BVSignedRem _ _ w => TBV w
  | BVUnsignedRem _ _ w => TBV w
  | BVSub _ _ w => TBV w
  | BVArrayRead _ _ w => TBV w
  | BVIte _ _ fals => type_of fals
  | ArraySymbol _ iw dw => TArr iw dw
  | ArrayConstant _ iw dw => TArr iw dw
  | ArrayEqual _ _ => TBV 1
  | ArrayStore a _ _ => type_of a
  | ArrayIte _ _ fals => type_of fals
  end.

Definition bv_width (e : expr) : option N :=
  match type_of e with TBV w => Some w | TArr _ _ => None end.

(** width of a bit-vector expression, 0 for arrays (only used under [wt]) *)
Definition width (e : expr) : N :=
  match type_of e with TBV w => w | TArr _ _ => 0 end.

(** Helpers of types.rs *)
Definition expect_bv_of (t : ty) (w : N) : option ty :=
  match t with
  | TBV w' => if w' =? w then Some t else None
  | TArr _ _ => None
  end.

Definition expect_same_width_bvs (a b : expr) : option ty :=
  match type_of a, type_of b with
  | TBV wa, TBV wb => if wa =? wb then Some (TBV wa) else None
  | _, _ => None
  end.

Definition expect_same_width_bvs_of (w : N) (a b : expr) : option ty :=
  match expect_same_width_bvs a b with
  | Some t => expect_bv_of t w
  | None => None
  end.

Definition expect_same_size_arrays (a b : expr) : option ty :=
  match type_of a, type_of b with
  | TArr i d, TArr i' d' => if (i =? i') && (d =? d') then Some (TArr i d) else None
  | _, _ => None
  end.

Definition bind_ty (o : option ty) (k : ty) : option ty :=
  match o with Some _ => Some k | None => None end.

(** [TypeCheck::type_check]: one level; [None] = [Err] *)
Definition check1 (e : expr) : option ty :=
  match e with
  | BVSymbol _ w => Some (TBV w)
  | BVLiteral w _ => Some (TBV w)
  | BVZeroExt e by_ w => bind_ty (expect_bv_of (type_of e) (w - by_)) (TBV w)
  | BVSignExt e by_ w => bind_ty (expect_bv_of (type_of e) (w - by_)) (TBV w)
  | BVSlice e hi lo =>
      match type_of e with
      | TBV we => if we <=? hi then None else if hi <? lo then None else Some (TBV (hi - lo + 1))
      | TArr _ _ => None
      end
  | BVNot e w => expect_bv_of (type_of e) w
  | BVNegate e w => expect_bv_of (type_of e) w
  | BVEqual a b => bind_ty (expect_same_width_bvs a b) (TBV 1)
  | BVImplies a b =>
      match expect_bv_of (type_of a) 1, expect_bv_of (type_of b) 1 with
      | Some _, Some _ => Some (TBV 1)
      | _, _ => None
      end
  | BVGreater a b => bind_ty (expect_same_width_bvs a b) (TBV 1)
  | BVGreaterSigned a b _ => bind_ty (expect_same_width_bvs a b) (TBV 1)
  | BVGreaterEqual a b => bind_ty (expect_same_width_bvs a b) (TBV 1)
  | BVGreaterEqualSigned a b _ => bind_ty (expect_same_width_bvs a b) (TBV 1)
  | BVConcat a b w =>
      match type_of a, type_of b with
      | TBV wa, TBV wb => expect_bv_of (TBV (wa + wb)) w
      | _, _ => None
      end
  | BVAnd a b w => expect_same_width_bvs_of w a b
  | BVOr a b w => expect_same_width_bvs_of w a b
  | BVXor a b w => expect_same_width_bvs_of w a b
  | BVShiftLeft a b w => expect_same_width_bvs_of w a b
  | BVArithmeticShiftRight a b w => expect_same_width_bvs_of w a b
  | BVShiftRight a b w => expect_same_width_bvs_of w a b
  | BVAdd a b w => expect_same_width_bvs_of w a b
  | BVMul a b w => expect_same_width_bvs_of w a b
  | BVSignedDiv a b w => expect_same_width_bvs_of w a b
  | BVUnsignedDiv a b w => expect_same_width_bvs_of w a b
  | BVSignedMod a b w => expect_same_width_bvs_of w a b
  | BVSignedRem a b w => expect_same_width_bvs_of w a b
  | BVUnsignedRem a b w => expect_same_width_bvs_of w a b
  | BVSub a b w => expect_same_width_bvs_of w a b
  | BVArrayRead a i w =>
      match type_of a, type_of i with
      | TArr iw dw, TBV wi =>
          if negb (iw =? wi) then None else if negb (dw =? w) then None else Some (TBV dw)
      | _, _ => None
      end
  | BVIte c t f =>
      match expect_bv_of (type_of c) 1 with
      | Some _ => expect_same_width_bvs t f
      | None => None
      end
  | ArraySymbol _ iw dw => Some (TArr iw dw)
  | ArrayConstant e iw dw => bind_ty (expect_bv_of (type_of e) dw) (TArr iw dw)
  | ArrayEqual a b => bind_ty (expect_same_size_arrays a b) (TBV 1)
  | ArrayStore a i d =>
      match type_of a with
      | TArr iw dw =>
          match expect_bv_of (type_of i) iw, expect_bv_of (type_of d) dw with
          | Some _, Some _ => Some (TArr iw dw)
          | _, _ => None
          end
      | TBV _ => None
      end
  | ArrayIte c t f =>
      match expect_bv_of (type_of c) 1 with
      | Some _ => expect_same_size_arrays t f
      | None => None
      end
  end.

Definition is_some {A} (o : option A) : bool := match o with Some _ => true | None => false end.

(** Local well-formedness that the Rust constructors establish by assertion or
    by construction and that [type_check] does not re-check: positive widths on
    leaves, canonical literal values, and the stored width of the signed
    comparisons (written by the builders, never inspected by [type_check]). *)
Definition leaf_ok (e : expr) : bool :=
  match e with
  | BVSymbol _ w => 0 <? w
  | BVLiteral w v => (0 <? w) && (v <? 2 ^ w)
  | ArraySymbol _ iw dw => (0 <? iw) && (0 <? dw)
  | ArrayConstant _ iw _ => 0 <? iw
  | BVZeroExt _ by_ w => by_ <? w
  | BVSignExt _ by_ w => by_ <? w
  | BVGreaterSigned _ b w => ty_eqb (type_of b) (TBV w)
  | BVGreaterEqualSigned _ b w => ty_eqb (type_of b) (TBV w)
  | _ => true
  end.

Definition node_ok (e : expr) : bool := is_some (check1 e) && leaf_ok e.

(** deep well-typedness *)
Fixpoint wt (e : expr) : bool :=
  node_ok e &&
  match e with
  | BVSymbol _ _ | BVLiteral _ _ | ArraySymbol _ _ _ => true
  | BVZeroExt e _ _ | BVSignExt e _ _ | BVSlice e _ _ | BVNot e _ | BVNegate e _
  | ArrayConstant e _ _ => wt e
  | BVEqual a b | BVImplies a b | BVGreater a b | BVGreaterSigned a b _
  | BVGreaterEqual a b | BVGreaterEqualSigned a b _ | BVConcat a b _
  | BVAnd a b _ | BVOr a b _ | BVXor a b _ | BVShiftLeft a b _
  | BVArithmeticShiftRight a b _ | BVShiftRight a b _ | BVAdd a b _ | BVMul a b _
  | BVSignedDiv a b _ | BVUnsignedDiv a b _ | BVSignedMod a b _ | BVSignedRem a b _
  | BVUnsignedRem a b _ | BVSub a b _ | BVArrayRead a b _ | ArrayEqual a b => wt a && wt b
  | BVIte a b c | ArrayStore a b c | ArrayIte a b c => wt a && wt b && wt c
  end.

(** [ForEachChild::for_each_child] order *)
Definition children (e : expr) : list expr :=
  match e with
  | BVSymbol _ _ | BVLiteral _ _ | ArraySymbol _ _ _ => []
  | BVZeroExt e _ _ | BVSignExt e _ _ | BVSlice e _ _ | BVNot e _ | BVNegate e _
  | ArrayConstant e _ _ => [e]
  | BVEqual a b | BVImplies a b | BVGreater a b | BVGreaterSigned a b _
  | BVGreaterEqual a b | BVGreaterEqualSigned a b _ | BVConcat a b _
  | BVAnd a b _ | BVOr a b _ | BVXor a b _ | BVShiftLeft a b _
  | BVArithmeticShiftRight a b _ | BVShiftRight a b _ | BVAdd a b _ | BVMul a b _
  | BVSignedDiv a b _ | BVUnsignedDiv a b _ | BVSignedMod a b _ | BVSignedRem a b _
  | BVUnsignedRem a b _ | BVSub a b _ | BVArrayRead a b _ | ArrayEqual a b => [a; b]
  | BVIte a b c | ArrayStore a b c | ArrayIte a b c => [a; b; c]
  end.

(** [Expr::is_array_type] (types.rs:101): decided by the constructor alone *)
Definition is_array_type (e : expr) : bool :=
  match e with
  | ArraySymbol _ _ _ | ArrayConstant _ _ _ | ArrayIte _ _ _ | ArrayStore _ _ _ => true
  | _ => false
  end.

(** structural equality: models [ExprRef == ExprRef] (justified by C12) *)
Fixpoint expr_eqb (x y : expr) : bool :=
  match x, y with
  | BVSymbol n w, BVSymbol n' w' => String.eqb n n' && (w =? w')
  | BVLiteral w v, BVLiteral w' v' => (w =? w') && (v =? v')
  | BVZeroExt e b w, BVZeroExt e' b' w' => expr_eqb e e' && (b =? b') && (w =? w')
  | BVSignExt e b w, BVSignExt e' b' w' => expr_eqb e e' && (b =? b') && (w =? w')
  | BVSlice e h l, BVSlice e' h' l' => expr_eqb e e' && (h =? h') && (l =? l')
  | BVNot e w, BVNot e' w' => expr_eqb e e' && (w =? w')
  | BVNegate e w, BVNegate e' w' => expr_eqb e e' && (w =? w')
  | BVEqual a b, BVEqual a' b' => expr_eqb a a' && expr_eqb b b'
  | BVImplies a b, BVImplies a' b' => expr_eqb a a' && expr_eqb b b'
  | BVGreater a b, BVGreater a' b' => expr_eqb a a' && expr_eqb b b'
  | BVGreaterSigned a b w, BVGreaterSigned a' b' w' => expr_eqb a a' && expr_eqb b b' && (w =? w')
  | BVGreaterEqual a b, BVGreaterEqual a' b' => expr_eqb a a' && expr_eqb b b'
  | BVGreaterEqualSigned a b w, BVGreaterEqualSigned a' b' w' => expr_eqb a a' && expr_eqb b b' && (w =? w')
  | BVConcat a b w, BVConcat a' b' w' => expr_eqb a a' && expr_eqb b b' && (w =? w')
  | BVAnd a b w, BVAnd a' b' w' => expr_eqb a a' && expr_eqb b b' && (w =? w')
  | BVOr a b w, BVOr a' b' w' => expr_eqb a a' && expr_eqb b b' && (w =? w')
  | BVXor a b w, BVXor a' b' w' => expr_eqb a a' && expr_eqb b b' && (w =? w')
  | BVShiftLeft a b w, BVShiftLeft a' b' w' => expr_eqb a a' && expr_eqb b b' && (w =? w')
  | BVArithmeticShiftRight a b w, BVArithmeticShiftRight a' b' w' => expr_eqb a a' && expr_eqb b b' && (w =? w')
  | BVShiftRight a b w, BVShiftRight a' b' w' => expr_eqb a a' && expr_eqb b b' && (w =? w')
  | BVAdd a b w, BVAdd a' b' w' => expr_eqb a a' && expr_eqb b b' && (w =? w')
  | BVMul a b w, BVMul a' b' w' => expr_eqb a a' && expr_eqb b b' && (w =? w')
  | BVSignedDiv a b w, BVSignedDiv a' b' w' => expr_eqb a a' && expr_eqb b b' && (w =? w')
  | BVUnsignedDiv a b w, BVUnsignedDiv a' b' w' => expr_eqb a a' && expr_eqb b b' && (w =? w')
  | BVSignedMod a b w, BVSignedMod a' b' w' => expr_eqb a a' && expr_eqb b b' && (w =? w')
  | BVSignedRem a b w, BVSignedRem a' b' w' => expr_eqb a a' && expr_eqb b b' && (w =? w')
  | BVUnsignedRem a b w, BVUnsignedRem a' b' w' => expr_eqb a a' && expr_eqb b b' && (w =? w')
  | BVSub a b w, BVSub a' b' w' => expr_eqb a a' && expr_eqb b b' && (w =? w')
  | BVArrayRead a b w, BVArrayRead a' b' w' => expr_eqb a a' && expr_eqb b b' && (w =? w')
  | BVIte a b c, BVIte a' b' c' => expr_eqb a a' && expr_eqb b b' && expr_eqb c c'
  | ArraySymbol n i d, ArraySymbol n' i' d' => String.eqb n n' && (i =? i') && (d =? d')
  | ArrayConstant e i d, ArrayConstant e' i' d' => expr_eqb e e' && (i =? i') && (d =? d')
  | ArrayEqual a b, ArrayEqual a' b' => expr_eqb a a' && expr_eqb b b'
  | ArrayStore a b c, ArrayStore a' b' c' => expr_eqb a a' && expr_eqb b b' && expr_eqb c c'
  | ArrayIte a b c, ArrayIte a' b' c' => expr_eqb a a' && expr_eqb b b' && expr_eqb c c'
  | _, _ => false
  end.
