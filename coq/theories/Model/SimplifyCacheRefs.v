(** * Model/SimplifyCacheRefs.v — the memoising driver of [Model/SimplifyCache.v] over a cache CONTAINER.

    [SimplifyCache.v] keys its cache by expression trees (an association list).  Here the cache is what it is in
    transform.rs: an [ExprMap<Option<ExprRef>>], i.e. one of the two containers of meta.rs
    ([Model/ExprMeta.v]) reached only through [map_ops] ([Index] reads, [IndexMut] stores), keyed and valued by
    [ExprRef] indices, with [ExprMeta.get_fixed_point] as it is written in meta.rs.

    [ExprRef]s come from an interning table [ctx] (position = index, an expression is appended when it is first
    met; a table never changes an index it has handed out: C12).  [node] is [ctx[r]]; a reference beyond the table
    would be an out-of-bounds panic in Rust and is the explicit answer [RDangling]/[SPanic] here.

    The driver is the one of [SimplifyCache.v], line by line: work stack of references, [visit_r] = the
    [for_each_child] closure ([get_fixed_point] of every child, [children_changed] by reference comparison,
    missing children), the rule call on the children's fixed points, the store [transformed[r] = Some(new)], the
    test [transformed[new].is_none()] before re-queuing, and the final [get_fixed_point(..).unwrap()].

    Executable definitions only. *)
From Patronus Require Export SimplifyCache ExprMeta.
Open Scope N_scope.

Definition ctx := list expr.

Fixpoint find_ref (c : ctx) (e : expr) (i : N) : option N :=
  match c with
  | [] => None
  | x :: r => if expr_eqb x e then Some i else find_ref r e (i + 1)
  end.

Definition intern (c : ctx) (e : expr) : ctx * N :=
  match find_ref c e 0 with
  | Some k => (c, k)
  | None => (c ++ [e], len_N c)
  end.

Fixpoint intern_all (c : ctx) (es : list expr) : ctx * list N :=
  match es with
  | [] => (c, [])
  | e :: rest =>
      let '(c1, k) := intern c e in
      let '(c2, ks) := intern_all c1 rest in
      (c2, k :: ks)
  end.

Fixpoint node (c : ctx) (k : N) : option expr :=
  match c with
  | [] => None
  | x :: r => if k =? 0 then Some x else node r (N.pred k)
  end.

Fixpoint nodes (c : ctx) (ks : list N) : option (list expr) :=
  match ks with
  | [] => Some []
  | k :: rest =>
      match node c k, nodes c rest with
      | Some e, Some es => Some (e :: es)
      | _, _ => None
      end
  end.

Inductive vres_r (M : Type) : Type :=
| VOkR (m : M) (cs : list N) (changed : bool) (missing : list N)
| VFuelR.
Arguments VOkR {M}.
Arguments VFuelR {M}.

Fixpoint visit_r {M : Type} (o : map_ops M) (fuel : nat) (m : M) (chs : list N) : vres_r M :=
  match chs with
  | [] => VOkR m [] false []
  | ch :: rest =>
      match ExprMeta.get_fixed_point o fuel m ch with
      | GfpFuel => VFuelR
      | GfpSome m1 v =>
          match visit_r o fuel m1 rest with
          | VOkR m2 cs chg miss => VOkR m2 (v :: cs) (negb (v =? ch) || chg) miss
          | VFuelR => VFuelR
          end
      | GfpNone m1 =>
          match visit_r o fuel m1 rest with
          | VOkR m2 cs chg miss => VOkR m2 cs chg (ch :: miss)
          | VFuelR => VFuelR
          end
      end
  end.

Inductive rres_r (M : Type) : Type :=
| ROkR (c : ctx) (m : M)
| RPanicR
| RDangling
| RFuelR.
Arguments ROkR {M}.
Arguments RPanicR {M}.
Arguments RDangling {M}.
Arguments RFuelR {M}.

Definition is_none_r (o : option N) : bool := match o with None => true | Some _ => false end.

Fixpoint run_r {M : Type} (o : map_ops M) (fuel : nat) (c : ctx) (m : M) (todo : list N) : rres_r M :=
  match fuel with
  | O => RFuelR
  | S f =>
      match todo with
      | [] => ROkR c m
      | r :: rest =>
          match node c r with
          | None => RDangling
          | Some e =>
              let '(c0, chs) := intern_all c (children e) in
              match visit_r o f m chs with
              | VFuelR => RFuelR
              | VOkR m1 cs chg (x :: xs) => run_r o f c0 m1 (rev (x :: xs) ++ r :: rest)
              | VOkR m1 cs chg [] =>
                  match nodes c0 cs with
                  | None => RDangling
                  | Some ces =>
                      match simplify e ces with
                      | Panic => RPanicR
                      | Ok res =>
                          let new := match res with
                                     | Some x => x
                                     | None => if chg then rebuild e ces else e
                                     end in
                          let '(c1, nr) := intern c0 new in
                          let m2 := mo_set o m1 r (Some nr) in
                          if negb (r =? nr) && is_none_r (mo_get o m2 nr)
                          then run_r o f c1 m2 (nr :: rest)
                          else run_r o f c1 m2 rest
                      end
                  end
              end
          end
      end
  end.

(** [Simplifier::simplify]; the answer carries the interning table and the cache container afterwards *)
Definition simplify_cached_r {M : Type} (o : map_ops M) (fuel : nat) (c : ctx) (m : M) (e : expr) : ctx * M * sres :=
  let '(c0, r) := intern c e in
  match run_r o fuel c0 m [r] with
  | ROkR c1 m1 =>
      match ExprMeta.get_fixed_point o fuel m1 r with
      | GfpSome m2 v => match node c1 v with Some x => (c1, m2, SOk x) | None => (c1, m2, SPanic) end
      | GfpNone m2 => (c1, m2, SPanic)
      | GfpFuel => (c1, m1, SFuel)
      end
  | RPanicR => (c, m, SPanic)
  | RDangling => (c, m, SPanic)
  | RFuelR => (c, m, SFuel)
  end.

Fixpoint simplify_batch_r {M : Type} (o : map_ops M) (fuel : nat) (c : ctx) (m : M) (es : list expr) : ctx * M * list sres :=
  match es with
  | [] => (c, m, [])
  | e :: rest =>
      let '(c1, m1, r) := simplify_cached_r o fuel c m e in
      let '(c2, m2, rs) := simplify_batch_r o fuel c1 m1 rest in
      (c2, m2, r :: rs)
  end.

(** the two instances of transform.rs: [Simplifier<DenseExprMetaData<..>>], [Simplifier<SparseExprMap<..>>] *)
Definition simplify_batch_dense (fuel : nat) (es : list expr) : ctx * dense (option N) * list sres :=
  simplify_batch_r dense_ops fuel [] dense_empty es.
Definition simplify_batch_sparse (fuel : nat) (es : list expr) : ctx * sparse (option N) * list sres :=
  simplify_batch_r sparse_ops fuel [] sparse_empty es.

(** the cache as [SimplifyCache.v] sees it: the entries [key -> value] as expression trees *)
Definition cache_entry {M : Type} (o : map_ops M) (c : ctx) (m : M) (e : expr) : option expr :=
  match find_ref c e 0 with
  | None => None
  | Some k => match mo_get o m k with None => None | Some v => node c v end
  end.
