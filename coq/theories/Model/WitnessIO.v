(** * Model/WitnessIO.v — executable model of patronus/src/btor2/witness.rs
    (printer [print_witness]/[witness_to_string], reader [parse_witnesses]/[parse_witness])
    and of the data it works on (patronus/src/mc/types.rs: [Witness], [InitValue]).

    NO proofs here.  Conventions:
    - text is [str = list ascii] (bytes; Rust's UTF-8 [String]; every character the code
      looks at is ASCII, so working on bytes is exact);
    - bit-vector values are [bits = list bool], most significant bit first; the width is
      the length of the list (baa's [to_bit_str]/[from_bit_str] are then maps over the list);
    - an array value is (index width, default, association list, latest store first);
    - where the Rust code unwraps / asserts / debug_asserts / todo!s the model returns [RPanic]
      (the harness is built with debug assertions on).

    What is NOT modelled (see REPORT-C16.md): I/O errors and invalid UTF-8 ([Err] results);
    [str::trim] for non-ASCII white space; bit strings with a sign prefix (baa accepts
    "+01"/"-1"; the model panics); the order of the recorded index vector of a parsed array
    (Rust sorts it with baa's derived, word-wise [Ord]; the model keeps it sorted by value
    and the tie compares it as a set). *)
From Coq Require Import Decimal DecimalN.
From Coq Require Import NArith Ascii String Bool List.
Import ListNotations.
Open Scope N_scope.

(* ------------------------------------------------------------------------- results *)
Inductive wres (A : Type) : Type :=
| WOk (a : A)
| WPanic.
Arguments WOk {A} a.
Arguments WPanic {A}.

Definition wbind {A B} (r : wres A) (f : A -> wres B) : wres B :=
  match r with WOk a => f a | WPanic => WPanic end.

(* ------------------------------------------------------------------------- text *)
Definition str := list ascii.
Definition lit (s : string) : str := list_ascii_of_string s.

Definition ch_nl : ascii := "010"%char.
Definition ch_cr : ascii := "013"%char.
Definition ch_tab : ascii := "009"%char.
Definition ch_sp : ascii := " "%char.
Definition ch_semi : ascii := ";"%char.
Definition ch_at : ascii := "@"%char.
Definition ch_hash : ascii := "#"%char.

Fixpoint str_eqb (a b : str) : bool :=
  match a, b with
  | [], [] => true
  | x :: a', y :: b' => Ascii.eqb x y && str_eqb a' b'
  | _, _ => false
  end.

Definition starts_with (c : ascii) (s : str) : bool :=
  match s with x :: _ => Ascii.eqb x c | [] => false end.

(** ASCII white space = what [char::is_whitespace] accepts below U+0080: 9..13 and 32. *)
Definition is_ws (c : ascii) : bool :=
  let n := N_of_ascii c in ((9 <=? n) && (n <=? 13)) || (n =? 32).

Fixpoint drop_ws (s : str) : str :=
  match s with
  | c :: r => if is_ws c then drop_ws r else s
  | [] => []
  end.

(** [str::trim] *)
Definition trim (s : str) : str := rev (drop_ws (rev (drop_ws s))).

(** [BufRead::lines]: split at '\n'; a '\r' directly before the '\n' is removed; a last line
    without '\n' is produced if it is not empty.  [cur] is the current line, reversed. *)
Definition strip_cr_rev (cur : str) : str :=
  match cur with
  | c :: r => if Ascii.eqb c ch_cr then rev r else rev cur
  | [] => []
  end.

Fixpoint split_lines_aux (s : str) (cur : str) : list str :=
  match s with
  | [] => match cur with [] => [] | _ => [rev cur] end
  | c :: r => if Ascii.eqb c ch_nl then strip_cr_rev cur :: split_lines_aux r []
              else split_lines_aux r (c :: cur)
  end.
Definition split_lines (s : str) : list str := split_lines_aux s [].

(** [btor2::parse::tokenize_line]: tokens are separated by ' ' and '\t'; ';' starts a
    comment that runs to the end of the line.  [cur] is the current token, reversed. *)
Definition finish_token (cur : str) (rest : list str) : list str :=
  match cur with [] => rest | _ => rev cur :: rest end.

Fixpoint tokenize_aux (s : str) (cur : str) : list str :=
  match s with
  | [] => finish_token cur []
  | c :: r =>
      if Ascii.eqb c ch_sp || Ascii.eqb c ch_tab then finish_token cur (tokenize_aux r [])
      else if Ascii.eqb c ch_semi then finish_token cur []
      else tokenize_aux r (c :: cur)
  end.
Definition tokenize (s : str) : list str := tokenize_aux s [].

(* ------------------------------------------------------------------------- numbers *)
(** Decimal numbers ([{}] of an integer; [str::parse::<u64>]). *)
Fixpoint dec_of_uint (d : uint) : str :=
  match d with
  | Nil => []
  | D0 d => "0"%char :: dec_of_uint d
  | D1 d => "1"%char :: dec_of_uint d
  | D2 d => "2"%char :: dec_of_uint d
  | D3 d => "3"%char :: dec_of_uint d
  | D4 d => "4"%char :: dec_of_uint d
  | D5 d => "5"%char :: dec_of_uint d
  | D6 d => "6"%char :: dec_of_uint d
  | D7 d => "7"%char :: dec_of_uint d
  | D8 d => "8"%char :: dec_of_uint d
  | D9 d => "9"%char :: dec_of_uint d
  end.

Definition digit_of_char (a : ascii) : option (uint -> uint) :=
  match a with
  | "0" => Some D0 | "1" => Some D1 | "2" => Some D2 | "3" => Some D3 | "4" => Some D4
  | "5" => Some D5 | "6" => Some D6 | "7" => Some D7 | "8" => Some D8 | "9" => Some D9
  | _ => None
  end%char.

Fixpoint uint_of_dec (s : str) : option uint :=
  match s with
  | [] => Some Nil
  | a :: r =>
      match digit_of_char a, uint_of_dec r with
      | Some f, Some d => Some (f d)
      | _, _ => None
      end
  end.

Definition print_dec (n : N) : str := dec_of_uint (N.to_uint n).

(** [s.parse::<uN>()] for an unsigned type of [bound] = 2^N values: an optional '+', at
    least one decimal digit, value below the bound. *)
Definition parse_unsigned (bound : N) (s : str) : option N :=
  let digits := match s with c :: r => if Ascii.eqb c "+"%char then r else s | [] => [] end in
  match digits with
  | [] => None
  | _ => match uint_of_dec digits with
         | Some d => let v := N.of_uint d in if v <? bound then Some v else None
         | None => None
         end
  end.
Definition parse_u64 : str -> option N := parse_unsigned (2 ^ 64).
Definition parse_u32 : str -> option N := parse_unsigned (2 ^ 32).

(* ------------------------------------------------------------------------- bit vectors *)
Definition bits := list bool.

Fixpoint bits_eqb (a b : bits) : bool :=
  match a, b with
  | [], [] => true
  | x :: a', y :: b' => Bool.eqb x y && bits_eqb a' b'
  | _, _ => false
  end.

(** the unsigned value (only used to order array indices) *)
Definition bits_val (b : bits) : N :=
  fold_left (fun acc x => 2 * acc + (if x : bool then 1 else 0)) b 0.

(** [BitVecValue::to_bit_str] *)
Definition print_bits (b : bits) : str :=
  map (fun x : bool => if x then "1"%char else "0"%char) b.

(** [BitVecValue::from_bit_str(..)] restricted to plain binary strings; [None] stands for
    "the caller's unwrap panics" (empty string: zero-width value, baa panics as well). *)
Fixpoint parse_bits_aux (s : str) : option bits :=
  match s with
  | [] => Some []
  | c :: r =>
      if Ascii.eqb c "0"%char then option_map (cons false) (parse_bits_aux r)
      else if Ascii.eqb c "1"%char then option_map (cons true) (parse_bits_aux r)
      else None
  end.
Definition parse_bits (s : str) : option bits :=
  match s with [] => None | _ => parse_bits_aux s end.

(* ------------------------------------------------------------------------- arrays *)
Record array_value : Type := mk_array {
  av_iw : nat;                       (* index width *)
  av_default : bits;                 (* its length is the data width *)
  av_entries : list (bits * bits)    (* latest store first *)
}.

Fixpoint assoc_bits (i : bits) (l : list (bits * bits)) : option bits :=
  match l with
  | [] => None
  | (k, d) :: r => if bits_eqb i k then Some d else assoc_bits i r
  end.

Definition av_select (a : array_value) (i : bits) : bits :=
  match assoc_bits i (av_entries a) with Some d => d | None => av_default a end.
Definition av_store (a : array_value) (i d : bits) : array_value :=
  mk_array (av_iw a) (av_default a) ((i, d) :: av_entries a).
Definition av_new (iw : nat) (default : bits) : array_value := mk_array iw default [].
Definition av_dw (a : array_value) : nat := length (av_default a).

(** A limitation of baa 0.19.3 that the witness code runs into: a sparse array with an index
    width above 64 bits keeps a [HashMap<BitVecValue, BitVecValue>] and looks keys up through
    [impl Borrow<BitVecValueRef> for BitVecValue], which is [todo!()] (bv/borrowed.rs:120).
    A lookup ([select]) or removal ([store] of the default value) therefore panics as soon as
    it meets the map entry of the same key, i.e. whenever the key is present in the map (its
    latest store was not the default value).  Lookups of absent keys panic only on a hash
    collision (randomly seeded hasher): that part is not modelled, the tie avoids it. *)
Definition av_present (a : array_value) (i : bits) : bool :=
  match assoc_bits i (av_entries a) with
  | Some d => negb (bits_eqb d (av_default a))
  | None => false
  end.
Definition baa_lookup_panics (a : array_value) (i : bits) : bool :=
  Nat.ltb 64 (av_iw a) && av_present a i.

(** [ArrayValue::select] as the implementation runs it *)
Definition av_select_impl (a : array_value) (i : bits) : wres bits :=
  if baa_lookup_panics a i then WPanic else WOk (av_select a i).

(* ------------------------------------------------------------------------- mc/types.rs *)
Inductive init_value : Type :=
| IVBitVec (v : bits)
| IVArray (a : array_value) (indices : list bits)
| IVNone.

Inductive wvalue : Type :=
| WVBitVec (v : bits)
| WVArray (a : array_value).

Record btor_witness : Type := mk_btor_witness {
  w_init : list init_value;
  w_init_names : list (option str);
  w_inputs : list (list (option wvalue));
  w_input_names : list (option str);
  w_failed : list N
}.

Definition witness_default : btor_witness := mk_btor_witness [] [] [] [] [].

(* ------------------------------------------------------------------------- printer *)
Definition display_name (prefix : str) (name : option str) (id : nat) : str :=
  match name with Some n => n | None => prefix ++ print_dec (N.of_nat id) end.

Fixpoint join_sp (toks : list str) : str :=
  match toks with
  | [] => []
  | [t] => t
  | t :: r => t ++ ch_sp :: join_sp r
  end.

(** the stable sort of [print_witness_init_value] (by unsigned value) *)
Fixpoint insert_sorted (x : bits) (l : list bits) : list bits :=
  match l with
  | [] => [x]
  | y :: r => if bits_val x <=? bits_val y then x :: y :: r else y :: insert_sorted x r
  end.
Definition sort_indices (l : list bits) : list bits := fold_right insert_sorted [] l.

(** one line "<id> <bits> <name><suffix>" *)
Definition bv_line (id : nat) (v : bits) (name suffix : str) : str :=
  join_sp [print_dec (N.of_nat id); print_bits v; name ++ suffix].
(** one line "<id> [<index>] <bits> <name><suffix>" *)
Definition arr_line (id : nat) (i d : bits) (name suffix : str) : str :=
  join_sp [print_dec (N.of_nat id); "["%char :: print_bits i ++ ["]"%char]; print_bits d; name ++ suffix].

Definition all_width (n : nat) (l : list bits) : bool := forallb (fun i => Nat.eqb (length i) n) l.

(** [print_witness_init_value]; comparing / selecting with an index of the wrong width is a
    debug assertion in baa *)
Fixpoint print_array_lines (a : array_value) (id : nat) (name suffix : str) (idxs : list bits)
  : wres (list str) :=
  match idxs with
  | [] => WOk []
  | i :: r =>
      wbind (av_select_impl a i) (fun d =>
      wbind (print_array_lines a id name suffix r) (fun ls => WOk (arr_line id i d name suffix :: ls)))
  end.

Definition print_init_value (v : init_value) (name : str) (id : nat) (suffix : str) : wres (list str) :=
  match v with
  | IVBitVec b => WOk [bv_line id b name suffix]
  | IVArray a indices =>
      if all_width (av_iw a) indices
      then print_array_lines a id name suffix (sort_indices indices)
      else WPanic
  | IVNone => WOk []
  end.

Fixpoint print_inits (vals : list init_value) (names : list (option str)) (id : nat) : wres (list str) :=
  match vals, names with
  | v :: vals', n :: names' =>
      wbind (print_init_value v (display_name (lit "state_") n id) id (lit "#0")) (fun l1 =>
      wbind (print_inits vals' names' (S id)) (fun l2 => WOk (l1 ++ l2)))
  | _, _ => WOk []       (* zip stops at the shorter list (lengths were asserted equal) *)
  end.

(** the lines of one input frame (without the "@k" line) *)
Fixpoint print_input_values (vals : list (option wvalue)) (names : list (option str)) (id : nat)
         (suffix : str) : wres (list str) :=
  match vals, names with
  | v :: vals', n :: names' =>
      wbind (match v with
             | Some (WVBitVec b) => WOk [bv_line id b (display_name (lit "input_") n id) suffix]
             | Some (WVArray _) => WPanic        (* todo!("add support for array type inputs") *)
             | None => WOk []
             end) (fun l1 =>
      wbind (print_input_values vals' names' (S id) suffix) (fun l2 => WOk (l1 ++ l2)))
  | _, _ => WOk []
  end.

Fixpoint print_frames (frames : list (list (option wvalue))) (names : list (option str)) (k : nat)
  : wres (list str) :=
  match frames with
  | [] => WOk []
  | vals :: frames' =>
      if Nat.eqb (length vals) (length names) then
        let suffix := ch_at :: print_dec (N.of_nat k) in
        wbind (print_input_values vals names 0 suffix) (fun l1 =>
        wbind (print_frames frames' names (S k)) (fun l2 => WOk (suffix :: l1 ++ l2)))
      else WPanic                                   (* assert_eq!(values.len(), input_names.len()) *)
  end.

Definition prop_line (failed : list N) : list str :=
  match failed with
  | [] => []                                         (* nothing is written, not even a newline *)
  | _ => [join_sp (map (fun b => "b"%char :: print_dec b) failed)]
  end.

(** [print_witness] as a list of lines *)
Definition print_lines (w : btor_witness) : wres (list str) :=
  wbind (match w_init w with
         | [] => WOk []
         | _ => if Nat.eqb (length (w_init w)) (length (w_init_names w))
                then wbind (print_inits (w_init w) (w_init_names w) 0) (fun l => WOk (lit "#0" :: l))
                else WPanic                          (* assert_eq!(init.len(), init_names.len()) *)
         end) (fun states =>
  wbind (print_frames (w_inputs w) (w_input_names w) 0) (fun frames =>
  WOk (lit "sat" :: prop_line (w_failed w) ++ states ++ frames ++ [lit "."]))).

Definition unlines (ls : list str) : str := concat (map (fun l => l ++ [ch_nl]) ls).

(** [witness_to_string] *)
Definition wit_print_text (w : btor_witness) : wres str :=
  wbind (print_lines w) (fun ls => WOk (unlines ls)).

(* ------------------------------------------------------------------------- reader *)
Inductive pstate : Type :=
| PStart | PWaitForProp | PWaitForFrame
| PParsingStatesAt (at_ : N) | PParsingInputsAt (at_ : N)
| PDone.

Record pst : Type := mk_pst {
  ps_state : pstate;
  ps_out : list btor_witness;
  ps_wit : btor_witness;
  ps_inputs : list (option wvalue)
}.

(** [ensure_space(v, index); v[index] = x] *)
Fixpoint set_at {A} (d : A) (l : list A) (i : nat) (x : A) : list A :=
  match i, l with
  | O, [] => [x]
  | O, _ :: r => x :: r
  | S i', [] => d :: set_at d [] i' x
  | S i', y :: r => y :: set_at d r i' x
  end.
(** [ensure_space(v, index); v[index]] *)
Definition get_at {A} (d : A) (l : list A) (i : nat) : A := nth i l d.

(** recorded indices of a parsed array: Rust does extend/sort/dedup with baa's derived Ord;
    the model keeps the list sorted by value and duplicate free (same set) *)
Fixpoint ins_dedup (x : bits) (l : list bits) : list bits :=
  match l with
  | [] => [x]
  | y :: r => if bits_eqb x y then y :: r
              else if bits_val x <? bits_val y then x :: y :: r else y :: ins_dedup x r
  end.
Definition merge_indices (oi ni : list bits) : list bits := fold_left (fun acc x => ins_dedup x acc) ni oi.

(** [ArrayValue::store] with its two width debug assertions *)
Definition av_store_checked (a : array_value) (i d : bits) : wres array_value :=
  if Nat.eqb (length i) (av_iw a) && Nat.eqb (length d) (av_dw a) then
    (* storing the default value removes the key from the map: see [baa_lookup_panics] *)
    if bits_eqb d (av_default a) && baa_lookup_panics a i then WPanic else WOk (av_store a i d)
  else WPanic.

Fixpoint store_all (oa na : array_value) (ni : list bits) : wres array_value :=
  match ni with
  | [] => WOk oa
  | i :: r =>
      wbind (av_select_impl na i) (fun d =>
      wbind (av_store_checked oa i d) (fun oa' => store_all oa' na r))
  end.

Definition update_value (old new : init_value) : wres init_value :=
  match old, new with
  | IVNone, n => WOk n
  | IVArray oa oi, IVArray na ni =>
      wbind (store_all oa na ni) (fun oa' => WOk (IVArray oa' (merge_indices oi ni)))
  | _, _ => WPanic                                    (* "Unexpected combination" *)
  end.

(** the name is the last token up to the first '@' or '#' *)
Fixpoint strip_name (t : str) : str :=
  match t with
  | [] => []
  | c :: r => if Ascii.eqb c ch_at || Ascii.eqb c ch_hash then [] else c :: strip_name r
  end.

(** "[...]" -> "..." *)
Definition unbracket (t : str) : option str :=
  match t with
  | c :: r =>
      if Ascii.eqb c "["%char then
        match rev r with
        | l :: m => if Ascii.eqb l "]"%char then Some (rev m) else None
        | [] => None
        end
      else None
  | [] => None
  end.

Definition parse_assignment (tokens : list str) : wres (N * str * init_value) :=
  match tokens with
  | [t0; t1; t2] =>
      match parse_u64 t0, parse_bits t1 with
      | Some idx, Some v => WOk (idx, strip_name t2, IVBitVec v)
      | _, _ => WPanic
      end
  | [t0; t1; t2; t3] =>
      match parse_u64 t0, unbracket t1 with
      | Some idx, Some istr =>
          match parse_bits istr, parse_bits t2 with
          | Some ai, Some d =>
              WOk (idx, strip_name t3,
                   IVArray (av_store (av_new (length ai) (repeat false (length d))) ai d) [ai])
          | _, _ => WPanic
          end
      | _, _ => WPanic
      end
  | _ => WPanic                                       (* "Expected assignment to consist of 3-4 parts" *)
  end.

(** [InitValue -> Option<Value>] ([try_into().ok()]) *)
Definition value_of_init (v : init_value) : option wvalue :=
  match v with
  | IVBitVec b => Some (WVBitVec b)
  | IVArray a _ => Some (WVArray a)
  | IVNone => None
  end.

Inductive step_res : Type :=
| StCont (s : pst)
| StBreak (s : pst)
| StPanic.

Definition set_state (s : pst) (st : pstate) : pst := mk_pst st (ps_out s) (ps_wit s) (ps_inputs s).

(** [finish_witness]: push the witness, reset it; next state Done / Start *)
Definition finish_witness (pm : N) (s : pst) : pst :=
  let out := ps_out s ++ [ps_wit s] in
  mk_pst (if pm <=? N.of_nat (length out) then PDone else PStart) out witness_default (ps_inputs s).

(** [finish_inputs]: push the collected frame, reset it *)
Definition finish_inputs (s : pst) : pst :=
  let w := ps_wit s in
  mk_pst (ps_state s) (ps_out s)
         (mk_btor_witness (w_init w) (w_init_names w) (w_inputs w ++ [ps_inputs s]) (w_input_names w) (w_failed w))
         [].

(** [start_inputs]: "@k" with k = number of frames read so far *)
Definition start_inputs (line : str) (s : pst) : step_res :=
  match parse_u64 (tl line) with
  | Some at_ => if at_ =? N.of_nat (length (w_inputs (ps_wit s)))
                then StCont (set_state s (PParsingInputsAt at_)) else StPanic
  | None => StPanic
  end.

(** [start_state]: "#k" *)
Definition start_state (line : str) (s : pst) : step_res :=
  match parse_u64 (tl line) with
  | Some at_ => StCont (set_state s (PParsingStatesAt at_))
  | None => StPanic
  end.

Fixpoint parse_props (tokens : list str) (acc : list N) : wres (list N) :=
  match tokens with
  | [] => WOk acc
  | t :: r =>
      match t with
      | c :: num => if Ascii.eqb c "b"%char
                    then match parse_u32 num with
                         | Some n => parse_props r (acc ++ [n])
                         | None => WPanic
                         end
                    else WPanic                       (* justice / unexpected property token *)
      | [] => WPanic
      end
  end.

(** one (trimmed, non-blank, non-comment) line *)
Definition wstep (pm : N) (s : pst) (line : str) : step_res :=
  let w := ps_wit s in
  match ps_state s with
  | PStart => if str_eqb line (lit "sat") then StCont (set_state s PWaitForProp) else StPanic
  | PDone => StBreak s
  | PWaitForProp =>
      match parse_props (tokenize line) (w_failed w) with
      | WOk failed =>
          StCont (mk_pst PWaitForFrame (ps_out s)
                        (mk_btor_witness (w_init w) (w_init_names w) (w_inputs w) (w_input_names w) failed)
                        (ps_inputs s))
      | WPanic => StPanic
      end
  | PWaitForFrame =>
      if starts_with ch_at line then start_inputs line s
      else if str_eqb line (lit "#0") then start_state line s
      else StPanic
  | PParsingStatesAt at_ =>
      if str_eqb line (lit ".") then
        let s' := finish_witness pm s in
        if pm <=? N.of_nat (length (ps_out s')) then StBreak s' else StCont s'
      else if starts_with ch_at line then start_inputs line s
      else if at_ =? 0 then
        match parse_assignment (tokenize line) with
        | WOk (ii, name, v) =>
            let i := N.to_nat ii in
            match update_value (get_at IVNone (w_init w) i) v with
            | WOk v' =>
                StCont (mk_pst (PParsingStatesAt at_) (ps_out s)
                              (mk_btor_witness (set_at IVNone (w_init w) i v')
                                          (set_at None (w_init_names w) i (Some name))
                                          (w_inputs w) (w_input_names w) (w_failed w))
                              (ps_inputs s))
            | WPanic => StPanic
            end
        | WPanic => StPanic
        end
      else StCont s                                    (* later state frames are ignored *)
  | PParsingInputsAt at_ =>
      if str_eqb line (lit ".") then StCont (finish_witness pm (finish_inputs s))
      else if starts_with ch_at line then start_inputs line (finish_inputs s)
      else if starts_with ch_hash line then start_state line (finish_inputs s)
      else
        match parse_assignment (tokenize line) with
        | WOk (ii, name, v) =>
            let i := N.to_nat ii in
            match get_at None (ps_inputs s) i with
            | Some _ => StPanic                        (* debug_assert!(inputs[ii].is_none()) *)
            | None =>
                let inputs := set_at None (ps_inputs s) i (value_of_init v) in
                let names := match w_inputs w with
                             | [] => set_at None (w_input_names w) i (Some name)
                             | _ => w_input_names w
                             end in
                StCont (mk_pst (PParsingInputsAt at_) (ps_out s)
                              (mk_btor_witness (w_init w) (w_init_names w) (w_inputs w) names (w_failed w))
                              inputs)
            end
        | WPanic => StPanic
        end
  end.

(** blank lines and comment lines are skipped *)
Definition skip_line (trimmed : str) : bool :=
  match trimmed with [] => true | c :: _ => Ascii.eqb c ch_semi end.

Fixpoint wrun (pm : N) (s : pst) (lines : list str) : wres (list btor_witness) :=
  match lines with
  | [] => WOk (ps_out s)
  | full :: rest =>
      let line := trim full in
      if skip_line line then wrun pm s rest
      else match wstep pm s line with
           | StCont s' => wrun pm s' rest
           | StBreak s' => WOk (ps_out s')
           | StPanic => WPanic
           end
  end.

Definition pst_init : pst := mk_pst PStart [] witness_default [].

(** [parse_witnesses(input, parse_max)] on the lines / on the text *)
Definition parse_lines (pm : N) (lines : list str) : wres (list btor_witness) := wrun pm pst_init lines.
Definition wit_parse_text (pm : N) (text : str) : wres (list btor_witness) := parse_lines pm (split_lines text).

(** [parse_witness] *)
Definition wit_parse_single (text : str) : wres btor_witness :=
  match wit_parse_text 1 text with
  | WOk (w :: _) => WOk w
  | WOk [] => WPanic                                  (* .next().unwrap() *)
  | WPanic => WPanic
  end.

(* ------------------------------------------------------------------------- what is read back *)
(** [canon w] is the witness that is read back from the text of [w] (theorem
    [roundtrip_canon]).  It is defined with the reader's own primitives ([set_at],
    [update_value]'s array merging), state by state instead of line by line. *)
Definition canon_array (a : array_value) (indices : list bits) : init_value :=
  match sort_indices indices with
  | [] => IVNone
  | i0 :: rest =>
      let fresh i := av_store (av_new (length i) (repeat false (length (av_select a i)))) i (av_select a i) in
      IVArray (fold_left (fun acc i => av_store acc i (av_select a i)) rest (fresh i0))
              (fold_left (fun acc i => ins_dedup i acc) rest [i0])
  end.

Definition canon_value (v : init_value) : init_value :=
  match v with
  | IVBitVec b => IVBitVec b
  | IVArray a indices => canon_array a indices
  | IVNone => IVNone
  end.

Fixpoint canon_inits (vals : list init_value) (names : list (option str)) (id : nat)
         (acc : list init_value * list (option str)) : list init_value * list (option str) :=
  match vals, names with
  | v :: vals', n :: names' =>
      let acc' := match canon_value v with
                  | IVNone => acc
                  | cv => (set_at IVNone (fst acc) id cv,
                           set_at None (snd acc) id (Some (display_name (lit "state_") n id)))
                  end in
      canon_inits vals' names' (S id) acc'
  | _, _ => acc
  end.

Fixpoint canon_names (names : list (option str)) (id : nat) : list (option str) :=
  match names with
  | [] => []
  | n :: r => Some (display_name (lit "input_") n id) :: canon_names r (S id)
  end.

Definition wit_canon (w : btor_witness) : btor_witness :=
  let st := canon_inits (w_init w) (w_init_names w) 0 ([], []) in
  mk_btor_witness (fst st) (snd st) (w_inputs w)
             (match w_inputs w with [] => [] | _ => canon_names (w_input_names w) 0 end)
             (w_failed w).

(* ------------------------------------------------------------------------- "complete" *)
(** characters a name must not contain: the token separators ' ' and '\t', the comment
    character ';', the line separator '\n', and the suffix markers '@' and '#' *)
Definition name_char_ok (c : ascii) : bool :=
  negb (Ascii.eqb c ch_sp || Ascii.eqb c ch_tab || Ascii.eqb c ch_nl || Ascii.eqb c ch_semi
        || Ascii.eqb c ch_at || Ascii.eqb c ch_hash).
Definition name_ok (n : option str) : bool :=
  match n with Some s => forallb name_char_ok s | None => true end.

Definition nonempty {A} (l : list A) : bool := match l with [] => false | _ => true end.

(** an array value as baa keeps it: every stored index has the index width, every stored
    datum the data width; at least one data bit *)
Definition array_ok (a : array_value) : bool :=
  nonempty (av_default a) &&
  forallb (fun e => Nat.eqb (length (fst e)) (av_iw a) && Nat.eqb (length (snd e)) (av_dw a)) (av_entries a).

Definition init_value_ok (v : init_value) : bool :=
  match v with
  | IVBitVec b => nonempty b
  | IVArray a indices => array_ok a && negb (Nat.eqb (av_iw a) 0) && all_width (av_iw a) indices
  | IVNone => true
  end.

Definition input_value_ok (v : option wvalue) : bool :=
  match v with Some (WVBitVec b) => nonempty b | _ => false end.

(** the completeness predicate of property C16, as the property states it *)
Definition wit_complete_spec (w : btor_witness) : bool :=
  (* at least one failed property; indices are u32 *)
  nonempty (w_failed w) && forallb (fun b => b <? 2 ^ 32) (w_failed w) &&
  (* there is a "#0" or an "@0" frame *)
  (nonempty (w_init w) || nonempty (w_inputs w)) &&
  (* one name slot per state, names printable, values well formed *)
  Nat.eqb (length (w_init w)) (length (w_init_names w)) &&
  forallb name_ok (w_init_names w) && forallb init_value_ok (w_init w) &&
  (* a bit-vector value for every input at every step *)
  forallb name_ok (w_input_names w) &&
  forallb (fun frame => Nat.eqb (length frame) (length (w_input_names w)) && forallb input_value_ok frame)
          (w_inputs w) &&
  (* vector lengths are usize *)
  (N.of_nat (length (w_init w)) <? 2 ^ 64) && (N.of_nat (length (w_input_names w)) <? 2 ^ 64) &&
  (N.of_nat (length (w_inputs w)) <? 2 ^ 64).

(** KNOWN CLASS (finding, see [baa_lookup_panics] and theorem C16_big_index_refuted): array
    states whose index width exceeds 64 bits.  The round-trip theorems are proved for complete
    witnesses outside this class. *)
Definition small_index (v : init_value) : bool :=
  match v with IVArray a _ => Nat.leb (av_iw a) 64 | _ => true end.

Definition wit_complete (w : btor_witness) : bool :=
  wit_complete_spec w && forallb small_index (w_init w).

(* ------------------------------------------------------------------------- equivalence (oracle) *)
(** [w'] carries the same information as [w]: the boolean oracle evaluated by the tie on the
    implementation's own result; its meaning is fixed by [wit_equiv_b_spec]. *)
Definition opt_str_eqb (a b : option str) : bool :=
  match a, b with
  | Some x, Some y => str_eqb x y
  | None, None => true
  | _, _ => false
  end.

Definition mem_bits (i : bits) (l : list bits) : bool := existsb (bits_eqb i) l.

Definition init_equiv_b (v : init_value) (name : option str) (id : nat) (v' : init_value) (name' : option str) : bool :=
  match v with
  | IVBitVec b =>
      match v' with IVBitVec b' => bits_eqb b b' | _ => false end
      && opt_str_eqb name' (Some (display_name (lit "state_") name id))
  | IVArray a indices =>
      match indices with
      | [] => match v' with IVNone => true | _ => false end
      | _ =>
        match v' with
        | IVArray a' indices' =>
            Nat.eqb (av_iw a') (av_iw a) && Nat.eqb (av_dw a') (av_dw a) &&
            forallb (fun i => mem_bits i indices' && bits_eqb (av_select a' i) (av_select a i)) indices &&
            forallb (fun i => mem_bits i indices) indices'
        | _ => false
        end && opt_str_eqb name' (Some (display_name (lit "state_") name id))
      end
  | IVNone => match v' with IVNone => true | _ => false end
  end.

Fixpoint inits_equiv_b (vals : list init_value) (names : list (option str)) (id : nat)
         (vals' : list init_value) (names' : list (option str)) : bool :=
  match vals, names with
  | v :: vals1, n :: names1 =>
      init_equiv_b v n id (get_at IVNone vals' id) (get_at None names' id) &&
      inits_equiv_b vals1 names1 (S id) vals' names'
  | _, _ => true
  end.

Definition value_eqb (a b : option wvalue) : bool :=
  match a, b with
  | Some (WVBitVec x), Some (WVBitVec y) => bits_eqb x y
  | None, None => true
  | _, _ => false
  end.

Fixpoint list_eqb {A} (eqb : A -> A -> bool) (a b : list A) : bool :=
  match a, b with
  | [], [] => true
  | x :: a', y :: b' => eqb x y && list_eqb eqb a' b'
  | _, _ => false
  end.

Definition wit_equiv_b (w w' : btor_witness) : bool :=
  list_eqb N.eqb (w_failed w) (w_failed w') &&
  list_eqb (list_eqb value_eqb) (w_inputs w) (w_inputs w') &&
  (match w_inputs w with
   | [] => true
   | _ => list_eqb opt_str_eqb (canon_names (w_input_names w) 0) (w_input_names w')
   end) &&
  inits_equiv_b (w_init w) (w_init_names w) 0 (w_init w') (w_init_names w') &&
  Nat.leb (length (w_init w')) (length (w_init w)) && Nat.eqb (length (w_init_names w')) (length (w_init w')).
