(** * Model/ExprMeta.v — patronus/src/expr/meta.rs as Gallina functions.

    [ExprRef] is its zero-based index ([usize::from(ExprRef)]), a number [N].

    - [DenseExprMetaData<T>] = the vector [inner] (a list); [index] returns the default beyond the
      length, [index_mut] first grows the vector to [index + 1] entries filled with the default
      ([Vec::resize]) and then hands out the slot.
    - [SparseExprMap<T>] = an association list with unique keys standing for the [FxHashMap]
      (insertion order; the iteration order of the real map is unspecified, observations of [iter] are
      compared as sets).  [index] = [get(..).unwrap_or(&default)], [index_mut] =
      [entry(e).or_default()]: a READ through [index_mut] inserts the default value.
    - [iter], [non_default_value_keys], [into_vec].
    - [DenseExprSet] = a vector of 64-bit words, [index_to_word_and_bit], [contains]/[insert]/[remove]
      with the shifts and masks of the Rust text and their boolean results; [SparseExprSet] = a
      duplicate-free list standing for the [FxHashSet].
    - [get_fixed_point] as written (fast path, pointer chasing loop, pointer update loop; every
      [m[..]?] is a separate read), generic over the container through [map_ops] (get = [Index],
      set = [IndexMut] followed by the assignment).  Both loops take fuel: the first loop of the Rust
      code does not terminate on a chain that runs into a cycle of length >= 2, [GfpFuel] is the
      model's answer there.  [gfp_fuel] = number of stored keys + 2 always suffices when the loop
      terminates at all (the chain visits pairwise different keys that all hold [Some]).

    Not modelled: the u32 range of [ExprRef] (index + 1 must fit into a [NonZeroU32]); allocation
    failure of [Vec::resize].

    Executable definitions only. *)

From Coq Require Import NArith List Bool.
Import ListNotations.
Open Scope N_scope.

(** ** vectors indexed by [N] *)
Fixpoint nth_N {T : Type} (l : list T) (i : N) (d : T) : T :=
  match l with
  | [] => d
  | x :: r => if i =? 0 then x else nth_N r (N.pred i) d
  end.

Fixpoint replace_N {T : Type} (l : list T) (i : N) (v : T) : list T :=
  match l with
  | [] => []
  | x :: r => if i =? 0 then v :: r else x :: replace_N r (N.pred i) v
  end.

Definition len_N {T : Type} (l : list T) : N := N.of_nat (length l).

(** [Vec::resize(new_len, value)] *)
Definition vec_resize {T : Type} (l : list T) (new_len : N) (v : T) : list T :=
  firstn (N.to_nat new_len) l ++ repeat v (N.to_nat new_len - length l).

(** ** DenseExprMetaData<T> *)
Definition dense (T : Type) : Type := list T.

Definition dense_empty {T : Type} : dense T := [].

(** [Index::index] *)
Definition dense_index {T : Type} (dflt : T) (d : dense T) (e : N) : T := nth_N d e dflt.

(** the growth step of [IndexMut::index_mut] *)
Definition dense_grow {T : Type} (dflt : T) (d : dense T) (e : N) : dense T :=
  if len_N d <=? e then vec_resize d (e + 1) dflt else d.

(** a read through [index_mut]: the container after the call and the value of the slot *)
Definition dense_index_mut {T : Type} (dflt : T) (d : dense T) (e : N) : dense T * T :=
  let d' := dense_grow dflt d e in (d', nth_N d' e dflt).

(** [m[e] = v] *)
Definition dense_set {T : Type} (dflt : T) (d : dense T) (e : N) (v : T) : dense T :=
  replace_N (dense_grow dflt d e) e v.

Fixpoint enum_from {T : Type} (i : N) (l : list T) : list (N * T) :=
  match l with
  | [] => []
  | x :: r => (i, x) :: enum_from (i + 1) r
  end.

(** [ExprMetaDataIter] *)
Definition dense_iter {T : Type} (d : dense T) : list (N * T) := enum_from 0 d.

Definition non_default {T : Type} (teqb : T -> T -> bool) (dflt : T) (kv : N * T) : bool :=
  negb (teqb (snd kv) dflt).

Definition dense_non_default_value_keys {T : Type} (teqb : T -> T -> bool) (dflt : T) (d : dense T) : list N :=
  map fst (filter (non_default teqb dflt) (dense_iter d)).

Definition dense_into_vec {T : Type} (d : dense T) : list T := d.

(** ** SparseExprMap<T> *)
Definition sparse (T : Type) : Type := list (N * T).

Definition sparse_empty {T : Type} : sparse T := [].

Fixpoint sparse_find {T : Type} (s : sparse T) (e : N) : option T :=
  match s with
  | [] => None
  | (k, v) :: r => if k =? e then Some v else sparse_find r e
  end.

(** [Index::index] *)
Definition sparse_index {T : Type} (dflt : T) (s : sparse T) (e : N) : T :=
  match sparse_find s e with Some v => v | None => dflt end.

(** the insertion step of [entry(e).or_default()] *)
Definition sparse_grow {T : Type} (dflt : T) (s : sparse T) (e : N) : sparse T :=
  match sparse_find s e with Some _ => s | None => s ++ [(e, dflt)] end.

Definition sparse_index_mut {T : Type} (dflt : T) (s : sparse T) (e : N) : sparse T * T :=
  let s' := sparse_grow dflt s e in (s', sparse_index dflt s' e).

Fixpoint sparse_replace {T : Type} (s : sparse T) (e : N) (v : T) : sparse T :=
  match s with
  | [] => []
  | (k, x) :: r => if k =? e then (k, v) :: r else (k, x) :: sparse_replace r e v
  end.

(** [m[e] = v] *)
Definition sparse_set {T : Type} (dflt : T) (s : sparse T) (e : N) (v : T) : sparse T :=
  sparse_replace (sparse_grow dflt s e) e v.

Definition sparse_iter {T : Type} (s : sparse T) : list (N * T) := s.

Definition sparse_non_default_value_keys {T : Type} (teqb : T -> T -> bool) (dflt : T) (s : sparse T) : list N :=
  map fst (filter (non_default teqb dflt) (sparse_iter s)).

(** ** DenseExprSet *)
Definition word_bits : N := 64.

Definition index_to_word_and_bit (index : N) : N * N := (index / word_bits, index mod word_bits).

Definition dense_bits : Type := list N.

Definition dense_bits_empty : dense_bits := [].

(** [((word >> bit) & 1) == 1] *)
Definition bit_is_set (word bit : N) : bool := N.land (N.shiftr word bit) 1 =? 1.

(** [!(1u64 << bit)] on a 64-bit word *)
Definition not_one_shl (bit : N) : N := N.lnot (N.shiftl 1 bit) word_bits.

Definition dense_bits_contains (s : dense_bits) (value : N) : bool :=
  let '(word_idx, bit) := index_to_word_and_bit value in
  bit_is_set (nth_N s word_idx 0) bit.

Definition dense_bits_insert (s : dense_bits) (value : N) : dense_bits * bool :=
  let '(word_idx, bit) := index_to_word_and_bit value in
  let s1 := if len_N s <=? word_idx then vec_resize s (word_idx + 1) 0 else s in
  let bit_was_set := bit_is_set (nth_N s1 word_idx 0) bit in
  (replace_N s1 word_idx (N.lor (nth_N s1 word_idx 0) (N.shiftl 1 bit)), negb bit_was_set).

Definition dense_bits_remove (s : dense_bits) (value : N) : dense_bits * bool :=
  let '(word_idx, bit) := index_to_word_and_bit value in
  if len_N s <=? word_idx then (s, false)
  else
    let bit_was_set := bit_is_set (nth_N s word_idx 0) bit in
    (replace_N s word_idx (N.land (nth_N s word_idx 0) (not_one_shl bit)), bit_was_set).

(** ** SparseExprSet *)
Definition sparse_bits : Type := list N.

Definition sparse_bits_empty : sparse_bits := [].

Fixpoint mem_N (s : list N) (v : N) : bool :=
  match s with
  | [] => false
  | x :: r => if x =? v then true else mem_N r v
  end.

Definition sparse_bits_contains (s : sparse_bits) (value : N) : bool := mem_N s value.

Definition sparse_bits_insert (s : sparse_bits) (value : N) : sparse_bits * bool :=
  if mem_N s value then (s, false) else (s ++ [value], true).

Definition sparse_bits_remove (s : sparse_bits) (value : N) : sparse_bits * bool :=
  if mem_N s value then (filter (fun x => negb (x =? value)) s, true) else (s, false).

(** ** the container interface used by [get_fixed_point] ([ExprMap<Option<ExprRef>>]) *)
Record map_ops (M : Type) : Type := {
  mo_get : M -> N -> option N;              (* [m[k]] as a value: [Index::index] *)
  mo_set : M -> N -> option N -> M          (* [m[k] = v]: [IndexMut::index_mut], then the store *)
}.
Arguments mo_get {M}.
Arguments mo_set {M}.

Definition dense_ops : map_ops (dense (option N)) :=
  {| mo_get := dense_index None; mo_set := dense_set None |}.

Definition sparse_ops : map_ops (sparse (option N)) :=
  {| mo_get := sparse_index None; mo_set := sparse_set None |}.

Inductive gfp_res (M : Type) : Type :=
| GfpSome (m : M) (v : N)     (* [Some(v)], the container after the pointer updates *)
| GfpNone (m : M)             (* a [?] returned [None] *)
| GfpFuel.
Arguments GfpSome {M}.
Arguments GfpNone {M}.
Arguments GfpFuel {M}.

(** [while value != m[value]? { value = m[value]?; }]
    outer [None] = out of fuel, [Some None] = a [?] returned [None], [Some (Some v)] = loop left with [value = v] *)
Fixpoint gfp_chase {M : Type} (ops : map_ops M) (fuel : nat) (m : M) (value : N) : option (option N) :=
  match fuel with
  | O => None
  | S f =>
      match mo_get ops m value with
      | None => Some None
      | Some v' =>
          if value =? v' then Some (Some value)
          else match mo_get ops m value with
               | None => Some None
               | Some v'' => gfp_chase ops f m v''
               end
      end
  end.

(** [while value != final_value { let next = m[value]?; m[value] = Some(final_value); value = next; } Some(value)] *)
Fixpoint gfp_update {M : Type} (ops : map_ops M) (fuel : nat) (m : M) (value final_value : N) : gfp_res M :=
  match fuel with
  | O => GfpFuel
  | S f =>
      if value =? final_value then GfpSome m value
      else match mo_get ops m value with
           | None => GfpNone m
           | Some next => gfp_update ops f (mo_set ops m value (Some final_value)) next final_value
           end
  end.

Definition get_fixed_point {M : Type} (ops : map_ops M) (fuel : nat) (m : M) (key : N) : gfp_res M :=
  match mo_get ops m key with
  | None => GfpNone m
  | Some v0 =>
      if key =? v0 then GfpSome m key          (* fast path without updating any pointers *)
      else match gfp_chase ops fuel m key with
           | None => GfpFuel
           | Some None => GfpNone m
           | Some (Some final_value) => gfp_update ops fuel m key final_value
           end
  end.

Definition option_N_eqb (a b : option N) : bool :=
  match a, b with
  | None, None => true
  | Some x, Some y => x =? y
  | _, _ => false
  end.

(** fuel that suffices whenever the Rust loops terminate: stored keys + 2 *)
Definition dense_gfp_fuel (d : dense (option N)) : nat := S (S (length d)).
Definition sparse_gfp_fuel (s : sparse (option N)) : nat := S (S (length s)).

Definition dense_get_fixed_point (d : dense (option N)) (key : N) : gfp_res (dense (option N)) :=
  get_fixed_point dense_ops (dense_gfp_fuel d) d key.
Definition sparse_get_fixed_point (s : sparse (option N)) (key : N) : gfp_res (sparse (option N)) :=
  get_fixed_point sparse_ops (sparse_gfp_fuel s) s key.
