(** * Model/Bmc.v — the loop of patronus/src/mc/bmc.rs over an abstract solver.

    [bmc_loop]: for k = 0, 1, ..: assert the step-k symbols of all constraints,
    ask whether some bad state can hold at step k (one query per bad state, or one
    query for their disjunction), stop with [BmcFail k] on a "sat" answer,
    otherwise [unroll] and continue; after k_max: [BmcSuccess].
    [BmcPanic] models [get_signal_at] panicking on an expression that is not a
    signal.

    The solver is a parameter: [solver_sat script asserts assumptions] is its answer
    to (check-sat-assuming assumptions) after the definitions [script] and the
    assertions [asserts] (the push/assert/check-sat/pop emulation asks the same
    question).

    [bmc_events] is the sequence of solver calls the loop makes when every answer is
    "unsat" (used by the correspondence check with a recording solver).

    Executable definitions only. *)

From Coq Require Import List Bool.
From Patronus Require Export Encoding.
Import ListNotations.
Open Scope N_scope.

Inductive bmc_result : Type :=
| BmcSuccess
| BmcFail (k : N)
| BmcPanic.

(** [get_signal_at] of a list of expressions *)
Fixpoint signals_at (en : enc) (es : list expr) (k : N) : option (list expr) :=
  match es with
  | [] => Some []
  | e :: r =>
      match get_signal_at en e k, signals_at en r k with
      | Some s, Some l => Some (s :: l)
      | _, _ => None
      end
  end.

(** [all_bads.into_iter().reduce(|a, b| ctx.or(a, b))] *)
Definition or_all (bs : list expr) : option expr :=
  match bs with
  | [] => None
  | b :: r => Some (fold_left (fun a x => BVOr a x 1) r b)
  end.

Section Loop.
  Variable v : variant.
  Variable solver_sat : list cmd -> list expr -> list expr -> bool.

  Fixpoint bmc_loop (en : enc) (individually : bool) (sc : list cmd) (asserts : list expr) (k : N) (fuel : nat)
    : bmc_result :=
    match signals_at en (s_constraints (e_sys en)) k, signals_at en (s_bads (e_sys en)) k with
    | Some cs, Some bs =>
        let asserts' := asserts ++ cs in
        let hit :=
          if individually then existsb (fun b => solver_sat sc asserts' [b]) bs
          else match or_all bs with
               | Some any => solver_sat sc asserts' [any]
               | None => false
               end in
        if hit then BmcFail k
        else match fuel with
             | O => BmcSuccess
             | S f => bmc_loop en individually (sc ++ unroll v en 0 k) asserts' (k + 1) f
             end
    | _, _ => BmcPanic
    end.

  (** [bmc(ctx, smt, sys, false, individually, k_max)] *)
  Definition bmc_model (sy : sys) (nm : expr -> string) (individually : bool) (k_max : nat) : bmc_result :=
    match s_bads sy with
    | [] => BmcSuccess
    | _ => let en := enc_new sy nm in bmc_loop en individually (init_at v en 0) [] 0 k_max
    end.
  (** the same from another init block *)
  Definition bmc_model_from (init : enc -> list cmd) (sy : sys) (nm : expr -> string) (individually : bool) (k_max : nat)
    : bmc_result :=
    match s_bads sy with
    | [] => BmcSuccess
    | _ => let en := enc_new sy nm in bmc_loop en individually (init en) [] 0 k_max
    end.
End Loop.

(** the loop with the encoding of /repo after patches 0001-0003: [init_at3], then [unroll Fixed] *)
Definition bmc_model3 (solver_sat : list cmd -> list expr -> list expr -> bool) :=
  bmc_model_from Fixed solver_sat init_at3.

(** ** the solver calls when nothing is ever satisfiable *)
Inductive event : Type :=
| EvCmd (c : cmd)
| EvAssert (e : expr)
| EvCheckAssuming (es : list expr)
| EvPush
| EvPop
| EvCheckSat.

Definition check_events (check_assuming : bool) (e : expr) : list event :=
  if check_assuming then [EvCheckAssuming [e]] else [EvPush; EvAssert e; EvCheckSat; EvPop].

Fixpoint bmc_events_from (v : variant) (en : enc) (check_assuming individually : bool) (k : N) (fuel : nat)
  : option (list event) :=
  match signals_at en (s_constraints (e_sys en)) k, signals_at en (s_bads (e_sys en)) k with
  | Some cs, Some bs =>
      let here :=
        map EvAssert cs ++
        (if individually then flat_map (check_events check_assuming) bs
         else match or_all bs with Some any => check_events check_assuming any | None => [] end) ++
        map EvCmd (unroll v en 0 k) in
      match fuel with
      | O => Some here
      | S f => match bmc_events_from v en check_assuming individually (k + 1) f with
               | Some rest => Some (here ++ rest)
               | None => None
               end
      end
  | _, _ => None
  end.

Definition bmc_events (v : variant) (sy : sys) (nm : expr -> string) (check_assuming individually : bool) (k_max : nat)
  : option (list event) :=
  match s_bads sy with
  | [] => Some []
  | _ => let en := enc_new sy nm in
         match bmc_events_from v en check_assuming individually 0 k_max with
         | Some l => Some (map EvCmd (init_at v en 0) ++ l)
         | None => None
         end
  end.
