(** * Model/Btor2Parse.v — the btor2 reader of patronus/src/btor2/parse.rs, as a function.

    [parse_text dbg text] models [btor2::parse_str] on the bytes of [text]:
      - line splitting ([BufRead::lines]: at LF, one CR before the LF is dropped),
      - [tokenize_line] (space / tab separated, [;] starts a comment),
      - the line dispatcher and the per-arity operator tables (parse.rs:146-258, 965-999),
      - unary/binary/ternary lowering exactly as parse.rs:311-478 (swapped operands for
        slt/ult/slte/ulte, derived nand/nor/xnor/neq/redand/redor/redxor, negated ids),
      - the numeric token parsers: line ids ([str::parse::<i64>] + range check), widths
        ([str::parse::<u32>]), constants ([baa::BitVecValue::from_str_radix], radix 2/10/16,
        optional minus sign, including baa's separate code path for widths above 128),
      - the three maps (sorts, states, signals), name uniquification, [improve_state_names],
        demotion of states without init and next to inputs, error collection.

    Every [ctx.*] builder of patronus/src/expr/context.rs is a function with its
    precondition explicit.  The result is three-way: [POk] / [PErr] (an error was
    recorded; parsing continues with the next line, the final result is failure) /
    [PPanic k] where the Rust unwraps a [None], fails an [assert!], indexes out of
    bounds, overflows a [u32] addition with overflow checks, or - when the model
    parameter [dbg] (debug assertions) is [true] - fails a [debug_assert!].

    Not modelled (resource behaviour, not results): allocation size/time for huge
    widths, the text of error messages and their source offsets.

    Executable definitions only. *)

From Coq Require Import List String Ascii NArith Bool FMapPositive DecimalString.
From Patronus Require Export System.
Import ListNotations.
Open Scope N_scope.

Module PM := PositiveMap.

(** ** three-way results *)
Inductive pkind : Type :=
| PWrongKind      (* unwrap of a None type: array where a bit-vector is needed or vice versa *)
| PSliceOrder     (* assert!(hi >= lo) in Context::slice *)
| PConstNoValue   (* tokens[3] of a const/constd/consth line with three tokens *)
| PWidthMismatch  (* debug_assert_eq! on operand widths / types (debug builds only) *)
| PZeroWidth      (* 0-bit vectors: assert_ne! in Context::symbol, panic in baa's width classifier *)
| POverflow       (* u32 addition/subtraction overflow (builds with overflow checks only) *)
| PLitWide        (* baa's >128-bit literal reader: index out of bounds / from_utf8 unwrap *)
| PUnsupported.   (* todo!/panic! of the documented-unsupported operators *)

Inductive pres (A : Type) : Type :=
| POk (a : A)
| PErr
| PPanic (k : pkind).
Arguments POk {A} a.
Arguments PErr {A}.
Arguments PPanic {A} k.

Definition pbind {A B} (m : pres A) (f : A -> pres B) : pres B :=
  match m with POk a => f a | PErr => PErr | PPanic k => PPanic k end.

Notation "x <- m ;; k" := (pbind m (fun x => k)) (at level 61, m at next level, right associativity).

Definition of_opt {A} (o : option A) : pres A := match o with Some a => POk a | None => PErr end.

(** ** strings *)
Fixpoint rev_app (r s : string) : string :=
  match r with EmptyString => s | String c r' => rev_app r' (String c s) end.

Definition is_ws (c : ascii) : bool := Ascii.eqb c " " || Ascii.eqb c "009".

Definition finish_token (cur : string) (acc : list string) : list string :=
  match cur with EmptyString => acc | _ => rev_app cur EmptyString :: acc end.

(** [tokenize_line]; tokens are accumulated in reverse *)
Fixpoint tok_go (s cur : string) (acc : list string) : list string :=
  match s with
  | EmptyString => finish_token cur acc
  | String c s' =>
      if is_ws c then tok_go s' EmptyString (finish_token cur acc)
      else if Ascii.eqb c ";" then finish_token cur acc
      else tok_go s' (String c cur) acc
  end.

Definition tokenize (line : string) : list string := rev (tok_go line EmptyString []).

(** [BufRead::lines] *)
Definition strip_cr_rev (cur : string) : string :=
  match cur with
  | String c r => if Ascii.eqb c "013" then rev_app r EmptyString else rev_app cur EmptyString
  | EmptyString => EmptyString
  end.

Fixpoint lines_go (s cur : string) (acc : list string) : list string :=
  match s with
  | EmptyString => match cur with EmptyString => acc | _ => rev_app cur EmptyString :: acc end
  | String c s' =>
      if Ascii.eqb c "010" then lines_go s' EmptyString (strip_cr_rev cur :: acc)
      else lines_go s' (String c cur) acc
  end.

Definition split_lines (text : string) : list string := rev (lines_go text EmptyString []).

Fixpoint str_mem (x : string) (l : list string) : bool :=
  match l with [] => false | y :: l' => String.eqb x y || str_mem x l' end.

Fixpoint str_contains (c : ascii) (s : string) : bool :=
  match s with EmptyString => false | String d s' => Ascii.eqb c d || str_contains c s' end.

Fixpoint str_map (f : ascii -> ascii) (s : string) : string :=
  match s with EmptyString => EmptyString | String c s' => String (f c) (str_map f s') end.

Definition slen (s : string) : N := N.of_nat (String.length s).

Fixpoint split_at (n : nat) (s : string) : string * string :=
  match n, s with
  | S n', String c s' => let '(a, b) := split_at n' s' in (String c a, b)
  | _, _ => (EmptyString, s)
  end.

Definition dec_string (n : N) : string := NilEmpty.string_of_uint (N.to_uint n).

(** ** numeric tokens *)
Definition U32MAX : N := 4294967295.

Definition dec_digit (c : ascii) : option N :=
  let n := N_of_ascii c in if (48 <=? n) && (n <=? 57) then Some (n - 48) else None.
Definition bin_digit (c : ascii) : option N :=
  let n := N_of_ascii c in if (48 <=? n) && (n <=? 49) then Some (n - 48) else None.
Definition hex_digit (c : ascii) : option N :=
  let n := N_of_ascii c in
  if (48 <=? n) && (n <=? 57) then Some (n - 48)
  else if (97 <=? n) && (n <=? 102) then Some (n - 87)
  else if (65 <=? n) && (n <=? 70) then Some (n - 55)
  else None.
Definition digit_in (radix : N) (c : ascii) : option N :=
  if radix =? 2 then bin_digit c else if radix =? 16 then hex_digit c else dec_digit c.

Fixpoint digits_val (radix : N) (s : string) (acc : N) : option N :=
  match s with
  | EmptyString => Some acc
  | String c s' => match digit_in radix c with
                   | Some d => digits_val radix s' (acc * radix + d)
                   | None => None
                   end
  end.

Definition strip_plus (s : string) : string :=
  match s with String c r => if Ascii.eqb c "+" then r else s | EmptyString => s end.

(** Rust's [uN::from_str_radix] without the overflow case (the callers bound the value):
    an optional [+], then at least one digit of the radix *)
Definition parse_unsigned (radix : N) (s : string) : option N :=
  match strip_plus s with
  | EmptyString => None
  | body => digits_val radix body 0
  end.

(** [parse_line_id]: [str::parse::<i64>] followed by the range check; returns the
    magnitude and whether the number is negative *)
Definition parse_line_id (tok : string) : option (N * bool) :=
  let '(neg, body) :=
    match tok with
    | String c r => if Ascii.eqb c "-" then (true, r) else if Ascii.eqb c "+" then (false, r) else (false, tok)
    | EmptyString => (false, tok)
    end in
  match body with
  | EmptyString => None
  | _ => match digits_val 10 body 0 with
         | Some m => if m <=? U32MAX then Some (m, neg && negb (m =? 0)) else None
         | None => None
         end
  end.

(** [parse_width_int]: [str::parse::<u32>] *)
Definition parse_width (tok : string) : option N :=
  match parse_unsigned 10 tok with
  | Some v => if v <=? U32MAX then Some v else None
  | None => None
  end.

(** *** constants: [baa::BitVecValue::from_str_radix] *)
Definition is_cont_byte (c : ascii) : bool := let n := N_of_ascii c in (128 <=? n) && (n <? 192).
Definition first_is_cont (s : string) : bool :=
  match s with String c _ => is_cont_byte c | EmptyString => false end.

Fixpoint all_hex (s : string) : bool :=
  match s with EmptyString => true | String c s' => match hex_digit c with Some _ => all_hex s' | None => false end end.

(** decimal chunks of 19 digits ([parse_base_10]); [fuel] bounds the number of chunks *)
Fixpoint dec_chunks (fuel : nat) (s : string) (acc : N) : pres N :=
  match s with
  | EmptyString => POk acc
  | _ =>
      match fuel with
      | O => POk acc
      | S fuel' =>
          let '(chunk, rest) := split_at 19 s in
          if first_is_cont rest then PPanic PLitWide
          else match parse_unsigned 10 chunk with
               | Some v => dec_chunks fuel' rest (acc * 10000000000000000000 + v)
               | None => PErr
               end
      end
  end.

(** the code path for widths above 128 bits (strings.rs:282-312) *)
Definition wide_value (radix w : N) (body : string) : pres N :=
  let nw := (w + 63) / 64 in
  if String.eqb body "+" then PErr else
      let ds := strip_plus body in
      let n := slen ds in
      if radix =? 2 then
        if w <? n then PErr else of_opt (digits_val 2 ds 0)
      else if radix =? 16 then
        if n <=? 16 * nw then
          match digits_val 16 ds 0 with
          | Some v => if w <? 4 * n then PErr else POk v
          | None => PErr
          end
        else
          let k := if n mod 16 =? 0 then 16 else n mod 16 in
          if all_hex (fst (split_at (N.to_nat k) ds)) then PPanic PLitWide else PErr
      else
        let lead := if n mod 19 =? 0 then 19 else n mod 19 in
        let '(chunk, rest) := split_at (N.to_nat lead) ds in
        if first_is_cont rest then PPanic PLitWide
        else match parse_unsigned 10 chunk with
             | None => PErr
             | Some v0 =>
                 v <- dec_chunks (String.length rest) rest v0 ;;
                 let v' := v mod 2 ^ (64 * nw) in
                 if v' <? 2 ^ w then POk v' else PErr
             end.

Definition lit_value (radix w : N) (tok : string) : pres N :=
  if w =? 0 then PPanic PZeroWidth else
  match tok with
  | EmptyString => POk 0
  | String c r =>
      let '(neg, body) := if Ascii.eqb c "-" then (true, r) else (false, tok) in
      match body with
      | EmptyString => PErr
      | _ =>
          v <- (if w <=? 128 then
                  match parse_unsigned radix body with
                  | Some v => if v <? 2 ^ w then POk v else PErr
                  | None => PErr
                  end
                else wide_value radix w body) ;;
          POk (if neg then (2 ^ w - v) mod 2 ^ w else v)
      end
  end.

(** ** u32 arithmetic of the builders and of [type_check] *)
Definition u32add (dbg : bool) (a b : N) : pres N :=
  if a + b <=? U32MAX then POk (a + b)
  else if dbg then PPanic POverflow else POk ((a + b) mod 4294967296).

Definition u32sub (dbg : bool) (a b : N) : pres N :=
  if b <=? a then POk (a - b)
  else if dbg then PPanic POverflow else POk (a + 4294967296 - b).

(** ** the builders of context.rs *)
Definition is_bv_ty (t : ty) : bool := match t with TBV _ => true | TArr _ _ => false end.

Definition unwrap_bv (e : expr) : pres N :=
  match type_of e with TBV w => POk w | TArr _ _ => PPanic PWrongKind end.

(** builders that store the width of the second operand: and, or, xor, shifts,
    arithmetic, and the two signed comparisons (context.rs:251-375) *)
Definition b_same (dbg : bool) (mk : expr -> expr -> N -> expr) (a b : expr) : pres expr :=
  if dbg then
    wa <- unwrap_bv a ;; wb <- unwrap_bv b ;;
    if wa =? wb then POk (mk a b wb) else PPanic PWidthMismatch
  else
    wb <- unwrap_bv b ;; POk (mk a b wb).

(** greater, greater_or_equal: no stored width *)
Definition b_cmp (dbg : bool) (mk : expr -> expr -> expr) (a b : expr) : pres expr :=
  if dbg then
    wa <- unwrap_bv a ;; wb <- unwrap_bv b ;;
    if wa =? wb then POk (mk a b) else PPanic PWidthMismatch
  else POk (mk a b).

Definition b_equal (dbg : bool) (a b : expr) : pres expr :=
  if dbg && negb (ty_eqb (type_of a) (type_of b)) then PPanic PWidthMismatch
  else POk (if is_bv_ty (type_of a) then BVEqual a b else ArrayEqual a b).

Definition b_implies (dbg : bool) (a b : expr) : pres expr :=
  if dbg then
    wa <- unwrap_bv a ;;
    if negb (wa =? 1) then PPanic PWidthMismatch else
    wb <- unwrap_bv b ;;
    if negb (wb =? 1) then PPanic PWidthMismatch else POk (BVImplies a b)
  else POk (BVImplies a b).

Definition b_ite (dbg : bool) (c t f : expr) : pres expr :=
  let r := if is_bv_ty (type_of t) then BVIte c t f else ArrayIte c t f in
  if dbg then
    wc <- unwrap_bv c ;;
    if negb (wc =? 1) then PPanic PWidthMismatch
    else if negb (ty_eqb (type_of t) (type_of f)) then PPanic PWidthMismatch
    else POk r
  else POk r.

Definition b_not (e : expr) : pres expr := w <- unwrap_bv e ;; POk (BVNot e w).
Definition b_neg (e : expr) : pres expr := w <- unwrap_bv e ;; POk (BVNegate e w).

Definition b_concat (dbg : bool) (a b : expr) : pres expr :=
  wa <- unwrap_bv a ;; wb <- unwrap_bv b ;; w <- u32add dbg wa wb ;; POk (BVConcat a b w).

Definition b_slice (dbg : bool) (e : expr) (hi lo : N) : pres expr :=
  let build := if hi <? lo then PPanic PSliceOrder else POk (BVSlice e hi lo) in
  if lo =? 0 then
    h1 <- u32add dbg hi 1 ;; w <- unwrap_bv e ;;
    if h1 =? w then POk e else build
  else build.

Definition b_ext (dbg : bool) (mk : expr -> N -> N -> expr) (e : expr) (by_ : N) : pres expr :=
  if by_ =? 0 then POk e
  else w <- unwrap_bv e ;; w' <- u32add dbg w by_ ;; POk (mk e by_ w').

Definition b_array_const (e : expr) (iw : N) : pres expr :=
  w <- unwrap_bv e ;; POk (ArrayConstant e iw w).

Definition b_read (a i : expr) : pres expr :=
  match type_of a with
  | TArr _ dw => POk (BVArrayRead a i dw)
  | TBV _ => PPanic PWrongKind
  end.

(** literals go through baa, which refuses width 0 *)
Definition b_lit (w v : N) : pres expr :=
  if w =? 0 then PPanic PZeroWidth else POk (BVLiteral w v).

Definition b_symbol (name : string) (t : ty) : pres expr :=
  match t with
  | TBV w => if w =? 0 then PPanic PZeroWidth else POk (BVSymbol name w)
  | TArr iw dw => POk (ArraySymbol name iw dw)
  end.

(** [TypeCheck::type_check] with the u32 arithmetic of types.rs:150-196 *)
Definition tcheck (dbg : bool) (e : expr) : pres ty :=
  match e with
  | BVZeroExt x by_ w | BVSignExt x by_ w =>
      d <- u32sub dbg w by_ ;;
      match expect_bv_of (type_of x) d with Some _ => POk (TBV w) | None => PErr end
  | BVConcat a b w =>
      match type_of a, type_of b with
      | TBV wa, TBV wb => s <- u32add dbg wa wb ;; if s =? w then POk (TBV s) else PErr
      | _, _ => PErr
      end
  | _ => of_opt (check1 e)
  end.

(** [check_expr_type] (parse.rs:265) *)
Definition check_expr_type (dbg : bool) (e : expr) (expected : ty) : pres expr :=
  _ <- tcheck dbg e ;;
  if ty_eqb (type_of e) expected then POk e else PErr.

(** ** operator tables (parse.rs:965-999) *)
Inductive unop : Type :=
| UNot | UNeg | URedand | URedor | URedxor | USlice | UUext | USext | UUnsup.

Definition seq (a b : string) : bool := String.eqb a b.

Definition un_table (op : string) : option unop :=
  if seq op "not" then Some UNot else if seq op "neg" then Some UNeg
  else if seq op "redand" then Some URedand else if seq op "redor" then Some URedor
  else if seq op "redxor" then Some URedxor else if seq op "slice" then Some USlice
  else if seq op "uext" then Some UUext else if seq op "sext" then Some USext
  else if seq op "inc" then Some UUnsup else if seq op "dec" then Some UUnsup
  else None.

Inductive binop : Type :=
| BSame (mk : expr -> expr -> N -> expr) (swap negafter : bool)
| BCmp (mk : expr -> expr -> expr) (swap : bool)
| BEq (negafter : bool)
| BIff | BImplies | BConcat | BRead | BUnsup.

Definition bin_table (op : string) : option binop :=
  if seq op "iff" then Some BIff
  else if seq op "implies" then Some BImplies
  else if seq op "sgt" then Some (BSame BVGreaterSigned false false)
  else if seq op "ugt" then Some (BCmp BVGreater false)
  else if seq op "sgte" then Some (BSame BVGreaterEqualSigned false false)
  else if seq op "ugte" then Some (BCmp BVGreaterEqual false)
  else if seq op "slt" then Some (BSame BVGreaterSigned true false)
  else if seq op "ult" then Some (BCmp BVGreater true)
  else if seq op "slte" then Some (BSame BVGreaterEqualSigned true false)
  else if seq op "ulte" then Some (BCmp BVGreaterEqual true)
  else if seq op "and" then Some (BSame BVAnd false false)
  else if seq op "nand" then Some (BSame BVAnd false true)
  else if seq op "nor" then Some (BSame BVOr false true)
  else if seq op "or" then Some (BSame BVOr false false)
  else if seq op "xnor" then Some (BSame BVXor false true)
  else if seq op "xor" then Some (BSame BVXor false false)
  else if seq op "rol" then Some BUnsup else if seq op "ror" then Some BUnsup
  else if seq op "sll" then Some (BSame BVShiftLeft false false)
  else if seq op "sra" then Some (BSame BVArithmeticShiftRight false false)
  else if seq op "srl" then Some (BSame BVShiftRight false false)
  else if seq op "add" then Some (BSame BVAdd false false)
  else if seq op "mul" then Some (BSame BVMul false false)
  else if seq op "sdiv" then Some (BSame BVSignedDiv false false)
  else if seq op "udiv" then Some (BSame BVUnsignedDiv false false)
  else if seq op "smod" then Some (BSame BVSignedMod false false)
  else if seq op "srem" then Some (BSame BVSignedRem false false)
  else if seq op "urem" then Some (BSame BVUnsignedRem false false)
  else if seq op "sub" then Some (BSame BVSub false false)
  else if seq op "saddo" then Some BUnsup else if seq op "uaddo" then Some BUnsup
  else if seq op "sdivo" then Some BUnsup else if seq op "udivo" then Some BUnsup
  else if seq op "smulo" then Some BUnsup else if seq op "umulo" then Some BUnsup
  else if seq op "ssubo" then Some BUnsup else if seq op "usubo" then Some BUnsup
  else if seq op "concat" then Some BConcat
  else if seq op "eq" then Some (BEq false)
  else if seq op "neq" then Some (BEq true)
  else if seq op "read" then Some BRead
  else None.

(** the operators the parser documents as not yet supported (they [todo!]) *)
Definition unsupported_ops : list string :=
  ["inc"; "dec"; "rol"; "ror"; "fair"; "saddo"; "uaddo"; "sdivo"; "udivo"; "smulo"; "umulo"; "ssubo"; "usubo"]%string.

Definition supported_line (toks : list string) : bool :=
  match toks with _ :: op :: _ => negb (str_mem op unsupported_ops) | _ => true end.

(** ** parser state *)
Record pstate : Type := mkP {
  p_types : PM.t ty;            (* type_map *)
  p_statemap : PM.t nat;        (* state_map: line id -> index into p_states *)
  p_signals : PM.t expr;        (* signal_map *)
  p_used : list string;         (* unique_names *)
  p_inputs : list expr;
  p_states : list state;
  p_outputs : list (string * expr);
  p_bads : list expr;
  p_constraints : list expr;
  p_symnames : list (expr * string)  (* sys.names restricted to symbol expressions, newest first *)
}.

Definition key (id : N) : positive := N.succ_pos id.

Definition reserved_names : list string :=
  ["_constraint"; "_output"; "_bad"; "_input"; "_state"]%string.

Definition p_empty : pstate :=
  mkP (PM.empty _) (PM.empty _) (PM.empty _) reserved_names [] [] [] [] [] [].

Definition set_types (st : pstate) (m : PM.t ty) : pstate :=
  mkP m (p_statemap st) (p_signals st) (p_used st) (p_inputs st) (p_states st) (p_outputs st) (p_bads st) (p_constraints st) (p_symnames st).
Definition set_signal (st : pstate) (id : N) (e : expr) : pstate :=
  mkP (p_types st) (p_statemap st) (PM.add (key id) e (p_signals st)) (p_used st) (p_inputs st) (p_states st) (p_outputs st) (p_bads st) (p_constraints st) (p_symnames st).
Definition set_used (st : pstate) (u : list string) : pstate :=
  mkP (p_types st) (p_statemap st) (p_signals st) u (p_inputs st) (p_states st) (p_outputs st) (p_bads st) (p_constraints st) (p_symnames st).
Definition note_name (st : pstate) (e : expr) (name : string) : pstate :=
  if is_symbol e then
    mkP (p_types st) (p_statemap st) (p_signals st) (p_used st) (p_inputs st) (p_states st) (p_outputs st) (p_bads st) (p_constraints st) ((e, name) :: p_symnames st)
  else st.
Definition add_input (st : pstate) (e : expr) : pstate :=
  mkP (p_types st) (p_statemap st) (p_signals st) (p_used st) (p_inputs st ++ [e]) (p_states st) (p_outputs st) (p_bads st) (p_constraints st) (p_symnames st).
Definition add_state (st : pstate) (id : N) (s : state) : pstate :=
  mkP (p_types st) (PM.add (key id) (List.length (p_states st)) (p_statemap st)) (p_signals st) (p_used st) (p_inputs st) (p_states st ++ [s]) (p_outputs st) (p_bads st) (p_constraints st) (p_symnames st).
Definition set_states (st : pstate) (l : list state) : pstate :=
  mkP (p_types st) (p_statemap st) (p_signals st) (p_used st) (p_inputs st) l (p_outputs st) (p_bads st) (p_constraints st) (p_symnames st).
Definition add_output (st : pstate) (n : string) (e : expr) : pstate :=
  mkP (p_types st) (p_statemap st) (p_signals st) (p_used st) (p_inputs st) (p_states st) (p_outputs st ++ [(n, e)]) (p_bads st) (p_constraints st) (p_symnames st).
Definition add_bad (st : pstate) (e : expr) : pstate :=
  mkP (p_types st) (p_statemap st) (p_signals st) (p_used st) (p_inputs st) (p_states st) (p_outputs st) (p_bads st ++ [e]) (p_constraints st) (p_symnames st).
Definition add_constraint (st : pstate) (e : expr) : pstate :=
  mkP (p_types st) (p_statemap st) (p_signals st) (p_used st) (p_inputs st) (p_states st) (p_outputs st) (p_bads st) (p_constraints st ++ [e]) (p_symnames st).

(** ** names *)
(** [unique_name] (parse.rs:879): base, base_0, base_1, ...; one of the first
    [length used + 1] candidates is free, which bounds the loop *)
Fixpoint uniq_loop (fuel : nat) (base : string) (used : list string) (count : N) (name : string) : string :=
  if str_mem name used then
    match fuel with
    | O => name
    | S f => uniq_loop f base used (count + 1) (String.append base (String.append "_" (dec_string count)))
    end
  else name.

Definition unique_name (base : string) (used : list string) : string :=
  uniq_loop (S (List.length used)) base used 0 base.

Definition add_unique (st : pstate) (base : string) : pstate * string :=
  let n := unique_name base (p_used st) in (set_used st (n :: p_used st), n).

Definition clean_up_name (s : string) : string :=
  str_map (fun c => if Ascii.eqb c "$" then "_"%char else c) s.

Definition include_name (s : string) : bool :=
  let yosys_path := str_contains "/" s && str_contains ":" s && (30 <? slen s) in
  let flat := String.prefix "$flatten\" s in
  negb yosys_path && negb flat.

Definition label_name (st : pstate) (toks : list string) (default : string) : pstate * string :=
  add_unique st (nth 3 toks default).

(** ** id lookups *)
Definition get_tpe (st : pstate) (tok : string) : pres ty :=
  match parse_line_id tok with
  | None => PErr
  | Some (id, neg) => if neg then PErr else of_opt (PM.find (key id) (p_types st))
  end.

Definition get_state (st : pstate) (tok : string) : pres nat :=
  match parse_line_id tok with
  | None => PErr
  | Some (id, neg) => if neg then PErr else of_opt (PM.find (key id) (p_statemap st))
  end.

(** [get_expr_from_line_id]: a negative id is the bit-wise complement of the signal *)
Definition get_expr (st : pstate) (tok : string) : pres expr :=
  match parse_line_id tok with
  | None => PErr
  | Some (id, neg) =>
      match PM.find (key id) (p_signals st) with
      | Some e => if neg then b_not e else POk e
      | None => PErr
      end
  end.

Definition require (toks : list string) (n : nat) : pres unit :=
  if Nat.ltb (List.length toks) n then PErr else POk tt.

Definition tokn (toks : list string) (n : nat) : string := nth n toks EmptyString.

(** ** unary operators (parse.rs:310-371) *)
Fixpoint xor_chain (n : nat) (e : expr) (i : N) (acc : expr) : expr :=
  match n with
  | O => acc
  | S n' => xor_chain n' e (i + 1) (BVXor acc (BVSlice e i i) 1)
  end.

(** the lowering of one unary operator applied to the (already resolved) operand [e] *)
Definition lower_unary (dbg : bool) (toks : list string) (u : unop) (e : expr) : pres (expr * nat) :=
  match u with
  | USlice =>
      _ <- require toks 6 ;;
      msb <- of_opt (parse_width (tokn toks 4)) ;;
      lsb <- of_opt (parse_width (tokn toks 5)) ;;
      r <- b_slice dbg e msb lsb ;; POk (r, 6%nat)
  | UNot => r <- b_not e ;; POk (r, 4%nat)
  | UNeg => r <- b_neg e ;; POk (r, 4%nat)
  | UUext =>
      _ <- require toks 5 ;;
      by_ <- of_opt (parse_width (tokn toks 4)) ;;
      r <- b_ext dbg BVZeroExt e by_ ;; POk (r, 5%nat)
  | USext =>
      _ <- require toks 5 ;;
      by_ <- of_opt (parse_width (tokn toks 4)) ;;
      r <- b_ext dbg BVSignExt e by_ ;; POk (r, 5%nat)
  | URedor =>
      w <- unwrap_bv e ;;
      if w =? 1 then POk (e, 4%nat) else
      z <- b_lit w 0 ;; q <- b_equal dbg e z ;; r <- b_not q ;; POk (r, 4%nat)
  | URedand =>
      w <- unwrap_bv e ;;
      if w =? 1 then POk (e, 4%nat) else
      m <- b_lit w (2 ^ w - 1) ;; r <- b_equal dbg e m ;; POk (r, 4%nat)
  | URedxor =>
      w <- unwrap_bv e ;;
      if w =? 1 then POk (e, 4%nat)
      else if w =? 0 then PPanic PZeroWidth
      else POk (xor_chain (N.to_nat (w - 1)) e 1 (BVSlice e 0 0), 4%nat)
  | UUnsup => PPanic PUnsupported
  end.

Definition parse_unary (dbg : bool) (st : pstate) (toks : list string) (u : unop) : pres (expr * nat) :=
  _ <- require toks 4 ;;
  tpe <- get_tpe st (tokn toks 2) ;;
  e <- get_expr st (tokn toks 3) ;;
  rc <- lower_unary dbg toks u e ;;
  let '(r, count) := rc in
  c <- check_expr_type dbg r tpe ;;
  POk (c, count).

(** ** binary operators (parse.rs:373-458) *)
(** the lowering of one binary operator applied to the resolved operands; [tpe] is the declared sort *)
Definition lower_binary (dbg : bool) (tpe : ty) (bo : binop) (a b : expr) : pres expr :=
  match bo with
  | BIff =>
      if negb (ty_eqb tpe (TBV 1)) then PErr
      else if negb (ty_eqb (type_of a) (TBV 1)) then PErr
      else if negb (ty_eqb (type_of b) (TBV 1)) then PErr
      else b_equal dbg a b
  | BImplies => b_implies dbg a b
  | BSame mk swap negafter =>
      inner <- (if swap then b_same dbg mk b a else b_same dbg mk a b) ;;
      if negafter then (_ <- check_expr_type dbg inner tpe ;; b_not inner) else POk inner
  | BCmp mk swap => if swap then b_cmp dbg mk b a else b_cmp dbg mk a b
  | BEq negafter =>
      inner <- b_equal dbg a b ;;
      if negafter then (_ <- check_expr_type dbg inner tpe ;; b_not inner) else POk inner
  | BConcat => b_concat dbg a b
  | BRead => b_read a b
  | BUnsup => PPanic PUnsupported
  end.

Definition parse_binary (dbg : bool) (st : pstate) (toks : list string) (bo : binop) : pres (expr * nat) :=
  _ <- require toks 5 ;;
  tpe <- get_tpe st (tokn toks 2) ;;
  a <- get_expr st (tokn toks 3) ;;
  b <- get_expr st (tokn toks 4) ;;
  e <- lower_binary dbg tpe bo a b ;;
  c <- check_expr_type dbg e tpe ;;
  POk (c, 5%nat).

(** ** ternary operators (parse.rs:460-478) *)
Definition lower_ternary (dbg : bool) (is_ite : bool) (a b c : expr) : pres expr :=
  if is_ite then b_ite dbg a b c else POk (ArrayStore a b c).

Definition parse_ternary (dbg : bool) (st : pstate) (toks : list string) (is_ite : bool) : pres (expr * nat) :=
  _ <- require toks 6 ;;
  tpe <- get_tpe st (tokn toks 2) ;;
  a <- get_expr st (tokn toks 3) ;;
  b <- get_expr st (tokn toks 4) ;;
  c <- get_expr st (tokn toks 5) ;;
  r <- lower_ternary dbg is_ite a b c ;;
  k <- check_expr_type dbg r tpe ;;
  POk (k, 6%nat).

(** ** constants (parse.rs:596-650) *)
Definition get_bv_width (st : pstate) (tok : string) : pres N :=
  t <- get_tpe st tok ;;
  match t with TBV w => POk w | TArr _ _ => PErr end.

Definition parse_format (st : pstate) (toks : list string) (op : string) : pres (expr * nat) :=
  w <- get_bv_width st (tokn toks 2) ;;
  if seq op "zero" then (r <- b_lit w 0 ;; POk (r, 3%nat))
  else if seq op "one" then (r <- b_lit w 1 ;; POk (r, 3%nat))
  else if seq op "ones" then (r <- b_lit w (2 ^ w - 1) ;; POk (r, 3%nat))
  else
    let radix := if seq op "const" then 2 else if seq op "constd" then 10 else 16 in
    if Nat.ltb (List.length toks) 4 then PPanic PConstNoValue else
    v <- lit_value radix w (tokn toks 3) ;;
    POk (BVLiteral w v, 4%nat).

(** ** sort lines (parse.rs:706-736) *)
Definition parse_sort (st : pstate) (toks : list string) (id : N) : pres pstate :=
  let k := tokn toks 2 in
  if seq k "bitvec" then
    _ <- require toks 4 ;;
    w <- of_opt (parse_width (tokn toks 3)) ;;
    POk (set_types st (PM.add (key id) (TBV w) (p_types st)))
  else if seq k "array" then
    _ <- require toks 5 ;;
    it <- get_tpe st (tokn toks 3) ;;
    dt <- get_tpe st (tokn toks 4) ;;
    match it with
    | TArr _ _ => PPanic PWrongKind
    | TBV iw => match dt with
                | TArr _ _ => PPanic PWrongKind
                | TBV dw => POk (set_types st (PM.add (key id) (TArr iw dw) (p_types st)))
                end
    end
  else PErr.

(** ** state / input / init / next (parse.rs:480-561) *)
Definition parse_state (st : pstate) (toks : list string) (id : N) : pres pstate :=
  tpe <- get_tpe st (tokn toks 2) ;;
  let '(st1, name) := label_name st toks "_state" in
  sym <- b_symbol name tpe ;;
  let st2 := add_state st1 id {| st_sym := sym; st_init := None; st_next := None |} in
  POk (set_signal (note_name st2 sym name) id sym).

Definition parse_input (st : pstate) (toks : list string) (id : N) : pres pstate :=
  tpe <- get_tpe st (tokn toks 2) ;;
  let '(st1, name) := label_name st toks "_input" in
  sym <- b_symbol name tpe ;;
  POk (set_signal (note_name (add_input st1 sym) sym name) id sym).

Fixpoint update_nth {A} (n : nat) (f : A -> A) (l : list A) : list A :=
  match l with
  | [] => []
  | x :: l' => match n with O => f x :: l' | S n' => x :: update_nth n' f l' end
  end.

Definition dummy_state : state := {| st_sym := BVLiteral 1 0; st_init := None; st_next := None |}.

Definition parse_init_next (st : pstate) (toks : list string) (is_init : bool) : pres pstate :=
  _ <- require toks 5 ;;
  tpe <- get_tpe st (tokn toks 2) ;;
  idx <- get_state st (tokn toks 3) ;;
  let sym := st_sym (nth idx (p_states st) dummy_state) in
  let state_tpe := type_of sym in
  if negb (ty_eqb state_tpe tpe) then PErr else
  maybe <- get_expr st (tokn toks 4) ;;
  let lift := is_init && is_bv_ty (type_of maybe) && negb (is_bv_ty state_tpe) in
  e <- (if lift then b_array_const maybe (match state_tpe with TArr iw _ => iw | TBV _ => 0 end) else POk maybe) ;;
  if negb (ty_eqb (type_of e) tpe) then PErr else
  POk (set_states st (update_nth idx
         (fun s => if is_init then {| st_sym := st_sym s; st_init := Some e; st_next := st_next s |}
                   else {| st_sym := st_sym s; st_init := st_init s; st_next := Some e |}) (p_states st))).

(** ** output / bad / constraint / fair (parse.rs:200-226) *)
Definition parse_prop (st : pstate) (toks : list string) (op : string) : pres pstate :=
  e <- get_expr st (tokn toks 2) ;;
  if seq op "output" then
    let '(st1, name) := label_name st toks "_output" in
    POk (note_name (add_output st1 name e) e name)
  else if seq op "bad" then
    let '(st1, name) := label_name (add_bad st e) toks "_bad" in
    POk (note_name st1 e name)
  else if seq op "constraint" then
    let '(st1, name) := label_name (add_constraint st e) toks "_constraint" in
    POk (note_name st1 e name)
  else PPanic PUnsupported.

(** ** one line (parse.rs:146-258).  [PErr] = an error was recorded, the state is unchanged *)
Definition finish_node (st : pstate) (toks : list string) (id : N) (r : expr * nat) : pstate :=
  let '(e, count) := r in
  let st1 := set_signal st id e in
  match nth_error toks count with
  | None => st1
  | Some name =>
      if include_name name then
        let '(st2, n) := add_unique st1 (clean_up_name name) in note_name st2 e n
      else st1
  end.

Definition parse_line (dbg : bool) (st : pstate) (toks : list string) : pres pstate :=
  match toks with
  | [] => POk st
  | t0 :: rest =>
      match parse_line_id t0 with
      | None => PErr
      | Some (id, neg) =>
          if neg then PErr else
          match rest with
          | [] => PErr
          | op :: _ =>
              match un_table op with
              | Some u => r <- parse_unary dbg st toks u ;; POk (finish_node st toks id r)
              | None =>
              match bin_table op with
              | Some bo => r <- parse_binary dbg st toks bo ;; POk (finish_node st toks id r)
              | None =>
                  _ <- require toks 3 ;;
                  if seq op "ite" then (r <- parse_ternary dbg st toks true ;; POk (finish_node st toks id r))
                  else if seq op "write" then (r <- parse_ternary dbg st toks false ;; POk (finish_node st toks id r))
                  else if seq op "sort" then parse_sort st toks id
                  else if seq op "const" || seq op "constd" || seq op "consth" || seq op "zero" || seq op "one" || seq op "ones"
                       then (r <- parse_format st toks op ;; POk (finish_node st toks id r))
                  else if seq op "state" then parse_state st toks id
                  else if seq op "input" then parse_input st toks id
                  else if seq op "init" then parse_init_next st toks true
                  else if seq op "next" then parse_init_next st toks false
                  else if seq op "output" || seq op "bad" || seq op "constraint" || seq op "fair" then parse_prop st toks op
                  else PErr
              end
              end
          end
      end
  end.

(** ** the fold over the lines: errors are collected, a panic aborts *)
Fixpoint parse_fold (dbg : bool) (ls : list (list string)) (st : pstate) (err : bool) : pres (pstate * bool) :=
  match ls with
  | [] => POk (st, err)
  | l :: ls' =>
      match parse_line dbg st l with
      | POk st' => parse_fold dbg ls' st' err
      | PErr => parse_fold dbg ls' st true
      | PPanic k => PPanic k
      end
  end.

(** ** after the last line (parse.rs:113-143) *)
(** [improve_state_names]: a state whose symbol carries a later name is renamed everywhere *)
Fixpoint lookup_name (s : expr) (l : list (expr * string)) : option string :=
  match l with
  | [] => None
  | (e, n) :: l' => if expr_eqb e s then Some n else lookup_name s l'
  end.

Definition sym_name (e : expr) : string :=
  match e with BVSymbol n _ => n | ArraySymbol n _ _ => n | _ => EmptyString end.

Definition renames_of (st : pstate) : list (expr * string) :=
  flat_map (fun s => match lookup_name (st_sym s) (p_symnames st) with
                     | Some n => if String.eqb n (sym_name (st_sym s)) then [] else [(st_sym s, n)]
                     | None => []
                     end) (p_states st).

Definition rename_sym (ren : list (expr * string)) (e : expr) : expr :=
  match lookup_name e ren with
  | Some n => match e with
              | BVSymbol _ w => BVSymbol n w
              | ArraySymbol _ iw dw => ArraySymbol n iw dw
              | _ => e
              end
  | None => e
  end.

Fixpoint rename (ren : list (expr * string)) (e : expr) : expr :=
  let r := rename ren in
  match e with
  | BVSymbol _ _ | ArraySymbol _ _ _ => rename_sym ren e
  | BVLiteral _ _ => e
  | BVZeroExt x b w => BVZeroExt (r x) b w
  | BVSignExt x b w => BVSignExt (r x) b w
  | BVSlice x h l => BVSlice (r x) h l
  | BVNot x w => BVNot (r x) w
  | BVNegate x w => BVNegate (r x) w
  | BVEqual a b => BVEqual (r a) (r b)
  | BVImplies a b => BVImplies (r a) (r b)
  | BVGreater a b => BVGreater (r a) (r b)
  | BVGreaterSigned a b w => BVGreaterSigned (r a) (r b) w
  | BVGreaterEqual a b => BVGreaterEqual (r a) (r b)
  | BVGreaterEqualSigned a b w => BVGreaterEqualSigned (r a) (r b) w
  | BVConcat a b w => BVConcat (r a) (r b) w
  | BVAnd a b w => BVAnd (r a) (r b) w
  | BVOr a b w => BVOr (r a) (r b) w
  | BVXor a b w => BVXor (r a) (r b) w
  | BVShiftLeft a b w => BVShiftLeft (r a) (r b) w
  | BVArithmeticShiftRight a b w => BVArithmeticShiftRight (r a) (r b) w
  | BVShiftRight a b w => BVShiftRight (r a) (r b) w
  | BVAdd a b w => BVAdd (r a) (r b) w
  | BVMul a b w => BVMul (r a) (r b) w
  | BVSignedDiv a b w => BVSignedDiv (r a) (r b) w
  | BVUnsignedDiv a b w => BVUnsignedDiv (r a) (r b) w
  | BVSignedMod a b w => BVSignedMod (r a) (r b) w
  | BVSignedRem a b w => BVSignedRem (r a) (r b) w
  | BVUnsignedRem a b w => BVUnsignedRem (r a) (r b) w
  | BVSub a b w => BVSub (r a) (r b) w
  | BVArrayRead a i w => BVArrayRead (r a) (r i) w
  | BVIte c t f => BVIte (r c) (r t) (r f)
  | ArrayConstant x iw dw => ArrayConstant (r x) iw dw
  | ArrayEqual a b => ArrayEqual (r a) (r b)
  | ArrayStore a i d => ArrayStore (r a) (r i) (r d)
  | ArrayIte c t f => ArrayIte (r c) (r t) (r f)
  end.

Definition rename_state (ren : list (expr * string)) (s : state) : state :=
  {| st_sym := rename ren (st_sym s);
     st_init := option_map (rename ren) (st_init s);
     st_next := option_map (rename ren) (st_next s) |}.

Definition rename_sys (ren : list (expr * string)) (sy : sys) : sys :=
  match ren with
  | [] => sy
  | _ => {| s_inputs := map (rename ren) (s_inputs sy);
            s_states := map (rename_state ren) (s_states sy);
            s_outputs := map (fun o => (fst o, rename ren (snd o))) (s_outputs sy);
            s_bads := map (rename ren) (s_bads sy);
            s_constraints := map (rename ren) (s_constraints sy) |}
  end.

(** demotion of states without init and next to inputs *)
Definition is_plain (s : state) : bool :=
  match st_init s, st_next s with None, None => true | _, _ => false end.

Definition demote (sy : sys) : sys :=
  {| s_inputs := s_inputs sy ++ map st_sym (filter is_plain (s_states sy));
     s_states := filter (fun s => negb (is_plain s)) (s_states sy);
     s_outputs := s_outputs sy; s_bads := s_bads sy; s_constraints := s_constraints sy |}.

Definition sys_of_pstate (st : pstate) : sys :=
  {| s_inputs := p_inputs st; s_states := p_states st; s_outputs := p_outputs st;
     s_bads := p_bads st; s_constraints := p_constraints st |}.

(** the system before renaming, and the renaming ([parse_raw] exists so that the
    driver can compare large shared expression graphs without expanding them) *)
Definition parse_raw (dbg : bool) (ls : list (list string)) : pres (sys * list (expr * string)) :=
  r <- parse_fold dbg ls p_empty false ;;
  let '(st, err) := r in
  if err then PErr else POk (sys_of_pstate st, renames_of st).

Definition parse_lines (dbg : bool) (ls : list (list string)) : pres sys :=
  r <- parse_raw dbg ls ;;
  let '(sy, ren) := r in POk (demote (rename_sys ren sy)).

Definition parse_text (dbg : bool) (text : string) : pres sys :=
  parse_lines dbg (map tokenize (split_lines text)).

Definition parse_text_raw (dbg : bool) (text : string) : pres (sys * list (expr * string)) :=
  parse_raw dbg (map tokenize (split_lines text)).

(** ** classes of inputs named in the theorem statements (Props/C18.v) *)
(** a [sort bitvec 0] line: the only way a zero width enters the sort table *)
Definition zero_sort_line (toks : list string) : bool :=
  seq (tokn toks 1) "sort" && seq (tokn toks 2) "bitvec" &&
  match parse_width (tokn toks 3) with Some 0 => true | _ => false end.

(** ** [line_pre]: the explicit precondition under which a line cannot make the reader panic.
    It is what a repaired reader would check *before* calling the expression builders:
    operand kinds (bit-vector / array), equal operand widths, ordered slice bounds, result
    widths below 2^32, a value token on constant lines, no zero-width sort in use, and (for
    constants wider than 128 bits) a digit string baa's wide reader can take.  Operands that
    cannot be resolved at all are not mentioned: such a line is reported as an error.
    [KnownClass] (Props/C18.v) is the set of inputs on which some line violates [line_pre]
    in the state in which it is processed. *)
Definition opnd (st : pstate) (tok : string) : option expr :=
  match parse_line_id tok with
  | Some (id, _) => PM.find (key id) (p_signals st)
  | None => None
  end.

Definition opnd_neg (tok : string) : bool :=
  match parse_line_id tok with Some (_, neg) => neg | None => false end.

(** a negated operand id must refer to a bit-vector *)
Definition neg_ok (st : pstate) (tok : string) : bool :=
  match opnd st tok with
  | Some e => negb (opnd_neg tok) || is_bv_ty (type_of e)
  | None => true
  end.

Definition opnd_ty (st : pstate) (tok : string) : option ty := option_map type_of (opnd st tok).

Definition sort_of (st : pstate) (tok : string) : option ty :=
  match parse_line_id tok with
  | Some (id, false) => PM.find (key id) (p_types st)
  | _ => None
  end.

Fixpoint no_cont_bytes (s : string) : bool :=
  match s with EmptyString => true | String c s' => negb (is_cont_byte c) && no_cont_bytes s' end.

Definition lit_body (tok : string) : string :=
  match tok with String c r => if Ascii.eqb c "-" then r else tok | EmptyString => tok end.

Definition lit_safe (radix w : N) (tok : string) : bool :=
  negb (w =? 0) &&
  ((w <=? 128) || (radix =? 2) ||
   (if radix =? 16 then slen (strip_plus (lit_body tok)) <=? 16 * ((w + 63) / 64)
    else no_cont_bytes tok)).

Definition unary_pre (u : unop) (t : ty) (toks : list string) : bool :=
  match t with
  | TArr _ _ =>
      (* an extension by zero bits is the identity on any operand (the writer uses it as a name alias) *)
      match u with
      | UUext | USext => match parse_width (tokn toks 4) with Some by_ => by_ =? 0 | None => true end
      | _ => false
      end
  | TBV w =>
      match u with
      | UNot | UNeg | UUnsup => true
      | URedand | URedor | URedxor => negb (w =? 0)
      | USlice =>
          match parse_width (tokn toks 4), parse_width (tokn toks 5) with
          | Some hi, Some lo => (lo <=? hi) && (hi <? U32MAX)
          | _, _ => true
          end
      | UUext | USext =>
          match parse_width (tokn toks 4) with
          | Some by_ => w + by_ <=? U32MAX
          | None => true
          end
      end
  end.

Definition binary_pre (bo : binop) (ta tb : ty) : bool :=
  match bo with
  | BSame _ _ _ | BCmp _ _ | BUnsup =>
      match ta, tb with TBV wa, TBV wb => wa =? wb | _, _ => false end
  | BEq _ => ty_eqb ta tb
  | BIff => true
  | BImplies => ty_eqb ta (TBV 1) && ty_eqb tb (TBV 1)
  | BConcat => match ta, tb with TBV wa, TBV wb => wa + wb <=? U32MAX | _, _ => false end
  | BRead => negb (is_bv_ty ta)
  end.

Definition line_pre (st : pstate) (toks : list string) : bool :=
  let op := tokn toks 1 in
  let oty k := opnd_ty st (tokn toks k) in
  let nk k := neg_ok st (tokn toks k) in
  match un_table op with
  | Some u => nk 3%nat && match oty 3%nat with Some t => unary_pre u t toks | None => true end
  | None =>
  match bin_table op with
  | Some bo =>
      nk 3%nat && nk 4%nat &&
      match oty 3%nat, oty 4%nat with Some ta, Some tb => binary_pre bo ta tb | _, _ => true end
  | None =>
      if seq op "ite" then
        nk 3%nat && nk 4%nat && nk 5%nat &&
        match oty 3%nat, oty 4%nat, oty 5%nat with
        | Some tc, Some t1, Some t2 => ty_eqb tc (TBV 1) && ty_eqb t1 t2
        | _, _, _ => true
        end
      else if seq op "write" then nk 3%nat && nk 4%nat && nk 5%nat
      else if seq op "sort" then
        (if seq (tokn toks 2) "array" then
           match sort_of st (tokn toks 3), sort_of st (tokn toks 4) with
           | Some it, Some dt => is_bv_ty it && is_bv_ty dt
           | _, _ => true
           end
         else true)
      else if seq op "const" || seq op "constd" || seq op "consth" then
        match sort_of st (tokn toks 2) with
        | Some (TBV w) =>
            Nat.leb 4 (List.length toks) &&
            lit_safe (if seq op "const" then 2 else if seq op "constd" then 10 else 16) w (tokn toks 3)
        | _ => true
        end
      else if seq op "zero" || seq op "one" || seq op "ones" then
        match sort_of st (tokn toks 2) with Some (TBV w) => negb (w =? 0) | _ => true end
      else if seq op "state" || seq op "input" then
        match sort_of st (tokn toks 2) with Some (TBV w) => negb (w =? 0) | _ => true end
      else if seq op "init" || seq op "next" then nk 4%nat
      else if seq op "output" || seq op "bad" || seq op "constraint" then nk 2%nat
      else true
  end
  end.

(** every line satisfies [line_pre] in the state in which the (debug-build) reader processes it *)
Fixpoint pre_all (ls : list (list string)) (st : pstate) : bool :=
  match ls with
  | [] => true
  | l :: ls' =>
      line_pre st l &&
      match parse_line true st l with
      | POk st' => pre_all ls' st'
      | PErr => pre_all ls' st
      | PPanic _ => true
      end
  end.

(** ** the repaired reader ([Fix]): the patch series patches/000N-fix-btor2-*.diff makes the reader
    report an error where [line_pre] fails, where a [sort bitvec 0] is declared, and where a
    bad/constraint line refers to a node that is not Boolean; apart from that it is the shipped
    reader ([Cur]).  A failing check leaves the state unchanged, like every other line error. *)
Inductive code_variant : Type := Cur | Fix | Fix2.

Definition prop_bool (st : pstate) (toks : list string) : bool :=
  let op := tokn toks 1 in
  if seq op "bad" || seq op "constraint" then
    match opnd_ty st (tokn toks 2) with Some t => ty_eqb t (TBV 1) | None => true end
  else true.

Definition line_fix_pre (st : pstate) (toks : list string) : bool :=
  line_pre st toks && negb (zero_sort_line toks) && prop_bool st toks.

(** [Fix2] = [Fix] + patches/0009-fix-btor2-ext-operand-bitvector.diff: uext/sext take a bit-vector
    operand whatever the amount (the shipped reader and [Fix] let an array through when the
    amount is 0, the idiom of the writer's alias lines). *)
Definition ext_bv (st : pstate) (toks : list string) : bool :=
  let op := tokn toks 1 in
  if seq op "uext" || seq op "sext" then
    match opnd_ty st (tokn toks 3) with Some t => is_bv_ty t | None => true end
  else true.

Definition variant_pre (v : code_variant) (st : pstate) (toks : list string) : bool :=
  match v with
  | Cur => true
  | Fix => line_fix_pre st toks
  | Fix2 => line_fix_pre st toks && ext_bv st toks
  end.

Definition is_fix (v : code_variant) : bool := match v with Cur => false | _ => true end.

Definition parse_line_v (v : code_variant) (dbg : bool) (st : pstate) (toks : list string) : pres pstate :=
  if variant_pre v st toks then parse_line dbg st toks else PErr.

Fixpoint parse_fold_v (v : code_variant) (dbg : bool) (ls : list (list string)) (st : pstate) (err : bool)
  : pres (pstate * bool) :=
  match ls with
  | [] => POk (st, err)
  | l :: ls' =>
      match parse_line_v v dbg st l with
      | POk st' => parse_fold_v v dbg ls' st' err
      | PErr => parse_fold_v v dbg ls' st true
      | PPanic k => PPanic k
      end
  end.

Definition parse_raw_v (v : code_variant) (dbg : bool) (ls : list (list string)) : pres (sys * list (expr * string)) :=
  r <- parse_fold_v v dbg ls p_empty false ;;
  let '(st, err) := r in
  if err then PErr else POk (sys_of_pstate st, renames_of st).

Definition parse_lines_v (v : code_variant) (dbg : bool) (ls : list (list string)) : pres sys :=
  r <- parse_raw_v v dbg ls ;;
  let '(sy, ren) := r in POk (demote (rename_sys ren sy)).

Definition parse_text_v (v : code_variant) (dbg : bool) (text : string) : pres sys :=
  parse_lines_v v dbg (map tokenize (split_lines text)).

Definition parse_text_raw_v (v : code_variant) (dbg : bool) (text : string) : pres (sys * list (expr * string)) :=
  parse_raw_v v dbg (map tokenize (split_lines text)).
