(** * Model/KernelPrint.v — Gallina-side printers for the kernel cross-check.

    NOT extracted, NOT used by any theorem.  `./check Cxx <tier>` translates a sample of the
    generated cases into a file `.build/kernel/Cxx/Cases_*.v` (tools/cases_to_v.py) whose
    commands are `Eval vm_compute in (<printer> (<model function> <case input>))`; the strings
    printed by coqc are compared with the text the OCaml driver prints for the *extracted*
    model on the same cases (5th column under VERIF_EMIT_MODEL=1).  The printers below
    therefore re-implement, inside Coq, the canonical text of ocaml/driver/sexp.ml and
    ocaml/driver/conv.ml ([dec_of_n], [bits_of_n_loose], [Sexp.escape], [sexp_of_expr]); they
    were written independently of the OCaml code (different algorithms where there is a
    choice: the decimal printer is the standard library's, the bit printer walks [positive]).

    Executable definitions only. *)
From Coq Require Import String Ascii List NArith ZArith DecimalString.
From Patronus Require Import Expr.
Import ListNotations.
Open Scope N_scope.
Open Scope string_scope.

Module KP.

Definition cat (a b : string) : string := String.append a b.
Infix "+++" := cat (right associativity, at level 60).

Fixpoint concat_sep (sep : string) (l : list string) : string :=
  match l with
  | [] => ""
  | [x] => x
  | x :: r => x +++ sep +++ concat_sep sep r
  end.

(** every element preceded by a blank *)
Fixpoint concat_pre (l : list string) : string :=
  match l with
  | [] => ""
  | x :: r => " " +++ x +++ concat_pre r
  end.

(** decimal numerals (standard library printer) *)
Definition dec (n : N) : string := NilZero.string_of_uint (N.to_uint n).
Definition decZ (z : Z) : string :=
  match z with
  | Z0 => "0"
  | Zpos p => dec (Npos p)
  | Zneg p => "-" +++ dec (Npos p)
  end.
Definition decnat (n : nat) : string := dec (N.of_nat n).

(** binary numerals, msb first *)
Fixpoint bits_pos (p : positive) (acc : string) : string :=
  match p with
  | xH => String "1" acc
  | xO q => bits_pos q (String "0" acc)
  | xI q => bits_pos q (String "1" acc)
  end.
Definition bits_min (v : N) : string :=
  match v with N0 => "" | Npos p => bits_pos p "" end.
Definition len (s : string) : N := N.of_nat (String.length s).
(** exactly [w] characters; a value that does not fit is shown as OVERFLOW:<bits> (conv.ml prints it so) *)
Definition bits (w v : N) : string :=
  let s := bits_min v in
  if N.leb (len s) w then N.iter (w - len s) (String "0") s
  else "OVERFLOW:" +++ s.
Definition bval (w v : N) : string := "b" +++ bits w v.

(** quoted string with the escapes of the pipe format *)
Definition hexdigit (n : N) : ascii :=
  if N.ltb n 10 then ascii_of_N (48 + n) else ascii_of_N (87 + n).
Fixpoint esc_body (s : string) : string :=
  match s with
  | EmptyString => EmptyString
  | String c r =>
      let n := N_of_ascii c in
      let rest := esc_body r in
      if N.eqb n 34 then String "\" (String """" rest)
      else if N.eqb n 92 then String "\" (String "\" rest)
      else if N.eqb n 10 then String "\" (String "n" rest)
      else if N.eqb n 9 then String "\" (String "t" rest)
      else if N.eqb n 13 then String "\" (String "r" rest)
      else if orb (N.ltb n 32) (N.ltb 126 n) then
        String "\" (String "x" (String (hexdigit (n / 16)) (String (hexdigit (n mod 16)) rest)))
      else String c rest
  end.
Definition quoted (s : string) : string := String """" (esc_body s +++ """").

Definition par (items : list string) : string := "(" +++ concat_sep " " items +++ ")".

Definition pbool (b : bool) : string := if b then "true" else "false".
Definition popt {A} (p : A -> string) (o : option A) : string :=
  match o with Some a => par ["some"; p a] | None => "none" end.
Definition plist {A} (p : A -> string) (l : list A) : string := par (map p l).

Definition pty (t : ty) : string :=
  match t with
  | TBV w => par ["bv"; dec w]
  | TArr iw dw => par ["arr"; dec iw; dec dw]
  end.

(** expressions in the syntax of the pipe format (HACKING.md) *)
Fixpoint pexpr (x : expr) : string :=
  let bin tag a b w := par [tag; pexpr a; pexpr b; dec w] in
  match x with
  | BVSymbol n w => par ["sym"; quoted n; dec w]
  | BVLiteral w v => par ["lit"; dec w; bval w v]
  | BVZeroExt a b w => par ["zext"; pexpr a; dec b; dec w]
  | BVSignExt a b w => par ["sext"; pexpr a; dec b; dec w]
  | BVSlice a hi lo => par ["slice"; pexpr a; dec hi; dec lo]
  | BVNot a w => par ["not"; pexpr a; dec w]
  | BVNegate a w => par ["neg"; pexpr a; dec w]
  | BVEqual a b => par ["eq"; pexpr a; pexpr b]
  | BVImplies a b => par ["implies"; pexpr a; pexpr b]
  | BVGreater a b => par ["ugt"; pexpr a; pexpr b]
  | BVGreaterSigned a b w => bin "sgt" a b w
  | BVGreaterEqual a b => par ["uge"; pexpr a; pexpr b]
  | BVGreaterEqualSigned a b w => bin "sge" a b w
  | BVConcat a b w => bin "concat" a b w
  | BVAnd a b w => bin "and" a b w
  | BVOr a b w => bin "or" a b w
  | BVXor a b w => bin "xor" a b w
  | BVShiftLeft a b w => bin "shl" a b w
  | BVArithmeticShiftRight a b w => bin "ashr" a b w
  | BVShiftRight a b w => bin "lshr" a b w
  | BVAdd a b w => bin "add" a b w
  | BVMul a b w => bin "mul" a b w
  | BVSignedDiv a b w => bin "sdiv" a b w
  | BVUnsignedDiv a b w => bin "udiv" a b w
  | BVSignedMod a b w => bin "smod" a b w
  | BVSignedRem a b w => bin "srem" a b w
  | BVUnsignedRem a b w => bin "urem" a b w
  | BVSub a b w => bin "sub" a b w
  | BVArrayRead a i w => par ["read"; pexpr a; pexpr i; dec w]
  | BVIte c t f => par ["ite"; pexpr c; pexpr t; pexpr f]
  | ArraySymbol n iw dw => par ["asym"; quoted n; dec iw; dec dw]
  | ArrayConstant a iw dw => par ["aconst"; pexpr a; dec iw; dec dw]
  | ArrayEqual a b => par ["aeq"; pexpr a; pexpr b]
  | ArrayStore a i d => par ["store"; pexpr a; pexpr i; pexpr d]
  | ArrayIte c t f => par ["aite"; pexpr c; pexpr t; pexpr f]
  end.

(** association-list helpers used by the generated case files to build environments:
    the LAST binding of a key wins (the pipe format lists array entries in store order) *)
Definition last_wins (d : N) (es : list (N * N)) : N -> N :=
  fun i => fold_left (fun acc kv => if N.eqb (fst kv) i then snd kv else acc) es d.

(** the line printed for one case: the id, a tab-free blank, the text *)
Definition line (id : string) (txt : string) : string := id +++ " " +++ txt.

End KP.
