(** * Model/Btor2SerNames.v — the btor2 writer of serialize.rs INCLUDING its name bookkeeping.

    [serialize_named sy names] produces exactly the token lines of [btor2::serialize] (without
    the leading comment line) for the system [sy] whose non-symbol expressions carry the debug
    names [names] (the [sys.names] map of the Rust, restricted to non-symbol nodes):
    [is_autogen_name], [decl_name], [compute_label_names] (with the reader's [unique_name]),
    [compute_alias_needed] (the LAST label that refers to an expression directly decides),
    name tails of intermediate nodes, and the trailing alias lines
    [<id> uext <sort> <target> 0 <name>] in the order of the targets' ids.

    There are no theorems about names (string heuristics); this model exists so that the
    correspondence check compares the writer's TEXT exactly and so that the name oracle of C09
    can tell a name loss of the unmodified writer/reader pair (a recorded finding) from a new one.

    Executable definitions only. *)
From Coq Require Import List String Ascii NArith Bool.
From Patronus Require Export Btor2Ser.
Import ListNotations.
Open Scope N_scope.

Fixpoint all_dec_digits (s : string) : bool :=
  match s with
  | EmptyString => true
  | String c s' => match dec_digit c with Some _ => all_dec_digits s' | None => false end
  end.

Fixpoint drop_prefix (p s : string) : option string :=
  match p, s with
  | EmptyString, _ => Some s
  | String a p', String b s' => if Ascii.eqb a b then drop_prefix p' s' else None
  | _, _ => None
  end.

(** [^(_constraint|_output|_bad|_input|_state)(_\d+)?$] *)
Definition is_autogen_name (s : string) : bool :=
  existsb (fun p =>
             match drop_prefix p s with
             | Some EmptyString => true
             | Some (String c r) => Ascii.eqb c "_" && negb (String.eqb r EmptyString) && all_dec_digits r
             | None => false
             end) reserved_names.

Definition names_map : Type := list (expr * string).

Fixpoint lookup_nm (e : expr) (l : names_map) : option string :=
  match l with [] => None | (e', n) :: l' => if expr_eqb e e' then Some n else lookup_nm e l' end.

Definition symbol_name (e : expr) : option string :=
  match e with BVSymbol n _ => Some n | ArraySymbol n _ _ => Some n | _ => None end.

(** [expr_canonical_name] *)
Definition canonical_name (nm : names_map) (e : expr) : string :=
  match symbol_name e with
  | Some n => n
  | None => match lookup_nm e nm with Some n => n | None => EmptyString end
  end.

(** the writer repairs prepared under patches/ (all flags [false] = the shipped writer):
    [w_no_array_alias] = patches/0008 (no trailing alias line for an array, since the alias line is a
    zero-bit extension; goes with the reader patch 0009 = [Fix2]), [w_input_labels] = patches/0010 (a bad/constraint label is not named
    after an input it refers to directly, so that the input keeps its name on its declaration) *)
Record writer_variant : Type :=
  { w_no_array_alias : bool; w_input_labels : bool; w_last_label : bool; w_symbol_labels : bool }.
Definition writer_cur : writer_variant :=
  {| w_no_array_alias := false; w_input_labels := false; w_last_label := false; w_symbol_labels := false |}.
(** [w_last_label] = patches/0011: only the LAST bad/constraint label that refers to an expression directly
    is named after it (the reader keeps the last one; an earlier label with the same base takes the
    name away from the alias line) *)
Definition writer_fix : writer_variant :=
  {| w_no_array_alias := true; w_input_labels := true; w_last_label := true; w_symbol_labels := false |}.
(** experiment (not proposed as a patch, see patches/BTOR2-NAMES-README.txt): no label is named after any symbol *)
Definition writer_exp : writer_variant :=
  {| w_no_array_alias := true; w_input_labels := true; w_last_label := false; w_symbol_labels := true |}.

(** [label_name_base] *)
Definition label_base (wv : writer_variant) (sy : sys) (nm : names_map) (e : expr) (default : string) : string :=
  if (w_input_labels wv && existsb (expr_eqb e) (s_inputs sy)) ||
     (w_symbol_labels wv && match symbol_name e with Some _ => true | None => false end) then default else
  let n := match symbol_name e with Some n => Some n | None => lookup_nm e nm end in
  match n with
  | Some n => if is_autogen_name n then default else n
  | None => default
  end.

(** [compute_label_names] *)
Fixpoint uniq_all (bases : list string) (used : list string) : list string * list string :=
  match bases with
  | [] => ([], used)
  | b :: bs =>
      let n := unique_name b used in
      let '(ns, used') := uniq_all bs (n :: used) in
      (n :: ns, used')
  end.

Record labels : Type := { l_outputs : list string; l_constraints : list string; l_bads : list string }.

Fixpoint label_bases (wv : writer_variant) (sy : sys) (nm : names_map) (default : string)
         (l after : list expr) : list string :=
  match l with
  | [] => []
  | e :: l' =>
      (if w_last_label wv && existsb (expr_eqb e) (l' ++ after)%list then default
       else label_base wv sy nm e default) :: label_bases wv sy nm default l' after
  end.

Definition compute_labels (wv : writer_variant) (nm : names_map) (sy : sys) : labels :=
  let '(o, u1) := uniq_all (map fst (s_outputs sy)) reserved_names in
  let '(c, u2) := uniq_all (label_bases wv sy nm "_constraint"%string (s_constraints sy) (s_bads sy)) u1 in
  let '(b, _) := uniq_all (label_bases wv sy nm "_bad"%string (s_bads sy) []) u2 in
  {| l_outputs := o; l_constraints := c; l_bads := b |}.

Definition all_labels (l : labels) : list string := (l_outputs l ++ l_constraints l ++ l_bads l)%list.

(** [compute_alias_needed]: the last label (outputs, then constraints, then bads) that refers to an
    expression directly; flagged when the canonical name is explicit and differs from it *)
Fixpoint last_label (e : expr) (l : list (expr * string)) (acc : option string) : option string :=
  match l with
  | [] => acc
  | (e', n) :: l' => last_label e l' (if expr_eqb e e' then Some n else acc)
  end.

Fixpoint dedup_exprs (l : list expr) (seen : list expr) : list expr :=
  match l with
  | [] => []
  | e :: l' => if existsb (expr_eqb e) seen then dedup_exprs l' seen else e :: dedup_exprs l' (e :: seen)
  end.

Definition alias_needed (wv : writer_variant) (nm : names_map) (sy : sys) (lb : labels) : list expr :=
  let pairs := (combine (map snd (s_outputs sy)) (l_outputs lb) ++ combine (s_constraints sy) (l_constraints lb)
                ++ combine (s_bads sy) (l_bads lb))%list in
  filter (fun e =>
            let name := canonical_name nm e in
            negb (w_no_array_alias wv && negb (is_bv_ty (type_of e))) &&
            negb (String.eqb name EmptyString) && negb (is_autogen_name name) &&
            match last_label e pairs None with Some l => negb (String.eqb name l) | None => false end)
         (dedup_exprs (map fst pairs) []).

Definition name_tok (n : string) : list string := match n with EmptyString => [] | _ => [n] end.

(** [decl_name] *)
Definition decl_name (raw : string) (lbls : list string) : string :=
  if String.eqb raw EmptyString || is_autogen_name raw || str_mem raw lbls then EmptyString else raw.

Record nctx : Type := { n_names : names_map; n_labels : list string; n_alias : list expr }.

Definition is_alias (c : nctx) (e : expr) : bool := existsb (expr_eqb e) (n_alias c).

(** the name tail of an intermediate node *)
Definition node_tail (c : nctx) (e : expr) : list string :=
  if is_alias c e then []
  else match lookup_nm e (n_names c) with
       | Some n => if str_mem n (n_labels c) then [] else name_tok n
       | None => []
       end.

Fixpoint emit_expr_n (c : nctx) (e : expr) (st : wstate) : pres (wstate * N) :=
  match find_expr e (w_exprs st) with
  | Some id => POk (st, id)
  | None =>
      let finish (st1 : wstate) (cs : list N) : pres (wstate * N) :=
        let '(st2, sort) := sort_id st1 (type_of e) in
        let '(st3, id) := new_id st2 in
        l <- node_line id sort e cs ;;
        POk (reg_expr (emit st3 (l ++ node_tail c e)) e id, id) in
      match e with
      | BVSymbol _ _ | ArraySymbol _ _ _ => PPanic PWrongKind
      | BVLiteral _ _ => finish st []
      | BVZeroExt x _ _ | BVSignExt x _ _ | BVSlice x _ _ | BVNot x _ | BVNegate x _ | ArrayConstant x _ _ =>
          r <- emit_expr_n c x st ;; let '(st1, a) := r in finish st1 [a]
      | BVEqual x y | BVImplies x y | BVGreater x y | BVGreaterSigned x y _
      | BVGreaterEqual x y | BVGreaterEqualSigned x y _ | BVConcat x y _
      | BVAnd x y _ | BVOr x y _ | BVXor x y _ | BVShiftLeft x y _
      | BVArithmeticShiftRight x y _ | BVShiftRight x y _ | BVAdd x y _ | BVMul x y _
      | BVSignedDiv x y _ | BVUnsignedDiv x y _ | BVSignedMod x y _ | BVSignedRem x y _
      | BVUnsignedRem x y _ | BVSub x y _ | BVArrayRead x y _ | ArrayEqual x y =>
          r <- emit_expr_n c x st ;; let '(st1, a) := r in
          r2 <- emit_expr_n c y st1 ;; let '(st2, b) := r2 in finish st2 [a; b]
      | BVIte x y z | ArrayStore x y z | ArrayIte x y z =>
          r <- emit_expr_n c x st ;; let '(st1, a) := r in
          r2 <- emit_expr_n c y st1 ;; let '(st2, b) := r2 in
          r3 <- emit_expr_n c z st2 ;; let '(st3, d) := r3 in finish st3 [a; b; d]
      end
  end.

Definition emit_input_n (c : nctx) (st : wstate) (i : expr) : wstate :=
  let '(st1, sort) := sort_id st (type_of i) in
  let '(st2, id) := new_id st1 in
  let raw := match symbol_name i with Some n => n | None => EmptyString end in
  reg_expr (emit st2 ([num id; "input"%string; num sort] ++ name_tok (decl_name raw (n_labels c)))) i id.

Definition emit_state_n (c : nctx) (st : wstate) (s : state) : pres (wstate * N) :=
  let '(st1, sort) := sort_id st (type_of (st_sym s)) in
  r <- match st_init s with
       | Some init =>
           r <- (match type_of (st_sym s), init with
                 | TArr _ _, ArrayConstant e _ _ => emit_expr_n c e st1
                 | _, _ => emit_expr_n c init st1
                 end) ;;
           let '(st2, iid) := r in POk (st2, Some iid)
       | None => POk (st1, None)
       end ;;
  let '(st2, init_id) := r in
  let '(st3, sid) := new_id st2 in
  let raw := match symbol_name (st_sym s) with Some n => n | None => EmptyString end in
  let name := if is_alias c (st_sym s) then EmptyString else decl_name raw (n_labels c) in
  let st4 := reg_expr (emit st3 ([num sid; "state"%string; num sort] ++ name_tok name)) (st_sym s) sid in
  match init_id with
  | Some iid =>
      let '(st5, lid) := new_id st4 in
      POk (emit st5 [num lid; "init"; num sort; num sid; num iid]%string, sid)
  | None => POk (st4, sid)
  end.

Fixpoint emit_states_n (c : nctx) (st : wstate) (l : list state) : pres (wstate * list N) :=
  match l with
  | [] => POk (st, [])
  | s :: l' =>
      r <- emit_state_n c st s ;; let '(st1, sid) := r in
      r2 <- emit_states_n c st1 l' ;; let '(st2, ids) := r2 in
      POk (st2, sid :: ids)
  end.

Fixpoint emit_props_n (c : nctx) (kind : string) (st : wstate) (l : list expr) (lbls : list string) : pres wstate :=
  match l, lbls with
  | e :: l', n :: ns =>
      r <- emit_expr_n c e st ;; let '(st1, body) := r in
      let '(st2, id) := new_id st1 in
      emit_props_n c kind (emit st2 ([num id; kind; num body] ++ name_tok n)) l' ns
  | _, _ => POk st
  end.

Fixpoint emit_nexts_n (c : nctx) (st : wstate) (l : list state) (ids : list N) : pres wstate :=
  match l, ids with
  | s :: l', sid :: ids' =>
      match st_next s with
      | Some nx =>
          let '(st1, sort) := sort_id st (type_of (st_sym s)) in
          r <- emit_expr_n c nx st1 ;; let '(st2, nid) := r in
          let '(st3, id) := new_id st2 in
          emit_nexts_n c (emit st3 [num id; "next"; num sort; num sid; num nid]%string) l' ids'
      | None => emit_nexts_n c st l' ids'
      end
  | _, _ => POk st
  end.

(** insertion by id (the alias targets are sorted by their btor2 id) *)
Fixpoint insert_by_id (x : expr * N) (l : list (expr * N)) : list (expr * N) :=
  match l with
  | [] => [x]
  | y :: l' => if snd x <=? snd y then x :: l else y :: insert_by_id x l'
  end.

Definition emit_aliases (c : nctx) (st : wstate) : wstate :=
  let targets :=
    fold_right insert_by_id []
      (flat_map (fun e => match find_expr e (w_exprs st) with Some id => [(e, id)] | None => [] end) (n_alias c)) in
  fold_left (fun st0 (t : expr * N) =>
               let '(e, tid) := t in
               let name := canonical_name (n_names c) e in
               match name with
               | EmptyString => st0
               | _ =>
                   let '(st1, sort) := sort_id st0 (type_of e) in
                   let '(st2, lid) := new_id st1 in
                   emit st2 [num lid; "uext"%string; num sort; num tid; "0"%string; name]
               end) targets st.

Definition serialize_named_v (wv : writer_variant) (sy : sys) (nm : names_map) : pres (list (list string)) :=
  let lb := compute_labels wv nm sy in
  let c := {| n_names := nm; n_labels := all_labels lb; n_alias := alias_needed wv nm sy lb |} in
  let st1 := fold_left (emit_input_n c) (s_inputs sy) w_empty in
  r <- emit_states_n c st1 (s_states sy) ;; let '(st2, ids) := r in
  st3 <- emit_props_n c "output" st2 (map snd (s_outputs sy)) (l_outputs lb) ;;
  st4 <- emit_props_n c "constraint" st3 (s_constraints sy) (l_constraints lb) ;;
  st5 <- emit_props_n c "bad" st4 (s_bads sy) (l_bads lb) ;;
  let st6 := emit_aliases c st5 in
  st7 <- emit_nexts_n c st6 (s_states sy) ids ;;
  POk (rev (w_lines st7)).

Definition serialize_named (sy : sys) (nm : names_map) : pres (list (list string)) := serialize_named_v writer_cur sy nm.
