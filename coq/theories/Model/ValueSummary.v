(** * Model/ValueSummary.v — patronus-dse/src/value_summary.rs as executable Gallina.

    - [bdd]: the guards.  [boolean_expression::BDD] is a reduced ordered BDD with
      hash-consed nodes, so that two [BDDFunc]s are equal iff they denote the same
      function.  The model keeps the *reduced ordered tree* of a function
      ([mk_node] never builds a node with equal children, labels increase from the
      root): structural equality of trees is then equality of functions
      (canonicity is proved in Proofs/BddCanonProofs.v), which is all the
      Rust code uses of the node numbers - except for one [sort()] of node numbers
      in [apply_bin_op], modelled by the parameter [rank].
      Labels are the positions of the terminal expressions in [terms]
      (= [BDD::rev_labels]); a new terminal is appended.
    - [e2g] / [expr_to_guard]: lines 52-85 together with the traversal
      [bottom_up_multi_pat] (patronus/src/expr/traversal.rs:44-81) it is run on,
      at the level of results (guard or panic).
    - [vs_new], [apply_bin_op], [coalesce_entries], [delete_entries], [to_guard],
      [apply_ite], [import_into_guard]: the operations of [ValueSummary<ExprRef>],
      entry order included.
    - [debug]: debug assertions compiled in (the default `dev` profile) or not.
    - [fixed]: [false] = [coalesce_entries] before /repo e25c4dc; [true] = with the
      delete list sorted before [delete_entries] (committed repair).
    - [repairs]: three further proposed repairs (patches/C20-1..3), see below.
    - [vop]/[vstep]/[vrun]: histories of operations over one [GuardCtx].

    Executable definitions only. *)

From Patronus Require Export Eval EvalImpl.
Open Scope N_scope.

(* ------------------------------------------------------------------ guards *)

Inductive bdd : Type :=
| BLeaf (b : bool)
| BNode (x : nat) (lo hi : bdd).

Fixpoint bdd_eqb (a b : bdd) : bool :=
  match a, b with
  | BLeaf x, BLeaf y => Bool.eqb x y
  | BNode x l h, BNode x' l' h' => Nat.eqb x x' && bdd_eqb l l' && bdd_eqb h h'
  | _, _ => false
  end.

(** [LabelBDD::get_node]: no node with equal children *)
Definition mk_node (x : nat) (lo hi : bdd) : bdd :=
  if bdd_eqb lo hi then lo else BNode x lo hi.

Fixpoint bdd_not (a : bdd) : bdd :=
  match a with
  | BLeaf b => BLeaf (negb b)
  | BNode x l h => BNode x (bdd_not l) (bdd_not h)
  end.

(** pointwise combination of two ordered trees (split on the smaller root label) *)
Fixpoint bdd_apply (op : bool -> bool -> bool) (a : bdd) {struct a} : bdd -> bdd :=
  fix go (b : bdd) {struct b} : bdd :=
    match a with
    | BLeaf x =>
        match b with
        | BLeaf y => BLeaf (op x y)
        | BNode xb bl bh => mk_node xb (go bl) (go bh)
        end
    | BNode xa al ah =>
        match b with
        | BLeaf _ => mk_node xa (bdd_apply op al b) (bdd_apply op ah b)
        | BNode xb bl bh =>
            match Nat.compare xa xb with
            | Eq => mk_node xa (bdd_apply op al bl) (bdd_apply op ah bh)
            | Lt => mk_node xa (bdd_apply op al b) (bdd_apply op ah b)
            | Gt => mk_node xb (go bl) (go bh)
            end
        end
    end.

Definition bdd_and : bdd -> bdd -> bdd := bdd_apply andb.
Definition bdd_or : bdd -> bdd -> bdd := bdd_apply orb.
Definition bdd_xor : bdd -> bdd -> bdd := bdd_apply xorb.
(** [LabelBDD::implies]: [or (not a) b] *)
Definition bdd_implies (a b : bdd) : bdd := bdd_or (bdd_not a) b.
Definition bdd_var (x : nat) : bdd := BNode x (BLeaf false) (BLeaf true).

(** [GuardCtx::is_false] / [is_true]: comparison with BDD_ZERO / BDD_ONE *)
Definition is_false (g : bdd) : bool := match g with BLeaf false => true | _ => false end.
Definition is_true (g : bdd) : bool := match g with BLeaf true => true | _ => false end.

(* ------------------------------------------------------------------ terminals *)

Fixpoint index_of (e : expr) (l : list expr) : option nat :=
  match l with
  | [] => None
  | h :: t => if expr_eqb h e then Some O
              else match index_of e t with Some i => Some (S i) | None => None end
  end.

(** [BDD::terminal]: the label of a known terminal, or a new label at the end *)
Definition terminal (terms : list expr) (e : expr) : list expr * bdd :=
  match index_of e terms with
  | Some i => (terms, bdd_var i)
  | None => (terms ++ [e], bdd_var (length terms))
  end.

Definition rbind {A B : Type} (r : res A) (k : A -> res B) : res B :=
  match r with Ok a => k a | Panic => Panic end.

(** [Expr::expr_is_bool]: [get_bv_type == Some(1)] *)
Definition expr_is_bool (e : expr) : bool :=
  match type_of e with TBV w => w =? 1 | TArr _ _ => false end.

(** Repairs of /repo that the model can be switched to (all [false] = the code before them):
    - [r_traversal]: [bottom_up_multi_pat] remembers how many children it pushed for a node
      instead of slicing [num_children()] values (patches/C20-1);
    - [r_closures]: [expr_to_guard] only descends into not/and/or/xor/implies and matches
      the connectives together with the number of converted children (patches/C20-2);
    - [r_assert]: the second [debug_assert!] of [apply_bin_op] accepts left-over entries of
      [a] whose guard is false (patches/C20-3). *)
Record repairs : Type := { r_traversal : bool; r_closures : bool; r_assert : bool }.
Definition no_repairs : repairs := {| r_traversal := false; r_closures := false; r_assert := false |}.
Definition all_repairs : repairs := {| r_traversal := true; r_closures := true; r_assert := true |}.

(** a node with children for which [get_children] returned nothing.
    Without [r_traversal] the traversal takes [num_children()] values from a stack that does
    not hold them: in a debug build an arithmetic overflow or the
    [debug_assert!(children.is_empty())]; in a release build the slice start is out of range,
    or sibling values are consumed and an ancestor (at the latest the final [pop().unwrap()])
    panics: in every case the call panics.  With [r_traversal] the node sees no child values:
    a non-connective becomes a terminal; a connective indexes [children[0]] of an empty
    slice (panic) unless [r_closures] makes it a terminal as well. *)
Definition cut_other (rp : repairs) (terms : list expr) (e : expr) : res (list expr * bdd) :=
  if r_traversal rp then Ok (terminal terms e) else Panic.
Definition cut_connective (rp : repairs) (terms : list expr) (e : expr) : res (list expr * bdd) :=
  if r_traversal rp && r_closures rp then Ok (terminal terms e) else Panic.

(** The two closures of [expr_to_guard] run by [bottom_up_multi_pat].

    get_children: the children are visited iff all of them are boolean (with [r_closures]:
    and the node is a connective); otherwise the child list is cleared ([cut_*]).
    Visited: children left to right, then the node: literal / not / and / or / xor /
    implies are combined; any other node becomes a terminal, after its children were
    converted (and their terminals registered) for nothing - which the
    [debug_assert!(children.is_empty())] rejects in debug builds. *)
Fixpoint e2g (rp : repairs) (debug : bool) (terms : list expr) (e : expr) {struct e} : res (list expr * bdd) :=
  let allb := forallb expr_is_bool (children e) in
  match e with
  | BVSymbol _ _ | ArraySymbol _ _ _ => Ok (terminal terms e)
  | BVLiteral w x => Ok (terms, BLeaf ((w =? 1) && (x =? 1)))
  | BVNot a _ =>
      if allb then rbind (e2g rp debug terms a) (fun p => Ok (fst p, bdd_not (snd p)))
      else cut_connective rp terms e
  | BVAnd a b _ =>
      if allb then
        rbind (e2g rp debug terms a) (fun p => rbind (e2g rp debug (fst p) b) (fun q =>
          Ok (fst q, bdd_and (snd p) (snd q))))
      else cut_connective rp terms e
  | BVOr a b _ =>
      if allb then
        rbind (e2g rp debug terms a) (fun p => rbind (e2g rp debug (fst p) b) (fun q =>
          Ok (fst q, bdd_or (snd p) (snd q))))
      else cut_connective rp terms e
  | BVXor a b _ =>
      if allb then
        rbind (e2g rp debug terms a) (fun p => rbind (e2g rp debug (fst p) b) (fun q =>
          Ok (fst q, bdd_xor (snd p) (snd q))))
      else cut_connective rp terms e
  | BVImplies a b =>
      if allb then
        rbind (e2g rp debug terms a) (fun p => rbind (e2g rp debug (fst p) b) (fun q =>
          Ok (fst q, bdd_implies (snd p) (snd q))))
      else cut_connective rp terms e
  | BVZeroExt a _ _ | BVSignExt a _ _ | BVSlice a _ _ | BVNegate a _ | ArrayConstant a _ _ =>
      if allb && negb (r_closures rp) then
        rbind (e2g rp debug terms a) (fun p =>
          if debug then Panic else Ok (terminal (fst p) e))
      else cut_other rp terms e
  | BVEqual a b | BVGreater a b | BVGreaterSigned a b _
  | BVGreaterEqual a b | BVGreaterEqualSigned a b _ | BVConcat a b _
  | BVShiftLeft a b _ | BVArithmeticShiftRight a b _ | BVShiftRight a b _ | BVAdd a b _ | BVMul a b _
  | BVSignedDiv a b _ | BVUnsignedDiv a b _ | BVSignedMod a b _ | BVSignedRem a b _
  | BVUnsignedRem a b _ | BVSub a b _ | BVArrayRead a b _ | ArrayEqual a b =>
      if allb && negb (r_closures rp) then
        rbind (e2g rp debug terms a) (fun p => rbind (e2g rp debug (fst p) b) (fun q =>
          if debug then Panic else Ok (terminal (fst q) e)))
      else cut_other rp terms e
  | BVIte a b c | ArrayStore a b c | ArrayIte a b c =>
      if allb && negb (r_closures rp) then
        rbind (e2g rp debug terms a) (fun p => rbind (e2g rp debug (fst p) b) (fun q =>
          rbind (e2g rp debug (fst q) c) (fun r =>
            if debug then Panic else Ok (terminal (fst r) e))))
      else cut_other rp terms e
  end.

(** [GuardCtx::expr_to_guard] with its leading [debug_assert!(expr.expr_is_bool(ec))] *)
Definition expr_to_guard (rp : repairs) (debug : bool) (terms : list expr) (e : expr) : res (list expr * bdd) :=
  if debug && negb (expr_is_bool e) then Panic else e2g rp debug terms e.

(* ------------------------------------------------------------------ summaries *)

Definition entry : Type := (bdd * expr)%type.
Definition summary : Type := list entry.

(** [ValueSummary::new] *)
Definition vs_new (x : expr) : summary := [(BLeaf true, x)].

Definition is_nil {A : Type} (l : list A) : bool := match l with [] => true | _ => false end.

Definition bmem (g : bdd) (l : list bdd) : bool := existsb (bdd_eqb g) l.

Fixpoint dedup (l : list bdd) : list bdd :=
  match l with
  | [] => []
  | g :: r => if bmem g r then dedup r else g :: dedup r
  end.

Fixpoint insert_by (rank : bdd -> N) (g : bdd) (l : list bdd) : list bdd :=
  match l with
  | [] => [g]
  | h :: t => if rank g <=? rank h then g :: l else h :: insert_by rank g t
  end.

(** [sorted_common_guards.sort()]: node numbers are modelled by [rank] *)
Definition sort_by (rank : bdd -> N) (l : list bdd) : list bdd := fold_right (insert_by rank) [] l.

(** [a.iter().find(|e| e.guard == guard).cloned().unwrap().value] *)
Definition find_value (g : bdd) (s : summary) : res expr :=
  match find (fun e => bdd_eqb (fst e) g) s with
  | Some e => Ok (snd e)
  | None => Panic
  end.

Fixpoint merge_common (op : expr -> expr -> expr) (a b : summary) (gs : list bdd) : res summary :=
  match gs with
  | [] => Ok []
  | g :: gs' =>
      rbind (find_value g a) (fun x => rbind (find_value g b) (fun y =>
        rbind (merge_common op a b gs') (fun out => Ok ((g, op x y) :: out))))
  end.

Definition cross_row (op : expr -> expr -> expr) (ea : entry) (b : summary) : summary :=
  flat_map (fun eb => let g := bdd_and (fst ea) (fst eb) in
                      if is_false g then [] else [(g, op (snd ea) (snd eb))]) b.

Definition cross (op : expr -> expr -> expr) (a b : summary) : summary :=
  flat_map (fun ea => cross_row op ea b) a.

Definition common_guards (a b : summary) : list bdd :=
  filter (fun g => bmem g (map fst b)) (dedup (map fst a)).

(** [ValueSummary::apply_bin_op] (lines 120-177) *)
Definition apply_bin_op (rp : repairs) (debug : bool) (rank : bdd -> N) (op : expr -> expr -> expr) (a b : summary)
  : res summary :=
  if debug && (is_nil a || is_nil b) then Panic
  else
    let common := common_guards a b in
    rbind (merge_common op a b (sort_by rank common)) (fun out1 =>
      let a' := filter (fun e => negb (bmem (fst e) common)) a in
      let b' := filter (fun e => negb (bmem (fst e) common)) b in
      if is_nil a' then Ok out1
      (* debug_assert!(!b.is_empty(), ...); with [r_assert]: ... || a.iter().all(|e| gc.is_false(e.guard)) *)
      else if debug && is_nil b' && negb (r_assert rp && forallb (fun e => is_false (fst e)) a') then Panic
      else Ok (out1 ++ cross op a' b')).

(** [delete_entries]: one forward pass; the head of the delete list is compared with the
    running index, whatever the order of the list *)
Fixpoint delete_go {T : Type} (dl : list nat) (idx : nat) (es : list T) : list T :=
  match es with
  | [] => []
  | e :: es' =>
      match dl with
      | d :: dl' => if Nat.eqb d idx then delete_go dl' (S idx) es' else e :: delete_go dl (S idx) es'
      | [] => e :: delete_go [] (S idx) es'
      end
  end.

Definition delete_entries {T : Type} (dl : list nat) (es : list T) : list T :=
  if is_nil dl then es else delete_go dl O es.

(** [by_value]: the most recent binding first *)
Fixpoint lookup_value (x : expr) (bv : list (expr * nat)) : option nat :=
  match bv with
  | [] => None
  | (y, i) :: r => if expr_eqb y x then Some i else lookup_value x r
  end.

(** the loop of [coalesce_entries] (lines 217-231).  [pre] = entries[0..ii] as already
    updated, [rest] = entries[ii..] untouched; [dl] in push order *)
Fixpoint co_loop (pre : summary) (bv : list (expr * nat)) (dl : list nat) (rest : summary)
  : res (summary * list nat) :=
  match rest with
  | [] => Ok (pre, dl)
  | (g, x) :: rest' =>
      let ii := length pre in
      match lookup_value x bv with
      | Some p =>
          match nth_error pre p with
          | Some (gp, _) => co_loop (pre ++ [(bdd_or gp g, x)]) ((x, ii) :: bv) (dl ++ [p]) rest'
          | None => Panic   (* entries[prev_ii] out of bounds *)
          end
      | None => co_loop (pre ++ [(g, x)]) ((x, ii) :: bv) dl rest'
      end
  end.

Fixpoint insert_nat (d : nat) (l : list nat) : list nat :=
  match l with
  | [] => [d]
  | h :: t => if Nat.leb d h then d :: l else h :: insert_nat d t
  end.
Definition sort_nat (l : list nat) : list nat := fold_right insert_nat [] l.

(** [coalesce_entries]; with [fixed] the delete list is sorted first (proposed repair) *)
Definition coalesce_entries (fixed : bool) (es : summary) : res summary :=
  rbind (co_loop [] [] [] es) (fun r =>
    let dl := if fixed then sort_nat (snd r) else snd r in
    Ok (delete_entries dl (fst r))).

Definition lit_true : expr := BVLiteral 1 1.
Definition lit_false : expr := BVLiteral 1 0.

(** [Expr::is_true] / [is_false] *)
Definition expr_is_true (e : expr) : bool :=
  match e with BVLiteral w x => (w =? 1) && (x =? 1) | _ => false end.
Definition expr_is_false (e : expr) : bool :=
  match e with BVLiteral w x => (w =? 1) && (x =? 0) | _ => false end.

(** [ValueSummary::is_true] / [is_false]: exactly one entry, whatever its guard *)
Definition vs_is_true (s : summary) : bool :=
  match s with [(_, x)] => expr_is_true x | _ => false end.
Definition vs_is_false (s : summary) : bool :=
  match s with [(_, x)] => expr_is_false x | _ => false end.

(** [ValueSummary::to_guard] for [V = ExprRef] ([ToGuard for ExprRef] never returns
    [IteResult], so the second component is always empty and is dropped here);
    a non-boolean value is [CannotConvert] -> [unreachable!] *)
Fixpoint to_guard (rp : repairs) (debug : bool) (terms : list expr) (s : summary) (acc : bdd) : res (list expr * bdd) :=
  match s with
  | [] => Ok (terms, acc)
  | (g, x) :: s' =>
      if negb (expr_is_bool x) then Panic
      else rbind (expr_to_guard rp debug terms x) (fun p =>
             to_guard rp debug (fst p) s' (bdd_or acc (bdd_and g (snd p))))
  end.

(** [ValueSummary::apply_ite] (lines 239-284) *)
Definition apply_ite (rp : repairs) (debug : bool) (terms : list expr) (c t f : summary) : res (list expr * summary) :=
  if vs_is_true c then Ok (terms, t)
  else if vs_is_false c then Ok (terms, f)
  else rbind (to_guard rp debug terms c (BLeaf false)) (fun p =>
    let tc := snd p in
    let fc := bdd_not tc in
    if is_true tc then Ok (fst p, t)
    else if is_true fc then Ok (fst p, f)
    else Ok (fst p, map (fun e => (bdd_and (fst e) tc, snd e)) t ++
                    map (fun e => (bdd_and (fst e) fc, snd e)) f)).

(** [ValueSummary::import_into_guard] (lines 316-347) *)
Definition import_into_guard (rp : repairs) (debug : bool) (terms : list expr) (s : summary) : res (list expr * summary) :=
  rbind (to_guard rp debug terms s (BLeaf false)) (fun p =>
    let g := snd p in
    if is_true g then Ok (fst p, [(BLeaf true, lit_true)])
    else if is_false g then Ok (fst p, [(BLeaf true, lit_false)])
    else Ok (fst p, [(bdd_not g, lit_false); (g, lit_true)])).

(* ------------------------------------------------------------------ histories *)

(** one operation on a shared [GuardCtx]; operands are earlier summaries by position.
    (An index that does not exist is a malformed history and is mapped to [Panic] too.) *)
Inductive vop : Type :=
| ONew (x : expr)
| OBin (rank : bdd -> N) (op : expr -> expr -> expr) (i j : nat)
| OIte (c t f : nat)
| OCoalesce (i : nat)
| OImport (i : nat)
| OGuard (e : expr).

Record vstate : Type := {
  vs_terms : list expr;
  vs_sums : list summary;     (* in creation order *)
  vs_guards : list bdd        (* results of [OGuard], in creation order *)
}.

Definition vinit : vstate := {| vs_terms := []; vs_sums := []; vs_guards := [] |}.

Definition get_sum (st : vstate) (i : nat) : res summary :=
  match nth_error (vs_sums st) i with Some s => Ok s | None => Panic end.

Definition push_sum (st : vstate) (terms : list expr) (s : summary) : vstate :=
  {| vs_terms := terms; vs_sums := vs_sums st ++ [s]; vs_guards := vs_guards st |}.

Definition vstep (rp : repairs) (debug fixed : bool) (st : vstate) (o : vop) : res vstate :=
  match o with
  | ONew x => Ok (push_sum st (vs_terms st) (vs_new x))
  | OBin rank op i j =>
      rbind (get_sum st i) (fun a => rbind (get_sum st j) (fun b =>
        rbind (apply_bin_op rp debug rank op a b) (fun r => Ok (push_sum st (vs_terms st) r))))
  | OIte c t f =>
      rbind (get_sum st c) (fun sc => rbind (get_sum st t) (fun s_t => rbind (get_sum st f) (fun sf =>
        rbind (apply_ite rp debug (vs_terms st) sc s_t sf) (fun r => Ok (push_sum st (fst r) (snd r))))))
  | OCoalesce i =>
      rbind (get_sum st i) (fun s =>
        rbind (coalesce_entries fixed s) (fun r => Ok (push_sum st (vs_terms st) r)))
  | OImport i =>
      rbind (get_sum st i) (fun s =>
        rbind (import_into_guard rp debug (vs_terms st) s) (fun r => Ok (push_sum st (fst r) (snd r))))
  | OGuard e =>
      rbind (expr_to_guard rp debug (vs_terms st) e) (fun r =>
        Ok {| vs_terms := fst r; vs_sums := vs_sums st; vs_guards := vs_guards st ++ [snd r] |})
  end.

Fixpoint vrun (rp : repairs) (debug fixed : bool) (st : vstate) (prog : list vop) : res vstate :=
  match prog with
  | [] => Ok st
  | o :: prog' => rbind (vstep rp debug fixed st o) (fun st' => vrun rp debug fixed st' prog')
  end.
