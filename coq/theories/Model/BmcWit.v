(** * Model/BmcWit.v — [get_witness] of patronus/src/mc/bmc.rs and the loop that returns it.

    After a "sat" answer at step [k] the code asks the solver (get-value) for
      1. the step-[k] symbol of every bad state, in order: the indices of those whose value is not
         zero form [failed_safety] (an array value there is [unreachable!]: [None] here);
      2. the step-0 symbol of every state, in order: [init] (always a value, never [InitValue::None]),
         [init_names] are the names of the state symbols;
      3. for every step [0..=k], the step symbol of every input, in order: [inputs] (always [Some]),
         [input_names] are the names of the input symbols.
    [get_signal_at] panicking on an expression that is not a signal is [None].

    [gv] stands for [get_smt_value]: the value the solver reports for a symbol.  For the abstract
    solver of Model/Bmc.v - which now returns a model, a valuation [sigma0] of the declared symbols -
    it is [val_of (script_eval sigma0 script)]: defined symbols have the value of their definition.
    The solver always answers: there is no default for a symbol "left out" in this code path
    (SMT-LIB get-value is total on declared symbols; how the textual answer is read back, in
    particular array values, is the subject of the reader properties, not of this model).

    [witness_queries] lists the symbols in the order in which they are queried (used by the
    correspondence check against the recorded get-value calls of the real run).

    Executable definitions only. *)

From Coq Require Import List Bool.
From Patronus Require Export Bmc Witness.
Import ListNotations.
Open Scope N_scope.

(** the value of an expression under a valuation, in the finite representation of Spec/ReachBmc.v *)
Definition val_of (sigma : env) (s : expr) : val :=
  match type_of s with
  | TBV _ => VB (ebv sigma s)
  | TArr iw _ => VA (map (earr sigma s) (range (2 ^ iw)))
  end.

(** the step symbols of all inputs at each of the given steps *)
Fixpoint inputs_at (en : enc) (ks : list N) : option (list (list expr)) :=
  match ks with
  | [] => Some []
  | k :: r =>
      match signals_at en (s_inputs (e_sys en)) k, inputs_at en r with
      | Some a, Some l => Some (a :: l)
      | _, _ => None
      end
  end.

(** the symbols queried: bad states at [k], states at 0, inputs at 0..k *)
Definition witness_queries (en : enc) (k : N) : option (list expr * list expr * list (list expr)) :=
  match signals_at en (s_bads (e_sys en)) k,
        signals_at en (state_syms (e_sys en)) 0,
        inputs_at en (range (k + 1)) with
  | Some bs, Some ss, Some ins => Some (bs, ss, ins)
  | _, _, _ => None
  end.

(** in the order of the calls *)
Definition witness_query_list (en : enc) (k : N) : option (list expr) :=
  match witness_queries en k with
  | Some (bs, ss, ins) => Some (bs ++ ss ++ concat ins)
  | None => None
  end.

(** [failed_safety]: the indices of the bad states whose value is not zero *)
Fixpoint failed_of (gv : expr -> val) (bs : list expr) (i : N) : option (list N) :=
  match bs with
  | [] => Some []
  | b :: r =>
      match gv b, failed_of gv r (i + 1) with
      | VB x, Some l => Some (if x =? 0 then l else i :: l)
      | _, _ => None
      end
  end.

Definition get_witness (en : enc) (gv : expr -> val) (k : N) : option witness :=
  match witness_queries en k with
  | Some (bs, ss, ins) =>
      match failed_of gv bs 0 with
      | Some failed =>
          Some {| w_init := map (fun s => Some (gv s)) ss;
                  w_init_names := map (fun s => Some (sym_name_of s)) (state_syms (e_sys en));
                  w_inputs := map (map (fun s => Some (gv s))) ins;
                  w_input_names := map (fun s => Some (sym_name_of s)) (s_inputs (e_sys en));
                  w_failed := failed |}
      | None => None
      end
  | None => None
  end.

(** ** the loop of bmc.rs over a solver that returns models *)
Inductive bmc_result_w : Type :=
| WSuccess
| WFail (k : N) (w : witness)
| WPanic.

Section LoopW.
  Variable v : variant.
  (** [solver_model script asserts assumptions]: [Some sigma0] for "sat" with the model [sigma0],
      [None] for "unsat" *)
  Variable solver_model : list cmd -> list expr -> list expr -> option env.

  (** one query per bad state, in order, until the first "sat" *)
  Fixpoint first_model (sc : list cmd) (asserts : list expr) (bs : list expr) : option env :=
    match bs with
    | [] => None
    | b :: r =>
        match solver_model sc asserts [b] with
        | Some m => Some m
        | None => first_model sc asserts r
        end
    end.

  Fixpoint bmc_loop_w (en : enc) (individually : bool) (sc : list cmd) (asserts : list expr) (k : N) (fuel : nat)
    : bmc_result_w :=
    match signals_at en (s_constraints (e_sys en)) k, signals_at en (s_bads (e_sys en)) k with
    | Some cs, Some bs =>
        let asserts' := asserts ++ cs in
        let hit :=
          if individually then first_model sc asserts' bs
          else match or_all bs with
               | Some any => solver_model sc asserts' [any]
               | None => None
               end in
        match hit with
        | Some sigma0 =>
            match get_witness en (val_of (script_eval sigma0 sc)) k with
            | Some w => WFail k w
            | None => WPanic
            end
        | None =>
            match fuel with
            | O => WSuccess
            | S f => bmc_loop_w en individually (sc ++ unroll v en 0 k) asserts' (k + 1) f
            end
        end
    | _, _ => WPanic
    end.

End LoopW.

(** [bmc(ctx, smt, sys, false, individually, k_max)] with the encoding of /repo (patches 0001-0003:
    [init_at3], then [unroll Fixed]) *)
Definition bmc_model_w (solver_model : list cmd -> list expr -> list expr -> option env) (sy : sys) (nm : expr -> string) (individually : bool) (k_max : nat) : bmc_result_w :=
  match s_bads sy with
  | [] => WSuccess
  | _ => let en := enc_new sy nm in bmc_loop_w Fixed solver_model en individually (init_at3 en) [] 0 k_max
  end.

(** forgetting the witness *)
Definition forget_w (r : bmc_result_w) : bmc_result :=
  match r with
  | WSuccess => BmcSuccess
  | WFail k _ => BmcFail k
  | WPanic => BmcPanic
  end.
