(** * Model/SolverIO.v — the byte-level contract between patronus and an SMT-LIB solver process
    (property C15).  Executable Gallina only, no proofs.

    Mirrors patronus/src/smt/solver.rs:
      - [read_line]            BufReader::read_line on the child's stdout
      - [rr_loop]/[read_response]   SmtLibSolverCtx::read_response (solver.rs:252-287)
      - [read_sat_response]    solver.rs:289-301
      - [write_cmd]            solver.rs:228-249 (broken-pipe branch)
      - [get_value]/[get_unsat_assumptions]  solver.rs:433-466 (the S-expression parser is a parameter)
      - [shutdown]             Drop for SmtLibSolverCtx (solver.rs:304-320)
    and the clients of that interface as programs [prog] run by [run] in the error monad
    (every `?` of bmc.rs/pdr.rs is the interpreter's short circuit); [bmc_prog] is the conversation
    of patronus/src/mc/bmc.rs with a solver that supports check-sat-assuming (z3, cvc5).

    Three variants of the reader, selected by [variant]:
      [Cur]  what the code does today: at end-of-stream with open parentheses the balancing loop
             keeps reading 0 bytes forever (solver.rs:258-261), and the error message is cut out with
             the slice [start .. len-start-1] (solver.rs:267);
      [Fix]  the repaired reader (/repo a1319b1, acef723, acfb001): end-of-stream inside the loop is an
             error (SolverDead), the message is the text between the first and the last double quote,
             and parentheses inside string literals / quoted symbols do not count;
      [Fix2] [Fix] + patches/0019-fix-read-response-no-extra-blank.diff: the lines of one reply are
             joined as they were read ([read_line] keeps each line's own line break), WITHOUT the
             blank that solver.rs pushes before every continuation line ([joined]).  Everything else
             is [Fix].  ([Fix] stays the model of /repo until that patch is committed there; the
             driver constant [repo_reader] in ocaml/driver/c15.ml says which of the two mirrors /repo.)

    Strings are byte strings (Coq [string] = list of 8-bit [ascii]); Rust's [&str] slicing is by byte
    index and panics off a UTF-8 character boundary, which [is_char_boundary] reproduces.
    Non-termination is modelled by fuel: [OutOfFuel] is returned when the loop would need more
    iterations than [fuel]; SolverIOProofs shows when NO fuel suffices (the loop spins). *)
From Coq Require Import String Ascii List NArith ZArith Bool Arith.
Import ListNotations.
Open Scope string_scope.
Open Scope nat_scope.

(** everything lives in the module [SIO], so that the extracted names ([SIO.Ok], [SIO.verdict], ...)
    cannot collide with those of other properties *)
Module SIO.

(* ------------------------------------------------------------------ bytes and strings *)

(** ASCII white space in the sense of Rust's [char::is_whitespace]: U+0009..U+000D and U+0020.
    (Non-ASCII white space - U+0085, U+00A0, ... - is outside the model: assumption.) *)
Definition is_ws (c : ascii) : bool :=
  let n := nat_of_ascii c in (n =? 32) || ((9 <=? n) && (n <=? 13)).

Definition is_open (c : ascii) : bool := nat_of_ascii c =? 40.
Definition is_close (c : ascii) : bool := nat_of_ascii c =? 41.
Definition is_quote (c : ascii) : bool := nat_of_ascii c =? 34.

(** smt/parser.rs:382 [count_parens]: +1 per '(' and -1 per ')', nothing else counts
    (in particular: no notion of string literals or |quoted symbols|). *)
Fixpoint count_parens (s : string) : Z :=
  match s with
  | EmptyString => 0%Z
  | String c r => ((if is_open c then 1 else if is_close c then (-1) else 0) + count_parens r)%Z
  end.

Definition is_bar (c : ascii) : bool := nat_of_ascii c =? 124.

(** smt/parser.rs [count_parens] AFTER the repair (/repo acfb001): parentheses inside string literals
    (".." - a quote toggles, so the SMT-LIB escape "" inside a literal is handled) and inside quoted
    symbols (|..|) do not count.  [in_string]/[in_quoted] is the scanner state. *)
Fixpoint count_aware_from (in_string in_quoted : bool) (s : string) : Z :=
  match s with
  | EmptyString => 0%Z
  | String c r =>
      if is_quote c && negb in_quoted then count_aware_from (negb in_string) in_quoted r
      else if is_bar c && negb in_string then count_aware_from in_string (negb in_quoted) r
      else if is_open c && negb in_string && negb in_quoted then (1 + count_aware_from in_string in_quoted r)%Z
      else if is_close c && negb in_string && negb in_quoted then ((-1) + count_aware_from in_string in_quoted r)%Z
      else count_aware_from in_string in_quoted r
  end.

Definition count_parens_aware (s : string) : Z := count_aware_from false false s.

Fixpoint trim_start (s : string) : string :=
  match s with
  | EmptyString => EmptyString
  | String c r => if is_ws c then trim_start r else s
  end.

Definition is_empty (s : string) : bool := match s with EmptyString => true | _ => false end.

Fixpoint trim_end (s : string) : string :=
  match s with
  | EmptyString => EmptyString
  | String c r => let r' := trim_end r in
                  if is_ws c && is_empty r' then EmptyString else String c r'
  end.

Definition trim (s : string) : string := trim_end (trim_start s).

Fixpoint starts_with (p s : string) : bool :=
  match p with
  | EmptyString => true
  | String a p' => match s with
                   | EmptyString => false
                   | String b s' => Ascii.eqb a b && starts_with p' s'
                   end
  end.

Fixpoint sdrop (n : nat) (s : string) : string :=
  match n with O => s | S m => match s with EmptyString => EmptyString | String _ r => sdrop m r end end.

Fixpoint stake (n : nat) (s : string) : string :=
  match n with O => EmptyString | S m => match s with EmptyString => EmptyString | String c r => String c (stake m r) end end.

(** the bytes at indices [a .. b) *)
Definition slice (a b : nat) (s : string) : string := stake (b - a) (sdrop a s).

(** [str::is_char_boundary]: 0 and len are boundaries, beyond len is not, otherwise the byte at
    the index must not be a UTF-8 continuation byte (0x80..0xBF). *)
Definition is_char_boundary (i : nat) (s : string) : bool :=
  if i =? 0 then true
  else if i =? String.length s then true
  else if String.length s <? i then false
  else match String.get i s with
       | Some c => let n := nat_of_ascii c in negb ((128 <=? n) && (n <? 192))
       | None => false
       end.

Fixpoint find_quote (s : string) : option nat :=
  match s with
  | EmptyString => None
  | String c r => if is_quote c then Some O else option_map S (find_quote r)
  end.

Fixpoint rfind_quote (s : string) : option nat :=
  match s with
  | EmptyString => None
  | String c r => match rfind_quote r with
                  | Some i => Some (S i)
                  | None => if is_quote c then Some O else None
                  end
  end.

(* ------------------------------------------------------------------ the world outside *)

(** what happens when the lines are used up: end of stream ([read_line] returns 0 bytes, forever)
    or a solver that is alive and silent ([read_line] blocks). *)
Inductive tail := TEof | TAlive.

(** what [Child::try_wait] observes: [None] = still running (or not yet reaped),
    [Some (success, text on stderr)]. *)
Definition wait_obs := option (bool * string).

(** outcome of pushing a command into the child's stdin (write + flush) *)
Inductive wr_obs := WOk | WBrokenPipe | WIoErr.

Record world := mkW {
  w_lines : list string;      (* what [read_line] will return, one element per call *)
  w_tail : tail;
  w_waits : list wait_obs;    (* successive observations of try_wait ... *)
  w_wait_dflt : wait_obs;     (* ... and what it observes once that list is used up *)
  w_writes : list wr_obs;     (* successive outcomes of write+flush; WOk once used up *)
  w_reads : nat               (* number of read_line calls made so far *)
}.

Inductive rl_res := RLine (l : string) (w : world) | RBlock.

Definition read_line (w : world) : rl_res :=
  match w_lines w with
  | l :: r => RLine l (mkW r (w_tail w) (w_waits w) (w_wait_dflt w) (w_writes w) (S (w_reads w)))
  | [] => match w_tail w with
          | TEof => RLine "" (mkW [] TEof (w_waits w) (w_wait_dflt w) (w_writes w) (S (w_reads w)))
          | TAlive => RBlock
          end
  end.

Definition try_wait (w : world) : wait_obs * world :=
  match w_waits w with
  | o :: r => (o, mkW (w_lines w) (w_tail w) r (w_wait_dflt w) (w_writes w) (w_reads w))
  | [] => (w_wait_dflt w, w)
  end.

Definition pop_write (w : world) : wr_obs * world :=
  match w_writes w with
  | o :: r => (o, mkW (w_lines w) (w_tail w) (w_waits w) (w_wait_dflt w) r (w_reads w))
  | [] => (WOk, w)
  end.

(* ------------------------------------------------------------------ results *)

(** smt::Error (solver.rs:19-32); the solver name carried by three of the variants is constant
    during a session and left out. *)
Inductive err :=
| EIo                               (* Error::Io *)
| EStackUnderflow
| EFromSolver (msg : string)        (* Error::FromSolver(name, msg) *)
| ESolverDead                       (* Error::SolverDead(name) *)
| EUnexpected (resp : string)       (* Error::UnexpectedResponse(name, resp) *)
| EParser.                          (* Error::Parser(_) *)

Inductive res (A : Type) :=
| Ok (a : A) (w : world)
| Err (e : err) (w : world)
| Panic (loc : string)              (* a Rust panic; [loc] = file:line *)
| Blocked                           (* waiting for a live, silent solver *)
| OutOfFuel.                        (* the loop needs more than [fuel] iterations *)
Arguments Ok {A}. Arguments Err {A}. Arguments Panic {A}. Arguments Blocked {A}. Arguments OutOfFuel {A}.

Inductive variant := Cur | Fix | Fix2.

(** which parenthesis count the reader uses: the original code the naive one, the repaired code the
    string-aware one *)
Definition count_v (v : variant) (s : string) : Z :=
  match v with Cur => count_parens s | Fix | Fix2 => count_parens_aware s end.

(** the response buffer after one more line [l] has been read into it.  [Cur], [Fix]:
    `self.response.push(' '); self.stdout.read_line(&mut self.response)` - a blank, then the line
    (which ends with its own line break).  [Fix2]: the push is gone. *)
Definition joined (v : variant) (resp l : string) : string :=
  match v with
  | Cur | Fix => (resp ++ " " ++ l)%string
  | Fix2 => (resp ++ l)%string
  end.

(* ------------------------------------------------------------------ read_response *)

(** solver.rs:258-261
      while count_parens(&self.response) > 0 { self.response.push(' '); self.stdout.read_line(..)?; }
    [Fix]: `if read_line(..)? == 0 { return Err(SolverDead) }`.
    [Fix2]: the same without the push ([joined]). *)
Fixpoint rr_loop (v : variant) (fuel : nat) (resp : string) (w : world) : res string :=
  if (0 <? count_v v resp)%Z then
    match fuel with
    | O => OutOfFuel
    | S f =>
        match read_line w with
        | RBlock => Blocked
        | RLine l w' =>
            match v with
            | Cur => rr_loop v f (joined v resp l) w'
            | Fix | Fix2 => if is_empty l then Err ESolverDead w' else rr_loop v f (joined v resp l) w'
            end
        end
    end
  else Ok resp w.

Definition loc_slice : string := "patronus/src/smt/solver.rs:267".

(** solver.rs:265-267, today:
      let trimmed = self.response.trim(); let start = "(error ".len();
      let msg = &trimmed[start..(trimmed.len() - start - 1)];
    [trimmed.len() - start - 1] underflows below 8 bytes (a panic with overflow checks, a huge
    index and hence a panic without them); the slice panics when start > end, and when an index is
    not a character boundary. *)
Definition error_msg_cur (trimmed : string) : option string :=
  let len := String.length trimmed in
  if len <? 8 then None
  else let e := len - 8 in
       if e <? 7 then None
       else if is_char_boundary 7 trimmed && is_char_boundary e trimmed
            then Some (slice 7 e trimmed) else None.

(** repaired: the text between the first and the last double quote; the whole reply if it has no
    two quotes. *)
Definition error_msg_fix (trimmed : string) : option string :=
  match find_quote trimmed, rfind_quote trimmed with
  | Some a, Some b => if a <? b then Some (slice (S a) b trimmed) else Some trimmed
  | _, _ => Some trimmed
  end.

Definition error_msg (v : variant) (trimmed : string) : option string :=
  match v with Cur => error_msg_cur trimmed | Fix | Fix2 => error_msg_fix trimmed end.

(** solver.rs:252-287.  The result is the raw response text (self.response). *)
Definition read_response (v : variant) (fuel : nat) (w : world) : res string :=
  match read_line w with
  | RBlock => Blocked
  | RLine l w1 =>
      match rr_loop v fuel l w1 with
      | Ok resp w2 =>
          if starts_with "(error" (trim_start resp) then
            match error_msg v (trim resp) with
            | Some m => Err (EFromSolver m) w2
            | None => Panic loc_slice
            end
          else
            match try_wait w2 with
            | (Some (false, stderr_text), w3) => Err (EFromSolver stderr_text) w3
            | (_, w3) => Ok resp w3
            end
      | other => other
      end
  end.

Inductive sat_resp := Sat | Unsat | Unknown.

(** solver.rs:289-301 (the flush of an already flushed writer cannot fail and is left out) *)
Definition read_sat_response (v : variant) (fuel : nat) (w : world) : res sat_resp :=
  match read_response v fuel w with
  | Ok resp w' =>
      let t := trim resp in
      if String.eqb t "sat" then Ok Sat w'
      else if String.eqb t "unsat" then Ok Unsat w'
      else Err (EUnexpected t) w'
  | Err e w' => Err e w'
  | Panic l => Panic l
  | Blocked => Blocked
  | OutOfFuel => OutOfFuel
  end.

(** solver.rs:228-249 *)
Definition write_cmd (v : variant) (fuel : nat) (w : world) : res unit :=
  match pop_write w with
  | (WOk, w') => Ok tt w'
  | (WIoErr, w') => Err EIo w'
  | (WBrokenPipe, w') =>
      match read_response v fuel w' with
      | Err (EFromSolver m) w'' => Err (EFromSolver m) w''
      | Ok _ w'' => Err ESolverDead w''
      | Err _ w'' => Err ESolverDead w''
      | Panic l => Panic l
      | Blocked => Blocked
      | OutOfFuel => OutOfFuel
      end
  end.

(** solver.rs:433-466: write, read one response, hand the trimmed text to the parser.  The parser
    (smt/parser.rs, property C14) is a parameter: [parse t = true] iff it accepts [t]; the parsed
    value is represented by the accepted text itself. *)
Definition read_parsed (parse : string -> bool) (v : variant) (fuel : nat) (w : world) : res string :=
  match read_response v fuel w with
  | Ok resp w' => let t := trim resp in if parse t then Ok t w' else Err EParser w'
  | Err e w' => Err e w'
  | Panic l => Panic l
  | Blocked => Blocked
  | OutOfFuel => OutOfFuel
  end.

(* ------------------------------------------------------------------ clients as programs *)

(** A client of the SolverContext interface that propagates every error with `?`:
    the continuation is only ever entered with the value of a SUCCESSFUL call. *)
Inductive prog (A : Type) : Type :=
| Ret (a : A)
| ClientPanic (loc : string)                 (* assert!/unreachable!/todo! of the client itself *)
| Write (k : prog A)                         (* set_logic, declare, define, assert, push, pop *)
| CheckSat (k : sat_resp -> prog A)          (* check_sat / check_sat_assuming *)
| GetValue (k : string -> prog A)            (* get_value *)
| GetUnsat (k : string -> prog A).           (* get_unsat_assumptions *)
Arguments Ret {A}. Arguments ClientPanic {A}. Arguments Write {A}. Arguments CheckSat {A}.
Arguments GetValue {A}. Arguments GetUnsat {A}.

Inductive call_kind := KWrite | KCheckSat | KGetValue | KGetUnsat.

(** how one call ended, for the trace *)
Inductive call_end :=
| COk | CErr (e : err) | CPanic (loc : string) | CBlocked | COutOfFuel.

(** trace entry: kind of call, the world it started in, how it ended, and for successful reads the
    text that was accepted *)
Record event := mkEv { ev_kind : call_kind; ev_before : world; ev_end : call_end; ev_text : string }.

Definition end_of {A} (r : res A) : call_end :=
  match r with
  | Ok _ _ => COk | Err e _ => CErr e | Panic l => CPanic l | Blocked => CBlocked | OutOfFuel => COutOfFuel
  end.

Section Run.
  Variable parse_value : string -> bool.
  Variable parse_core : string -> bool.
  Variable v : variant.
  Variable fuel : nat.

  Definition check_sat_call (w : world) : res sat_resp :=
    match write_cmd v fuel w with
    | Ok _ w1 => read_sat_response v fuel w1
    | Err e w1 => Err e w1
    | Panic l => Panic l
    | Blocked => Blocked
    | OutOfFuel => OutOfFuel
    end.

  Definition get_call (parse : string -> bool) (w : world) : res string :=
    match write_cmd v fuel w with
    | Ok _ w1 => read_parsed parse v fuel w1
    | Err e w1 => Err e w1
    | Panic l => Panic l
    | Blocked => Blocked
    | OutOfFuel => OutOfFuel
    end.

  (** the interpreter: runs the calls in order, stops at the first call that does not succeed and
      returns THAT failure; the trace lists every call made *)
  Fixpoint run {A : Type} (p : prog A) (w : world) : list event * res A :=
    match p with
    | Ret a => ([], Ok a w)
    | ClientPanic l => ([], Panic l)
    | Write k =>
        let r := write_cmd v fuel w in
        let ev := mkEv KWrite w (end_of r) "" in
        match r with
        | Ok _ w' => let (tr, o) := run k w' in (ev :: tr, o)
        | Err e w' => ([ev], Err e w')
        | Panic l => ([ev], Panic l)
        | Blocked => ([ev], Blocked)
        | OutOfFuel => ([ev], OutOfFuel)
        end
    | CheckSat k =>
        let r := check_sat_call w in
        match r with
        | Ok a w' => let (tr, o) := run (k a) w' in
                     (mkEv KCheckSat w COk (match a with Sat => "sat" | Unsat => "unsat" | Unknown => "unknown" end) :: tr, o)
        | Err e w' => ([mkEv KCheckSat w (CErr e) ""], Err e w')
        | Panic l => ([mkEv KCheckSat w (CPanic l) ""], Panic l)
        | Blocked => ([mkEv KCheckSat w CBlocked ""], Blocked)
        | OutOfFuel => ([mkEv KCheckSat w COutOfFuel ""], OutOfFuel)
        end
    | GetValue k =>
        let r := get_call parse_value w in
        match r with
        | Ok t w' => let (tr, o) := run (k t) w' in (mkEv KGetValue w COk t :: tr, o)
        | Err e w' => ([mkEv KGetValue w (CErr e) ""], Err e w')
        | Panic l => ([mkEv KGetValue w (CPanic l) ""], Panic l)
        | Blocked => ([mkEv KGetValue w CBlocked ""], Blocked)
        | OutOfFuel => ([mkEv KGetValue w COutOfFuel ""], OutOfFuel)
        end
    | GetUnsat k =>
        let r := get_call parse_core w in
        match r with
        | Ok t w' => let (tr, o) := run (k t) w' in (mkEv KGetUnsat w COk t :: tr, o)
        | Err e w' => ([mkEv KGetUnsat w (CErr e) ""], Err e w')
        | Panic l => ([mkEv KGetUnsat w (CPanic l) ""], Panic l)
        | Blocked => ([mkEv KGetUnsat w CBlocked ""], Blocked)
        | OutOfFuel => ([mkEv KGetUnsat w COutOfFuel ""], OutOfFuel)
        end
    end.

  (** Drop for SmtLibSolverCtx (solver.rs:304-320): write `(exit)`; its result is ignored, but a
      panic, a block or a spin inside it (the broken-pipe branch reads a response) is not. *)
  Definition shutdown {A : Type} (r : res A) : res A :=
    match r with
    | Ok a w => match write_cmd v fuel w with
                | Ok _ w' => Ok a w' | Err _ w' => Ok a w'
                | Panic l => Panic l | Blocked => Blocked | OutOfFuel => OutOfFuel
                end
    | Err e w => match write_cmd v fuel w with
                 | Ok _ w' => Err e w' | Err _ w' => Err e w'
                 | Panic l => Panic l | Blocked => Blocked | OutOfFuel => OutOfFuel
                 end
    | other => other   (* a panic unwinds through Drop too; not modelled *)
    end.

  (** a whole solver session: the client's calls, then the context is dropped *)
  Definition session {A : Type} (p : prog A) (w : world) : res A := shutdown (snd (run p w)).
End Run.

(* ------------------------------------------------------------------ the BMC conversation *)

Inductive verdict :=
| VSuccess
| VUnknown
| VFail (k : nat) (values : list string).   (* bad state at step k; the get-value replies the witness is built from *)

(** what of a transition system and of the bmc() arguments shapes the conversation *)
Record bmc_cfg := mkCfg {
  k_max : nat;
  n_bads : nat;
  n_states : nat;
  n_inputs : nat;
  chk_constraints : bool;        (* check_constraints *)
  individually : bool;           (* check_bad_states_individually *)
  nw_header : nat;               (* writes of set_logic + define_header + init_at(0) *)
  nw_step : nat -> nat;          (* writes asserting the constraints at step k *)
  nw_unroll : nat -> nat         (* writes of enc.unroll after step k *)
}.

Fixpoint writes {A : Type} (n : nat) (k : prog A) : prog A :=
  match n with O => k | S m => Write (writes m k) end.

Fixpoint get_values {A : Type} (n : nat) (acc : list string) (k : list string -> prog A) : prog A :=
  match n with
  | O => k (rev acc)
  | S m => GetValue (fun t => get_values m (t :: acc) k)
  end.

(** bmc.rs:132-197: one get_value per bad state, per state, per input and step 0..=k *)
Definition get_witness (c : bmc_cfg) (k : nat) : prog verdict :=
  get_values (n_bads c + n_states c + S k * n_inputs c) [] (fun vals => Ret (VFail k vals)).

(** bmc.rs:66-94: [n] queries at step [k]; the first `sat` ends the run with a witness.
    (`res == Sat` is the only test: a context that returned Ok(Unknown) would be treated like
    unsat; SmtLibSolverCtx never does, see [read_sat_response].) *)
Fixpoint check_bads (c : bmc_cfg) (n k : nat) (cont : prog verdict) : prog verdict :=
  match n with
  | O => cont
  | S m => CheckSat (fun r => match r with
                              | Sat => get_witness c k
                              | _ => check_bads c m k cont
                              end)
  end.

Definition loc_bmc_assert : string := "patronus/src/mc/bmc.rs:58".
Definition loc_bmc_kmax : string := "patronus/src/mc/bmc.rs:30".

(** bmc.rs:48-98, [todo] iterations starting at step [k] *)
Fixpoint bmc_steps (c : bmc_cfg) (todo k : nat) : prog verdict :=
  match todo with
  | O => Ret VSuccess
  | S t =>
      let rest := check_bads c (if individually c then n_bads c else 1) k
                             (writes (nw_unroll c k) (bmc_steps c t (S k))) in
      writes (nw_step c k)
             (if chk_constraints c
              then CheckSat (fun r => match r with Sat => rest | _ => ClientPanic loc_bmc_assert end)
              else rest)
  end.

(** bmc.rs:22-46 + start_bmc_or_pdr (104-129) *)
Definition bmc_prog (c : bmc_cfg) : prog verdict :=
  if (k_max c =? 0) || (2000 <? k_max c) then ClientPanic loc_bmc_kmax
  else if n_bads c =? 0 then Ret VSuccess
  else writes (nw_header c) (bmc_steps c (S (k_max c)) 0).

(** SmtLibSolver::start writes one set-option per option, bmc follows, the context is dropped *)
Definition bmc_session (parse_value : string -> bool) (v : variant) (fuel : nat)
           (n_options : nat) (c : bmc_cfg) (w : world) : res verdict :=
  session parse_value (fun _ => false) v fuel (writes n_options (bmc_prog c)) w.

(* ------------------------------------------------------------------ single calls (used for the PDR enumeration) *)

Definition one_check_sat (v : variant) (fuel : nat) (w : world) : res sat_resp :=
  session (fun _ => false) (fun _ => false) v fuel (CheckSat (fun r => Ret r)) w.

(** [more] = the client goes on talking after this call (one more write) *)
Definition after_call {A : Type} (more : bool) (a : A) : prog A := if more then Write (Ret a) else Ret a.

Definition one_check_sat_then (more : bool) (v : variant) (fuel : nat) (w : world) : res sat_resp :=
  session (fun _ => false) (fun _ => false) v fuel (CheckSat (fun r => after_call more r)) w.

Definition one_get (parse : string -> bool) (more : bool) (v : variant) (fuel : nat) (w : world) : res string :=
  session parse parse v fuel (GetValue (fun t => after_call more t)) w.

Definition one_get_unsat (parse : string -> bool) (more : bool) (v : variant) (fuel : nat) (w : world) : res string :=
  session parse parse v fuel (GetUnsat (fun t => after_call more t)) w.

End SIO.
