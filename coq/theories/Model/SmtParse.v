(** * Model/SmtParse.v — model of patronus/src/smt/parser.rs (the SMT-LIB reader).

    The reader is a stack machine over the token stream ([parse_expr_or_type]): every
    closing parenthesis reduces the items above the closest [Open] with [parse_pattern].
    [run] mirrors that loop token by token; [PPanic] stands for the [todo!] at the end of
    the token stream (parser.rs:247), for the [todo!] on a string literal (235), for the
    lexer's panics ([TkLexPanic]), and for the assertions / unwraps of the expression
    builders in [expr/context.rs] that the patterns call (the harness is built with debug
    assertions, as `cargo build` and `cargo test` are).

    Expressions are trees ([Expr.expr]); the builders of [Context] are the [mk_*]
    functions below ([Context::slice] drops no-op slices, [zero_extend]/[sign_extend] drop
    extensions by 0, [equal]/[ite] choose the array variant by the type of the operands).

    Errors are not distinguished further than [PErr] (the correspondence compares
    Ok-tree / Err / Panic).

    Variant [Fix2] = [Fix] with patches/0016-0018: operands are checked before a builder of [Context] is called ([checked_pattern]), a
    define-fun whose value has another type than declared and a sort of width zero are errors.
    Variant [Fix] mirrors /repo with patches/0003-0013 applied: the end of the token stream, a string
    literal, an unterminated token and a third parenthesis after [let] are errors; [skip_expr] reports a
    closing parenthesis without an opening one; a plain all-digit token is never looked up in the symbol
    table; [check-sat-assuming] reads a list; [get-unsat-assumptions] is a command; [read_command]
    counts parentheses outside quoted symbols and string literals only, joins lines without a separator,
    and returns an error for a command it cannot parse and at the end of the input inside a command.
    The assertions of the expression builders are unchanged (they remain a finding).

    Executable definitions only. *)

From Patronus Require Export Expr SmtLex SmtSer.
Open Scope string_scope.
Open Scope list_scope.
Open Scope N_scope.

Inductive pres (A : Type) : Type :=
| POk (a : A)
| PErr
| PPanic.
Arguments POk {A} a.
Arguments PErr {A}.
Arguments PPanic {A}.

Definition pbind {A B} (x : pres A) (f : A -> pres B) : pres B :=
  match x with POk a => f a | PErr => PErr | PPanic => PPanic end.

(** ** the expression builders of [Context] (debug build) *)

Definition bvw (e : expr) : option N := match type_of e with TBV w => Some w | TArr _ _ => None end.

(** the common shape [debug_assert_eq!(a.get_bv_type().unwrap(), b.get_bv_type().unwrap())] *)
Definition mk_same (f : expr -> expr -> N -> expr) (a b : expr) : pres expr :=
  match bvw a, bvw b with
  | Some wa, Some wb => if wa =? wb then POk (f a b wb) else PPanic
  | _, _ => PPanic
  end.

Definition mk_not (e : expr) : pres expr :=
  match bvw e with Some w => POk (BVNot e w) | None => PPanic end.
Definition mk_negate (e : expr) : pres expr :=
  match bvw e with Some w => POk (BVNegate e w) | None => PPanic end.

Definition ty_same (a b : ty) : bool := ty_eqb a b.

(** [Context::equal] *)
Definition mk_equal (a b : expr) : pres expr :=
  if ty_same (type_of a) (type_of b) then
    match type_of a with TBV _ => POk (BVEqual a b) | TArr _ _ => POk (ArrayEqual a b) end
  else PPanic.

(** [Context::ite] *)
Definition mk_ite (c t f : expr) : pres expr :=
  match bvw c with
  | Some wc =>
      if wc =? 1 then
        if ty_same (type_of t) (type_of f) then
          match type_of t with TBV _ => POk (BVIte c t f) | TArr _ _ => POk (ArrayIte c t f) end
        else PPanic
      else PPanic
  | None => PPanic
  end.

Definition mk_implies (a b : expr) : pres expr :=
  match bvw a, bvw b with
  | Some wa, Some wb => if (wa =? 1) && (wb =? 1) then POk (BVImplies a b) else PPanic
  | _, _ => PPanic
  end.

Definition mk_greater (a b : expr) : pres expr :=
  match bvw a, bvw b with
  | Some wa, Some wb => if wa =? wb then POk (BVGreater a b) else PPanic
  | _, _ => PPanic
  end.
Definition mk_greater_equal (a b : expr) : pres expr :=
  match bvw a, bvw b with
  | Some wa, Some wb => if wa =? wb then POk (BVGreaterEqual a b) else PPanic
  | _, _ => PPanic
  end.
Definition mk_greater_signed (a b : expr) : pres expr := mk_same BVGreaterSigned a b.
Definition mk_greater_equal_signed (a b : expr) : pres expr := mk_same BVGreaterEqualSigned a b.

Definition mk_concat (a b : expr) : pres expr :=
  match bvw a, bvw b with
  | Some wa, Some wb => POk (BVConcat a b (wa + wb))
  | _, _ => PPanic
  end.

(** [Context::slice]: [if lo == 0 && hi + 1 == e.get_bv_type().unwrap()] - the width is only asked for when [lo = 0]
    (a slice of an array with [lo > 0] is built silently); [assert!(hi >= lo)] holds in every build *)
Definition mk_slice (e : expr) (hi lo : N) : pres expr :=
  if lo =? 0 then
    match bvw e with
    | Some w => if hi + 1 =? w then POk e else POk (BVSlice e hi lo)
    | None => PPanic
    end
  else if hi <? lo then PPanic
  else POk (BVSlice e hi lo).

Definition mk_zero_extend (e : expr) (by_ : N) : pres expr :=
  if by_ =? 0 then POk e
  else match bvw e with Some w => POk (BVZeroExt e by_ (w + by_)) | None => PPanic end.
Definition mk_sign_extend (e : expr) (by_ : N) : pres expr :=
  if by_ =? 0 then POk e
  else match bvw e with Some w => POk (BVSignExt e by_ (w + by_)) | None => PPanic end.

Definition mk_array_const (e : expr) (iw : N) : pres expr :=
  match bvw e with Some dw => POk (ArrayConstant e iw dw) | None => PPanic end.
Definition mk_array_read (a i : expr) : pres expr :=
  match type_of a with TArr _ dw => POk (BVArrayRead a i dw) | TBV _ => PPanic end.
Definition mk_array_store (a i d : expr) : pres expr := POk (ArrayStore a i d).

(** [Context::symbol] *)
Definition mk_symbol (n : string) (t : ty) : pres expr :=
  match t with
  | TBV w => if w =? 0 then PPanic else POk (BVSymbol n w)
  | TArr i d => POk (ArraySymbol n i d)
  end.

(** ** symbol tables *)

Definition symtab : Type := list (string * expr).

Fixpoint map_remove {A} (k : string) (m : list (string * A)) : list (string * A) :=
  match m with
  | [] => []
  | (k', v) :: r => if String.eqb k k' then map_remove k r else (k', v) :: map_remove k r
  end.
Definition map_insert {A} (k : string) (v : A) (m : list (string * A)) : list (string * A) :=
  (k, v) :: map_remove k m.

Inductive let_undo : Type :=
| UndoRemove (k : string)
| UndoReplace (k : string) (v : expr).

(** [NestedSymbolTable] *)
Record nst : Type := {
  nst_top : symtab;
  nst_lets : symtab;
  nst_undo : list let_undo
}.

Definition nst_new (top : symtab) : nst := {| nst_top := top; nst_lets := []; nst_undo := [] |}.

Definition nst_get (st : nst) (name : string) : option expr :=
  match assoc_str name (nst_lets st) with
  | Some e => Some e
  | None => assoc_str name (nst_top st)
  end.

Definition nst_push_let (st : nst) (name : string) (e : expr) : nst :=
  let undo := match assoc_str name (nst_lets st) with
              | None => UndoRemove name
              | Some old => UndoReplace name old
              end in
  {| nst_top := nst_top st; nst_lets := map_insert name e (nst_lets st); nst_undo := undo :: nst_undo st |}.

(** [debug_assert!(!lets.is_empty() && !undo_stack.is_empty())], then [pop().unwrap()] *)
Definition nst_pop_let (st : nst) : pres nst :=
  match nst_lets st, nst_undo st with
  | _ :: _, u :: rest =>
      let lets' := match u with
                   | UndoRemove k => map_remove k (nst_lets st)
                   | UndoReplace k v => map_insert k v (nst_lets st)
                   end in
      POk {| nst_top := nst_top st; nst_lets := lets'; nst_undo := rest |}
  | _, _ => PPanic
  end.

Definition lookup_sym (st : nst) (name : string) : pres expr :=
  match nst_get st name with Some e => POk e | None => PErr end.

(** ** numbers *)

Definition dec_digit (c : ascii) : option N :=
  let n := N_of_ascii c in if (48 <=? n) && (n <=? 57) then Some (n - 48) else None.

Fixpoint dec_digits (s : string) (acc : N) : option N :=
  match s with
  | EmptyString => Some acc
  | String c r => match dec_digit c with Some d => dec_digits r (10 * acc + d) | None => None end
  end.

(** [str::parse::<uN>()]: an optional [+], then at least one digit, the value below [2^bits] *)
Definition parse_uint (bits : N) (s : string) : option N :=
  let body := match s with String c r => if Ascii.eqb c "+"%char then r else s | EmptyString => s end in
  match body with
  | EmptyString => None
  | _ => match dec_digits body 0 with
         | Some v => if v <? 2 ^ bits then Some v else None
         | None => None
         end
  end.

Definition parse_width (s : string) : pres N :=
  match parse_uint 32 s with Some v => POk v | None => PErr end.

(** ** parser items *)

Inductive pitem : Type :=
| IOpen (let_scope : bool)
| IExpr (e : expr)
| IType (t : ty)
| ISym (s : string)
| IAsConst (iw dw : N)
| IZExt (by_ : N)
| ISExt (by_ : N)
| IExtract (hi lo : N)
| ILet (parens : N)
| ILetScopeOpenMissingClose.

(** the literal classes of [NUM_LIT_REGEX] *)
Definition all_chars (p : ascii -> bool) (s : string) : bool :=
  match s with EmptyString => false | _ => str_forall p s end.
Definition is_bin_digit (c : ascii) : bool := Ascii.eqb c "0"%char || Ascii.eqb c "1"%char.
Definition is_hex_digit (c : ascii) : bool :=
  let n := N_of_ascii c in
  ((48 <=? n) && (n <=? 57)) || ((65 <=? n) && (n <=? 70)) || ((97 <=? n) && (n <=? 102)).
Definition is_dec_digit (c : ascii) : bool := let n := N_of_ascii c in (48 <=? n) && (n <=? 57).

(** [^[[:digit:]]+\.[[:digit:]]+$] *)
Fixpoint is_decimal_go (s : string) (seen_digit seen_dot : bool) : bool :=
  match s with
  | EmptyString => seen_dot && seen_digit
  | String c r =>
      if is_dec_digit c then is_decimal_go r true seen_dot
      else if Ascii.eqb c "."%char then
        if seen_dot || negb seen_digit then false else is_decimal_go r false true
      else false
  end.
Definition is_decimal (s : string) : bool := is_decimal_go s false false.

Definition literal_expr (w v : N) : expr := BVLiteral w v.

Section V.
Variable v : variant.

(** patches/0013: a plain numeral, [_] and [as] are never looked up in the symbol table *)
Definition kw_tok (value : string) : bool :=
  all_chars is_dec_digit value || String.eqb value "_" || String.eqb value "as".

(** what a plain token that is no literal / [Bool] / [let] becomes *)
Definition early_other (st : option nst) (value : string) : pres pitem :=
  let lookup :=
    match v with
    | Cur => true
    | Fix | Fix2 => negb (kw_tok value)
    end in
  match st with
  | Some st' =>
      if lookup then match nst_get st' value with Some e => POk (IExpr e) | None => POk (ISym value) end
      else POk (ISym value)
  | None => POk (ISym value)
  end.

(** [early_parse_single_token]; [st = None] directly after [let ((] *)
Definition early_parse (st : option nst) (value : string) : pres pitem :=
  match value with
  | String h (String k r) =>
      if Ascii.eqb h "#"%char && Ascii.eqb k "b"%char && all_chars is_bin_digit r then
        match digits_val bit_of 2 r 0 0 with
        | Some (len, v) => POk (IExpr (literal_expr len v))
        | None => PErr
        end
      else if Ascii.eqb h "#"%char && Ascii.eqb k "x"%char && all_chars is_hex_digit r then
        match digits_val hex_of 16 r 0 0 with
        | Some (len, v) => POk (IExpr (literal_expr (4 * len) v))
        | None => PErr
        end
      else if is_decimal value then PErr
      else if String.eqb value "true" then POk (IExpr (literal_expr 1 1))
      else if String.eqb value "false" then POk (IExpr (literal_expr 1 0))
      else if String.eqb value "Bool" then POk (IType (TBV 1))
      else if String.eqb value "let" then POk (ILet 0)
      else early_other st value
  | _ =>
      (* fewer than two characters: no literal, no keyword *)
      early_other st value
  end.

(** [expr(st, item)] *)
Definition item_expr (st : nst) (it : pitem) : pres expr :=
  match it with
  | IExpr e => POk e
  | ISym n => lookup_sym st n
  | _ => PErr
  end.

Inductive nary : Type := NBinary | NLeftAssoc.

Fixpoint items_exprs (st : nst) (args : list pitem) : pres (list expr) :=
  match args with
  | [] => POk []
  | a :: r =>
      pbind (item_expr st a) (fun e => pbind (items_exprs st r) (fun es => POk (e :: es)))
  end.

Fixpoint reduce_op (op : expr -> expr -> pres expr) (acc : expr) (rest : list expr) : pres expr :=
  match rest with
  | [] => POk acc
  | x :: r => pbind (op acc x) (fun acc' => reduce_op op acc' r)
  end.

(** [bin_op] *)
Definition bin_op (st : nst) (args : list pitem) (op : expr -> expr -> pres expr) (k : nary) : pres pitem :=
  match args with
  | [] | [_] => PErr
  | _ =>
      match k with
      | NLeftAssoc =>
          pbind (items_exprs st args) (fun es =>
            match es with
            | a :: rest => pbind (reduce_op op a rest) (fun r => POk (IExpr r))
            | [] => PPanic
            end)
      | NBinary =>
          match args with
          | [a; b] =>
              pbind (item_expr st a) (fun ea =>
                pbind (item_expr st b) (fun eb => pbind (op ea eb) (fun r => POk (IExpr r))))
          | _ => PErr
          end
      end
  end.

Definition binop_table : list (string * ((expr -> expr -> pres expr) * nary)) :=
  [ ("=", (mk_equal, NBinary));
    ("=>", (mk_implies, NBinary));
    ("bvugt", (mk_greater, NBinary));
    ("bvsgt", (mk_greater_signed, NBinary));
    ("bvuge", (mk_greater_equal, NBinary));
    ("bvsge", (mk_greater_equal_signed, NBinary));
    ("concat", (mk_concat, NBinary));
    ("and", (mk_same BVAnd, NLeftAssoc));
    ("bvand", (mk_same BVAnd, NLeftAssoc));
    ("or", (mk_same BVOr, NLeftAssoc));
    ("bvor", (mk_same BVOr, NLeftAssoc));
    ("xor", (mk_same BVXor, NLeftAssoc));
    ("bvxor", (mk_same BVXor, NLeftAssoc));
    ("bvshl", (mk_same BVShiftLeft, NBinary));
    ("bvashr", (mk_same BVArithmeticShiftRight, NBinary));
    ("bvlshr", (mk_same BVShiftRight, NBinary));
    ("bvadd", (mk_same BVAdd, NLeftAssoc));
    ("bvmul", (mk_same BVMul, NLeftAssoc));
    ("bvsdiv", (mk_same BVSignedDiv, NBinary));
    ("bvudiv", (mk_same BVUnsignedDiv, NBinary));
    ("bvsmod", (mk_same BVSignedMod, NBinary));
    ("bvsrem", (mk_same BVSignedRem, NBinary));
    ("bvurem", (mk_same BVUnsignedRem, NBinary));
    ("bvsub", (mk_same BVSub, NBinary));
    ("bvult", (fun a b => mk_greater b a, NBinary));
    ("bvslt", (fun a b => mk_greater_signed b a, NBinary));
    ("distinct", (fun a b => pbind (mk_equal b a) mk_not, NBinary)) ].

(** [parse_pattern].  The order of the arms is that of the Rust [match]. *)
Definition parse_pattern (st : nst) (pattern : list pitem) : pres (pitem * nst) :=
  let ret (x : pres pitem) := pbind x (fun i => POk (i, st)) in
  match pattern with
  | [IExpr e] => POk (IExpr e, st)
  | [IZExt by_; e] => ret (pbind (item_expr st e) (fun x => pbind (mk_zero_extend x by_) (fun r => POk (IExpr r))))
  | [ISExt by_; e] => ret (pbind (item_expr st e) (fun x => pbind (mk_sign_extend x by_) (fun r => POk (IExpr r))))
  | [IExtract hi lo; e] => ret (pbind (item_expr st e) (fun x => pbind (mk_slice x hi lo) (fun r => POk (IExpr r))))
  | [ILet 2; ISym name; IExpr value] => POk (ILetScopeOpenMissingClose, nst_push_let st name value)
  | [IAsConst iw dw; IExpr data] =>
      (* debug_assert_eq!(tpe.data_width, data.get_bv_type(ctx).unwrap()) *)
      match bvw data with
      | Some w => if w =? dw then ret (pbind (mk_array_const data iw) (fun r => POk (IExpr r))) else PPanic
      | None => PPanic
      end
  | ISym h :: args =>
      if String.eqb h "not" || String.eqb h "bvnot" then
        match args with
        | [e] => ret (pbind (item_expr st e) (fun x => pbind (mk_not x) (fun r => POk (IExpr r))))
        | _ => PErr
        end
      else if String.eqb h "bvneg" then
        match args with
        | [e] => ret (pbind (item_expr st e) (fun x => pbind (mk_negate x) (fun r => POk (IExpr r))))
        | _ => PErr
        end
      else
        match assoc_str h binop_table with
        | Some (op, k) => ret (bin_op st args op k)
        | None =>
            if String.eqb h "select" then
              match args with
              | [IExpr a; IExpr i] => ret (pbind (mk_array_read a i) (fun r => POk (IExpr r)))
              | _ => PErr
              end
            else if String.eqb h "ite" then
              match args with
              | [IExpr c; IExpr t; IExpr f] => ret (pbind (mk_ite c t f) (fun r => POk (IExpr r)))
              | _ => PErr
              end
            else if String.eqb h "store" then
              match args with
              | [IExpr a; IExpr i; IExpr d] => ret (pbind (mk_array_store a i d) (fun r => POk (IExpr r)))
              | _ => PErr
              end
            else if String.eqb h "_" then
              match args with
              | [ISym f; ISym x] =>
                  if String.eqb f "BitVec" then ret (pbind (parse_width x) (fun w => POk (IType (TBV w))))
                  else if String.eqb f "zero_extend" then ret (pbind (parse_width x) (fun w => POk (IZExt w)))
                  else if String.eqb f "sign_extend" then ret (pbind (parse_width x) (fun w => POk (ISExt w)))
                  else PErr
              | [ISym f; ISym x; ISym y] =>
                  if String.eqb f "extract" then
                    ret (pbind (parse_width x) (fun hi => pbind (parse_width y) (fun lo => POk (IExtract hi lo))))
                  else PErr
              | _ => PErr
              end
            else if String.eqb h "Array" then
              match args with
              | [IType (TBV iw); IType (TBV dw)] => POk (IType (TArr iw dw), st)
              | _ => PErr
              end
            else if String.eqb h "as" then
              match args with
              | [ISym c; IType (TArr iw dw)] => if String.eqb c "const" then POk (IAsConst iw dw, st) else PErr
              | _ => PErr
              end
            else PErr
        end
  | _ => PErr
  end.

(** ** the machine.  The stack is kept reversed (head = top). *)

Inductive eot : Type := EE (e : expr) | ET (t : ty).

(** the items above the closest [IOpen], in stack order, and what is below (with the [IOpen]) *)
Fixpoint split_at_open (rev_stack : list pitem) (acc : list pitem) : option (list pitem * bool * list pitem) :=
  match rev_stack with
  | [] => None
  | IOpen b :: below => Some (acc, b, below)
  | it :: below => split_at_open below (it :: acc)
  end.

Definition machine_done (rev_stack : list pitem) : option eot :=
  match rev_stack with
  | [IExpr e] => Some (EE e)
  | [IType t] => Some (ET t)
  | _ => None
  end.

(** patches/0016: [check_operands] verifies what the builder behind the pattern demands of its operands (exactly the
    conditions under which the builders of this model panic) and returns an error otherwise *)
Definition no_panic {A} (x : pres A) : pres A := match x with PPanic => PErr | _ => x end.

Definition checked_pattern (st : nst) (pattern : list pitem) : pres (pitem * nst) :=
  match v with Fix2 => no_panic (parse_pattern st pattern) | _ => parse_pattern st pattern end.

(** one token; [inr] = the machine returns *)
Definition step (tok : ltok) (stack : list pitem) (st : nst) (orphan : bool)
  : pres (list pitem * nst * bool) :=
  match tok with
  | TkOpen =>
      if orphan then PErr
      else match stack with
           | ILet p :: below =>
               (* Cur: debug assertion parens < 2;  Fix (patches/0008): an error *)
               if p <? 2 then POk (ILet (p + 1) :: below, st, orphan)
               else match v with Cur => PPanic | Fix | Fix2 => PErr end
           | _ => POk (IOpen false :: stack, st, orphan)
           end
  | TkClose =>
      match stack with
      | ILetScopeOpenMissingClose :: below => POk (IOpen true :: below, st, orphan)
      | _ =>
          match split_at_open stack [] with
          | Some (pattern, let_scope, below) =>
              pbind (checked_pattern st pattern) (fun r =>
                let (item, st1) := r in
                pbind (if let_scope then nst_pop_let st1 else POk st1) (fun st2 =>
                  POk (item :: below, st2, orphan)))
          | None => POk (stack, st, true)
          end
      end
  | TkValue v =>
      if orphan then PErr
      else
        let st_arg := match stack with ILet 2 :: _ => None | _ => Some st end in
        pbind (early_parse st_arg v) (fun it => POk (it :: stack, st, orphan))
  | TkEscaped v =>
      if orphan then PErr
      else pbind (lookup_sym st v) (fun e => POk (IExpr e :: stack, st, orphan))
  | TkStringLit _ => match v with Cur => PPanic | Fix | Fix2 => PErr end     (* patches/0004 *)
  | TkComment => POk (stack, st, orphan)
  | TkLexPanic => PPanic
  | TkUnterminated => PErr                                            (* patches/0005 *)
  end.

(** [parse_expr_or_type]: the result and the tokens not yet consumed *)
Fixpoint run (toks : list ltok) (stack : list pitem) (st : nst) (orphan : bool)
  : pres (eot * nst * list ltok) :=
  match toks with
  | [] => match v with Cur => PPanic | Fix | Fix2 => PErr end   (* todo!("error message!") / patches/0004 *)
  | tok :: rest =>
      match step tok stack st orphan with
      | POk (stack', st', orphan') =>
          match machine_done stack' with
          | Some r => POk (r, st', rest)
          | None => run rest stack' st' orphan'
          end
      | PErr => PErr
      | PPanic => PPanic
      end
  end.

Definition parse_eot (toks : list ltok) (st : nst) : pres (eot * nst * list ltok) := run toks [] st false.

Definition parse_expr_internal (toks : list ltok) (st : nst) : pres (expr * nst * list ltok) :=
  pbind (parse_eot toks st) (fun r =>
    match r with (EE e, st', rest) => POk (e, st', rest) | (ET _, _, _) => PErr end).

(** patches/0018: [(_ BitVec 0)] is not a sort *)
Definition ty_posb (t : ty) : bool :=
  match t with TBV w => negb (w =? 0) | TArr i d => negb (i =? 0) && negb (d =? 0) end.

Definition parse_type (toks : list ltok) (st : nst) : pres (ty * nst * list ltok) :=
  pbind (parse_eot toks st) (fun r =>
    match r with
    | (ET t, st', rest) =>
        match v with
        | Fix2 => if ty_posb t then POk (t, st', rest) else PErr
        | _ => POk (t, st', rest)
        end
    | (EE _, _, _) => PErr
    end).

(** [next_no_comment]: [None] at the end of the input *)
Fixpoint next_no_comment (toks : list ltok) : pres (option ltok * list ltok) :=
  match toks with
  | [] => POk (None, [])
  | TkComment :: r => next_no_comment r
  | TkLexPanic :: _ => PPanic
  | t :: r => POk (Some t, r)
  end.

(** [smt::parse_expr] *)
Definition parse_expr_toks (top : symtab) (toks : list ltok) : pres expr :=
  pbind (parse_expr_internal toks (nst_new top)) (fun r =>
    let '(e, _, rest) := r in
    pbind (next_no_comment rest) (fun n =>
      match fst n with None => POk e | Some _ => PErr end)).

Definition parse_expr_str (top : symtab) (s : string) : pres expr := parse_expr_toks top (lex_impl v s).

(** ** responses *)

Definition skip_open (toks : list ltok) : pres (list ltok) :=
  pbind (next_no_comment toks) (fun n =>
    match n with (Some TkOpen, r) => POk r | _ => PErr end).
Definition skip_close (toks : list ltok) : pres (list ltok) :=
  pbind (next_no_comment toks) (fun n =>
    match n with (Some TkClose, r) => POk r | _ => PErr end).

(** [skip_expr]; [open_count -= 1] on an unsigned zero overflows (panic in debug builds) *)
Fixpoint skip_expr (toks : list ltok) (open_count : N) : pres (list ltok) :=
  match toks with
  | [] => PErr
  | TkLexPanic :: _ => PPanic
  | TkUnterminated :: _ => PErr
  | TkOpen :: r => skip_expr r (open_count + 1)
  | TkClose :: r =>
      if open_count =? 0 then match v with Cur => PPanic | Fix | Fix2 => PErr end    (* patches/0007 *)
      else if open_count =? 1 then POk r else skip_expr r (open_count - 1)
  | TkComment :: r => skip_expr r open_count
  | _ :: r => if open_count =? 0 then POk r else skip_expr r open_count
  end.

(** [parse_get_value_response] *)
Definition parse_get_value_response_toks (toks : list ltok) : pres expr :=
  pbind (skip_open toks) (fun t1 =>
  pbind (skip_open t1) (fun t2 =>
  pbind (skip_expr t2 0) (fun t3 =>
  pbind (parse_expr_internal t3 (nst_new [])) (fun r =>
    let '(e, _, t4) := r in
    pbind (skip_close t4) (fun t5 =>
    pbind (skip_close t5) (fun _ => POk e)))))).

Definition parse_get_value_response_str (s : string) : pres expr :=
  parse_get_value_response_toks (lex_impl v s).

(** [parse_expr_list] (fuelled by the number of tokens: every round consumes at least one) *)
Fixpoint parse_expr_list_go (fuel : nat) (toks : list ltok) (st : nst) (acc : list expr) : pres (list expr) :=
  match fuel with
  | O => PErr
  | S fuel' =>
      pbind (next_no_comment toks) (fun n =>
        match n with
        | (None, _) => PErr                         (* MissingClose("eof") *)
        | (Some TkClose, _) => POk (rev acc)
        | (Some _, _) =>
            pbind (parse_expr_internal toks st) (fun r =>
              let '(e, st', rest) := r in parse_expr_list_go fuel' rest st' (e :: acc))
        end)
  end.

(** the same, also returning the tokens after the closing parenthesis *)
Fixpoint parse_expr_list_rest (fuel : nat) (toks : list ltok) (st : nst) (acc : list expr) : pres (list expr * list ltok) :=
  match fuel with
  | O => PErr
  | S fuel' =>
      pbind (next_no_comment toks) (fun n =>
        match n with
        | (None, _) => PErr
        | (Some TkClose, r) => POk (rev acc, r)
        | (Some _, _) =>
            pbind (parse_expr_internal toks st) (fun r =>
              let '(e, st', rest) := r in parse_expr_list_rest fuel' rest st' (e :: acc))
        end)
  end.

Definition parse_unsat_assumptions_toks (top : symtab) (toks : list ltok) : pres (list expr) :=
  pbind (skip_open toks) (fun t1 => parse_expr_list_go (S (length t1)) t1 (nst_new top) []).

Definition parse_unsat_assumptions_str (top : symtab) (s : string) : pres (list expr) :=
  parse_unsat_assumptions_toks top (lex_impl v s).

(** ** commands *)

Definition value_token (toks : list ltok) : pres (string * list ltok) :=
  pbind (next_no_comment toks) (fun n =>
    match n with
    | (Some (TkValue v), r) => POk (v, r)
    | (Some (TkEscaped v), r) => POk (v, r)
    | _ => PErr
    end).

(** [string_lit_to_string]: doubled quotes become one *)
Fixpoint unescape_string_lit (s : string) : string :=
  match s with
  | String c r =>
      match r with
      | String d r' =>
          if Ascii.eqb c c_dquote && Ascii.eqb d c_dquote then String c (unescape_string_lit r')
          else String c (unescape_string_lit r)
      | EmptyString => s
      end
  | EmptyString => s
  end.

Definition any_string_token (toks : list ltok) : pres (string * list ltok) :=
  pbind (next_no_comment toks) (fun n =>
    match n with
    | (Some (TkValue v), r) => POk (v, r)
    | (Some (TkEscaped v), r) => POk (v, r)
    | (Some (TkStringLit v), r) => POk (unescape_string_lit v, r)
    | _ => PErr
    end).

Definition parse_logic (toks : list ltok) : pres (logic * list ltok) :=
  pbind (value_token toks) (fun vr =>
    let (v, r) := vr in
    if String.eqb v "QF_BV" then POk (LoQfBv, r)
    else if String.eqb v "QF_ABV" then POk (LoQfAbv, r)
    else if String.eqb v "QF_AUFBV" then POk (LoQfAufbv, r)
    else if String.eqb v "ALL" then POk (LoAll, r)
    else PErr).

(** the body of [parse_command] after the command name *)
Definition parse_command_body (top : symtab) (name : string) (toks : list ltok) : pres (smt_cmd * list ltok) :=
  let st := nst_new top in
  if String.eqb name "exit" then POk (CExit, toks)
  else if String.eqb name "check-sat" then POk (CCheckSat, toks)
  else if String.eqb name "set-logic" then
    pbind (parse_logic toks) (fun lr => POk (CSetLogic (fst lr), snd lr))
  else if String.eqb name "set-option" || String.eqb name "set-info" then
    pbind (value_token toks) (fun kr =>
    pbind (any_string_token (snd kr)) (fun vr =>
      match fst kr with
      | String c key =>
          if Ascii.eqb c ":"%char then
            if String.eqb name "set-option" then POk (CSetOption key (fst vr), snd vr)
            else POk (CSetInfo key (fst vr), snd vr)
          else PErr
      | EmptyString => PErr
      end))
  else if String.eqb name "assert" then
    pbind (parse_expr_internal toks st) (fun r => let '(e, _, rest) := r in POk (CAssert e, rest))
  else if String.eqb name "declare-const" then
    pbind (value_token toks) (fun nr =>
    pbind (parse_type (snd nr) st) (fun r =>
      let '(t, _, rest) := r in
      pbind (mk_symbol (fst nr) t) (fun s => POk (CDeclareConst s, rest))))
  else if String.eqb name "declare-fun" then
    pbind (value_token toks) (fun nr =>
    pbind (skip_open (snd nr)) (fun t1 =>
    pbind (skip_close t1) (fun t2 =>
    pbind (parse_type t2 st) (fun r =>
      let '(t, _, rest) := r in
      pbind (mk_symbol (fst nr) t) (fun s => POk (CDeclareConst s, rest))))))
  else if String.eqb name "define-const" then
    pbind (value_token toks) (fun nr =>
    pbind (parse_type (snd nr) st) (fun r =>
      let '(t, st1, t1) := r in
      pbind (parse_expr_internal t1 st1) (fun r2 =>
        let '(value, _, rest) := r2 in
        (* debug_assert_eq!(value type, tpe); patches/0017: an error *)
        if ty_eqb (type_of value) t then pbind (mk_symbol (fst nr) t) (fun s => POk (CDefineConst s value, rest))
        else match v with Fix2 => PErr | _ => PPanic end)))
  else if String.eqb name "define-fun" then
    pbind (value_token toks) (fun nr =>
    pbind (skip_open (snd nr)) (fun t1 =>
    pbind (skip_close t1) (fun t2 =>
    pbind (parse_type t2 st) (fun r =>
      let '(t, st1, t3) := r in
      pbind (parse_expr_internal t3 st1) (fun r2 =>
        let '(value, _, rest) := r2 in
        if ty_eqb (type_of value) t then pbind (mk_symbol (fst nr) t) (fun s => POk (CDefineConst s value, rest))
        else match v with Fix2 => PErr | _ => PPanic end)))))
  else if String.eqb name "check-sat-assuming" then
    match v with
    | Cur => pbind (parse_expr_internal toks st) (fun r => let '(e, _, rest) := r in POk (CCheckSatAssuming [e], rest))
    | Fix | Fix2 =>
        (* patches/0011: [parse_expr_list]; the tokens after the list are found again by skipping it *)
        pbind (skip_open toks) (fun t1 =>
        pbind (parse_expr_list_rest (S (length t1)) t1 st []) (fun er => POk (CCheckSatAssuming (fst er), snd er)))
    end
  else if String.eqb name "get-unsat-assumptions" then
    match v with Cur => PErr | Fix | Fix2 => POk (CGetUnsatAssumptions, toks) end          (* patches/0012 *)
  else if String.eqb name "push" || String.eqb name "pop" then
    pbind (value_token toks) (fun nr =>
      match parse_uint 64 (fst nr) with
      | Some n => if String.eqb name "push" then POk (CPush n, snd nr) else POk (CPop n, snd nr)
      | None => PErr
      end)
  else if String.eqb name "get-value" then
    pbind (parse_expr_internal toks st) (fun r => let '(e, _, rest) := r in POk (CGetValue e, rest))
  else PErr.

(** [smt::parse_command] *)
Definition parse_command_toks (top : symtab) (toks : list ltok) : pres smt_cmd :=
  pbind (skip_open toks) (fun t1 =>
  pbind (next_no_comment t1) (fun n =>
    match n with
    | (Some (TkValue name), t2) =>
        pbind (parse_command_body top name t2) (fun cr =>
        pbind (skip_close (snd cr)) (fun _ => POk (fst cr)))
    | _ => PErr
    end)).

Definition parse_command_str (top : symtab) (s : string) : pres smt_cmd := parse_command_toks top (lex_impl v s).

(** ** [read_command] on a list of lines (each line as [read_line] delivers it) *)

Fixpoint count_parens_cur (s : string) (acc : Z) : Z :=
  match s with
  | EmptyString => acc
  | String c r =>
      if Ascii.eqb c c_open then count_parens_cur r (acc + 1)%Z
      else if Ascii.eqb c c_close then count_parens_cur r (acc - 1)%Z
      else count_parens_cur r acc
  end.

(** patches/0003: parentheses inside string literals and quoted symbols do not count *)
Fixpoint count_parens_fix (s : string) (in_string in_quoted : bool) (acc : Z) : Z :=
  match s with
  | EmptyString => acc
  | String c r =>
      if Ascii.eqb c c_dquote && negb in_quoted then count_parens_fix r (negb in_string) in_quoted acc
      else if Ascii.eqb c c_bar && negb in_string then count_parens_fix r in_string (negb in_quoted) acc
      else if Ascii.eqb c c_open && negb in_string && negb in_quoted then count_parens_fix r in_string in_quoted (acc + 1)%Z
      else if Ascii.eqb c c_close && negb in_string && negb in_quoted then count_parens_fix r in_string in_quoted (acc - 1)%Z
      else count_parens_fix r in_string in_quoted acc
  end.

Definition count_parens (s : string) : Z :=
  match v with Cur => count_parens_cur s 0 | Fix | Fix2 => count_parens_fix s false false 0 end.

(** [char::is_ascii_whitespace]: space, tab, line feed, form feed, carriage return *)
Definition ascii_ws (c : ascii) : bool :=
  let n := N_of_ascii c in (n =? 32) || (n =? 9) || (n =? 10) || (n =? 12) || (n =? 13).
(** [str::trim] on ASCII text additionally strips vertical tab *)
Definition trim_ws (c : ascii) : bool := ascii_ws c || (N_of_ascii c =? 11).

Fixpoint is_comment_line (s : string) : bool :=
  match s with
  | EmptyString => false
  | String c r => if ascii_ws c then is_comment_line r else Ascii.eqb c c_semi
  end.

Definition is_blank (s : string) : bool := str_forall trim_ws s.

Inductive rc_result : Type :=
| RcEof                                             (* Ok(None) *)
| RcCmd (c : smt_cmd) (top : symtab) (rest : list string)
| RcErr                                             (* Err(io::Error): Fix only *)
| RcPanic                                           (* Cur: expect("failed to parse command"); both: a panic inside parse_command *)
| RcHang.                                           (* Cur: the loop that waits for balanced parentheses at end of input *)

(** skip comment-only and blank lines *)
Fixpoint rc_skip (lines : list string) : option (string * list string) :=
  match lines with
  | [] => None
  | l :: r => if is_comment_line l || is_blank l then rc_skip r else Some (l, r)
  end.

(** append lines while there are more opening than closing parentheses *)
Fixpoint rc_balance (cmd : string) (lines : list string) : option (string * list string) :=
  if (count_parens cmd <=? 0)%Z then Some (cmd, lines)
  else match lines with
       | [] => None
       | l :: r =>
           (* Cur pushes a space before reading the next line; patches/0010 removes it *)
           rc_balance (String.append cmd (match v with Cur => String " "%char l | Fix | Fix2 => l end)) r
       end.

Definition symtab_add (top : symtab) (c : smt_cmd) : symtab :=
  match c with
  | CDefineConst s _ | CDeclareConst s =>
      match symbol_name_of s with Some n => map_insert n s top | None => top end
  | _ => top
  end.

Definition read_command (top : symtab) (lines : list string) : rc_result :=
  match rc_skip lines with
  | None => RcEof
  | Some (l, rest) =>
      match rc_balance l rest with
      | None => match v with Cur => RcHang | Fix | Fix2 => RcErr end          (* patches/0009 *)
      | Some (cmd, rest') =>
          match parse_command_str top cmd with
          | POk c => RcCmd c (symtab_add top c) rest'
          | PErr => match v with Cur => RcPanic | Fix | Fix2 => RcErr end     (* patches/0009 *)
          | PPanic => RcPanic
          end
      end
  end.

End V.
