(** * Spec/ReachSpec.v — executions with array states compared on their index range.

    [Spec/System.v] compares an array state with its init expression at EVERY
    natural number ([sym_agrees], [forall i]).  No well-typed expression can
    observe an array outside the indices below [2^iw] (reads, stores and array
    equality only use indices of the index width), and the explicit-state
    exploration only enumerates those.  The definitions below are those of
    System.v with the comparison restricted to the index range; every execution
    of System.v is one of these ([is_execution_to_r]), and for systems in which
    no ARRAY state has an init expression the two notions coincide
    (Proofs/ReachBmcProofs.v). *)
From Coq Require Import List Bool.
From Patronus Require Export ReachBmc.
Import ListNotations.
Open Scope N_scope.

Definition sym_agrees_r (rho : env) (s : expr) (src : env) (e : expr) : Prop :=
  match s with
  | BVSymbol n w => rho_bv rho n w = ebv src e
  | ArraySymbol n iw dw => forall i, i < 2 ^ iw -> rho_arr rho n iw dw i = earr src e i
  | _ => True
  end.

Definition is_initial_r (sy : sys) (rho : env) : Prop :=
  forall st e, In st (s_states sy) -> st_init st = Some e -> sym_agrees_r rho (st_sym st) rho e.

Definition is_execution_r (sy : sys) (trace : list env) : Prop :=
  exists rho0 frees, trace = run_from sy rho0 frees /\ is_initial_r sy rho0 /\
                     (forall rho, In rho trace -> env_wf rho) /\
                     forallb (constraints_hold sy) trace = true.

(** a constrained execution of exactly [j] steps ends in a bad state *)
Definition reach_at_r (sy : sys) (j : nat) : Prop :=
  exists trace, is_execution_r sy trace /\ length trace = S j /\ some_bad sy (last trace env0) = true.

Definition reach_at (sy : sys) (j : nat) : Prop :=
  exists trace, is_execution sy trace /\ length trace = S j /\ some_bad sy (last trace env0) = true.

Definition no_array_init (sy : sys) : bool :=
  forallb (fun st => match st_sym st, st_init st with
                     | ArraySymbol _ _ _, Some _ => false
                     | _, _ => true
                     end) (s_states sy).
