(** * Spec/Smt.v — a small SMT-LIB 2.6 front end, written from the standard.

    This file is a *specification*: it is the "reference solver front end" against
    which the SMT-LIB writer (C05) and reader (C14) of patronus are judged.  It is
    written from the SMT-LIB 2.6 document (lexicon 3.1, S-expressions 3.2, sorts and
    terms 3.5/3.6, theories Core, FixedSizeBitVectors, ArraysEx, logic QF_BV) and is
    deliberately independent of patronus' writer: nothing here mentions [expr].

    - [lex]      : characters -> tokens (parentheses, atoms; comments and white space
                   dropped; quoted symbols [|..|] and string literals kept verbatim)
    - [read_all] : tokens -> S-expressions
    - [symbol_name] : which atoms are symbols (simple, not a reserved word; or quoted)
                   and which symbol they denote ([|abc|] and [abc] are the same symbol)
    - [ssort], [sort_of_sx] : [Bool], [(_ BitVec n)] (n > 0), [(Array s1 s2)] with
                   elementary [s1], [s2] (the fragment has no nested arrays)
    - [scheck]   : the STRICT sort checker: [Bool] and [(_ BitVec 1)] are different
                   sorts, an unknown symbol is an error, every operator has exactly
                   the rank the theory gives it
    - [seval]    : evaluation into [sval] (booleans, bit-vectors as numbers [< 2^w],
                   arrays as functions on encoded elements); the bit-vector operators
                   of the core theory are those of [BV.v], the derived ones ([bvsub],
                   [bvxor], signed comparison, signed division ...) are spelled out
                   here from the abbreviations given in the standard
    - [cmd_check]: commands ([declare-const], [declare-fun] without arguments,
                   [define-fun] without arguments, [assert], [check-sat-assuming],
                   [get-value], [push]/[pop], [set-logic], [set-option], [set-info] ...)

    Executable definitions only. *)

From Coq Require Export String Ascii.
From Coq Require Import DecimalString.
From Patronus Require Export BV.
Open Scope string_scope.
Open Scope list_scope.
Open Scope N_scope.

(** ** S-expressions and tokens *)

Inductive sx : Type :=
| SxAtom (a : string)
| SxList (l : list sx).

Inductive stok : Type :=
| StOpen
| StClose
| StAtom (a : string).

(** ** Characters *)

Definition cn (c : ascii) : N := N_of_ascii c.

Definition is_digit (c : ascii) : bool := (48 <=? cn c) && (cn c <=? 57).
Definition is_alpha (c : ascii) : bool :=
  ((65 <=? cn c) && (cn c <=? 90)) || ((97 <=? cn c) && (cn c <=? 122)).
(** the characters  ~ ! @ $ % ^ & * _ - + = < > . ? /  of <simple_symbol> *)
Definition sym_specials : list ascii :=
  list_ascii_of_string "~!@$%^&*_-+=<>.?/".
Definition is_sym_special (c : ascii) : bool := existsb (Ascii.eqb c) sym_specials.
Definition is_sym_char (c : ascii) : bool := is_alpha c || is_digit c || is_sym_special c.
(** white space: tab, line feed, carriage return, space *)
Definition is_ws (c : ascii) : bool :=
  (cn c =? 9) || (cn c =? 10) || (cn c =? 13) || (cn c =? 32).
(** printable characters: 32..126 and 128.. *)
Definition is_printable (c : ascii) : bool :=
  ((32 <=? cn c) && (cn c <=? 126)) || (128 <=? cn c).

Definition c_open : ascii := "("%char.
Definition c_close : ascii := ")"%char.
Definition c_bar : ascii := "|"%char.
Definition c_bslash : ascii := "\"%char.
Definition c_dquote : ascii := """"%char.
Definition c_semi : ascii := ";"%char.

(** ** Lexer (3.1).  Atoms are kept verbatim: a quoted symbol keeps its bars, a
    string literal keeps its quotes. [None] = lexical error. *)

Inductive lstate : Type :=
| LSearch
| LTok (acc : string)       (* reversed *)
| LQuoted (acc : string)    (* reversed, includes the opening bar *)
| LStr (acc : string)       (* reversed, includes the opening quote *)
| LStrQ (acc : string)      (* a double quote was just seen inside a string literal *)
| LComment
| LError.

Fixpoint srev_app (s acc : string) : string :=
  match s with
  | EmptyString => acc
  | String c r => srev_app r (String c acc)
  end.
Definition srev (s : string) : string := srev_app s EmptyString.

(** what a character does when no token is being read *)
Definition lex_start (c : ascii) (out : list stok) : lstate * list stok :=
  if Ascii.eqb c c_open then (LSearch, StOpen :: out)
  else if Ascii.eqb c c_close then (LSearch, StClose :: out)
  else if is_ws c then (LSearch, out)
  else if Ascii.eqb c c_bar then (LQuoted (String c EmptyString), out)
  else if Ascii.eqb c c_dquote then (LStr (String c EmptyString), out)
  else if Ascii.eqb c c_semi then (LComment, out)
  else if is_printable c then (LTok (String c EmptyString), out)
  else (LError, out).

Definition is_delim (c : ascii) : bool :=
  Ascii.eqb c c_open || Ascii.eqb c c_close || is_ws c || Ascii.eqb c c_bar
  || Ascii.eqb c c_dquote || Ascii.eqb c c_semi.

Fixpoint lex_go (st : lstate) (s : string) (out : list stok) : option (list stok) :=
  match s with
  | EmptyString =>
      match st with
      | LSearch | LComment => Some (rev out)
      | LTok acc => Some (rev (StAtom (srev acc) :: out))
      | LStrQ acc => Some (rev (StAtom (srev acc) :: out))
      | LQuoted _ | LStr _ | LError => None
      end
  | String c r =>
      match st with
      | LError => None
      | LSearch => let (st', out') := lex_start c out in lex_go st' r out'
      | LTok acc =>
          if is_delim c then
            let (st', out') := lex_start c (StAtom (srev acc) :: out) in lex_go st' r out'
          else if is_printable c then lex_go (LTok (String c acc)) r out
          else None
      | LQuoted acc =>
          if Ascii.eqb c c_bar then lex_go LSearch r (StAtom (srev (String c acc)) :: out)
          else if Ascii.eqb c c_bslash then None
          else if is_printable c || is_ws c then lex_go (LQuoted (String c acc)) r out
          else None
      | LStr acc =>
          if Ascii.eqb c c_dquote then lex_go (LStrQ (String c acc)) r out
          else if is_printable c || is_ws c then lex_go (LStr (String c acc)) r out
          else None
      | LStrQ acc =>
          if Ascii.eqb c c_dquote then lex_go (LStr (String c acc)) r out   (* "" inside a literal *)
          else let (st', out') := lex_start c (StAtom (srev acc) :: out) in lex_go st' r out'
      | LComment =>
          if (cn c =? 10) || (cn c =? 13) then lex_go LSearch r out else lex_go LComment r out
      end
  end.

Definition lex (s : string) : option (list stok) := lex_go LSearch s [].

(** ** Reader (3.2): tokens -> S-expressions *)

Fixpoint read_go (ts : list stok) (stack : list (list sx)) (cur : list sx) : option (list sx) :=
  match ts with
  | [] => match stack with [] => Some (rev cur) | _ :: _ => None end
  | StOpen :: r => read_go r (cur :: stack) []
  | StClose :: r =>
      match stack with
      | [] => None
      | p :: st => read_go r st (SxList (rev cur) :: p)
      end
  | StAtom a :: r => read_go r stack (SxAtom a :: cur)
  end.

Definition read_all (ts : list stok) : option (list sx) := read_go ts [] [].
Definition read_one (ts : list stok) : option sx :=
  match read_all ts with Some [x] => Some x | _ => None end.

Fixpoint flatten (t : sx) : list stok :=
  match t with
  | SxAtom a => [StAtom a]
  | SxList l => StOpen :: (flat_map flatten l) ++ [StClose]
  end.

Definition parse_text (s : string) : option sx :=
  match lex s with Some ts => read_one ts | None => None end.
Definition parse_script (s : string) : option (list sx) :=
  match lex s with Some ts => read_all ts | None => None end.

(** ** Symbols (3.1) *)

Definition reserved_words : list string :=
  [ "!"; "_"; "as"; "BINARY"; "DECIMAL"; "exists"; "HEXADECIMAL"; "forall"; "let"; "match";
    "NUMERAL"; "par"; "STRING";
    "assert"; "check-sat"; "check-sat-assuming"; "declare-const"; "declare-datatype";
    "declare-datatypes"; "declare-fun"; "declare-sort"; "define-fun"; "define-fun-rec";
    "define-funs-rec"; "define-sort"; "echo"; "exit"; "get-assertions"; "get-assignment";
    "get-info"; "get-model"; "get-option"; "get-proof"; "get-unsat-assumptions";
    "get-unsat-core"; "get-value"; "pop"; "push"; "reset"; "reset-assertions"; "set-info";
    "set-logic"; "set-option" ].

Definition str_in (s : string) (l : list string) : bool := existsb (String.eqb s) l.
Definition is_reserved (s : string) : bool := str_in s reserved_words.

Fixpoint str_forall (p : ascii -> bool) (s : string) : bool :=
  match s with
  | EmptyString => true
  | String c r => p c && str_forall p r
  end.

(** the character class of <simple_symbol>, not starting with a digit, non-empty *)
Definition is_simple_chars (s : string) : bool :=
  match s with
  | EmptyString => false
  | String c _ => negb (is_digit c) && str_forall is_sym_char s
  end.
Definition is_simple_symbol (s : string) : bool := is_simple_chars s && negb (is_reserved s).

(** what may stand between the bars of a quoted symbol *)
Definition quoted_char_ok (c : ascii) : bool :=
  (is_printable c || is_ws c) && negb (Ascii.eqb c c_bar) && negb (Ascii.eqb c c_bslash).

(** [Some body] when [s] = body ++ "|" and body has only admissible characters *)
Fixpoint quoted_body (s : string) : option string :=
  match s with
  | EmptyString => None
  | String c r =>
      match r with
      | EmptyString => if Ascii.eqb c c_bar then Some EmptyString else None
      | String _ _ =>
          if quoted_char_ok c then
            match quoted_body r with Some b => Some (String c b) | None => None end
          else None
      end
  end.

(** the symbol an atom denotes, if it is a symbol *)
Definition symbol_name (a : string) : option string :=
  match a with
  | EmptyString => None
  | String c r =>
      if Ascii.eqb c c_bar then quoted_body r
      else if is_simple_symbol a then Some a else None
  end.

(** keywords: a colon followed by simple-symbol characters *)
Definition is_keyword (a : string) : bool :=
  match a with
  | String c (String d r) => Ascii.eqb c ":"%char && str_forall is_sym_char (String d r)
  | _ => false
  end.

(** ** Numerals and literals *)

Definition dec_string (n : N) : string := NilZero.string_of_uint (N.to_uint n).

(** <numeral>: 0, or a non-empty digit sequence not starting with 0 *)
Definition numeral (s : string) : option N :=
  match NilZero.uint_of_string s with
  | Some d => let n := N.of_uint d in if String.eqb (dec_string n) s then Some n else None
  | None => None
  end.

Definition bit_of (c : ascii) : option N :=
  if Ascii.eqb c "0"%char then Some 0 else if Ascii.eqb c "1"%char then Some 1 else None.

Definition hex_of (c : ascii) : option N :=
  let n := cn c in
  if (48 <=? n) && (n <=? 57) then Some (n - 48)
  else if (65 <=? n) && (n <=? 70) then Some (n - 55)
  else if (97 <=? n) && (n <=? 102) then Some (n - 87)
  else None.

(** digits, most significant first: (number of digits, value) *)
Fixpoint digits_val (digit : ascii -> option N) (base : N) (s : string) (len acc : N) : option (N * N) :=
  match s with
  | EmptyString => Some (len, acc)
  | String c r =>
      match digit c with
      | Some d => digits_val digit base r (len + 1) (base * acc + d)
      | None => None
      end
  end.

(** [#b0101] / [#x0aF] : (width, value) *)
Definition bv_literal (a : string) : option (N * N) :=
  match a with
  | String h (String k (String d r)) =>
      if Ascii.eqb h "#"%char then
        if Ascii.eqb k "b"%char then digits_val bit_of 2 (String d r) 0 0
        else if Ascii.eqb k "x"%char then
          match digits_val hex_of 16 (String d r) 0 0 with
          | Some (len, v) => Some (4 * len, v)
          | None => None
          end
        else None
      else None
  | _ => None
  end.

(** [bvN] as in [(_ bvN w)] *)
Definition bv_decimal_name (a : string) : option N :=
  match a with
  | String b (String v r) =>
      if Ascii.eqb b "b"%char && Ascii.eqb v "v"%char then numeral r else None
  | _ => None
  end.

(** ** Sorts *)

Inductive ssort : Type :=
| SoBool
| SoBV (n : N)
| SoArr (i d : ssort).

Fixpoint ssort_eqb (a b : ssort) : bool :=
  match a, b with
  | SoBool, SoBool => true
  | SoBV n, SoBV m => n =? m
  | SoArr i d, SoArr i' d' => ssort_eqb i i' && ssort_eqb d d'
  | _, _ => false
  end.

Definition is_elementary (s : ssort) : bool :=
  match s with SoArr _ _ => false | _ => true end.

(** number of bits that encode an element of an elementary sort *)
Definition sort_bits (s : ssort) : N :=
  match s with SoBool => 1 | SoBV n => n | SoArr _ _ => 0 end.

Definition sym_is (a : string) (name : string) : bool :=
  match symbol_name a with Some n => String.eqb n name | None => false end.

Fixpoint sort_of_sx (t : sx) : option ssort :=
  match t with
  | SxAtom a => if sym_is a "Bool" then Some SoBool else None
  | SxList [SxAtom arr; i; d] =>
      if String.eqb arr "_" then
        match i, d with
        | SxAtom b, SxAtom n =>
            if sym_is b "BitVec" then
              match numeral n with
              | Some w => if 0 <? w then Some (SoBV w) else None
              | None => None
              end
            else None
        | _, _ => None
        end
      else
      if sym_is arr "Array" then
        match sort_of_sx i, sort_of_sx d with
        | Some si, Some sd => if is_elementary si && is_elementary sd then Some (SoArr si sd) else None
        | _, _ => None
        end
      else None
  | _ => None
  end.

(** ** Values *)

Inductive sval : Type :=
| SVBool (b : bool)
| SVBits (w v : N)                    (* v < 2^w *)
| SVArr (i d : ssort) (f : N -> N).   (* elements encoded by [enc] *)

Definition sort_of_val (v : sval) : ssort :=
  match v with
  | SVBool _ => SoBool
  | SVBits w _ => SoBV w
  | SVArr i d _ => SoArr i d
  end.

(** elements of elementary sorts as numbers: false = 0, true = 1, a bit-vector = its value *)
Definition enc (v : sval) : N :=
  match v with SVBool b => b2n b | SVBits _ x => x | SVArr _ _ _ => 0 end.
Definition dec (s : ssort) (n : N) : sval :=
  match s with
  | SoBool => SVBool (n =? 1)
  | SoBV w => SVBits w n
  | SoArr i d => SVArr i d (fun _ => 0)
  end.

(** equality of two values of the same sort; [None] when the sorts differ.
    Arrays are extensional: compared over the whole index space. *)
Definition sval_eqb (a b : sval) : option bool :=
  match a, b with
  | SVBool x, SVBool y => Some (Bool.eqb x y)
  | SVBits w x, SVBits w' y => if w =? w' then Some (x =? y) else None
  | SVArr i d f, SVArr i' d' g =>
      if ssort_eqb i i' && ssort_eqb d d'
      then Some (forallb_N (2 ^ sort_bits i) (fun k => f k =? g k))
      else None
  | _, _ => None
  end.

(** ** Operators *)

Inductive sop : Type :=
| Op_not | Op_implies | Op_and | Op_or | Op_xor | Op_eq | Op_distinct | Op_ite
| Op_concat | Op_bvnot | Op_bvneg | Op_bvand | Op_bvor | Op_bvadd | Op_bvmul
| Op_bvudiv | Op_bvurem | Op_bvshl | Op_bvlshr | Op_bvult
| Op_bvnand | Op_bvnor | Op_bvxor | Op_bvxnor | Op_bvcomp | Op_bvsub | Op_bvsdiv | Op_bvsrem
| Op_bvsmod | Op_bvashr | Op_bvule | Op_bvugt | Op_bvuge | Op_bvslt | Op_bvsle | Op_bvsgt
| Op_bvsge
| Op_select | Op_store.

Definition op_table : list (string * sop) :=
  [ ("not", Op_not); ("=>", Op_implies); ("and", Op_and); ("or", Op_or); ("xor", Op_xor);
    ("=", Op_eq); ("distinct", Op_distinct); ("ite", Op_ite);
    ("concat", Op_concat); ("bvnot", Op_bvnot); ("bvneg", Op_bvneg); ("bvand", Op_bvand);
    ("bvor", Op_bvor); ("bvadd", Op_bvadd); ("bvmul", Op_bvmul); ("bvudiv", Op_bvudiv);
    ("bvurem", Op_bvurem); ("bvshl", Op_bvshl); ("bvlshr", Op_bvlshr); ("bvult", Op_bvult);
    ("bvnand", Op_bvnand); ("bvnor", Op_bvnor); ("bvxor", Op_bvxor); ("bvxnor", Op_bvxnor);
    ("bvcomp", Op_bvcomp); ("bvsub", Op_bvsub); ("bvsdiv", Op_bvsdiv); ("bvsrem", Op_bvsrem);
    ("bvsmod", Op_bvsmod); ("bvashr", Op_bvashr); ("bvule", Op_bvule); ("bvugt", Op_bvugt);
    ("bvuge", Op_bvuge); ("bvslt", Op_bvslt); ("bvsle", Op_bvsle); ("bvsgt", Op_bvsgt);
    ("bvsge", Op_bvsge); ("select", Op_select); ("store", Op_store) ].

Fixpoint assoc_str {A} (k : string) (l : list (string * A)) : option A :=
  match l with
  | [] => None
  | (k', v) :: r => if String.eqb k k' then Some v else assoc_str k r
  end.

Definition op_of_name (n : string) : option sop := assoc_str n op_table.

(** names that the theories (and this fragment's sort and index vocabulary) own: a script
    may not declare them *)
Definition theory_names : list string :=
  map fst op_table ++
  [ "true"; "false"; "Bool"; "BitVec"; "Array"; "const"; "extract"; "zero_extend"; "sign_extend";
    "repeat"; "rotate_left"; "rotate_right" ].
Definition is_theory_name (n : string) : bool := str_in n theory_names.

(** *** Derived bit-vector operators, from the abbreviations in the theory / logic files *)

(** [bvult s t] : bv2nat(s) < bv2nat(t) *)
Definition smt_bvult (a b : N) : bool := a <? b.
(** [(bvule s t)] abbreviates [(or (bvult s t) (= s t))] *)
Definition smt_bvule (a b : N) : bool := smt_bvult a b || (a =? b).
(** [(bvugt s t)] abbreviates [(bvult t s)] *)
Definition smt_bvugt (a b : N) : bool := smt_bvult b a.
(** [(bvuge s t)] abbreviates [(or (bvult t s) (= s t))] *)
Definition smt_bvuge (a b : N) : bool := smt_bvult b a || (a =? b).
(** [(bvslt s t)] abbreviates
    [(or (and (= msb_s #b1) (= msb_t #b0)) (and (= msb_s msb_t) (bvult s t)))] *)
Definition smt_bvslt (w a b : N) : bool :=
  (msb w a && negb (msb w b)) || (Bool.eqb (msb w a) (msb w b) && smt_bvult a b).
(** [(bvsle s t)]: the same with [bvule] *)
Definition smt_bvsle (w a b : N) : bool :=
  (msb w a && negb (msb w b)) || (Bool.eqb (msb w a) (msb w b) && smt_bvule a b).
Definition smt_bvsgt (w a b : N) : bool := smt_bvslt w b a.
Definition smt_bvsge (w a b : N) : bool := smt_bvsle w b a.
(** [(bvsub s t)] abbreviates [(bvadd s (bvneg t))] *)
Definition smt_bvsub (w a b : N) : N := bv_add w a (bv_neg w b).
(** [(bvxor s t)] abbreviates [(bvor (bvand s (bvnot t)) (bvand (bvnot s) t))] *)
Definition smt_bvxor (w a b : N) : N :=
  bv_or (bv_and a (bv_not w b)) (bv_and (bv_not w a) b).
Definition smt_bvnand (w a b : N) : N := bv_not w (bv_and a b).
Definition smt_bvnor (w a b : N) : N := bv_not w (bv_or a b).
(** [(bvxnor s t)] abbreviates [(bvor (bvand s t) (bvand (bvnot s) (bvnot t)))] *)
Definition smt_bvxnor (w a b : N) : N :=
  bv_or (bv_and a b) (bv_and (bv_not w a) (bv_not w b)).
(** [(bvashr s t)] abbreviates [(ite (= msb_s #b0) (bvlshr s t) (bvnot (bvlshr (bvnot s) t)))] *)
Definition smt_bvashr (w a b : N) : N :=
  if negb (msb w a) then bv_lshr w a b else bv_not w (bv_lshr w (bv_not w a) b).
(** [(bvsdiv s t)]: four cases on the two sign bits *)
Definition smt_bvsdiv (w a b : N) : N :=
  if negb (msb w a) && negb (msb w b) then bv_udiv w a b
  else if msb w a && negb (msb w b) then bv_neg w (bv_udiv w (bv_neg w a) b)
  else if negb (msb w a) && msb w b then bv_neg w (bv_udiv w a (bv_neg w b))
  else bv_udiv w (bv_neg w a) (bv_neg w b).
Definition smt_bvsrem (w a b : N) : N :=
  if negb (msb w a) && negb (msb w b) then bv_urem w a b
  else if msb w a && negb (msb w b) then bv_neg w (bv_urem w (bv_neg w a) b)
  else if negb (msb w a) && msb w b then bv_urem w a (bv_neg w b)
  else bv_neg w (bv_urem w (bv_neg w a) (bv_neg w b)).
Definition smt_bvsmod (w a b : N) : N :=
  let abs_a := if negb (msb w a) then a else bv_neg w a in
  let abs_b := if negb (msb w b) then b else bv_neg w b in
  let u := bv_urem w abs_a abs_b in
  if u =? 0 then u
  else if negb (msb w a) && negb (msb w b) then u
  else if msb w a && negb (msb w b) then bv_add w (bv_neg w u) b
  else if negb (msb w a) && msb w b then bv_add w u b
  else bv_neg w u.

(** *** n-ary conventions: :left-assoc, :right-assoc, :chainable, :pairwise (all need >= 2) *)

Section Nary.
  Context {A : Type}.
  Definition left_assoc (f : A -> A -> option A) (args : list A) : option A :=
    match args with
    | a :: b :: rest =>
        fold_left (fun acc x => match acc with Some y => f y x | None => None end) (b :: rest) (Some a)
    | _ => None
    end.
  Fixpoint right_assoc_go (f : A -> A -> option A) (a : A) (rest : list A) : option A :=
    match rest with
    | [] => Some a
    | b :: rest' => match right_assoc_go f b rest' with Some r => f a r | None => None end
    end.
  Definition right_assoc (f : A -> A -> option A) (args : list A) : option A :=
    match args with
    | a :: b :: rest => right_assoc_go f a (b :: rest)
    | _ => None
    end.
  (** conjunction of [r x y] over adjacent pairs *)
  Fixpoint chain_go (r : A -> A -> option bool) (a : A) (rest : list A) : option bool :=
    match rest with
    | [] => Some true
    | b :: rest' =>
        match r a b, chain_go r b rest' with
        | Some x, Some y => Some (x && y)
        | _, _ => None
        end
    end.
  Definition chainable (r : A -> A -> option bool) (args : list A) : option bool :=
    match args with
    | a :: b :: rest => chain_go r a (b :: rest)
    | _ => None
    end.
  (** conjunction of [r x y] over all pairs x before y *)
  Fixpoint all_against (r : A -> A -> option bool) (a : A) (rest : list A) : option bool :=
    match rest with
    | [] => Some true
    | b :: rest' =>
        match r a b, all_against r a rest' with
        | Some x, Some y => Some (x && y)
        | _, _ => None
        end
    end.
  Fixpoint pairwise_go (r : A -> A -> option bool) (l : list A) : option bool :=
    match l with
    | [] => Some true
    | a :: rest =>
        match all_against r a rest, pairwise_go r rest with
        | Some x, Some y => Some (x && y)
        | _, _ => None
        end
    end.
  Definition pairwise (r : A -> A -> option bool) (args : list A) : option bool :=
    match args with
    | _ :: _ :: _ => pairwise_go r args
    | _ => None
    end.
End Nary.

(** *** application on values *)

Definition bool2 (f : bool -> bool -> bool) (a b : sval) : option sval :=
  match a, b with
  | SVBool x, SVBool y => Some (SVBool (f x y))
  | _, _ => None
  end.

(** both operands bit-vectors of the same width; result of that width *)
Definition bits2 (f : N -> N -> N -> N) (a b : sval) : option sval :=
  match a, b with
  | SVBits w x, SVBits w' y => if w =? w' then Some (SVBits w (f w x y)) else None
  | _, _ => None
  end.

Definition bits2_args (f : N -> N -> N -> N) (args : list sval) : option sval :=
  match args with [a; b] => bits2 f a b | _ => None end.

Definition bitscmp_args (f : N -> N -> N -> bool) (args : list sval) : option sval :=
  match args with
  | [SVBits w x; SVBits w' y] => if w =? w' then Some (SVBool (f w x y)) else None
  | _ => None
  end.

Definition opt_bool (o : option bool) : option sval :=
  match o with Some b => Some (SVBool b) | None => None end.

Definition apply_op (o : sop) (args : list sval) : option sval :=
  match o with
  | Op_not => match args with [SVBool b] => Some (SVBool (negb b)) | _ => None end
  | Op_implies => right_assoc (bool2 implb) args
  | Op_and => left_assoc (bool2 andb) args
  | Op_or => left_assoc (bool2 orb) args
  | Op_xor => left_assoc (bool2 xorb) args
  | Op_eq => opt_bool (chainable sval_eqb args)
  | Op_distinct =>
      opt_bool (pairwise (fun a b => match sval_eqb a b with Some e => Some (negb e) | None => None end) args)
  | Op_ite =>
      match args with
      | [SVBool c; t; f] => if ssort_eqb (sort_of_val t) (sort_of_val f) then Some (if c then t else f) else None
      | _ => None
      end
  | Op_concat =>
      match args with
      | [SVBits wa a; SVBits wb b] => Some (SVBits (wa + wb) (bv_concat wb a b))
      | _ => None
      end
  | Op_bvnot => match args with [SVBits w a] => Some (SVBits w (bv_not w a)) | _ => None end
  | Op_bvneg => match args with [SVBits w a] => Some (SVBits w (bv_neg w a)) | _ => None end
  | Op_bvand => left_assoc (bits2 (fun _ => bv_and)) args
  | Op_bvor => left_assoc (bits2 (fun _ => bv_or)) args
  | Op_bvxor => left_assoc (bits2 smt_bvxor) args
  | Op_bvadd => left_assoc (bits2 bv_add) args
  | Op_bvmul => left_assoc (bits2 bv_mul) args
  | Op_bvudiv => bits2_args bv_udiv args
  | Op_bvurem => bits2_args bv_urem args
  | Op_bvshl => bits2_args bv_shl args
  | Op_bvlshr => bits2_args bv_lshr args
  | Op_bvnand => bits2_args smt_bvnand args
  | Op_bvnor => bits2_args smt_bvnor args
  | Op_bvxnor => bits2_args smt_bvxnor args
  | Op_bvcomp =>
      match args with
      | [SVBits w x; SVBits w' y] => if w =? w' then Some (SVBits 1 (b2n (x =? y))) else None
      | _ => None
      end
  | Op_bvsub => bits2_args smt_bvsub args
  | Op_bvsdiv => bits2_args smt_bvsdiv args
  | Op_bvsrem => bits2_args smt_bvsrem args
  | Op_bvsmod => bits2_args smt_bvsmod args
  | Op_bvashr => bits2_args smt_bvashr args
  | Op_bvult => bitscmp_args (fun _ => smt_bvult) args
  | Op_bvule => bitscmp_args (fun _ => smt_bvule) args
  | Op_bvugt => bitscmp_args (fun _ => smt_bvugt) args
  | Op_bvuge => bitscmp_args (fun _ => smt_bvuge) args
  | Op_bvslt => bitscmp_args smt_bvslt args
  | Op_bvsle => bitscmp_args smt_bvsle args
  | Op_bvsgt => bitscmp_args smt_bvsgt args
  | Op_bvsge => bitscmp_args smt_bvsge args
  | Op_select =>
      match args with
      | [SVArr i d f; k] => if ssort_eqb (sort_of_val k) i then Some (dec d (f (enc k))) else None
      | _ => None
      end
  | Op_store =>
      match args with
      | [SVArr i d f; k; x] =>
          if ssort_eqb (sort_of_val k) i && ssort_eqb (sort_of_val x) d
          then Some (SVArr i d (fun j => if j =? enc k then enc x else f j))
          else None
      | _ => None
      end
  end.

(** *** the rank of every operator (sort level) *)

Definition so_bool2 (a b : ssort) : option ssort :=
  match a, b with SoBool, SoBool => Some SoBool | _, _ => None end.
Definition so_bits2 (a b : ssort) : option ssort :=
  match a, b with SoBV w, SoBV w' => if w =? w' then Some (SoBV w) else None | _, _ => None end.
Definition so_bits2_args (args : list ssort) : option ssort :=
  match args with [a; b] => so_bits2 a b | _ => None end.
Definition so_bitscmp_args (args : list ssort) : option ssort :=
  match args with
  | [SoBV w; SoBV w'] => if w =? w' then Some SoBool else None
  | _ => None
  end.
Definition so_same (a b : ssort) : option bool := if ssort_eqb a b then Some true else None.
Definition opt_sobool (o : option bool) : option ssort :=
  match o with Some _ => Some SoBool | None => None end.

Definition op_sort (o : sop) (args : list ssort) : option ssort :=
  match o with
  | Op_not => match args with [SoBool] => Some SoBool | _ => None end
  | Op_implies => right_assoc so_bool2 args
  | Op_and | Op_or | Op_xor => left_assoc so_bool2 args
  | Op_eq => opt_sobool (chainable so_same args)
  | Op_distinct => opt_sobool (pairwise so_same args)
  | Op_ite =>
      match args with
      | [SoBool; t; f] => if ssort_eqb t f then Some t else None
      | _ => None
      end
  | Op_concat => match args with [SoBV wa; SoBV wb] => Some (SoBV (wa + wb)) | _ => None end
  | Op_bvnot | Op_bvneg => match args with [SoBV w] => Some (SoBV w) | _ => None end
  | Op_bvand | Op_bvor | Op_bvxor | Op_bvadd | Op_bvmul => left_assoc so_bits2 args
  | Op_bvudiv | Op_bvurem | Op_bvshl | Op_bvlshr | Op_bvnand | Op_bvnor | Op_bvxnor
  | Op_bvsub | Op_bvsdiv | Op_bvsrem | Op_bvsmod | Op_bvashr => so_bits2_args args
  | Op_bvcomp =>
      match args with [SoBV w; SoBV w'] => if w =? w' then Some (SoBV 1) else None | _ => None end
  | Op_bvult | Op_bvule | Op_bvugt | Op_bvuge | Op_bvslt | Op_bvsle | Op_bvsgt | Op_bvsge =>
      so_bitscmp_args args
  | Op_select =>
      match args with
      | [SoArr i d; k] => if ssort_eqb k i then Some d else None
      | _ => None
      end
  | Op_store =>
      match args with
      | [SoArr i d; k; x] => if ssort_eqb k i && ssort_eqb x d then Some (SoArr i d) else None
      | _ => None
      end
  end.

(** *** indexed operators [(_ extract i j)], [(_ zero_extend i)], [(_ sign_extend i)],
    [(_ repeat i)] is not in the fragment *)

Inductive sidx : Type :=
| Ix_extract (i j : N)
| Ix_zero_extend (i : N)
| Ix_sign_extend (i : N).

Definition idx_of (name : string) (indices : list sx) : option sidx :=
  match indices with
  | [SxAtom i; SxAtom j] =>
      if String.eqb name "extract" then
        match numeral i, numeral j with Some i', Some j' => Some (Ix_extract i' j') | _, _ => None end
      else None
  | [SxAtom i] =>
      match numeral i with
      | Some i' =>
          if String.eqb name "zero_extend" then Some (Ix_zero_extend i')
          else if String.eqb name "sign_extend" then Some (Ix_sign_extend i')
          else None
      | None => None
      end
  | _ => None
  end.

Definition apply_idx (ix : sidx) (args : list sval) : option sval :=
  match ix, args with
  | Ix_extract i j, [SVBits m a] =>
      if (i <? m) && (j <=? i) then Some (SVBits (i - j + 1) (bv_slice i j a)) else None
  | Ix_zero_extend i, [SVBits m a] => Some (SVBits (m + i) (bv_zext a))
  | Ix_sign_extend i, [SVBits m a] => Some (SVBits (m + i) (bv_sext m i a))
  | _, _ => None
  end.

Definition idx_sort (ix : sidx) (args : list ssort) : option ssort :=
  match ix, args with
  | Ix_extract i j, [SoBV m] => if (i <? m) && (j <=? i) then Some (SoBV (i - j + 1)) else None
  | Ix_zero_extend i, [SoBV m] => Some (SoBV (m + i))
  | Ix_sign_extend i, [SoBV m] => Some (SoBV (m + i))
  | _, _ => None
  end.

(** ** Terms: evaluation and strict sort checking *)

Definition smodel : Type := string -> option sval.
Definition sctx : Type := string -> option ssort.

Definition upd {A} (m : string -> option A) (k : string) (v : A) : string -> option A :=
  fun x => if String.eqb x k then Some v else m x.

Fixpoint upd_all {A} (m : string -> option A) (bs : list (string * A)) : string -> option A :=
  match bs with
  | [] => m
  | (k, v) :: r => upd (upd_all m r) k v
  end.

Section MapOpt.
  Context {A B : Type}.
  Variable f : A -> option B.
  Fixpoint map_opt (l : list A) : option (list B) :=
    match l with
    | [] => Some []
    | x :: r =>
        match f x, map_opt r with
        | Some y, Some ys => Some (y :: ys)
        | _, _ => None
        end
    end.
End MapOpt.

Definition eval_atom (M : smodel) (a : string) : option sval :=
  match symbol_name a with
  | Some n =>
      if String.eqb n "true" then Some (SVBool true)
      else if String.eqb n "false" then Some (SVBool false)
      else M n
  | None =>
      match bv_literal a with
      | Some (w, v) => Some (SVBits w v)
      | None => None
      end
  end.

Definition check_atom (G : sctx) (a : string) : option ssort :=
  match symbol_name a with
  | Some n =>
      if String.eqb n "true" then Some SoBool
      else if String.eqb n "false" then Some SoBool
      else G n
  | None =>
      match bv_literal a with
      | Some (w, _) => Some (SoBV w)
      | None => None
      end
  end.

(** names bound by one [let] must be pairwise different *)
Fixpoint names_distinct (l : list string) : bool :=
  match l with
  | [] => true
  | x :: r => negb (str_in x r) && names_distinct r
  end.

(** symbols starting with [.] or [@] are reserved for solver use: a script may mention but
    not bind or declare them (3.1) *)
Definition is_solver_reserved (n : string) : bool :=
  match n with
  | String c _ => Ascii.eqb c "."%char || Ascii.eqb c "@"%char
  | EmptyString => false
  end.

(** the name bound by a let binder / declared by a command: a symbol that no theory owns
    and that is not reserved for solver use *)
Definition binder_name (a : string) : option string :=
  match symbol_name a with
  | Some n => if is_theory_name n || is_solver_reserved n then None else Some n
  | None => None
  end.

Fixpoint seval (M : smodel) (t : sx) {struct t} : option sval :=
  match t with
  | SxAtom a => eval_atom M a
  | SxList l =>
      match l with
      | [] => None
      | SxAtom h :: rest =>
          if String.eqb h "let" then
            match rest with
            | [SxList bs; body] =>
                match (fix binds (bs : list sx) : option (list (string * sval)) :=
                         match bs with
                         | [] => Some []
                         | SxList [SxAtom x; tx] :: bs' =>
                             match binder_name x, seval M tx, binds bs' with
                             | Some n, Some v, Some r => Some ((n, v) :: r)
                             | _, _, _ => None
                             end
                         | _ => None
                         end) bs with
                | Some [] => None
                | Some bnds =>
                    if names_distinct (map fst bnds) then seval (upd_all M bnds) body else None
                | None => None
                end
            | _ => None
            end
          else
            match symbol_name h with
            | Some n =>
                match op_of_name n with
                | Some o =>
                    match map_opt (seval M) rest with
                    | Some vs => apply_op o vs
                    | None => None
                    end
                | None => None
                end
            | None => None
            end
      | SxList hd :: rest =>
          match hd with
          | SxAtom u :: SxAtom f :: indices =>
              if String.eqb u "_" then
                match symbol_name f with
                | Some fname =>
                    match rest with
                    | [] =>
                        (* an indexed constant: (_ bvN w) *)
                        match bv_decimal_name fname, indices with
                        | Some v, [SxAtom wtxt] =>
                            match numeral wtxt with
                            | Some w => if (0 <? w) && (v <? 2 ^ w) then Some (SVBits w v) else None
                            | None => None
                            end
                        | _, _ => None
                        end
                    | _ :: _ =>
                        match idx_of fname indices with
                        | Some ix =>
                            match map_opt (seval M) rest with
                            | Some vs => apply_idx ix vs
                            | None => None
                            end
                        | None => None
                        end
                    end
                | None => None
                end
              else if String.eqb u "as" then
                (* ((as const (Array i d)) x) *)
                if sym_is f "const" then
                  match indices, rest with
                  | [so], [x] =>
                      match sort_of_sx so, seval M x with
                      | Some (SoArr i d), Some v =>
                          if ssort_eqb (sort_of_val v) d
                          then Some (SVArr i d (let e := enc v in fun _ => e))
                          else None
                      | _, _ => None
                      end
                  | _, _ => None
                  end
                else None
              else None
          | _ => None
          end
      end
  end.

Fixpoint scheck (G : sctx) (t : sx) {struct t} : option ssort :=
  match t with
  | SxAtom a => check_atom G a
  | SxList l =>
      match l with
      | [] => None
      | SxAtom h :: rest =>
          if String.eqb h "let" then
            match rest with
            | [SxList bs; body] =>
                match (fix binds (bs : list sx) : option (list (string * ssort)) :=
                         match bs with
                         | [] => Some []
                         | SxList [SxAtom x; tx] :: bs' =>
                             match binder_name x, scheck G tx, binds bs' with
                             | Some n, Some v, Some r => Some ((n, v) :: r)
                             | _, _, _ => None
                             end
                         | _ => None
                         end) bs with
                | Some [] => None
                | Some bnds =>
                    if names_distinct (map fst bnds) then scheck (upd_all G bnds) body else None
                | None => None
                end
            | _ => None
            end
          else
            match symbol_name h with
            | Some n =>
                match op_of_name n with
                | Some o =>
                    match map_opt (scheck G) rest with
                    | Some ss => op_sort o ss
                    | None => None
                    end
                | None => None
                end
            | None => None
            end
      | SxList hd :: rest =>
          match hd with
          | SxAtom u :: SxAtom f :: indices =>
              if String.eqb u "_" then
                match symbol_name f with
                | Some fname =>
                    match rest with
                    | [] =>
                        match bv_decimal_name fname, indices with
                        | Some v, [SxAtom wtxt] =>
                            match numeral wtxt with
                            | Some w => if (0 <? w) && (v <? 2 ^ w) then Some (SoBV w) else None
                            | None => None
                            end
                        | _, _ => None
                        end
                    | _ :: _ =>
                        match idx_of fname indices with
                        | Some ix =>
                            match map_opt (scheck G) rest with
                            | Some ss => idx_sort ix ss
                            | None => None
                            end
                        | None => None
                        end
                    end
                | None => None
                end
              else if String.eqb u "as" then
                if sym_is f "const" then
                  match indices, rest with
                  | [so], [x] =>
                      match sort_of_sx so, scheck G x with
                      | Some (SoArr i d), Some s =>
                          if ssort_eqb s d then Some (SoArr i d) else None
                      | _, _ => None
                      end
                  | _, _ => None
                  end
                else None
              else None
          | _ => None
          end
      end
  end.

(** ** Commands.  [cmd_check G c = Some G'] : command [c] is accepted in context [G]
    and leaves context [G'].  Assertion-stack levels are not tracked ([push]/[pop] only
    need a numeral). *)

Definition declare (G : sctx) (a : string) (s : ssort) : option sctx :=
  match binder_name a with
  | Some n => match G n with Some _ => None | None => Some (upd G n s) end
  | None => None
  end.

(** an attribute value: a constant, a symbol, a keyword is NOT one, or a parenthesised list *)
Definition is_spec_constant (a : string) : bool :=
  match numeral a with
  | Some _ => true
  | None =>
      match bv_literal a with
      | Some _ => true
      | None =>
          match a with
          | String c _ => Ascii.eqb c c_dquote    (* the lexer only produces well-formed string literals *)
          | EmptyString => false
          end
      end
  end.

Definition is_attr_value (t : sx) : bool :=
  match t with
  | SxAtom a => is_spec_constant a || match symbol_name a with Some _ => true | None => false end
  | SxList _ => true
  end.

Definition logic_names : list string :=
  [ "ALL"; "QF_BV"; "QF_ABV"; "QF_AUFBV"; "QF_UFBV"; "QF_AX"; "QF_UF" ].

Definition cmd_check (G : sctx) (c : sx) : option sctx :=
  match c with
  | SxList (SxAtom h :: args) =>
      if String.eqb h "declare-const" then
        match args with
        | [SxAtom x; so] =>
            match sort_of_sx so with Some s => declare G x s | None => None end
        | _ => None
        end
      else if String.eqb h "declare-fun" then
        match args with
        | [SxAtom x; SxList []; so] =>
            match sort_of_sx so with Some s => declare G x s | None => None end
        | _ => None
        end
      else if String.eqb h "define-fun" then
        match args with
        | [SxAtom x; SxList []; so; t] =>
            match sort_of_sx so, scheck G t with
            | Some s, Some s' => if ssort_eqb s s' then declare G x s else None
            | _, _ => None
            end
        | _ => None
        end
      else if String.eqb h "assert" then
        match args with
        | [t] => match scheck G t with Some SoBool => Some G | _ => None end
        | _ => None
        end
      else if String.eqb h "check-sat-assuming" then
        (* the standard asks for propositional literals; like every solver this reference
           accepts arbitrary terms of sort Bool *)
        match args with
        | [SxList ts] =>
            if forallb (fun t => match scheck G t with Some SoBool => true | _ => false end) ts
            then Some G else None
        | _ => None
        end
      else if String.eqb h "get-value" then
        match args with
        | [SxList (t :: ts)] =>
            if forallb (fun t => match scheck G t with Some _ => true | None => false end) (t :: ts)
            then Some G else None
        | _ => None
        end
      else if String.eqb h "push" || String.eqb h "pop" then
        match args with
        | [SxAtom n] => match numeral n with Some _ => Some G | None => None end
        | _ => None
        end
      else if String.eqb h "set-logic" then
        match args with
        | [SxAtom l] => if str_in l logic_names then Some G else None
        | _ => None
        end
      else if String.eqb h "set-option" || String.eqb h "set-info" then
        match args with
        | [SxAtom k; v] => if is_keyword k && is_attr_value v then Some G else None
        | _ => None
        end
      else if String.eqb h "check-sat" || String.eqb h "exit" || String.eqb h "get-unsat-assumptions"
              || String.eqb h "get-model" || String.eqb h "reset" then
        match args with [] => Some G | _ => None end
      else None
  | _ => None
  end.

Fixpoint script_check (G : sctx) (cs : list sx) : option sctx :=
  match cs with
  | [] => Some G
  | c :: r => match cmd_check G c with Some G' => script_check G' r | None => None end
  end.

Definition empty_ctx : sctx := fun _ => None.

(** the atoms that a propositional literal of [check-sat-assuming] may be, per the letter
    of the standard: a symbol or [(not symbol)] *)
Definition is_prop_literal (t : sx) : bool :=
  match t with
  | SxAtom a => match symbol_name a with Some _ => true | None => false end
  | SxList [SxAtom n; SxAtom a] =>
      sym_is n "not" && match symbol_name a with Some _ => true | None => false end
  | _ => false
  end.
