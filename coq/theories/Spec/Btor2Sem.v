(** * Spec/Btor2Sem.v — a line-by-line REFERENCE interpreter for btor2.

    Written from the definition of the format (Niemetz, Preiner, Wolf, Biere: "Btor2, BtorMC
    and Boolector 3.0", CAV 2018, Table 1 and Section 2): sorts; input / state / init / next /
    output / bad / constraint; the indexed, unary, binary and ternary operators with their
    sort signatures; constants in radix 2 / 10 / 16; array read / write; a negative operand id
    denotes the bit-wise complement of the node.  Bit-vector operators are the SMT-LIB ones
    of [Spec/BV.v] (btor2 defines its operators by reference to SMT-LIB).

    The interpreter computes *values*, not expressions: under a b2val of the input and
    state lines (indexed by their position among the input resp. state lines of the file) it
    assigns to every node-defining line its sort and value, and records the values of the
    init / next / output / bad / constraint lines.  It shares with the model of the reader
    only the lexical layer (tokens, the number readers [parse_line_id] / [parse_width] /
    [digits_val] of Model/Btor2Parse.v); sort rules, operator tables, operand order, negation
    and array handling are written here independently.

    Strictness: an operator applied to operands outside its sort signature, or a declared sort
    different from the computed one, is [B2IllSorted].  Three further violations of the format
    are reported under their own names because the reader is known to accept them:
    [B2ZeroWidth] (sort bitvec 0), [B2ExtArray] (uext/sext of an array), [B2PropWidth] (bad /
    constraint of a node that is not one bit wide).

    Executable definitions only. *)
From Coq Require Import List String Ascii NArith Bool FMapPositive.
From Patronus Require Export Eval Btor2Parse.
Import ListNotations.
Open Scope N_scope.

Inductive b2err : Type :=
| B2IllSorted      (* operand sorts / declared sort violate the operator's signature *)
| B2ZeroWidth      (* sort bitvec 0 *)
| B2ExtArray       (* uext / sext applied to an array *)
| B2PropWidth      (* bad / constraint of a node that is not of sort bitvec 1 *)
| B2Unsupported    (* operators outside the supported set *)
| B2Syntax.        (* missing tokens, malformed numbers, undefined ids *)

Inductive b2res (A : Type) : Type := B2Ok (a : A) | B2Err (e : b2err).
Arguments B2Ok {A} a.
Arguments B2Err {A} e.

Definition b2bind {A B} (m : b2res A) (f : A -> b2res B) : b2res B :=
  match m with B2Ok a => f a | B2Err e => B2Err e end.
Notation "x <~ m ;; k" := (b2bind m (fun x => k)) (at level 61, m at next level, right associativity).

Definition s_opt {A} (o : option A) (e : b2err) : b2res A := match o with Some a => B2Ok a | None => B2Err e end.

(** b2val of the input and state lines, by position *)
Record b2val : Type := {
  in_bv : nat -> N; in_arr : nat -> N -> N;
  st_bv : nat -> N; st_arr : nat -> N -> N
}.

Record b2state : Type := { ss_sort : ty; ss_init : option value; ss_next : option value }.

Record b2sem : Type := mkSem {
  m_sorts : PM.t ty;
  m_nodes : PM.t value;
  m_statemap : PM.t nat;
  m_nin : nat;
  m_states : list b2state;
  m_outputs : list value;
  m_bads : list value;
  m_constraints : list value
}.

Definition b2sem_empty : b2sem := mkSem (PM.empty _) (PM.empty _) (PM.empty _) 0 [] [] [] [].

Definition sort_of_value (v : value) : ty :=
  match v with VBV w _ => TBV w | VArr iw dw _ => TArr iw dw end.

(** ** operands *)
Definition s_sort (S : b2sem) (tok : string) : b2res ty :=
  match parse_line_id tok with
  | Some (id, false) => s_opt (PM.find (key id) (m_sorts S)) B2Syntax
  | _ => B2Err B2Syntax
  end.

(** a node reference; [-id] is the bit-wise complement and needs a bit-vector *)
Definition s_node (S : b2sem) (tok : string) : b2res value :=
  match parse_line_id tok with
  | None => B2Err B2Syntax
  | Some (id, neg) =>
      match PM.find (key id) (m_nodes S) with
      | None => B2Err B2Syntax
      | Some v =>
          if neg then
            match v with
            | VBV w a => B2Ok (VBV w (bv_not w a))
            | VArr _ _ _ => B2Err B2IllSorted
            end
          else B2Ok v
      end
  end.

Definition s_num (tok : string) : b2res N := s_opt (parse_width tok) B2Syntax.

Definition need (toks : list string) (n : nat) : b2res unit :=
  if Nat.ltb (List.length toks) n then B2Err B2Syntax else B2Ok tt.

(** ** operators *)
(** xor of the bits [0 .. n-1] *)
Fixpoint parity (n : nat) (a : N) : bool :=
  match n with O => false | S n' => xorb (N.testbit a (N.of_nat n')) (parity n' a) end.

Definition is_unary (op : string) : bool :=
  str_mem op ["not"; "neg"; "redand"; "redor"; "redxor"; "slice"; "uext"; "sext"]%string.

Definition sem_unary (op : string) (toks : list string) (v : value) : b2res value :=
  match v with
  | VArr _ _ _ => if seq op "uext" || seq op "sext" then B2Err B2ExtArray else B2Err B2IllSorted
  | VBV w a =>
      if seq op "not" then B2Ok (VBV w (bv_not w a))
      else if seq op "neg" then B2Ok (VBV w (bv_neg w a))
      else if seq op "redand" then B2Ok (VBV 1 (b2n (a =? 2 ^ w - 1)))
      else if seq op "redor" then B2Ok (VBV 1 (b2n (negb (a =? 0))))
      else if seq op "redxor" then B2Ok (VBV 1 (b2n (parity (N.to_nat w) a)))
      else if seq op "slice" then
        _ <~ need toks 6 ;;
        hi <~ s_num (tokn toks 4) ;; lo <~ s_num (tokn toks 5) ;;
        if (lo <=? hi) && (hi <? w) then B2Ok (VBV (hi - lo + 1) (bv_slice hi lo a)) else B2Err B2IllSorted
      else if seq op "uext" then
        _ <~ need toks 5 ;; by_ <~ s_num (tokn toks 4) ;; B2Ok (VBV (w + by_) a)
      else if seq op "sext" then
        _ <~ need toks 5 ;; by_ <~ s_num (tokn toks 4) ;; B2Ok (VBV (w + by_) (bv_sext w by_ a))
      else B2Err B2Unsupported
  end.

(** width-preserving operators on two operands of the same width *)
Definition sem_arith (op : string) (w a b : N) : option N :=
  if seq op "and" then Some (bv_and a b)
  else if seq op "or" then Some (bv_or a b)
  else if seq op "xor" then Some (bv_xor a b)
  else if seq op "nand" then Some (bv_not w (bv_and a b))
  else if seq op "nor" then Some (bv_not w (bv_or a b))
  else if seq op "xnor" then Some (bv_not w (bv_xor a b))
  else if seq op "add" then Some (bv_add w a b)
  else if seq op "sub" then Some (bv_sub w a b)
  else if seq op "mul" then Some (bv_mul w a b)
  else if seq op "udiv" then Some (bv_udiv w a b)
  else if seq op "urem" then Some (bv_urem w a b)
  else if seq op "sdiv" then Some (bv_sdiv w a b)
  else if seq op "srem" then Some (bv_srem w a b)
  else if seq op "smod" then Some (bv_smod w a b)
  else if seq op "sll" then Some (bv_shl w a b)
  else if seq op "srl" then Some (bv_lshr w a b)
  else if seq op "sra" then Some (bv_ashr w a b)
  else None.

(** predicates on two operands of the same width *)
Definition sem_pred (op : string) (w a b : N) : option bool :=
  if seq op "eq" then Some (a =? b)
  else if seq op "neq" then Some (negb (a =? b))
  else if seq op "ult" then Some (a <? b)
  else if seq op "ulte" then Some (a <=? b)
  else if seq op "ugt" then Some (b <? a)
  else if seq op "ugte" then Some (b <=? a)
  else if seq op "slt" then Some (to_Z w a <? to_Z w b)%Z
  else if seq op "slte" then Some (to_Z w a <=? to_Z w b)%Z
  else if seq op "sgt" then Some (to_Z w b <? to_Z w a)%Z
  else if seq op "sgte" then Some (to_Z w b <=? to_Z w a)%Z
  else None.

Definition is_binary (op : string) : bool :=
  str_mem op ["iff"; "implies"; "sgt"; "ugt"; "sgte"; "ugte"; "slt"; "ult"; "slte"; "ulte"; "and"; "nand"; "nor"; "or";
              "xnor"; "xor"; "sll"; "sra"; "srl"; "add"; "mul"; "sdiv"; "udiv"; "smod"; "srem"; "urem"; "sub";
              "concat"; "eq"; "neq"; "read"]%string.

Definition sem_binary (op : string) (va vb : value) : b2res value :=
  if seq op "concat" then
    match va, vb with
    | VBV wa a, VBV wb b => B2Ok (VBV (wa + wb) (bv_concat wb a b))
    | _, _ => B2Err B2IllSorted
    end
  else if seq op "read" then
    match va, vb with
    | VArr iw dw f, VBV wi i => if iw =? wi then B2Ok (VBV dw (f i)) else B2Err B2IllSorted
    | _, _ => B2Err B2IllSorted
    end
  else if seq op "iff" then
    match va, vb with
    | VBV 1 a, VBV 1 b => B2Ok (VBV 1 (b2n (a =? b)))
    | _, _ => B2Err B2IllSorted
    end
  else if seq op "implies" then
    match va, vb with
    | VBV 1 a, VBV 1 b => B2Ok (VBV 1 (b2n (negb (a =? 1) || (b =? 1))))
    | _, _ => B2Err B2IllSorted
    end
  else
    match va, vb with
    | VBV wa a, VBV wb b =>
        if wa =? wb then
          match sem_arith op wa a b with
          | Some r => B2Ok (VBV wa r)
          | None => match sem_pred op wa a b with
                    | Some p => B2Ok (VBV 1 (b2n p))
                    | None => B2Err B2Unsupported
                    end
          end
        else B2Err B2IllSorted
    | VArr iw dw f, VArr iw' dw' g =>
        if (iw =? iw') && (dw =? dw') then
          if seq op "eq" then B2Ok (VBV 1 (b2n (arr_eqb iw f g)))
          else if seq op "neq" then B2Ok (VBV 1 (b2n (negb (arr_eqb iw f g))))
          else B2Err B2IllSorted
        else B2Err B2IllSorted
    | _, _ => B2Err B2IllSorted
    end.

Definition sem_ternary (op : string) (va vb vc : value) : b2res value :=
  if seq op "ite" then
    match va with
    | VBV 1 c =>
        match vb, vc with
        | VBV wt t, VBV wf f => if wt =? wf then B2Ok (VBV wt (if c =? 1 then t else f)) else B2Err B2IllSorted
        | VArr iw dw t, VArr iw' dw' f =>
            if (iw =? iw') && (dw =? dw') then B2Ok (VArr iw dw (if c =? 1 then t else f)) else B2Err B2IllSorted
        | _, _ => B2Err B2IllSorted
        end
    | _ => B2Err B2IllSorted
    end
  else
    match va, vb, vc with
    | VArr iw dw f, VBV wi i, VBV wd d =>
        if (iw =? wi) && (dw =? wd) then B2Ok (VArr iw dw (arr_store f i d)) else B2Err B2IllSorted
    | _, _, _ => B2Err B2IllSorted
    end.

(** ** constants: [-]digits in the radix of the operator; the magnitude must fit the width;
    a negative number denotes its two's complement *)
Definition sem_const (radix w : N) (tok : string) : b2res N :=
  let '(neg, body) :=
    match tok with
    | String c r => if Ascii.eqb c "-" then (true, r) else (false, tok)
    | EmptyString => (false, tok)
    end in
  match body with
  | EmptyString => B2Err B2Syntax
  | _ =>
      match digits_val radix body 0 with
      | None => B2Err B2Syntax
      | Some m => if m <? 2 ^ w then B2Ok (if neg then (2 ^ w - m) mod 2 ^ w else m) else B2Err B2Syntax
      end
  end.

(** ** one line *)
Definition add_node (S : b2sem) (id : N) (v : value) : b2sem :=
  mkSem (m_sorts S) (PM.add (key id) v (m_nodes S)) (m_statemap S) (m_nin S) (m_states S)
        (m_outputs S) (m_bads S) (m_constraints S).

Definition check_sort (declared : ty) (v : value) : b2res value :=
  if ty_eqb declared (sort_of_value v) then B2Ok v else B2Err B2IllSorted.

Definition sem_symbol_value (t : ty) (bv : N) (arr : N -> N) : value :=
  match t with TBV w => VBV w bv | TArr iw dw => VArr iw dw arr end.

Definition set_nth_state (S : b2sem) (idx : nat) (f : b2state -> b2state) : b2sem :=
  mkSem (m_sorts S) (m_nodes S) (m_statemap S) (m_nin S) (update_nth idx f (m_states S))
        (m_outputs S) (m_bads S) (m_constraints S).

Definition with_sorts (S : b2sem) (m : PM.t ty) : b2sem :=
  mkSem m (m_nodes S) (m_statemap S) (m_nin S) (m_states S) (m_outputs S) (m_bads S) (m_constraints S).

Definition dummy_b2state : b2state := {| ss_sort := TBV 1; ss_init := None; ss_next := None |}.

Definition sem_sort_line (S : b2sem) (toks : list string) (id : N) : b2res b2sem :=
  _ <~ need toks 3 ;;
  if seq (tokn toks 2) "bitvec" then
    _ <~ need toks 4 ;; w <~ s_num (tokn toks 3) ;;
    if w =? 0 then B2Err B2ZeroWidth else B2Ok (with_sorts S (PM.add (key id) (TBV w) (m_sorts S)))
  else if seq (tokn toks 2) "array" then
    _ <~ need toks 5 ;; it <~ s_sort S (tokn toks 3) ;; dt <~ s_sort S (tokn toks 4) ;;
    match it, dt with
    | TBV iw, TBV dw => B2Ok (with_sorts S (PM.add (key id) (TArr iw dw) (m_sorts S)))
    | _, _ => B2Err B2IllSorted
    end
  else B2Err B2Syntax.

Definition sem_input_line (val : b2val) (S : b2sem) (toks : list string) (id : N) : b2res b2sem :=
  _ <~ need toks 3 ;; t <~ s_sort S (tokn toks 2) ;;
  let v := sem_symbol_value t (in_bv val (m_nin S)) (in_arr val (m_nin S)) in
  B2Ok (mkSem (m_sorts S) (PM.add (key id) v (m_nodes S)) (m_statemap S) (Datatypes.S (m_nin S)) (m_states S)
              (m_outputs S) (m_bads S) (m_constraints S)).

Definition sem_state_line (val : b2val) (S : b2sem) (toks : list string) (id : N) : b2res b2sem :=
  _ <~ need toks 3 ;; t <~ s_sort S (tokn toks 2) ;;
  let k := List.length (m_states S) in
  let v := sem_symbol_value t (st_bv val k) (st_arr val k) in
  B2Ok (mkSem (m_sorts S) (PM.add (key id) v (m_nodes S)) (PM.add (key id) k (m_statemap S)) (m_nin S)
              (m_states S ++ [{| ss_sort := t; ss_init := None; ss_next := None |}])
              (m_outputs S) (m_bads S) (m_constraints S)).

Definition s_state (S : b2sem) (tok : string) : b2res nat :=
  match parse_line_id tok with
  | Some (sid, false) => s_opt (PM.find (key sid) (m_statemap S)) B2Syntax
  | _ => B2Err B2Syntax
  end.

(** an array state may be initialised by a bit-vector of its element sort: every element gets that value *)
Definition sem_init_next_line (S : b2sem) (toks : list string) (is_init : bool) : b2res b2sem :=
  _ <~ need toks 5 ;; t <~ s_sort S (tokn toks 2) ;;
  idx <~ s_state S (tokn toks 3) ;;
  let st_sort := ss_sort (nth idx (m_states S) dummy_b2state) in
  if negb (ty_eqb st_sort t) then B2Err B2IllSorted else
  v <~ s_node S (tokn toks 4) ;;
  v' <~ (match st_sort, v with
         | TArr iw dw, VBV w a =>
             if is_init && (w =? dw) then B2Ok (VArr iw dw (fun _ => a)) else B2Err B2IllSorted
         | _, _ => check_sort st_sort v
         end) ;;
  B2Ok (set_nth_state S idx (fun s => if is_init
                                      then {| ss_sort := ss_sort s; ss_init := Some v'; ss_next := ss_next s |}
                                      else {| ss_sort := ss_sort s; ss_init := ss_init s; ss_next := Some v' |})).

Definition sem_output_line (S : b2sem) (toks : list string) : b2res b2sem :=
  _ <~ need toks 3 ;; v <~ s_node S (tokn toks 2) ;;
  B2Ok (mkSem (m_sorts S) (m_nodes S) (m_statemap S) (m_nin S) (m_states S)
              (m_outputs S ++ [v]) (m_bads S) (m_constraints S)).

Definition sem_prop_line (S : b2sem) (toks : list string) (is_bad : bool) : b2res b2sem :=
  _ <~ need toks 3 ;; v <~ s_node S (tokn toks 2) ;;
  if negb (ty_eqb (sort_of_value v) (TBV 1)) then B2Err B2PropWidth
  else if is_bad then
    B2Ok (mkSem (m_sorts S) (m_nodes S) (m_statemap S) (m_nin S) (m_states S)
                (m_outputs S) (m_bads S ++ [v]) (m_constraints S))
  else
    B2Ok (mkSem (m_sorts S) (m_nodes S) (m_statemap S) (m_nin S) (m_states S)
                (m_outputs S) (m_bads S) (m_constraints S ++ [v])).

Definition sem_const_line (S : b2sem) (toks : list string) (id : N) (op : string) : b2res b2sem :=
  _ <~ need toks 3 ;; t <~ s_sort S (tokn toks 2) ;;
  match t with
  | TArr _ _ => B2Err B2IllSorted
  | TBV w =>
      a <~ (if seq op "zero" then B2Ok 0
            else if seq op "one" then B2Ok 1
            else if seq op "ones" then B2Ok (2 ^ w - 1)
            else
              _ <~ need toks 4 ;;
              sem_const (if seq op "const" then 2 else if seq op "constd" then 10 else 16) w (tokn toks 3)) ;;
      B2Ok (add_node S id (VBV w a))
  end.

Definition sem_unary_line (S : b2sem) (toks : list string) (id : N) (op : string) : b2res b2sem :=
  _ <~ need toks 4 ;; t <~ s_sort S (tokn toks 2) ;; a <~ s_node S (tokn toks 3) ;;
  r <~ sem_unary op toks a ;; r' <~ check_sort t r ;; B2Ok (add_node S id r').

Definition sem_binary_line (S : b2sem) (toks : list string) (id : N) (op : string) : b2res b2sem :=
  _ <~ need toks 5 ;; t <~ s_sort S (tokn toks 2) ;;
  a <~ s_node S (tokn toks 3) ;; b <~ s_node S (tokn toks 4) ;;
  r <~ sem_binary op a b ;; r' <~ check_sort t r ;; B2Ok (add_node S id r').

Definition sem_ternary_line (S : b2sem) (toks : list string) (id : N) (op : string) : b2res b2sem :=
  _ <~ need toks 6 ;; t <~ s_sort S (tokn toks 2) ;;
  a <~ s_node S (tokn toks 3) ;; b <~ s_node S (tokn toks 4) ;; c <~ s_node S (tokn toks 5) ;;
  r <~ sem_ternary op a b c ;; r' <~ check_sort t r ;; B2Ok (add_node S id r').

Definition sem_line (val : b2val) (S : b2sem) (toks : list string) : b2res b2sem :=
  match toks with
  | [] => B2Ok S
  | t0 :: _ =>
      match parse_line_id t0 with
      | Some (id, false) =>
          _ <~ need toks 2 ;;
          let op := tokn toks 1 in
          if str_mem op unsupported_ops then B2Err B2Unsupported
          else if seq op "sort" then sem_sort_line S toks id
          else if seq op "input" then sem_input_line val S toks id
          else if seq op "state" then sem_state_line val S toks id
          else if seq op "init" then sem_init_next_line S toks true
          else if seq op "next" then sem_init_next_line S toks false
          else if seq op "output" then sem_output_line S toks
          else if seq op "bad" then sem_prop_line S toks true
          else if seq op "constraint" then sem_prop_line S toks false
          else if seq op "zero" || seq op "one" || seq op "ones" || seq op "const" || seq op "constd" || seq op "consth"
               then sem_const_line S toks id op
          else if is_unary op then sem_unary_line S toks id op
          else if is_binary op then sem_binary_line S toks id op
          else if seq op "ite" || seq op "write" then sem_ternary_line S toks id op
          else B2Err B2Syntax
      | _ => B2Err B2Syntax
      end
  end.

Fixpoint sem_fold (val : b2val) (ls : list (list string)) (S : b2sem) : b2res b2sem :=
  match ls with
  | [] => B2Ok S
  | l :: ls' => S' <~ sem_line val S l ;; sem_fold val ls' S'
  end.

Definition sem_run (val : b2val) (ls : list (list string)) : b2res b2sem := sem_fold val ls b2sem_empty.

Definition sem_text (val : b2val) (text : string) : b2res b2sem :=
  sem_run val (map tokenize (split_lines text)).
