(** * Spec/SimSpec.v — what a simulator of a transition system has to compute.

    The reference semantics of operation histories, written only in terms of
    [Spec/System.v] (valuations, [init_seq], [next_env], [upd_bv]) and
    [Spec/Eval.v] ([eval]).  No stores, no stack machine, no snapshots of
    data structures: a state of the specification is the current valuation,
    the list of saved valuations and the number of steps taken.

    - [OInit k]     the valuation becomes [init_seq sy rho0], where [rho0] gives every
                    declared symbol (states in order, then inputs) the value the
                    initial-value generator produced for it: zero for [KZero], the
                    [pos]-th value of an explicit oracle for [KRandom];
    - [OSet s w v]  exactly the symbol [s] changes, to [v];
    - [OStep]       the valuation becomes [next_env sy rho rho]: all states with a
                    next function are replaced simultaneously, inputs and states
                    without next keep their value ([free] = the old valuation);
    - [OGet e]      observes [eval rho e];
    - [OCount]      observes the number of steps taken so far;
    - [OSnapshot]   saves the valuation, observes its number;
    - [ORestore i]  the valuation becomes the i-th saved one; the step count is
                    not restored.

    Executable definitions only. *)

From Patronus Require Export System.
Open Scope N_scope.

(** a value produced by the initial-value generator, before it is known whether
    it is used for a bit-vector or for an array symbol *)
Definition oval : Type := (N * (N -> N))%type.

Inductive init_kind : Type :=
| KZero
| KRandom (oracle : nat -> oval).   (* position among the declarations -> generated value *)

Inductive op : Type :=
| OInit (k : init_kind)
| OSet (sym : expr) (w v : N)
| OStep
| OGet (e : expr)
| OCount
| OSnapshot
| ORestore (id : N).

(** declared symbols in allocation order: states, then inputs *)
Definition decls (sy : sys) : list expr := map st_sym (s_states sy) ++ s_inputs sy.

Fixpoint index_of (k : expr) (l : list expr) (pos : nat) : option nat :=
  match l with
  | [] => None
  | x :: r => if expr_eqb x k then Some pos else index_of k r (S pos)
  end.

Definition gen_bv (k : init_kind) (pos : nat) : N :=
  match k with KZero => 0 | KRandom o => fst (o pos) end.

Definition gen_arr (k : init_kind) (pos : nat) : N -> N :=
  match k with KZero => fun _ => 0 | KRandom o => snd (o pos) end.

(** the valuation before the init expressions are evaluated *)
Definition oracle_env (sy : sys) (k : init_kind) : env :=
  {| rho_bv := fun n w => match index_of (BVSymbol n w) (decls sy) 0 with
                          | Some p => gen_bv k p | None => 0 end;
     rho_arr := fun n iw dw => match index_of (ArraySymbol n iw dw) (decls sy) 0 with
                               | Some p => gen_arr k p | None => fun _ => 0 end |}.

Definition zero_env : env := {| rho_bv := fun _ _ => 0; rho_arr := fun _ _ _ _ => 0 |}.

Record sstate : Type := { cur : env; saved : list env; cnt : N }.

Definition sstate0 : sstate := {| cur := zero_env; saved := []; cnt := 0 |}.

Inductive sobs : Type :=
| SNone
| SVal (v : value)
| SNum (n : N).

Definition spec_exec (sy : sys) (s : sstate) (o : op) : sstate * sobs :=
  match o with
  | OInit k => ({| cur := init_seq sy (oracle_env sy k); saved := saved s; cnt := cnt s |}, SNone)
  | OSet sym _ v =>
      ({| cur := match sym with BVSymbol n w => upd_bv (cur s) n w v | _ => cur s end;
          saved := saved s; cnt := cnt s |}, SNone)
  | OStep => ({| cur := next_env sy (cur s) (cur s); saved := saved s; cnt := cnt s + 1 |}, SNone)
  | OGet e => (s, SVal (eval (cur s) e))
  | OCount => (s, SNum (cnt s))
  | OSnapshot => ({| cur := cur s; saved := saved s ++ [cur s]; cnt := cnt s |},
                  SNum (N.of_nat (length (saved s))))
  | ORestore i => ({| cur := nth (N.to_nat i) (saved s) (cur s); saved := saved s; cnt := cnt s |}, SNone)
  end.

Fixpoint spec_run (sy : sys) (s : sstate) (h : list op) : sstate * list sobs :=
  match h with
  | [] => (s, [])
  | o :: r => let '(s1, b) := spec_exec sy s o in
              let '(s2, bs) := spec_run sy s1 r in (s2, b :: bs)
  end.

(** ** the domain of the property: well-formed systems and histories *)

Definition mem (k : expr) (l : list expr) : bool := existsb (fun x => expr_eqb x k) l.

Fixpoint nodupb (l : list expr) : bool :=
  match l with
  | [] => true
  | x :: r => negb (mem x r) && nodupb r
  end.

(** every symbol of [e] is declared and [e] contains none of the five
    division/remainder operators (which eval.rs does not implement) *)
Fixpoint evaluable (d : list expr) (e : expr) : bool :=
  match e with
  | BVSymbol _ _ | ArraySymbol _ _ _ => mem e d
  | BVSignedDiv _ _ _ | BVUnsignedDiv _ _ _ | BVSignedMod _ _ _
  | BVSignedRem _ _ _ | BVUnsignedRem _ _ _ => false
  | BVLiteral _ _ => true
  | BVZeroExt e _ _ | BVSignExt e _ _ | BVSlice e _ _ | BVNot e _ | BVNegate e _
  | ArrayConstant e _ _ => evaluable d e
  | BVEqual a b | BVImplies a b | BVGreater a b | BVGreaterSigned a b _
  | BVGreaterEqual a b | BVGreaterEqualSigned a b _ | BVConcat a b _
  | BVAnd a b _ | BVOr a b _ | BVXor a b _ | BVShiftLeft a b _
  | BVArithmeticShiftRight a b _ | BVShiftRight a b _ | BVAdd a b _ | BVMul a b _
  | BVSub a b _ | BVArrayRead a b _ | ArrayEqual a b => evaluable d a && evaluable d b
  | BVIte a b c | ArrayStore a b c | ArrayIte a b c => evaluable d a && evaluable d b && evaluable d c
  end.

Definition state_evaluable (d : list expr) (st : state) : bool :=
  match st_init st with Some e => evaluable d e | None => true end &&
  match st_next st with Some e => evaluable d e | None => true end.

(** a system the simulator can run: well typed ([sys_ok]), declared symbols
    pairwise different, init and next expressions closed over the declarations *)
Definition sim_ok (sy : sys) : bool :=
  sys_ok sy && nodupb (decls sy) && forallb (state_evaluable (decls sy)) (s_states sy).

Definition op_ok (sy : sys) (nsnaps : nat) (o : op) : bool :=
  match o with
  | OInit _ | OStep | OCount | OSnapshot => true
  | OSet s w _ => match s with BVSymbol _ w' => (w' =? w) && mem s (decls sy) | _ => false end
  | OGet e => wt e && evaluable (decls sy) e
  | ORestore i => (N.to_nat i <? nsnaps)%nat
  end.

Fixpoint ops_ok (sy : sys) (nsnaps : nat) (h : list op) : bool :=
  match h with
  | [] => true
  | o :: r => op_ok sy nsnaps o &&
              ops_ok sy (match o with OSnapshot => S nsnaps | _ => nsnaps end) r
  end.

(** a well-formed history starts with an initialisation *)
Definition hist_ok (sy : sys) (h : list op) : bool :=
  match h with
  | OInit _ :: r => ops_ok sy 0 r
  | _ => false
  end.

(** ** symbols an expression reads (used to state "init reads only earlier states") *)
Fixpoint symbols (e : expr) : list expr :=
  match e with
  | BVSymbol _ _ | ArraySymbol _ _ _ => [e]
  | BVLiteral _ _ => []
  | BVZeroExt e _ _ | BVSignExt e _ _ | BVSlice e _ _ | BVNot e _ | BVNegate e _
  | ArrayConstant e _ _ => symbols e
  | BVEqual a b | BVImplies a b | BVGreater a b | BVGreaterSigned a b _
  | BVGreaterEqual a b | BVGreaterEqualSigned a b _ | BVConcat a b _
  | BVAnd a b _ | BVOr a b _ | BVXor a b _ | BVShiftLeft a b _
  | BVArithmeticShiftRight a b _ | BVShiftRight a b _ | BVAdd a b _ | BVMul a b _
  | BVSignedDiv a b _ | BVUnsignedDiv a b _ | BVSignedMod a b _ | BVSignedRem a b _
  | BVUnsignedRem a b _ | BVSub a b _ | BVArrayRead a b _ | ArrayEqual a b => symbols a ++ symbols b
  | BVIte a b c | ArrayStore a b c | ArrayIte a b c => symbols a ++ symbols b ++ symbols c
  end.

(** the init expression of every state mentions neither the state itself nor a later state *)
Fixpoint inits_read_earlier (sts : list state) : bool :=
  match sts with
  | [] => true
  | st :: r =>
      match st_init st with
      | Some e => forallb (fun s => negb (mem s (map st_sym (st :: r)))) (symbols e)
      | None => true
      end && inits_read_earlier r
  end.
