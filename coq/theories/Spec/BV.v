(** * Spec/BV.v — SMT-LIB fixed-size bit-vector operators over unbounded [N].

    A bit-vector value of width [w] is a natural number [v < 2^w].  Every
    operator below is written from the SMT-LIB 2.6 [FixedSizeBitVectors] theory /
    [QF_BV] logic definitions.  There is no 64-/128-bit word structure here:
    word boundaries exist only in the implementation ([baa]) and are what the
    correspondence check exercises.

    This file contains executable definitions only (no proofs), so the model
    still runs when a proof elsewhere breaks. *)

From Coq Require Export NArith ZArith Bool List.
Export ListNotations.
Open Scope N_scope.

Definition pow2 (w : N) : N := 2 ^ w.

(** canonical representative of a number at width [w] *)
Definition trunc (w v : N) : N := v mod 2 ^ w.

Definition b2n (b : bool) : N := if b then 1 else 0.

Definition msb (w v : N) : bool := N.testbit v (w - 1).

(** two's-complement reading *)
Definition to_Z (w v : N) : Z :=
  if msb w v then (Z.of_N v - 2 ^ Z.of_N w)%Z else Z.of_N v.

(** [Z] to width-[w] two's complement *)
Definition of_Z (w : N) (z : Z) : N := Z.to_N (z mod 2 ^ Z.of_N w)%Z.

Definition bv_not (w a : N) : N := N.lnot a w.           (* a < 2^w *)
Definition bv_neg (w a : N) : N := (2 ^ w - a mod 2 ^ w) mod 2 ^ w.
Definition bv_and (a b : N) : N := N.land a b.
Definition bv_or (a b : N) : N := N.lor a b.
Definition bv_xor (a b : N) : N := N.lxor a b.
Definition bv_add (w a b : N) : N := (a + b) mod 2 ^ w.
Definition bv_sub (w a b : N) : N := (a + bv_neg w b) mod 2 ^ w.
Definition bv_mul (w a b : N) : N := (a * b) mod 2 ^ w.

Definition bv_eq (a b : N) : N := b2n (a =? b).
Definition bv_implies (a b : N) : N := N.lor (N.lnot a 1) b.   (* 1-bit operands *)
Definition bv_ugt (a b : N) : N := b2n (b <? a).
Definition bv_uge (a b : N) : N := b2n (b <=? a).
Definition bv_sgt (w a b : N) : N := b2n (to_Z w b <? to_Z w a)%Z.
Definition bv_sge (w a b : N) : N := b2n (to_Z w b <=? to_Z w a)%Z.

(** [concat a b]: [a] is the high part, [b] (of width [wb]) the low part *)
Definition bv_concat (wb a b : N) : N := a * 2 ^ wb + b.
(** [extract hi lo] *)
Definition bv_slice (hi lo a : N) : N := (a / 2 ^ lo) mod 2 ^ (hi - lo + 1).
Definition bv_zext (a : N) : N := a.
(** sign extension of a width-[w] value by [by] bits *)
Definition bv_sext (w by_ a : N) : N :=
  if msb w a then a + N.ones by_ * 2 ^ w else a.

(** shifts; the amount is an arbitrary width-[w] value, compared with [w] as a
    number (no truncation of the amount) *)
Definition bv_shl (w a b : N) : N := if b <? w then (a * 2 ^ b) mod 2 ^ w else 0.
Definition bv_lshr (w a b : N) : N := if b <? w then a / 2 ^ b else 0.
(** SMT-LIB: bvashr s t = bvlshr s t if msb s = 0, else bvnot (bvlshr (bvnot s) t) *)
Definition bv_ashr (w a b : N) : N :=
  if msb w a then bv_not w (bv_lshr w (bv_not w a) b) else bv_lshr w a b.

(** division family with the SMT-LIB 2.6 division-by-zero results *)
Definition bv_udiv (w a b : N) : N := if b =? 0 then N.ones w else a / b.
Definition bv_urem (w a b : N) : N := if b =? 0 then a else a mod b.
Definition bv_sdiv (w a b : N) : N :=
  match msb w a, msb w b with
  | false, false => bv_udiv w a b
  | true, false => bv_neg w (bv_udiv w (bv_neg w a) b)
  | false, true => bv_neg w (bv_udiv w a (bv_neg w b))
  | true, true => bv_udiv w (bv_neg w a) (bv_neg w b)
  end.
Definition bv_srem (w a b : N) : N :=
  match msb w a, msb w b with
  | false, false => bv_urem w a b
  | true, false => bv_neg w (bv_urem w (bv_neg w a) b)
  | false, true => bv_urem w a (bv_neg w b)
  | true, true => bv_neg w (bv_urem w (bv_neg w a) (bv_neg w b))
  end.
Definition bv_smod (w a b : N) : N :=
  let abs_a := if msb w a then bv_neg w a else a in
  let abs_b := if msb w b then bv_neg w b else b in
  let u := bv_urem w abs_a abs_b in
  if u =? 0 then u
  else match msb w a, msb w b with
       | false, false => u
       | true, false => bv_add w (bv_neg w u) b
       | false, true => bv_add w u b
       | true, true => bv_neg w u
       end.

(** bounded universal quantification over [0 .. n-1] *)
Definition forallb_N (n : N) (p : N -> bool) : bool :=
  N.recursion true (fun i acc => p i && acc) n.
