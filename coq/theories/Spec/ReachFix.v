(** * Spec/ReachFix.v — explicit-state forward reachability to a FIXPOINT.

    The specification of what an unbounded safety checker (patronus::mc::pdr)
    must answer.  Two layers, both executable, no proofs here
    (Proofs/ReachFixProofs.v):

    1. a generic breadth-first search over a finite graph whose nodes are
       numbers ([bfs], [graph_reach]): visited set = [PositiveSet] (a trie),
       layer by layer; it stops with [Unsafe d] at the first layer [d] that
       contains a bad node, with [Safe] when a layer adds no new node (the
       visited set is then closed under successors), and its fuel is
       [number of nodes + 1], which is never exhausted ([OutOfFuel] is never
       returned: theorem [graph_reach_total]);

    2. the graph of a transition system of [Spec/System.v] with finitely many
       bit-vector signals ([reach_spec]): a node is a valuation of ALL
       signals (inputs and states), encoded as one number (mixed radix, least
       significant signal first); the initial nodes are the valuations that
       satisfy the init equations and the constraints; the successors of a node
       are obtained by enumerating every valuation of the free signals (inputs
       and states without a next-state function) and keeping those that
       satisfy the constraints.

    [reach_spec] is meant to be *run* on systems with at most a few thousand
    valuations; the theorems about it hold for every system of the class
    [fin_class]. *)

From Coq Require Import List NArith MSetPositive.
From Patronus Require Export System.
Import ListNotations.
Open Scope N_scope.

Module PS := PositiveSet.

Inductive verdict : Type :=
| Safe                (* no bad node is reachable at any depth *)
| Unsafe (d : nat)    (* d is the least depth at which a bad node is reachable *)
| OutOfFuel.          (* never returned by [graph_reach] / [reach_spec] (theorem) *)

(** ** 1. generic breadth-first search *)
Section Bfs.
  Variable succs : N -> list N.
  Variable badb : N -> bool.

  Definition key (x : N) : positive := N.succ_pos x.

  (** add [j] to the visited set and to the new frontier unless already visited *)
  Definition absorb (acc : PS.t * list N) (j : N) : PS.t * list N :=
    if PS.mem (key j) (fst acc) then acc else (PS.add (key j) (fst acc), j :: snd acc).

  Definition absorb_all (V : PS.t) (l : list N) : PS.t * list N := fold_left absorb l (V, []).

  (** [bfs fuel V fr d]: [V] = nodes at distance <= d, [fr] = nodes at distance exactly d *)
  Fixpoint bfs (fuel : nat) (V : PS.t) (fr : list N) (d : nat) : verdict :=
    match fuel with
    | O => OutOfFuel
    | S fuel' =>
        if existsb badb fr then Unsafe d
        else
          let next := absorb_all V (flat_map succs fr) in
          match snd next with
          | [] => Safe
          | _ => bfs fuel' (fst next) (snd next) (S d)
          end
    end.

  (** [nodes]: the universe; [inits]: the initial nodes *)
  Definition graph_reach (nodes inits : list N) : verdict :=
    let start := absorb_all PS.empty inits in
    bfs (S (length nodes)) (fst start) (snd start) 0.
End Bfs.

(** ** 2. the graph of a finite bit-vector transition system *)

Definition sig : Type := (string * N)%type.      (* name, width *)

Definition sig_of (e : expr) : list sig :=
  match e with BVSymbol n w => [(n, w)] | _ => [] end.

Definition input_sigs (sy : sys) : list sig := flat_map sig_of (s_inputs sy).
Definition state_sigs (sy : sys) : list sig := flat_map (fun st => sig_of (st_sym st)) (s_states sy).
Definition all_sigs (sy : sys) : list sig := input_sigs sy ++ state_sigs sy.

(** signals that take an arbitrary new value at every step *)
Definition free_sigs (sy : sys) : list sig :=
  input_sigs sy ++
  flat_map (fun st => match st_next st with None => sig_of (st_sym st) | Some _ => [] end) (s_states sy).

Definition env0 : env := {| rho_bv := fun _ _ => 0; rho_arr := fun _ _ _ _ => 0 |}.

(** decode a number into a valuation of [sigs] (everything else reads 0) *)
Fixpoint env_of (sigs : list sig) (i : N) : env :=
  match sigs with
  | [] => env0
  | (n, w) :: r => upd_bv (env_of r (i / 2 ^ w)) n w (i mod 2 ^ w)
  end.

(** encode the values that [rho] gives to [sigs] *)
Fixpoint idx_of (sigs : list sig) (rho : env) : N :=
  match sigs with
  | [] => 0
  | (n, w) :: r => rho_bv rho n w + 2 ^ w * idx_of r rho
  end.

Definition bits_of (sigs : list sig) : N := fold_right (fun s acc => snd s + acc) 0 sigs.

(** [0; 1; ...; n-1] *)
Definition nrange (n : N) : list N := map N.of_nat (seq 0 (N.to_nat n)).

Definition nodes_of (sigs : list sig) : list N := nrange (2 ^ bits_of sigs).

(** the init equations, as a boolean (bit-vector states only) *)
Definition is_initial_b (sy : sys) (rho : env) : bool :=
  forallb (fun st => match st_init st, st_sym st with
                     | Some e, BVSymbol n w => rho_bv rho n w =? ebv rho e
                     | _, _ => true
                     end) (s_states sy).

Definition node_env (sy : sys) (i : N) : env := env_of (all_sigs sy) i.

Definition node_init (sy : sys) (i : N) : bool :=
  is_initial_b sy (node_env sy i) && constraints_hold sy (node_env sy i).

Definition node_bad (sy : sys) (i : N) : bool := some_bad sy (node_env sy i).

Definition node_step (sy : sys) (i f : N) : N :=
  idx_of (all_sigs sy) (next_env sy (node_env sy i) (env_of (free_sigs sy) f)).

Definition node_succs (sy : sys) (i : N) : list N :=
  filter (fun j => constraints_hold sy (node_env sy j))
         (map (node_step sy i) (nodes_of (free_sigs sy))).

Definition sys_nodes (sy : sys) : list N := nodes_of (all_sigs sy).
Definition sys_inits (sy : sys) : list N := filter (node_init sy) (sys_nodes sy).

Definition reach_spec (sy : sys) : verdict :=
  graph_reach (node_succs sy) (node_bad sy) (sys_nodes sy) (sys_inits sy).

(** ** the class of systems for which [reach_spec] is exact *)

(** every symbol of [e] is one of [sigs]; no array construct *)
Definition sig_eqb (a b : sig) : bool := String.eqb (fst a) (fst b) && (snd a =? snd b).
Definition sig_mem (s : sig) (l : list sig) : bool := existsb (sig_eqb s) l.

Fixpoint closed_bv (sigs : list sig) (e : expr) : bool :=
  match e with
  | BVSymbol n w => sig_mem (n, w) sigs
  | BVLiteral _ _ => true
  | BVZeroExt e _ _ | BVSignExt e _ _ | BVSlice e _ _ | BVNot e _ | BVNegate e _ => closed_bv sigs e
  | BVEqual a b | BVImplies a b | BVGreater a b | BVGreaterSigned a b _
  | BVGreaterEqual a b | BVGreaterEqualSigned a b _ | BVConcat a b _
  | BVAnd a b _ | BVOr a b _ | BVXor a b _ | BVShiftLeft a b _
  | BVArithmeticShiftRight a b _ | BVShiftRight a b _ | BVAdd a b _ | BVMul a b _
  | BVSignedDiv a b _ | BVUnsignedDiv a b _ | BVSignedMod a b _ | BVSignedRem a b _
  | BVUnsignedRem a b _ | BVSub a b _ => closed_bv sigs a && closed_bv sigs b
  | BVIte a b c => closed_bv sigs a && closed_bv sigs b && closed_bv sigs c
  | BVArrayRead _ _ _ | ArraySymbol _ _ _ | ArrayConstant _ _ _ | ArrayEqual _ _
  | ArrayStore _ _ _ | ArrayIte _ _ _ => false
  end.

Fixpoint names_nodup (l : list string) : bool :=
  match l with
  | [] => true
  | x :: r => negb (existsb (String.eqb x) r) && names_nodup r
  end.

Definition is_bv_symbol (e : expr) : bool := match e with BVSymbol _ _ => true | _ => false end.

Definition opt_closed (sigs : list sig) (o : option expr) : bool :=
  match o with Some e => closed_bv sigs e | None => true end.

(** well-typed ([sys_ok]); inputs and states are bit-vector symbols with pairwise
    distinct names; every expression mentions only these symbols and no array *)
Definition fin_class (sy : sys) : bool :=
  sys_ok sy &&
  forallb is_bv_symbol (s_inputs sy) &&
  forallb (fun st => is_bv_symbol (st_sym st)) (s_states sy) &&
  names_nodup (map fst (all_sigs sy)) &&
  names_nodup (map fst (free_sigs sy)) &&      (* implied by the previous line; kept as a check *)
  forallb (fun st => opt_closed (all_sigs sy) (st_init st) && opt_closed (all_sigs sy) (st_next st)) (s_states sy) &&
  forallb (closed_bv (all_sigs sy)) (s_bads sy) &&
  forallb (closed_bv (all_sigs sy)) (s_constraints sy).

(** number of valuations (nodes) of the system: the size the driver bounds before running *)
Definition sys_bits (sy : sys) : N := bits_of (all_sigs sy).
