(** * Spec/ExprMetaSpec.v — what the containers of meta.rs are meant to be:
    a total map [ExprRef -> T] that is the default almost everywhere, and a set of [ExprRef]s.
    Maps and sets are functions; equality is pointwise (no extensionality axiom is used). *)
From Coq Require Import NArith Bool.
Open Scope N_scope.

Definition fmap (T : Type) : Type := N -> T.
Definition fm_empty {T : Type} (dflt : T) : fmap T := fun _ => dflt.
Definition fm_set {T : Type} (m : fmap T) (k : N) (v : T) : fmap T := fun k' => if k =? k' then v else m k'.
Definition fm_eq {T : Type} (m1 m2 : fmap T) : Prop := forall k, m1 k = m2 k.

Definition fset : Type := N -> bool.
Definition fs_empty : fset := fun _ => false.
Definition fs_add (s : fset) (k : N) : fset := fun k' => (k =? k') || s k'.
Definition fs_del (s : fset) (k : N) : fset := fun k' => negb (k =? k') && s k'.
Definition fs_eq (s1 s2 : fset) : Prop := forall k, s1 k = s2 k.
