(** * Spec/Eval.v — *the* semantics of expressions.

    [ebv rho e]  : the number denoted by a bit-vector expression,
    [earr rho e] : the total function (index -> data) denoted by an array
                   expression (arrays are extensional by construction).
    Structural recursion, SMT-LIB operators from [BV.v].  All "means the same"
    statements in this development are stated against these two functions.

    The functions are total; they are only meaningful on well-typed expressions
    ([wt e = true]) under well-formed environments ([env_wf]), and every
    theorem about them carries exactly these guards. *)

From Patronus Require Export Expr.
Open Scope N_scope.

Record env : Type := {
  rho_bv : string -> N -> N;            (* name, width  -> value *)
  rho_arr : string -> N -> N -> N -> N  (* name, index width, data width -> index -> data *)
}.

Definition env_wf (rho : env) : Prop :=
  (forall n w, rho_bv rho n w < 2 ^ w) /\
  (forall n iw dw i, rho_arr rho n iw dw i < 2 ^ dw).

(** array equality over the whole index space *)
Definition arr_eqb (iw : N) (f g : N -> N) : bool :=
  forallb_N (2 ^ iw) (fun i => f i =? g i).

Definition arr_store (f : N -> N) (i d : N) : N -> N :=
  fun j => if j =? i then d else f j.

Definition index_width (e : expr) : N :=
  match type_of e with TArr iw _ => iw | TBV _ => 0 end.

Fixpoint ebv (rho : env) (e : expr) {struct e} : N :=
  match e with
  | BVSymbol n w => rho_bv rho n w
  | BVLiteral _ v => v
  | BVZeroExt e _ _ => bv_zext (ebv rho e)
  | BVSignExt e by_ _ => bv_sext (width e) by_ (ebv rho e)
  | BVSlice e hi lo => bv_slice hi lo (ebv rho e)
  | BVNot e w => bv_not w (ebv rho e)
  | BVNegate e w => bv_neg w (ebv rho e)
  | BVEqual a b => bv_eq (ebv rho a) (ebv rho b)
  | BVImplies a b => bv_implies (ebv rho a) (ebv rho b)
  | BVGreater a b => bv_ugt (ebv rho a) (ebv rho b)
  | BVGreaterSigned a b _ => bv_sgt (width a) (ebv rho a) (ebv rho b)
  | BVGreaterEqual a b => bv_uge (ebv rho a) (ebv rho b)
  | BVGreaterEqualSigned a b _ => bv_sge (width a) (ebv rho a) (ebv rho b)
  | BVConcat a b _ => bv_concat (width b) (ebv rho a) (ebv rho b)
  | BVAnd a b _ => bv_and (ebv rho a) (ebv rho b)
  | BVOr a b _ => bv_or (ebv rho a) (ebv rho b)
  | BVXor a b _ => bv_xor (ebv rho a) (ebv rho b)
  | BVShiftLeft a b w => bv_shl w (ebv rho a) (ebv rho b)
  | BVArithmeticShiftRight a b w => bv_ashr w (ebv rho a) (ebv rho b)
  | BVShiftRight a b w => bv_lshr w (ebv rho a) (ebv rho b)
  | BVAdd a b w => bv_add w (ebv rho a) (ebv rho b)
  | BVMul a b w => bv_mul w (ebv rho a) (ebv rho b)
  | BVSignedDiv a b w => bv_sdiv w (ebv rho a) (ebv rho b)
  | BVUnsignedDiv a b w => bv_udiv w (ebv rho a) (ebv rho b)
  | BVSignedMod a b w => bv_smod w (ebv rho a) (ebv rho b)
  | BVSignedRem a b w => bv_srem w (ebv rho a) (ebv rho b)
  | BVUnsignedRem a b w => bv_urem w (ebv rho a) (ebv rho b)
  | BVSub a b w => bv_sub w (ebv rho a) (ebv rho b)
  | BVArrayRead a i _ => earr rho a (ebv rho i)
  | BVIte c t f => if ebv rho c =? 1 then ebv rho t else ebv rho f
  | ArrayEqual a b => b2n (arr_eqb (index_width a) (earr rho a) (earr rho b))
  | ArraySymbol _ _ _ | ArrayConstant _ _ _ | ArrayStore _ _ _ | ArrayIte _ _ _ => 0
  end
with earr (rho : env) (e : expr) {struct e} : N -> N :=
  match e with
  | ArraySymbol n iw dw => rho_arr rho n iw dw
  | ArrayConstant e _ _ => let d := ebv rho e in fun _ => d
  | ArrayStore a i d => arr_store (earr rho a) (ebv rho i) (ebv rho d)
  | ArrayIte c t f => if ebv rho c =? 1 then earr rho t else earr rho f
  | _ => fun _ => 0
  end.

(** A value, as compared with the implementation: a bit-vector, or an array
    observed at a finite list of indices. *)
Inductive value : Type :=
| VBV (w v : N)
| VArr (iw dw : N) (f : N -> N).

Definition eval (rho : env) (e : expr) : value :=
  match type_of e with
  | TBV w => VBV w (ebv rho e)
  | TArr iw dw => VArr iw dw (earr rho e)
  end.
