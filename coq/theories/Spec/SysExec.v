(** * Spec/SysExec.v — executable companions of the definitions of Spec/System.v
    (decidable versions of [sym_agrees] / [is_initial], comparison of the values of
    two expressions).  Their agreement with the propositional definitions is
    proved in Proofs/SysExecProofs.v.

    Executable definitions only. *)

From Coq Require Import List Bool.
From Patronus Require Export System.
Import ListNotations.
Open Scope N_scope.

(** the value of [e1] under [r1] equals the value of [e2] under [r2], at type [t]
    (arrays: at every index below [2^iw]) *)
Definition val_eqb (t : ty) (r1 : env) (e1 : expr) (r2 : env) (e2 : expr) : bool :=
  match t with
  | TBV _ => ebv r1 e1 =? ebv r2 e2
  | TArr iw _ => arr_eqb iw (earr r1 e1) (earr r2 e2)
  end.

(** [sym_agrees rho s src e], decidable *)
Definition sym_agrees_b (rho : env) (s : expr) (src : env) (e : expr) : bool :=
  match s with
  | BVSymbol n w => rho_bv rho n w =? ebv src e
  | ArraySymbol n iw dw => arr_eqb iw (rho_arr rho n iw dw) (earr src e)
  | _ => true
  end.

Definition is_initial_b (sy : sys) (rho : env) : bool :=
  forallb (fun st => match st_init st with
                     | Some e => sym_agrees_b rho (st_sym st) rho e
                     | None => true
                     end) (s_states sy).

(** every symbol occurring in an expression of the system is an input or a state *)
Fixpoint symbols_of (e : expr) : list expr :=
  match e with
  | BVSymbol _ _ | ArraySymbol _ _ _ => [e]
  | BVLiteral _ _ => []
  | BVZeroExt a _ _ | BVSignExt a _ _ | BVSlice a _ _ | BVNot a _ | BVNegate a _
  | ArrayConstant a _ _ => symbols_of a
  | BVEqual a b | BVImplies a b | BVGreater a b | BVGreaterSigned a b _
  | BVGreaterEqual a b | BVGreaterEqualSigned a b _ | BVConcat a b _
  | BVAnd a b _ | BVOr a b _ | BVXor a b _ | BVShiftLeft a b _
  | BVArithmeticShiftRight a b _ | BVShiftRight a b _ | BVAdd a b _ | BVMul a b _
  | BVSignedDiv a b _ | BVUnsignedDiv a b _ | BVSignedMod a b _ | BVSignedRem a b _
  | BVUnsignedRem a b _ | BVSub a b _ | BVArrayRead a b _ | ArrayEqual a b => symbols_of a ++ symbols_of b
  | BVIte a b c | ArrayStore a b c | ArrayIte a b c => symbols_of a ++ symbols_of b ++ symbols_of c
  end.

Definition sys_symbols (sy : sys) : list expr := s_inputs sy ++ map st_sym (s_states sy).

Definition sys_closed (sy : sys) : bool :=
  forallb (fun e => forallb (fun s => existsb (expr_eqb s) (sys_symbols sy)) (symbols_of e)) (all_exprs sy).

(** the systems the model-checking theorems speak about: well-typed ([sys_ok]),
    closed, with pairwise distinct state symbols that are not inputs *)
Fixpoint nodup_exprs (l : list expr) : bool :=
  match l with
  | [] => true
  | x :: r => negb (existsb (expr_eqb x) r) && nodup_exprs r
  end.

Definition sys_wf (sy : sys) : bool :=
  sys_ok sy && sys_closed sy && nodup_exprs (map st_sym (s_states sy)) &&
  forallb (fun i => negb (existsb (expr_eqb i) (map st_sym (s_states sy)))) (s_inputs sy).
