(** * Spec/Btor2RoundTripSpec.v — what "the btor2 round trip preserves the system" means (property C09).

    [rt_agrees sy sy' tau pull]: the system [sy'] read back corresponds to [demote sy] (states
    without init and next become inputs) POSITION BY POSITION:
    - [tau] maps symbols to symbols of the same type, and the inputs / state symbols of [sy'] are
      the images under [tau] of those of [demote sy], in the same order (so the counts and the types
      agree);
    - [pull rho'] is the environment that gives every symbol of [sy] the value that its partner
      [tau s] has in [rho'];
    - for EVERY well-formed environment [rho'], every init / next / output / bad / constraint
      expression of [sy'] has, under [rho'], the type and the value ([ebv] / [earr]) that the
      expression of [sy] at the same position has under [pull rho'].

    [sys_fits]: every type that occurs in the system has widths below 2^32 (the reader's u32 fields).

    Executable or purely propositional definitions only. *)
From Coq Require Import List Bool NArith.
From Patronus Require Export SysClosed Btor2Parse.
Import ListNotations.
Open Scope N_scope.

(** ** widths that fit the reader's u32 fields, on whole trees *)
Definition ty_fits (t : ty) : bool :=
  match t with TBV w => w <=? U32MAX | TArr iw dw => (iw <=? U32MAX) && (dw <=? U32MAX) end.

Fixpoint efits (e : expr) : bool :=
  ty_fits (type_of e) &&
  match e with
  | BVSymbol _ _ | BVLiteral _ _ | ArraySymbol _ _ _ => true
  | BVZeroExt e _ _ | BVSignExt e _ _ | BVSlice e _ _ | BVNot e _ | BVNegate e _
  | ArrayConstant e _ _ => efits e
  | BVEqual a b | BVImplies a b | BVGreater a b | BVGreaterSigned a b _
  | BVGreaterEqual a b | BVGreaterEqualSigned a b _ | BVConcat a b _
  | BVAnd a b _ | BVOr a b _ | BVXor a b _ | BVShiftLeft a b _
  | BVArithmeticShiftRight a b _ | BVShiftRight a b _ | BVAdd a b _ | BVMul a b _
  | BVSignedDiv a b _ | BVUnsignedDiv a b _ | BVSignedMod a b _ | BVSignedRem a b _
  | BVUnsignedRem a b _ | BVSub a b _ | BVArrayRead a b _ | ArrayEqual a b => efits a && efits b
  | BVIte a b c | ArrayStore a b c | ArrayIte a b c => efits a && efits b && efits c
  end.

Definition sys_fits (sy : sys) : bool := forallb efits (all_exprs sy).

(** ** symbol correspondences *)
Definition type_keeping (f : expr -> expr) : Prop :=
  forall s, is_symbol s = true -> is_symbol (f s) = true /\ type_of (f s) = type_of s.

(** ** same meaning *)
(** [e'] (reader side, environment [rho']) has the type and the value of [e] (writer side, [rho]) *)
Definition eqv (rho rho' : env) (e e' : expr) : Prop :=
  type_of e' = type_of e /\ ebv rho' e' = ebv rho e /\ earr rho' e' = earr rho e.

Definition opt_rel {A} (R : A -> A -> Prop) (a b : option A) : Prop :=
  match a, b with Some x, Some y => R x y | None, None => True | _, _ => False end.

Definition state_eqv (rho rho' : env) (s s' : state) : Prop :=
  opt_rel (eqv rho rho') (st_init s) (st_init s') /\ opt_rel (eqv rho rho') (st_next s) (st_next s').

Record rt_agrees (sy sy' : sys) (tau : expr -> expr) (pull : env -> env) : Prop := mkRt {
  rt_keep : type_keeping tau;
  rt_pull : forall rho' s, is_symbol s = true ->
            ebv (pull rho') s = ebv rho' (tau s) /\ earr (pull rho') s = earr rho' (tau s);
  rt_wf : forall rho', env_wf rho' -> env_wf (pull rho');
  rt_inputs : s_inputs sy' = map tau (s_inputs (demote sy));
  rt_states : map st_sym (s_states sy') = map tau (map st_sym (s_states (demote sy)));
  rt_sem : forall rho', env_wf rho' ->
      Forall2 (state_eqv (pull rho') rho') (s_states (demote sy)) (s_states sy') /\
      Forall2 (fun o o' => eqv (pull rho') rho' (snd o) (snd o')) (s_outputs sy) (s_outputs sy') /\
      Forall2 (eqv (pull rho') rho') (s_bads sy) (s_bads sy') /\
      Forall2 (eqv (pull rho') rho') (s_constraints sy) (s_constraints sy')
}.

(** ** the symmetric form: two environments under which the two systems mean the same *)
(** [rho] (for [sy]) and [rho'] (for [sy']) give positionally corresponding symbols the same value, and
    then all positionally corresponding expressions have the same type and value (arrays: pointwise) *)
Definition same_val (rho rho' : env) (e e' : expr) : Prop :=
  type_of e' = type_of e /\ ebv rho' e' = ebv rho e /\ (forall i, earr rho' e' i = earr rho e i).

Definition same_state (rho rho' : env) (s s' : state) : Prop :=
  same_val rho rho' (st_sym s) (st_sym s') /\
  opt_rel (same_val rho rho') (st_init s) (st_init s') /\ opt_rel (same_val rho rho') (st_next s) (st_next s').

Definition rt_same (sy sy' : sys) (rho rho' : env) : Prop :=
  Forall2 (same_val rho rho') (s_inputs (demote sy)) (s_inputs sy') /\
  Forall2 (same_state rho rho') (s_states (demote sy)) (s_states sy') /\
  Forall2 (fun o o' => same_val rho rho' (snd o) (snd o')) (s_outputs sy) (s_outputs sy') /\
  Forall2 (same_val rho rho') (s_bads sy) (s_bads sy') /\
  Forall2 (same_val rho rho') (s_constraints sy) (s_constraints sy').
