(** * Spec/Btor2FinalSpec.v — agreement of the FINAL system of the btor2 reader with the reference
    interpreter of Spec/Btor2Sem.v (properties C08 and C18).

    [parse_str] does not return the system it has after the last line (the raw system of
    [Btor2Parse.parse_raw_v]) but post-processes it (parse.rs:113-143):
      1. [improve_state_names]: a state whose symbol carries a later name is renamed in every expression;
      2. every state without init and next is appended to the inputs (in state order) and removed
         from the states.
    In the model: [parse_lines_v v dbg ls = demote (rename_sys ren raw)].

    So the k-th input line of the text is the k-th input of the final system, while the j-th STATE
    line is
      - the input number [nin + (number of plain state lines before j)] if it has neither init nor next
        ("plain"; [nin] = number of input lines),
      - the state number [(number of non-plain state lines before j)] otherwise.
    [weave pat dem kept] rebuilds the list "symbol of the j-th state line" from the demoted symbols and
    the kept state symbols along the pattern [pat] (true = plain).

    Executable or purely propositional definitions only. *)
From Coq Require Import List String NArith Bool.
From Patronus Require Export Eval SysClosed Btor2Parse Btor2Sem Btor2Agree.
Import ListNotations.
Open Scope N_scope.

(** a state line without init and next, on the interpreter's side *)
Definition plain_ss (ss : b2state) : bool :=
  match ss_init ss, ss_next ss with None, None => true | _, _ => false end.

Fixpoint weave {A} (pat : list bool) (dem kept : list A) : list A :=
  match pat with
  | [] => []
  | true :: p => match dem with d :: dem' => d :: weave p dem' kept | [] => [] end
  | false :: p => match kept with k :: kept' => k :: weave p dem kept' | [] => [] end
  end.

(** the shape of a text as the reader sees it: number of input lines, and which state lines are plain *)
Definition reader_shape (v : code_variant) (dbg : bool) (ls : list (list string)) : option (nat * list bool) :=
  match parse_raw_v v dbg ls with
  | POk (sy, _) => Some (List.length (s_inputs sy), map is_plain (s_states sy))
  | _ => None
  end.

(** symbols of the final system by LINE of the text *)
Definition line_inputs (fin : sys) (nin : nat) : list expr := firstn nin (s_inputs fin).
Definition demoted_syms (fin : sys) (nin : nat) : list expr := skipn nin (s_inputs fin).
Definition line_states (fin : sys) (nin : nat) (pat : list bool) : list expr :=
  weave pat (demoted_syms fin nin) (map st_sym (s_states fin)).

(** THE ENVIRONMENT CORRESPONDENCE: the interpreter's valuation [val] gives the k-th input line the value
    [rho] gives to the final system's k-th input, and the j-th state line the value [rho] gives to the
    symbol [line_states .. j], i.e. a demoted state is read from the INPUT it has become *)
Definition final_env_agrees (rho : env) (val : b2val) (fin : sys) (nin : nat) (pat : list bool) : Prop :=
  agree rho val (line_inputs fin nin) (line_states fin nin pat).

(** the valuation of the input and state lines induced by an environment of the final system *)
Definition final_val (rho : env) (fin : sys) (nin : nat) (pat : list bool) : b2val :=
  {| in_bv := fun k => ebv rho (nth k (line_inputs fin nin) (BVLiteral 1 0));
     in_arr := fun k => earr rho (nth k (line_inputs fin nin) (BVLiteral 1 0));
     st_bv := fun j => ebv rho (nth j (line_states fin nin pat) (BVLiteral 1 0));
     st_arr := fun j => earr rho (nth j (line_states fin nin pat) (BVLiteral 1 0)) |}.

(** agreement of the final system with the interpreter's final state [S]: the inputs are the input lines
    followed by the plain state lines (with their declared sorts), the states are the other state lines
    (declared sort, init and next VALUES), and outputs / bad states / constraints have the VALUES of the
    referenced lines, position by position *)
Definition final_agrees (rho : env) (fin : sys) (S : b2sem) : Prop :=
  List.length (s_inputs fin) = (m_nin S + List.length (filter plain_ss (m_states S)))%nat /\
  Forall2 (fun e ss => ss_sort ss = type_of e) (demoted_syms fin (m_nin S)) (filter plain_ss (m_states S)) /\
  Forall2 (srel rho) (s_states fin) (filter (fun ss => negb (plain_ss ss)) (m_states S)) /\
  Forall2 (fun o v => veq rho (snd o) v) (s_outputs fin) (m_outputs S) /\
  Forall2 (veq rho) (s_bads fin) (m_bads S) /\
  Forall2 (veq rho) (s_constraints fin) (m_constraints S).

(** ** declared sorts of the input lines, according to the interpreter *)
Definition is_input_line (toks : list string) : bool := seq (tokn toks 1) "input".

Fixpoint input_sorts_from (val : b2val) (ls : list (list string)) (S : b2sem) : list ty :=
  match ls with
  | [] => []
  | l :: ls' =>
      match sem_line val S l with
      | B2Ok S' =>
          (if is_input_line l then match s_sort S (tokn l 2) with B2Ok t => [t] | B2Err _ => [] end else [])
          ++ input_sorts_from val ls' S'
      | B2Err _ => []
      end
  end.

Definition input_sorts (val : b2val) (ls : list (list string)) : list ty := input_sorts_from val ls b2sem_empty.

(** ** what the post-processing is, as one equation: the raw system with [rename ren] applied to every
    expression, plain states moved behind the inputs *)
Definition post_process (ren : list (expr * string)) (sy : sys) : sys :=
  {| s_inputs := map (rename ren) (s_inputs sy) ++ map (rename ren) (map st_sym (filter is_plain (s_states sy)));
     s_states := map (rename_state ren) (filter (fun s => negb (is_plain s)) (s_states sy));
     s_outputs := map (fun o => (fst o, rename ren (snd o))) (s_outputs sy);
     s_bads := map (rename ren) (s_bads sy);
     s_constraints := map (rename ren) (s_constraints sy) |}.

(** ** the C18 statement for the final system, spelled out *)
Definition final_well_typed (fin : sys) : Prop :=
  (forall e, In e (all_exprs fin) -> wt e = true) /\
  (forall i, In i (s_inputs fin) -> is_symbol i = true) /\
  (forall s, In s (s_states fin) ->
     is_symbol (st_sym s) = true /\ is_plain s = false /\
     (forall e, st_init s = Some e -> type_of e = type_of (st_sym s)) /\
     (forall e, st_next s = Some e -> type_of e = type_of (st_sym s))) /\
  (forall e, In e (s_bads fin ++ s_constraints fin) -> type_of e = TBV 1) /\
  (forall e, In e (all_exprs fin) -> forall x, In x (syms e) ->
     In x (s_inputs fin) \/ In x (map st_sym (s_states fin))) /\
  NoDup (map sym_name (declared fin)).
