(** * Spec/CoiSpec.v — what a cone of influence has to be (mathematical side of C17).

    - [subexprs e]: the expression and everything below it (the symbols occurring in
      [e] are the symbol members of this list);
    - [dep v sy e c]: one syntactic dependency link of variant [v]: [c] is a child of
      [e], or [e] is the symbol of a state of the system and [c] is that state's
      [init] (variants full, init) or [next] (variant full) expression;
    - [reach v sy root e]: reflexive-transitive closure from [root];
    - [sys_symbol sy s]: [s] is a symbol and an input or a state symbol of [sy];
    - [agree_on s r1 r2]: two valuations give symbol [s] the same value (arrays:
      pointwise);  [same_value e r1 r2]: expression [e] has the same value.

    Definitions only (no proofs).  Everything here is independent of the worklist in
    Model/Coi.v; in particular the state of a symbol is found by list membership
    ([has_state]), not by the hash-map lookup of the implementation. *)

From Patronus Require Export System.
Open Scope N_scope.

(** the three entry points of analysis.rs *)
Inductive variant : Type :=
| VFull   (* cone_of_influence       : follow_next = true,  follow_init = true  *)
| VInit   (* cone_of_influence_init  : follow_next = false, follow_init = true  *)
| VComb.  (* cone_of_influence_comb  : follow_next = false, follow_init = false *)

Definition follow_next (v : variant) : bool := match v with VFull => true | _ => false end.
Definition follow_init (v : variant) : bool := match v with VComb => false | _ => true end.

(** the expression itself and all expressions below it (with repetitions) *)
Fixpoint subexprs (e : expr) : list expr :=
  e :: match e with
       | BVSymbol _ _ | BVLiteral _ _ | ArraySymbol _ _ _ => []
       | BVZeroExt a _ _ | BVSignExt a _ _ | BVSlice a _ _ | BVNot a _ | BVNegate a _
       | ArrayConstant a _ _ => subexprs a
       | BVEqual a b | BVImplies a b | BVGreater a b | BVGreaterSigned a b _
       | BVGreaterEqual a b | BVGreaterEqualSigned a b _ | BVConcat a b _
       | BVAnd a b _ | BVOr a b _ | BVXor a b _ | BVShiftLeft a b _
       | BVArithmeticShiftRight a b _ | BVShiftRight a b _ | BVAdd a b _ | BVMul a b _
       | BVSignedDiv a b _ | BVUnsignedDiv a b _ | BVSignedMod a b _ | BVSignedRem a b _
       | BVUnsignedRem a b _ | BVSub a b _ | BVArrayRead a b _ | ArrayEqual a b =>
           subexprs a ++ subexprs b
       | BVIte a b c | ArrayStore a b c | ArrayIte a b c => subexprs a ++ subexprs b ++ subexprs c
       end.

(** [st] is a state of [sy] whose symbol is [s] *)
Definition has_state (sy : sys) (s : expr) (st : state) : Prop :=
  In st (s_states sy) /\ st_sym st = s.

Inductive dep (v : variant) (sy : sys) (e : expr) : expr -> Prop :=
| dep_child c : In c (children e) -> dep v sy e c
| dep_init st c : follow_init v = true -> has_state sy e st -> st_init st = Some c -> dep v sy e c
| dep_next st c : follow_next v = true -> has_state sy e st -> st_next st = Some c -> dep v sy e c.

Inductive reach (v : variant) (sy : sys) (root : expr) : expr -> Prop :=
| reach_root : reach v sy root root
| reach_step e c : reach v sy root e -> dep v sy e c -> reach v sy root c.

Definition sys_symbol (sy : sys) (s : expr) : Prop :=
  is_symbol s = true /\ (In s (s_inputs sy) \/ exists st, has_state sy s st).

(** some state with symbol [s] has a next-state function: [next_env] overwrites the
    value that the free valuation proposes for [s] *)
Definition has_next (sy : sys) (s : expr) : Prop :=
  exists st e, has_state sy s st /\ st_next st = Some e.

(** well-formedness used by C17: no two states share a symbol.  (The implementation
    looks states up in a hash map built from the state list, the semantics walks the
    list; the two views coincide exactly when the state symbols are distinct.) *)
Definition states_distinct (sy : sys) : Prop := NoDup (map st_sym (s_states sy)).

(** ** agreement of valuations *)
Definition agree_on (s : expr) (r1 r2 : env) : Prop :=
  match s with
  | BVSymbol n w => rho_bv r1 n w = rho_bv r2 n w
  | ArraySymbol n iw dw => forall i, rho_arr r1 n iw dw i = rho_arr r2 n iw dw i
  | _ => True
  end.

Definition agree_on_all (C : list expr) (r1 r2 : env) : Prop :=
  forall s, In s C -> agree_on s r1 r2.

(** the two valuations give the same value to every symbol that is not an input or a
    state of the system (such symbols are never reported in a cone) *)
Definition agree_non_sys (sy : sys) (r1 r2 : env) : Prop :=
  forall s, is_symbol s = true -> ~ sys_symbol sy s -> agree_on s r1 r2.

(** two "free" valuations of one step (new inputs, new values of states without next)
    agree where it matters for the cone [C]: on the members of [C] that [next_env]
    does not overwrite, and outside the system *)
Definition agree_free (sy : sys) (C : list expr) (f1 f2 : env) : Prop :=
  (forall s, In s C -> ~ has_next sy s -> agree_on s f1 f2) /\ agree_non_sys sy f1 f2.

Definition same_value (e : expr) (r1 r2 : env) : Prop :=
  ebv r1 e = ebv r2 e /\ forall i, earr r1 e i = earr r2 e i.
