(** * Spec/SysClosed.v — symbols occurring in expressions; closed transition systems.

    [syms e] lists the symbol leaves of [e] (with repetitions).  A system is closed when
    every symbol occurring in any of its expressions is one of its declared inputs or
    state symbols.  [sys_ok_weak] is [System.sys_ok] without the requirement that bad
    states and constraints are one bit wide; [props_1bit] is exactly that requirement.

    Executable definitions ([sys_closed] is a proposition about lists). *)
From Coq Require Import List.
From Patronus Require Export System.
Import ListNotations.
Open Scope N_scope.

Fixpoint syms (e : expr) : list expr :=
  match e with
  | BVSymbol _ _ | ArraySymbol _ _ _ => [e]
  | BVLiteral _ _ => []
  | BVZeroExt x _ _ | BVSignExt x _ _ | BVSlice x _ _ | BVNot x _ | BVNegate x _
  | ArrayConstant x _ _ => syms x
  | BVEqual a b | BVImplies a b | BVGreater a b | BVGreaterSigned a b _
  | BVGreaterEqual a b | BVGreaterEqualSigned a b _ | BVConcat a b _
  | BVAnd a b _ | BVOr a b _ | BVXor a b _ | BVShiftLeft a b _
  | BVArithmeticShiftRight a b _ | BVShiftRight a b _ | BVAdd a b _ | BVMul a b _
  | BVSignedDiv a b _ | BVUnsignedDiv a b _ | BVSignedMod a b _ | BVSignedRem a b _
  | BVUnsignedRem a b _ | BVSub a b _ | BVArrayRead a b _ | ArrayEqual a b => syms a ++ syms b
  | BVIte a b c | ArrayStore a b c | ArrayIte a b c => syms a ++ syms b ++ syms c
  end.

Definition declared (sy : sys) : list expr := s_inputs sy ++ map st_sym (s_states sy).

Definition sys_closed (sy : sys) : Prop :=
  forall e, In e (all_exprs sy) -> incl (syms e) (declared sy).

Definition props_1bit (sy : sys) : bool :=
  forallb (fun e => ty_eqb (type_of e) (TBV 1)) (s_bads sy ++ s_constraints sy).

Definition sys_ok_weak (sy : sys) : bool :=
  forallb (fun i => is_symbol i && wt i) (s_inputs sy) &&
  forallb state_ok (s_states sy) &&
  forallb (fun o => wt (snd o)) (s_outputs sy) &&
  forallb wt (s_bads sy) &&
  forallb wt (s_constraints sy).
