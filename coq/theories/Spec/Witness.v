(** * Spec/Witness.v — what it means for a counterexample to be real.

    A witness (patronus/src/mc/types.rs [Witness]) carries a value for every
    state at step 0, a value for every input at every step [0..k], the names of
    states and inputs, and the indices of the bad states it claims to violate.

    [witness_ok sy w]: the witness names and orders states and inputs as the
    system does and gives every one of them a value of its type; the valuation of
    step 0 is initial (the state values agree with the init expressions, read
    under that same valuation; arrays on their index range: [is_initial_r] of
    Spec/ReachSpec.v, a witness array has no values elsewhere); and there is a way to choose, at every later
    step, the values of the states WITHOUT a next function (the witness format has
    no place for them) such that the resulting run of [Spec/System.v] satisfies
    all constraints at every step and, at its last step, the bad states that hold
    are exactly those listed in the witness, at least one.

    [check_witness] decides it (the states without next function are enumerated).

    Executable definitions in this file, except [witness_ok] itself. *)

From Coq Require Import List Bool.
From Patronus Require Export ReachSpec.
Import ListNotations.
Open Scope N_scope.

Record witness : Type := {
  w_init : list (option val);              (* one per state, in state order *)
  w_init_names : list (option string);
  w_inputs : list (list (option val));     (* per step: one per input, in input order *)
  w_input_names : list (option string);
  w_failed : list N                        (* indices into [s_bads] *)
}.

Definition sym_name_of (e : expr) : string :=
  match e with BVSymbol n _ => n | ArraySymbol n _ _ => n | _ => EmptyString end.

(** a value of a type: in range, arrays of full length *)
Definition val_ok (t : ty) (v : val) : bool :=
  match t, v with
  | TBV w, VB x => x <? 2 ^ w
  | TArr iw dw, VA l => (N.of_nat (length l) =? 2 ^ iw) && forallb (fun x => x <? 2 ^ dw) l
  | _, _ => false
  end.

Fixpoint vals_ok (syms : list expr) (vs : list (option val)) : bool :=
  match syms, vs with
  | [], [] => true
  | s :: r, Some v :: r' => val_ok (type_of s) v && vals_ok r r'
  | _, _ => false
  end.

Fixpoint opt_string_list_eqb (a : list (option string)) (b : list string) : bool :=
  match a, b with
  | [], [] => true
  | Some x :: a', y :: b' => String.eqb x y && opt_string_list_eqb a' b'
  | _, _ => false
  end.

(** shape: names, order, completeness, types *)
Definition witness_shape_ok (sy : sys) (w : witness) : bool :=
  opt_string_list_eqb (w_init_names w) (map sym_name_of (state_syms sy)) &&
  opt_string_list_eqb (w_input_names w) (map sym_name_of (s_inputs sy)) &&
  vals_ok (state_syms sy) (w_init w) &&
  negb (match w_inputs w with [] => true | _ => false end) &&
  forallb (vals_ok (s_inputs sy)) (w_inputs w) &&
  forallb (fun i => i <? N.of_nat (length (s_bads sy))) (w_failed w).

Definition strip (vs : list (option val)) : list val :=
  flat_map (fun o => match o with Some v => [v] | None => [] end) vs.

(** the input assignment of one step *)
Definition input_asg (sy : sys) (vs : list (option val)) : asg := combine (s_inputs sy) (strip vs).

(** the bad states that hold under [rho] are exactly the listed ones, and there is one *)
Definition bads_exactly (sy : sys) (rho : env) (failed : list N) : bool :=
  negb (match failed with [] => true | _ => false end) &&
  forallb (fun ib => Bool.eqb (holds rho (snd ib)) (existsb (N.eqb (fst ib)) failed))
          (combine (range (N.of_nat (length (s_bads sy)))) (s_bads sy)).

(** the valuation of step 0 of a witness *)
Definition witness_env0 (sy : sys) (w : witness) : env :=
  env_of (env_of env0 (combine (state_syms sy) (strip (w_init w))))
         (input_asg sy (hd [] (w_inputs w))).

(** [frees]: one free valuation per later step; it must give the inputs the
    values of the witness *)
Definition free_matches (sy : sys) (vs : list (option val)) (f : env) : Prop :=
  forall s v, In (s, v) (input_asg sy vs) -> get_val f s = v.

Definition witness_ok (sy : sys) (w : witness) : Prop :=
  witness_shape_ok sy w = true /\
  is_initial_r sy (witness_env0 sy w) /\
  exists frees : list env,
    Forall2 (free_matches sy) (tl (w_inputs w)) frees /\
    Forall env_wf frees /\
    let trace := run_from sy (witness_env0 sy w) frees in
    forallb (constraints_hold sy) trace = true /\
    bads_exactly sy (last trace env0) (w_failed w) = true.

(** ** the decision procedure *)
(** [front]: the valuations of the current step that some choice of the free
    states reaches; [rest]: the inputs of the later steps *)
Fixpoint replay (sy : sys) (front : list env) (rest : list (list (option val))) (failed : list N) : bool :=
  let live := filter (constraints_hold sy) front in
  match rest with
  | [] => existsb (fun rho => bads_exactly sy rho failed) live
  | vs :: r =>
      replay sy (map (fun sv => env_of (env_of env0 (combine (state_syms sy) sv)) (input_asg sy vs))
                     (dedup_vals (flat_map (succs sy) live))) r failed
  end.

Definition check_witness (sy : sys) (w : witness) : bool :=
  witness_shape_ok sy w &&
  is_initial_b sy (witness_env0 sy w) &&
  replay sy [witness_env0 sy w] (tl (w_inputs w)) (w_failed w).
