(** * Spec/ReachBmc.v — explicit-state bounded reachability: the reference answer
    for bounded model checking.

    [bmc_spec sy k : option nat] explores, breadth first, all executions of
    [Spec/System.v]: every valuation of the states and inputs that is initial,
    then, step by step, every choice of the inputs and of the states without a
    next function.  It returns [Some j] for the least depth [j <= k] at which an
    execution that satisfies all constraints at every step (including step [j])
    is in a bad state, [None] if there is none.

    All values are enumerated ([2^w] bit-vector values, [(2^dw)^(2^iw)] arrays):
    the function is total and meant to be RUN only on small systems; the theorem
    [bmc_spec_exact] (Proofs/ReachBmcProofs.v) holds for all systems.

    Executable definitions only. *)

From Coq Require Import List Bool.
From Patronus Require Export SysExec.
Import ListNotations.
Open Scope N_scope.

(** ** finite values and their enumeration *)
Inductive val : Type :=
| VB (v : N)             (* a bit-vector value *)
| VA (l : list N).       (* an array: the data at index 0, 1, ... *)

Definition range (n : N) : list N := map N.of_nat (seq 0 (N.to_nat n)).

(** all lists of length [n] over [vals] *)
Fixpoint all_lists (n : nat) (vals : list N) : list (list N) :=
  match n with
  | O => [[]]
  | S m => flat_map (fun l => map (fun v => v :: l) vals) (all_lists m vals)
  end.

Definition all_vals (t : ty) : list val :=
  match t with
  | TBV w => map VB (range (2 ^ w))
  | TArr iw dw => map VA (all_lists (N.to_nat (2 ^ iw)) (range (2 ^ dw)))
  end.

(** an assignment: symbols with their values *)
Definition asg : Type := list (expr * val).

Fixpoint all_asgs (syms : list expr) : list asg :=
  match syms with
  | [] => [[]]
  | s :: r => flat_map (fun a => map (fun v => (s, v) :: a) (all_vals (type_of s))) (all_asgs r)
  end.

Definition env0 : env := {| rho_bv := fun _ _ => 0; rho_arr := fun _ _ _ _ => 0 |}.

Definition set_val (rho : env) (s : expr) (v : val) : env :=
  match s, v with
  | BVSymbol n w, VB x => upd_bv rho n w x
  | ArraySymbol n iw dw, VA l => upd_arr rho n iw dw (fun i => nth (N.to_nat i) l 0)
  | _, _ => rho
  end.

Definition env_of (base : env) (a : asg) : env :=
  fold_right (fun sv rho => set_val rho (fst sv) (snd sv)) base a.

(** the value of a symbol under a valuation (arrays: at the indices below [2^iw]) *)
Definition get_val (rho : env) (s : expr) : val :=
  match s with
  | ArraySymbol n iw dw => VA (map (rho_arr rho n iw dw) (range (2 ^ iw)))
  | BVSymbol n w => VB (rho_bv rho n w)
  | _ => VB 0
  end.

Fixpoint list_N_eqb (a b : list N) : bool :=
  match a, b with
  | [], [] => true
  | x :: a', y :: b' => (x =? y) && list_N_eqb a' b'
  | _, _ => false
  end.

Definition val_eq (a b : val) : bool :=
  match a, b with
  | VB x, VB y => x =? y
  | VA l, VA m => list_N_eqb l m
  | _, _ => false
  end.

Fixpoint vals_eqb (a b : list val) : bool :=
  match a, b with
  | [], [] => true
  | x :: a', y :: b' => val_eq x y && vals_eqb a' b'
  | _, _ => false
  end.

Definition dedup_vals (l : list (list val)) : list (list val) :=
  fold_right (fun x acc => if existsb (vals_eqb x) acc then acc else x :: acc) [] l.

(** ** the exploration *)
Definition state_syms (sy : sys) : list expr := map st_sym (s_states sy).

(** states whose value at the next step is a free choice *)
Definition nextless_syms (sy : sys) : list expr :=
  map st_sym (filter (fun st => match st_next st with None => true | Some _ => false end) (s_states sy)).

(** the state parts of all successors of a valuation *)
Definition succs (sy : sys) (rho : env) : list (list val) :=
  map (fun f => map (get_val (next_env sy rho (env_of env0 f))) (state_syms sy))
      (all_asgs (nextless_syms sy)).

(** all full valuations with the given state part *)
Definition with_inputs (sy : sys) (sv : list val) : list env :=
  map (env_of (env_of env0 (combine (state_syms sy) sv))) (all_asgs (s_inputs sy)).

(** [front]: the valuations (states and inputs) reachable at depth [d] through
    executions whose earlier steps satisfy the constraints *)
Fixpoint bmc_from (sy : sys) (front : list env) (d : nat) (fuel : nat) : option nat :=
  let live := filter (constraints_hold sy) front in
  if existsb (some_bad sy) live then Some d
  else match fuel with
       | O => None
       | S f => bmc_from sy (flat_map (with_inputs sy) (dedup_vals (flat_map (succs sy) live))) (S d) f
       end.

Definition initial_front (sy : sys) : list env :=
  filter (is_initial_b sy) (map (env_of env0) (all_asgs (sys_symbols sy))).

Definition bmc_spec (sy : sys) (k : nat) : option nat := bmc_from sy (initial_front sy) 0 k.

(** the number of valuations of states and inputs (the driver refuses to run the
    oracle on systems that are too large) *)
Definition ty_bits (t : ty) : N := match t with TBV w => w | TArr iw dw => 2 ^ iw * dw end.
Definition sys_bits (sy : sys) : N := fold_right (fun s acc => ty_bits (type_of s) + acc) 0 (sys_symbols sy).
