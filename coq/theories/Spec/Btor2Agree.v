(** * Spec/Btor2Agree.v — what it means that the reader's result agrees with the reference
    interpreter of Spec/Btor2Sem.v under an environment [rho] for the reader's symbols.

    [veq rho e v]: expression [e] has the sort of the interpreter value [v] and evaluates
    ([Eval.ebv]/[Eval.earr]) to it (arrays: at every index).
    [R rho st S]: reader state [st] and interpreter state [S] have the same sort table and the
    same state table, every signal of the reader agrees with the interpreter's node of the same
    line id, and the recorded states (sort, init, next), outputs, bad states and constraints
    agree position by position.
    [agree rho val ins sts]: the interpreter's valuation [val] of the k-th input / state line is
    the value [rho] gives to the reader's k-th input / state symbol. *)
From Coq Require Import List String NArith FMapPositive.
From Patronus Require Export Eval Btor2Parse Btor2Sem.
Import ListNotations.
Open Scope N_scope.

Definition veq (rho : env) (e : expr) (v : value) : Prop :=
  match v with
  | VBV w a => type_of e = TBV w /\ ebv rho e = a
  | VArr iw dw f => type_of e = TArr iw dw /\ forall i, earr rho e i = f i
  end.


Definition orel (rho : env) (o : option expr) (o' : option value) : Prop :=
  match o, o' with Some e, Some v => veq rho e v | None, None => True | _, _ => False end.

Definition srel (rho : env) (s : state) (ss : b2state) : Prop :=
  ss_sort ss = type_of (st_sym s) /\ orel rho (st_init s) (ss_init ss) /\ orel rho (st_next s) (ss_next ss).

Record R (rho : env) (st : pstate) (S : b2sem) : Prop := mkR {
  R_sorts : forall k, PM.find k (m_sorts S) = PM.find k (p_types st);
  R_nodes : forall k, orel rho (PM.find k (p_signals st)) (PM.find k (m_nodes S));
  R_smap : forall k, PM.find k (m_statemap S) = PM.find k (p_statemap st);
  R_nin : m_nin S = List.length (p_inputs st);
  R_states : Forall2 (srel rho) (p_states st) (m_states S);
  R_outputs : Forall2 (fun o v => veq rho (snd o) v) (p_outputs st) (m_outputs S);
  R_bads : Forall2 (veq rho) (p_bads st) (m_bads S);
  R_constraints : Forall2 (veq rho) (p_constraints st) (m_constraints S)
}.

(** the valuation of the input/state lines induced by [rho] and the reader's symbols *)
Definition agree (rho : env) (val : b2val) (ins sts : list expr) : Prop :=
  (forall k e, nth_error ins k = Some e -> in_bv val k = ebv rho e /\ forall i, in_arr val k i = earr rho e i) /\
  (forall k e, nth_error sts k = Some e -> st_bv val k = ebv rho e /\ forall i, st_arr val k i = earr rho e i).


(** agreement of a returned (raw) system with the interpreter's final state *)
Definition sys_agrees (rho : env) (sy : sys) (S : b2sem) : Prop :=
  m_nin S = List.length (s_inputs sy) /\
  Forall2 (srel rho) (s_states sy) (m_states S) /\
  Forall2 (fun o v => veq rho (snd o) v) (s_outputs sy) (m_outputs S) /\
  Forall2 (veq rho) (s_bads sy) (m_bads S) /\
  Forall2 (veq rho) (s_constraints sy) (m_constraints S).

(** the valuation of the input and state lines induced by [rho] and the symbols of a system *)
Definition induced_sys (rho : env) (sy : sys) : b2val :=
  {| in_bv := fun k => ebv rho (nth k (s_inputs sy) (BVLiteral 1 0));
     in_arr := fun k => earr rho (nth k (s_inputs sy) (BVLiteral 1 0));
     st_bv := fun k => ebv rho (nth k (map st_sym (s_states sy)) (BVLiteral 1 0));
     st_arr := fun k => earr rho (nth k (map st_sym (s_states sy)) (BVLiteral 1 0)) |}.
