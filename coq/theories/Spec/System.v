(** * Spec/System.v — transition systems and their execution semantics.

    Mirrors patronus/src/system/transition_system.rs: inputs and state symbols are
    symbol expressions; states have optional [init] and [next]; outputs, bad
    states and constraints are expressions.

    Semantics (the mathematical one, against which simulator, model checkers,
    transformations and cones of influence are specified):
    - a valuation is an [env];
    - a valuation is *initial* iff every state with an init expression has the
      value of that expression ([is_initial], equational);
    - a step replaces all states simultaneously by their next-state functions
      evaluated on the current valuation; states without [next] and all inputs
      take arbitrary new values ([next_env], the arbitrary part is the [free]
      argument);
    - an execution satisfies all constraints at every step.

    Executable definitions only. *)

From Patronus Require Export Eval.
Open Scope N_scope.

Record state : Type := { st_sym : expr; st_init : option expr; st_next : option expr }.

Record sys : Type := {
  s_inputs : list expr;
  s_states : list state;
  s_outputs : list (string * expr);
  s_bads : list expr;
  s_constraints : list expr
}.

(** ** valuations *)
Definition upd_bv (rho : env) (n : string) (w v : N) : env :=
  {| rho_bv := fun n' w' => if String.eqb n' n && (w' =? w) then v else rho_bv rho n' w';
     rho_arr := rho_arr rho |}.

Definition upd_arr (rho : env) (n : string) (iw dw : N) (f : N -> N) : env :=
  {| rho_bv := rho_bv rho;
     rho_arr := fun n' iw' dw' => if String.eqb n' n && (iw' =? iw) && (dw' =? dw) then f else rho_arr rho n' iw' dw' |}.

(** give symbol [s] the value that expression [e] has under [src] *)
Definition assign (rho : env) (s : expr) (src : env) (e : expr) : env :=
  match s with
  | BVSymbol n w => upd_bv rho n w (ebv src e)
  | ArraySymbol n iw dw => upd_arr rho n iw dw (earr src e)
  | _ => rho
  end.

(** copy the value of symbol [s] from [src] into [rho] *)
Definition copy_sym (rho : env) (s : expr) (src : env) : env := assign rho s src s.

Definition holds (rho : env) (e : expr) : bool := ebv rho e =? 1.

(** ** initial valuations *)
Definition sym_agrees (rho : env) (s : expr) (src : env) (e : expr) : Prop :=
  match s with
  | BVSymbol n w => rho_bv rho n w = ebv src e
  | ArraySymbol n iw dw => forall i, rho_arr rho n iw dw i = earr src e i
  | _ => True
  end.

Definition is_initial (sy : sys) (rho : env) : Prop :=
  forall st e, In st (s_states sy) -> st_init st = Some e -> sym_agrees rho (st_sym st) rho e.

(** the simulator's initialisation: starting from arbitrary values, evaluate the
    init expressions sequentially in state order over the valuation being updated *)
Definition init_seq (sy : sys) (rho0 : env) : env :=
  fold_left (fun rho st => match st_init st with
                           | Some e => assign rho (st_sym st) rho e
                           | None => rho end) (s_states sy) rho0.

(** ** steps *)
(** the successor valuation: [free] supplies the new inputs and the new values of
    states without a next function *)
Definition next_env (sy : sys) (rho free : env) : env :=
  fold_left (fun acc st => match st_next st with
                           | Some e => assign acc (st_sym st) rho e
                           | None => acc end) (s_states sy) free.

Definition constraints_hold (sy : sys) (rho : env) : bool := forallb (holds rho) (s_constraints sy).
Definition some_bad (sy : sys) (rho : env) : bool := existsb (holds rho) (s_bads sy).

(** ** executions: the valuation at step 0 and the free choices of the later steps *)
Fixpoint run_from (sy : sys) (rho : env) (frees : list env) : list env :=
  match frees with
  | [] => [rho]
  | f :: fs => rho :: run_from sy (next_env sy rho f) fs
  end.

Definition is_execution (sy : sys) (trace : list env) : Prop :=
  exists rho0 frees, trace = run_from sy rho0 frees /\ is_initial sy rho0 /\
                     (forall rho, In rho trace -> env_wf rho) /\
                     forallb (constraints_hold sy) trace = true.

(** some bad state holds at the last step of an execution of at most [k] steps *)
Definition bad_reachable_within (sy : sys) (k : nat) : Prop :=
  exists trace, is_execution sy trace /\ (length trace <= S k)%nat /\
                some_bad sy (last trace {| rho_bv := fun _ _ => 0; rho_arr := fun _ _ _ _ => 0 |}) = true.

Definition bad_reachable (sy : sys) : Prop := exists k, bad_reachable_within sy k.

(** ** syntactic well-formedness of a system *)
Definition is_symbol (e : expr) : bool :=
  match e with BVSymbol _ _ | ArraySymbol _ _ _ => true | _ => false end.

Definition all_exprs (sy : sys) : list expr :=
  s_inputs sy ++ map snd (s_outputs sy) ++ s_bads sy ++ s_constraints sy ++
  flat_map (fun st => st_sym st :: (match st_init st with Some e => [e] | None => [] end)
                                ++ (match st_next st with Some e => [e] | None => [] end)) (s_states sy).

Definition state_ok (st : state) : bool :=
  is_symbol (st_sym st) && wt (st_sym st) &&
  match st_init st with Some e => wt e && ty_eqb (type_of e) (type_of (st_sym st)) | None => true end &&
  match st_next st with Some e => wt e && ty_eqb (type_of e) (type_of (st_sym st)) | None => true end.

Definition bool_expr_ok (e : expr) : bool := wt e && ty_eqb (type_of e) (TBV 1).

Definition sys_ok (sy : sys) : bool :=
  forallb (fun i => is_symbol i && wt i) (s_inputs sy) &&
  forallb state_ok (s_states sy) &&
  forallb (fun o => wt (snd o)) (s_outputs sy) &&
  forallb bool_expr_ok (s_bads sy) &&
  forallb bool_expr_ok (s_constraints sy).
