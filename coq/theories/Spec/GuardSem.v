(** * Spec/GuardSem.v — what guards and value summaries *mean*.

    - a valuation [v : nat -> bool] assigns a truth value to every terminal label;
    - [bdd_eval v g]: the value of guard [g] under [v];
    - [count_true v s]: number of entries of [s] whose guard is true under [v];
      the summary is a partition at [v] iff this is 1;
    - [vs_den v s]: the value selected at [v] (first true entry);
    - [denotes v s x]: some entry is true at [v] and every true entry has value [x]
      (a total function even when true entries overlap);
    - [bsem terms v e]: the truth value of a boolean expression when the terminal
      expressions listed in [terms] are assigned by [v] - the Boolean skeleton
      (literal, not, and, or, xor, implies over boolean operands) over terminals;
    - [tval rho terms]: the valuation induced by an assignment [rho] of the symbols,
      through the SMT-LIB semantics [ebv] of Spec/Eval.v.

    Executable definitions (used by the driver as oracles) and two [Prop]s. *)

From Patronus Require Export ValueSummary.
Open Scope N_scope.

Fixpoint bdd_eval (v : nat -> bool) (g : bdd) : bool :=
  match g with
  | BLeaf b => b
  | BNode x lo hi => if v x then bdd_eval v hi else bdd_eval v lo
  end.

Definition true_entries (v : nat -> bool) (s : summary) : summary :=
  filter (fun e => bdd_eval v (fst e)) s.

Definition count_true (v : nat -> bool) (s : summary) : nat := length (true_entries v s).

Definition vs_den (v : nat -> bool) (s : summary) : option expr :=
  match true_entries v s with
  | e :: _ => Some (snd e)
  | [] => None
  end.

Definition denotes (v : nat -> bool) (s : summary) (x : expr) : Prop :=
  (exists e, In e s /\ bdd_eval v (fst e) = true) /\
  (forall e, In e s -> bdd_eval v (fst e) = true -> snd e = x).

(** the summary is a partition of the valuations: exactly one guard true everywhere *)
Definition partition (s : summary) : Prop := forall v, count_true v s = 1%nat.

(** the summary is a total function of the valuation *)
Definition functional (s : summary) : Prop := forall v, exists x, denotes v s x.

Definition term_val (terms : list expr) (v : nat -> bool) (e : expr) : bool :=
  match index_of e terms with Some i => v i | None => false end.

(** A connective is read as a connective iff all its operands are boolean (for a well-typed
    boolean expression: always); anything else is a terminal. *)
Fixpoint bsem (terms : list expr) (v : nat -> bool) (e : expr) {struct e} : bool :=
  let allb := forallb expr_is_bool (children e) in
  match e with
  | BVLiteral w x => (w =? 1) && (x =? 1)
  | BVNot a _ => if allb then negb (bsem terms v a) else term_val terms v e
  | BVAnd a b _ => if allb then bsem terms v a && bsem terms v b else term_val terms v e
  | BVOr a b _ => if allb then bsem terms v a || bsem terms v b else term_val terms v e
  | BVXor a b _ => if allb then xorb (bsem terms v a) (bsem terms v b) else term_val terms v e
  | BVImplies a b => if allb then implb (bsem terms v a) (bsem terms v b) else term_val terms v e
  | _ => term_val terms v e
  end.

Definition tval (rho : env) (terms : list expr) : nat -> bool :=
  fun i => match nth_error terms i with Some t => ebv rho t =? 1 | None => false end.
