(** * Spec/Script.v — abstract SMT-LIB definition scripts: a strict front end.

    The part of an SMT-LIB 2 script that an unrolling produces is a sequence of
    [declare-const name sort] and [define-fun name () sort body] commands.  Bodies
    are kept as [expr] trees over symbols (the concrete text syntax is the
    subject of C05); a symbol of the script is a *name*: as in SMT-LIB, two
    symbols with the same name and different sorts are the same symbol, so the
    second command that introduces a name is an error, whatever its sort.

    [script_check] is the "reference solver front end": every name is declared
    or defined exactly once, before its first use, every body is well-typed
    ([wt]) and has exactly the declared sort, every symbol occurring in a body
    has the sort it was introduced with.

    [script_eval] is the meaning of the [define-fun]s: starting from a valuation
    of the declared constants, each defined name gets the value of its body.

    Executable definitions only. *)

From Coq Require Import List Bool.
From Patronus Require Export System.
Import ListNotations.
Open Scope N_scope.

Inductive cmd : Type :=
| DeclareConst (name : string) (t : ty)
| DefineFun (name : string) (t : ty) (body : expr).

Definition cmd_name (c : cmd) : string :=
  match c with DeclareConst n _ => n | DefineFun n _ _ => n end.
Definition cmd_ty (c : cmd) : ty :=
  match c with DeclareConst _ t => t | DefineFun _ t _ => t end.

(** the symbol expression of a name at a sort *)
Definition mk_sym (n : string) (t : ty) : expr :=
  match t with TBV w => BVSymbol n w | TArr iw dw => ArraySymbol n iw dw end.

Definition ty_pos (t : ty) : bool :=
  match t with TBV w => 0 <? w | TArr iw dw => (0 <? iw) && (0 <? dw) end.

(** the declaration context: most recent first *)
Definition decls : Type := list (string * ty).

Fixpoint lookup (n : string) (d : decls) : option ty :=
  match d with
  | [] => None
  | (n', t) :: r => if String.eqb n' n then Some t else lookup n r
  end.

Definition declared (n : string) (d : decls) : bool :=
  match lookup n d with Some _ => true | None => false end.

Definition sym_ok (d : decls) (n : string) (t : ty) : bool :=
  match lookup n d with Some t' => ty_eqb t' t | None => false end.

(** every symbol leaf of [e] is in the context, at its sort *)
Fixpoint syms_ok (d : decls) (e : expr) : bool :=
  match e with
  | BVSymbol n w => sym_ok d n (TBV w)
  | ArraySymbol n iw dw => sym_ok d n (TArr iw dw)
  | BVLiteral _ _ => true
  | BVZeroExt e _ _ | BVSignExt e _ _ | BVSlice e _ _ | BVNot e _ | BVNegate e _
  | ArrayConstant e _ _ => syms_ok d e
  | BVEqual a b | BVImplies a b | BVGreater a b | BVGreaterSigned a b _
  | BVGreaterEqual a b | BVGreaterEqualSigned a b _ | BVConcat a b _
  | BVAnd a b _ | BVOr a b _ | BVXor a b _ | BVShiftLeft a b _
  | BVArithmeticShiftRight a b _ | BVShiftRight a b _ | BVAdd a b _ | BVMul a b _
  | BVSignedDiv a b _ | BVUnsignedDiv a b _ | BVSignedMod a b _ | BVSignedRem a b _
  | BVUnsignedRem a b _ | BVSub a b _ | BVArrayRead a b _ | ArrayEqual a b => syms_ok d a && syms_ok d b
  | BVIte a b c | ArrayStore a b c | ArrayIte a b c => syms_ok d a && syms_ok d b && syms_ok d c
  end.

Definition cmd_ok (d : decls) (c : cmd) : bool :=
  match c with
  | DeclareConst n t => negb (declared n d) && ty_pos t
  | DefineFun n t b => negb (declared n d) && ty_pos t && wt b && ty_eqb (type_of b) t && syms_ok d b
  end.

Fixpoint script_check (d : decls) (cs : list cmd) : bool :=
  match cs with
  | [] => true
  | c :: r => cmd_ok d c && script_check ((cmd_name c, cmd_ty c) :: d) r
  end.

(** the first offending command, for diagnostics (same traversal as [script_check]) *)
Fixpoint script_first_bad (d : decls) (cs : list cmd) : option cmd :=
  match cs with
  | [] => None
  | c :: r => if cmd_ok d c then script_first_bad ((cmd_name c, cmd_ty c) :: d) r else Some c
  end.

(** the context after a script *)
Definition script_decls (d : decls) (cs : list cmd) : decls :=
  fold_left (fun d c => (cmd_name c, cmd_ty c) :: d) cs d.

(** meaning of the definitions *)
Fixpoint script_eval (rho : env) (cs : list cmd) : env :=
  match cs with
  | [] => rho
  | DeclareConst _ _ :: r => script_eval rho r
  | DefineFun n t b :: r => script_eval (assign rho (mk_sym n t) rho b) r
  end.
