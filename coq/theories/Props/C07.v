(** * Props/C07.v — The simulator executes exactly the transition-system semantics.

    Only statements, [exact lemma] proofs, [Print Assumptions] and non-vacuity
    examples.  The model of interpreter.rs + SymbolValueStore is [Sim.run]
    (over [EvalImpl.eval_impl], the stack machine of eval.rs); the semantics is
    [SimSpec.spec_run], written with [System.init_seq], [System.next_env],
    [System.upd_bv] and [Eval.eval] only. *)
From Patronus Require Import Sim SimBasics SimStoreProofs SimProofs.
Open Scope N_scope.

(** For every well-formed system ([sim_ok]: well typed, declared symbols
    pairwise different, init/next closed over the declarations and free of the
    unimplemented division operators) and every well-formed history
    ([hist_ok]: starts with an initialisation; sets declared bit-vector symbols
    with values of their width; reads well-typed closed expressions; restores
    snapshots that were taken) the simulator does not crash and every
    observation - every value read, every step count, every snapshot id - is
    the one the semantics prescribes; at the end the store denotes the current
    valuation of the semantics. *)
Theorem C07_sim_refines_semantics :
  forall (sy : sys) (h : list op),
    sim_ok sy = true -> hist_ok sy h = true ->
    exists s outs,
      run sy sim0 h = Done (s, outs) /\
      Forall2 obs_match outs (snd (spec_run sy sstate0 h)) /\
      env_eq (env_of (data s)) (cur (fst (spec_run sy sstate0 h))) /\
      steps s = cnt (fst (spec_run sy sstate0 h)).
Proof. exact sim_refines_semantics_lemma. Qed.
Print Assumptions C07_sim_refines_semantics.

(** Non-vacuity: a system with an array state, an init expression that reads
    an earlier state, a state without next and one without init; a history with
    random initialisation, set, step, snapshot, restore and reads. *)
Definition ex_sys : sys :=
  {| s_inputs := [BVSymbol "i" 4];
     s_states :=
       [ {| st_sym := BVSymbol "a" 4; st_init := Some (BVLiteral 4 3);
            st_next := Some (BVAdd (BVSymbol "a" 4) (BVSymbol "i" 4) 4) |};
         {| st_sym := BVSymbol "b" 4; st_init := Some (BVAdd (BVSymbol "a" 4) (BVLiteral 4 1) 4);
            st_next := Some (BVSymbol "a" 4) |};
         {| st_sym := ArraySymbol "m" 2 4; st_init := None;
            st_next := Some (ArrayStore (ArraySymbol "m" 2 4) (BVLiteral 2 1) (BVSymbol "b" 4)) |};
         {| st_sym := BVSymbol "c" 70; st_init := Some (BVLiteral 70 (2 ^ 69)); st_next := None |} ];
     s_outputs := []; s_bads := []; s_constraints := [] |}.

Definition ex_hist : list op :=
  [ OInit (KRandom (fun _ => (9, fun i => i + 1)));
    OSet (BVSymbol "i" 4) 4 5; OSnapshot; OStep; OStep;
    OGet (BVSymbol "a" 4); OGet (BVSymbol "b" 4);
    OGet (BVArrayRead (ArraySymbol "m" 2 4) (BVLiteral 2 1) 4);
    ORestore 0; OGet (BVSymbol "a" 4); OCount ].

Example C07_example :
  sim_ok ex_sys = true /\ hist_ok ex_sys ex_hist = true /\
  match run ex_sys sim0 ex_hist with
  | Done (_, outs) =>
      map (fun b => match b with OVal (SBV w v) => Some (w, v) | ONum n => Some (0, n) | _ => None end) outs
  | _ => []
  end = [None; None; Some (0, 0); None; None; Some (4, 13); Some (4, 8); Some (4, 3); None; Some (4, 3); Some (0, 2)].
Proof. vm_compute. repeat split. Qed.
