(** * Props/C07.v — The simulator executes exactly the transition-system semantics.

    Only statements, [exact lemma] proofs, [Print Assumptions] and non-vacuity
    examples.  The model of interpreter.rs + SymbolValueStore is [Sim.run] /
    [Sim.exec] (over [EvalImpl.eval_impl], the stack machine of eval.rs); the
    semantics is [SimSpec.spec_run], written with [System.init_seq],
    [System.next_env], [System.upd_bv] and [Eval.eval] only. *)
From Patronus Require Import Sim SimBasics SimStoreProofs SimProofs SimInitProofs SimReplayProofs SimCanonProofs SimExamples.
Open Scope N_scope.

(** For every well-formed system ([sim_ok]: well typed, declared symbols
    pairwise different, init/next closed over the declarations and free of the
    unimplemented division operators) and every well-formed history
    ([hist_ok]: starts with an initialisation; sets declared bit-vector symbols
    with values of their width; reads well-typed closed expressions; restores
    snapshots that were taken) the simulator does not crash and every
    observation - every value read, every step count, every snapshot id - is
    the one the semantics prescribes; at the end the store denotes the current
    valuation of the semantics. *)
Theorem C07_sim_refines_semantics :
  forall (sy : sys) (h : list op),
    sim_ok sy = true -> hist_ok sy h = true ->
    exists s outs,
      run sy sim0 h = Done (s, outs) /\
      Forall2 obs_match outs (snd (spec_run sy sstate0 h)) /\
      env_eq (env_of (data s)) (cur (fst (spec_run sy sstate0 h))) /\
      steps s = cnt (fst (spec_run sy sstate0 h)).
Proof. exact sim_refines_semantics_lemma. Qed.
Print Assumptions C07_sim_refines_semantics.

Example C07_example :
  sim_ok ex_sys = true /\ hist_ok ex_sys ex_hist = true /\
  outs_of (run ex_sys sim0 ex_hist) =
    [None; None; Some (0, 0); None; None; Some (4, 13); Some (4, 8); Some (4, 3); None; Some (4, 3); Some (0, 2)].
Proof. vm_compute. repeat split. Qed.

(** Initialisation, from any simulator state: the store holds exactly the
    declared symbols, it denotes [init_seq] of the generated values, snapshots
    and step count are untouched; and that valuation is an initial valuation of
    the system ([is_initial]: every state with an init expression has the value
    of that expression) whenever no init expression mentions its own state or a
    later one. *)
Theorem C07_init_establishes :
  forall (sy : sys) (s0 : sim) (k : init_kind), sim_ok sy = true ->
    exists st,
      exec sy s0 (OInit k) = Done ({| data := st; snaps := snaps s0; steps := steps s0 |}, ONone) /\
      store_ok (decls sy) st /\
      env_eq (env_of st) (init_seq sy (oracle_env sy k)) /\
      (inits_read_earlier (s_states sy) = true -> is_initial sy (env_of st)).
Proof. exact init_establishes_lemma. Qed.
Print Assumptions C07_init_establishes.

(** The specification-level fact behind it, for arbitrary starting values. *)
Theorem C07_init_seq_initial :
  forall (sy : sys) (rho0 : env),
    NoDup (map st_sym (s_states sy)) -> inits_read_earlier (s_states sy) = true ->
    is_initial sy (init_seq sy rho0).
Proof. exact init_seq_initial. Qed.
Print Assumptions C07_init_seq_initial.

Example C07_init_example :
  sim_ok ex_sys = true /\ inits_read_earlier (s_states ex_sys) = true /\
  outs_of (run ex_sys sim0 [ex_init; OGet (BVSymbol "a" 4); OGet (BVSymbol "b" 4); OGet (BVSymbol "i" 4)]) =
    [None; Some (4, 3); Some (4, 4); Some (4, 9)].
Proof. vm_compute. repeat split. Qed.

(** Snapshots are independent copies.  Take a snapshot and continue with [h];
    then do anything ([h2]: steps, sets, re-initialisation, further snapshots
    and restores).  Restoring the snapshot then succeeds, brings back exactly
    the values held when it was taken (whatever happened in between), leaves the
    step count and the list of snapshots alone, and the continuation [h] -
    with the ids of snapshots it takes itself renumbered by [shift_op] - reads
    the values it read the first time and ends with the same values.
    No hypothesis on the system or on the operations: this holds for every
    history on which the model does not crash. *)
Theorem C07_restore_replays :
  forall (sy : sys) (s0 : sim) (h h2 : list op) (sA : sim) (outsA : list obs) (sB : sim) (outsB : list obs),
    run sy s0 (OSnapshot :: h) = Done (sA, outsA) ->
    run sy sA h2 = Done (sB, outsB) ->
    let id := N.of_nat (length (snaps s0)) in
    let delta := N.of_nat (length (snaps sB)) - (id + 1) in
    hd ONone outsA = ONum id /\
    exists s2,
      exec sy sB (ORestore id) = Done (s2, ONone) /\
      data s2 = data s0 /\
      steps s2 = steps sB /\ snaps s2 = snaps sB /\
      exists sC outsC,
        run sy s2 (map (shift_op (id + 1) delta) h) = Done (sC, outsC) /\
        Forall2 obs_sim (tl outsA) outsC /\
        data sC = data sA.
Proof. exact restore_replays_lemma. Qed.
Print Assumptions C07_restore_replays.

Example C07_restore_example :
  let s0 := state_of (run ex_sys sim0 [ex_init; OSnapshot; OStep]) in
  let rA := run ex_sys s0 (OSnapshot :: ex_cont) in
  let rB := run ex_sys (state_of rA) ex_between in
  is_done rA = true /\ is_done rB = true /\
  outs_of rA = [Some (0, 1); None; Some (4, 5); Some (0, 2); None; None; None; Some (4, 12)] /\
  outs_of (run ex_sys (state_of rB) (ORestore 1 :: map (shift_op 2 2) ex_cont)) =
    [None; None; Some (4, 5); Some (0, 4); None; None; None; Some (4, 12)].
Proof. vm_compute. repeat split. Qed.

(** [step_count] is the number of [Step] operations executed: it is not reset by
    [init] and not restored by [restore_snapshot]. *)
Theorem C07_step_count :
  forall (sy : sys) (h : list op) (s s' : sim) (outs : list obs),
    run sy s h = Done (s', outs) -> steps s' = steps s + N.of_nat (count_steps h).
Proof. exact step_count_lemma. Qed.
Print Assumptions C07_step_count.

(** Every value read is the canonical representative of its width ([v < 2^w];
    every array element below [2^dw]), provided the generated initial values
    and the values set are of the width of their symbol ([op_canon]). *)
Theorem C07_values_canonical :
  forall (sy : sys) (h : list op),
    sim_ok sy = true -> hist_ok sy h = true -> Forall (op_canon sy) h ->
    exists s outs, run sy sim0 h = Done (s, outs) /\ Forall obs_canon outs.
Proof. exact values_canonical_lemma. Qed.
Print Assumptions C07_values_canonical.

Example C07_canonical_example :
  sim_ok ex_sys = true /\ hist_ok ex_sys ex_hist_canon = true /\ Forall (op_canon ex_sys) ex_hist_canon.
Proof. exact ex_canon_ok. Qed.
