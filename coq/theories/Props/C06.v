(** * Props/C06.v — Concrete evaluation follows SMT-LIB bit-vector and array semantics.

    Only statements, [exact lemma] proofs, [Print Assumptions] and non-vacuity
    examples.  The model of eval.rs is [EvalImpl.eval_impl] (explicit-stack
    machine); the SMT-LIB semantics is [Eval.ebv]/[Eval.earr]; [cbv]/[carr] is
    that semantics with provided inner expressions cut off. *)
From Patronus Require Import EvalImpl EvalProofs EvalImplProofs.
Open Scope N_scope.

(** The machine halts, without panic, with exactly one value: the value of the
    specification in which each provided inner expression is replaced by its
    provided value (short circuit).  Domain: well-typed, no division/remainder
    node reachable, every reachable symbol provided ([covered]). *)
Theorem C06_machine_correct :
  forall (p : provider) (rho : env), provider_ok p ->
  forall (e : expr), wt e = true -> covered p e = true ->
    eval_impl p e =
      match type_of e with
      | TBV w => RBV w (cbv p rho e)
      | TArr iw dw => RArr iw dw (carr p rho e)
      end.
Proof. exact machine_correct_lemma. Qed.
Print Assumptions C06_machine_correct.

(** Under a plain symbol assignment the cut-off semantics is the SMT-LIB semantics. *)
Theorem C06_cut_is_eval :
  forall (rho : env) (e : expr),
    cbv (sym_provider rho) rho e = ebv rho e /\ carr (sym_provider rho) rho e = earr rho e.
Proof. exact cut_sym. Qed.
Print Assumptions C06_cut_is_eval.

(** Results are the canonical representative of their width: [v < 2^w], so they
    compare equal to, and intern as, the canonical literal. *)
Theorem C06_eval_canonical :
  forall (rho : env), env_wf rho -> forall (e : expr), wt e = true ->
    (forall w, type_of e = TBV w -> ebv rho e < 2 ^ w) /\
    (forall iw dw, type_of e = TArr iw dw -> forall i, earr rho e i < 2 ^ dw).
Proof. exact eval_bounds. Qed.
Print Assumptions C06_eval_canonical.

(** Non-vacuity: a concrete 129-bit expression with an array read, a cut-off and
    a shift by more than the width meets all hypotheses, and the machine runs. *)
Example C06_example :
  let rho := {| rho_bv := fun _ _ => 5; rho_arr := fun _ _ _ _ => 3 |} in
  let e := BVShiftLeft (BVAdd (BVSymbol "x" 129) (BVArrayRead (ArraySymbol "m" 4 129) (BVLiteral 4 7) 129) 129)
                       (BVLiteral 129 (2 ^ 70)) 129 in
  wt e = true /\ covered (sym_provider rho) e = true /\ eval_impl (sym_provider rho) e = RBV 129 0.
Proof. vm_compute. repeat split. Qed.
