(** * Props/C18.v — The btor2 reader rejects bad input cleanly and only accepts well-typed systems.

    Model: [Btor2Parse.parse_text dbg text] (three-way result, [dbg] = debug assertions and
    overflow checks on).  Only statements, [exact lemma] proofs, [Print Assumptions], examples. *)
From Coq Require Import List String NArith Bool.
From Patronus Require Import Btor2Parse Btor2Witness.
Import ListNotations.
Open Scope N_scope.

(** The full robustness statement
      [forall dbg text, supported_text text = true -> forall k, parse_text dbg text <> PPanic k]
    is FALSE of the faithful model (and of the code): every entry of [crash_witnesses] uses only
    supported operators and makes the reader panic. *)
Theorem C18_no_crash_refuted :
  Forall (fun w => let '(dbg, text, k) := w in
                   supported_text text = true /\ parse_text dbg text = PPanic k) crash_witnesses.
Proof. exact crash_witnesses_panic. Qed.
Print Assumptions C18_no_crash_refuted.

(** The full acceptance statement
      [forall dbg text sy, parse_text dbg text = POk sy -> sys_ok sy = true]
    is FALSE as well: bad/constraint lines are not width-checked, zero-width array sorts are
    accepted, and without overflow checks extension/concat widths wrap around. *)
Theorem C18_accepted_ok_refuted : forallb accepted_not_ok accept_witnesses = true.
Proof. exact accept_witnesses_not_ok. Qed.
Print Assumptions C18_accepted_ok_refuted.
