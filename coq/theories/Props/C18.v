(** * Props/C18.v — The btor2 reader rejects bad input cleanly and only accepts well-typed systems.

    Model: [Btor2Parse.parse_text dbg text] — three-way result [POk sys | PErr | PPanic kind];
    [dbg = true] models a build with debug assertions and overflow checks, [dbg = false] a
    release build.  Only statements, [exact lemma] proofs, [Print Assumptions], examples.

    The two full statements of the property
      (1) forall dbg text, supported text = true -> forall k, parse_text dbg text <> PPanic k
      (2) forall dbg text sy, parse_text dbg text = POk sy -> sys_ok sy = true /\ sys_closed sy
    are FALSE of the faithful model and of the code ([C18_no_crash_refuted],
    [C18_accepted_ok_refuted]; every witness is reproduced against the real parse_str by the
    harness and recorded in known_findings.txt).  What holds is proved for all texts outside an
    explicitly defined known class:
      [known_class text]          some line violates [Btor2Parse.line_pre] (operand kinds, equal
                                  operand widths, ordered slice bounds, widths < 2^32, value token on
                                  constant lines, no zero-width sort in use, digit strings baa's
                                  >128-bit reader can take) in the state in which it is processed;
      [declares_zero_width text]  some line is [sort bitvec 0];
      [props_1bit sy = false]     a bad state or constraint is not one bit wide. *)
From Coq Require Import List String NArith Bool.
From Patronus Require Import SysClosed Btor2Parse Btor2Witness Btor2ParseProofs Btor2Refine Btor2NoCrash Btor2Fix Btor2FinalSpec Btor2Final.
Import ListNotations.
Open Scope N_scope.

(** (1) is false: each witness uses only supported operators and makes the reader panic. *)
Theorem C18_no_crash_refuted :
  Forall (fun w => let '(dbg, text, k) := w in
                   supported_text text = true /\ parse_text dbg text = PPanic k) crash_witnesses.
Proof. exact crash_witnesses_panic. Qed.
Print Assumptions C18_no_crash_refuted.

(** (2) is false: bad/constraint lines are not width-checked, zero-width array sorts are
    accepted, and without overflow checks extension/concat widths wrap around. *)
Theorem C18_accepted_ok_refuted : forallb accepted_not_ok accept_witnesses = true.
Proof. exact accept_witnesses_not_ok. Qed.
Print Assumptions C18_accepted_ok_refuted.

(** no crash outside the known class: all texts, both build profiles *)
Theorem C18_no_crash_outside_known :
  forall text, supported text = true -> known_class text = false ->
  forall dbg k, parse_text dbg text <> PPanic k.
Proof. exact text_no_crash. Qed.
Print Assumptions C18_no_crash_outside_known.

(** accepted implies well typed (debug build): every expression of the returned system is [wt],
    inputs and state symbols are symbols, init/next have their state's type, and every symbol
    that occurs is a declared input or state; [sys_ok_weak] is [sys_ok] minus the 1-bit
    requirement on bads/constraints, which the reader does not check *)
Theorem C18_accepted_well_typed :
  forall text sy, declares_zero_width text = false -> parse_text true text = POk sy ->
  sys_ok_weak sy = true /\ sys_closed sy.
Proof. exact text_accepted_debug. Qed.
Print Assumptions C18_accepted_well_typed.

(** a release build returns exactly what the debug build returns whenever the latter does not panic *)
Theorem C18_release_equals_debug :
  forall text, (forall k, parse_text true text <> PPanic k) -> parse_text false text = parse_text true text.
Proof. exact text_release_equals_debug. Qed.
Print Assumptions C18_release_equals_debug.

(** the acceptance half of the property outside the known classes, both profiles *)
Theorem C18_accepted_outside_known :
  forall text, supported text = true -> known_class text = false -> declares_zero_width text = false ->
  forall dbg sy, parse_text dbg text = POk sy ->
    sys_ok_weak sy = true /\ sys_closed sy /\ (props_1bit sy = true -> sys_ok sy = true).
Proof. exact text_accepted_outside_known. Qed.
Print Assumptions C18_accepted_outside_known.

(** ** the repaired reader ([Fix] = the shipped reader plus the checks of patches/000N-fix-btor2-*.diff:
    a line that violates [line_pre], declares [sort bitvec 0], or is a bad/constraint over a node that is
    not Boolean is reported as an error).  For it both halves of the property hold without exceptions. *)

(** no crash: ANY text over the supported operators, both build profiles *)
Theorem C18_no_crash_fix :
  forall text, supported text = true -> forall dbg k, parse_text_v Fix dbg text <> PPanic k.
Proof. exact text_no_crash_fix. Qed.
Print Assumptions C18_no_crash_fix.

(** accepted implies the FULL [sys_ok] (every expression well typed, init/next typed like their state,
    bads and constraints one bit wide) and closed, both build profiles *)
Theorem C18_accepted_well_typed_fix :
  forall text dbg sy, supported text = true -> parse_text_v Fix dbg text = POk sy ->
    sys_ok sy = true /\ sys_closed sy.
Proof. exact text_accepted_ok_fix. Qed.
Print Assumptions C18_accepted_well_typed_fix.

(** the same two statements for [Fix2] ([Fix] + patches/0009: uext/sext of an array is an error whatever the amount) *)
Theorem C18_no_crash_fix2 :
  forall text, supported text = true -> forall dbg k, parse_text_v Fix2 dbg text <> PPanic k.
Proof. exact text_no_crash_fix2. Qed.
Print Assumptions C18_no_crash_fix2.

Theorem C18_accepted_well_typed_fix2 :
  forall text dbg sy, supported text = true -> parse_text_v Fix2 dbg text = POk sy ->
    sys_ok sy = true /\ sys_closed sy.
Proof. exact text_accepted_ok_fix2. Qed.
Print Assumptions C18_accepted_well_typed_fix2.

(** Non-vacuity: a file with an array state initialised from a bit-vector, negated operands, a
    slice, an extension, a 129-bit decimal constant and a renamed state is outside every known
    class, is accepted in both profiles, and the accepted system satisfies the full [sys_ok]. *)
Definition example_text : string :=
  text_of ["1 sort bitvec 8"; "2 sort bitvec 1"; "3 sort array 1 1"; "4 sort bitvec 129";
           "5 input 1 a"; "6 state 1 s"; "7 state 3 mem"; "8 zero 1"; "9 init 3 7 8";
           "10 add 1 5 -6"; "11 next 1 6 10 ; comment"; "12 read 1 7 6"; "13 write 3 7 -5 12";
           "14 next 3 7 13"; "15 slice 2 10 7 7"; "16 uext 1 6 0 better_name"; "17 constd 4 -340282366920938463463374607431768211457";
           "18 redor 2 17"; "19 and 2 15 -18"; "20 bad 19"; "21 ult 2 5 6"; "22 constraint 21"; "23 output 12 o"]%string.

Example C18_example :
  supported example_text = true /\ known_class example_text = false /\ declares_zero_width example_text = false /\
  (exists sy, parse_text true example_text = POk sy /\ parse_text false example_text = POk sy /\
              parse_text_v Fix true example_text = POk sy /\ parse_text_v Fix false example_text = POk sy /\
              props_1bit sy = true /\ sys_ok sy = true /\ List.length (s_states sy) = 2%nat).
Proof. vm_compute. repeat split. eexists. repeat split. Qed.

(** the repaired reader turns every crash witness and every accept witness of the shipped reader into a clean rejection *)
Example C18_witnesses_rejected_by_fix :
  forallb (fun w => let '(dbg, text, _) := w in
                    match parse_text_v Fix dbg text with PErr => true | _ => false end) crash_witnesses = true /\
  forallb (fun w => match parse_text_v Fix (fst w) (snd w) with PErr => true | _ => false end) accept_witnesses = true.
Proof. vm_compute. split; reflexivity. Qed.

(** ** THE FINAL SYSTEM, spelled out.  [parse_text_v v dbg text] IS the system [parse_str] returns: the raw
    system after [improve_state_names] and after the demotion of states without init and next to inputs
    ([parse_lines_v = demote (rename_sys ren raw)]).  [final_well_typed fin] (Spec/Btor2FinalSpec.v):
    every expression of the final system type-checks; inputs and state symbols are symbols; every remaining
    state has an init or a next, and both have the state's type; bad states and constraints are one bit wide;
    every symbol that occurs in any expression is an input or a state symbol OF THE FINAL SYSTEM; and the
    declared symbols have pairwise different names.  Reader of /repo ([Fix]) and [Fix2], both build profiles. *)
Theorem C18_final_accepted_well_typed :
  forall v text dbg fin, is_fix v = true -> supported text = true ->
    parse_text_v v dbg text = POk fin -> final_well_typed fin.
Proof. exact text_final_well_typed. Qed.
Print Assumptions C18_final_accepted_well_typed.

(** where demotion matters for closedness: a state of the raw system without init and next is (renamed) among the
    INPUTS of the final system and not among its states; every other state is (renamed) among the states.
    Any text, any reader variant, any build profile. *)
Theorem C18_demoted_among_inputs :
  forall v dbg ls sy ren s,
    parse_raw_v v dbg ls = POk (sy, ren) -> In s (s_states sy) ->
    let fin := demote (rename_sys ren sy) in
    (is_plain s = true -> In (rename ren (st_sym s)) (s_inputs fin) /\ ~ In (rename ren (st_sym s)) (map st_sym (s_states fin))) /\
    (is_plain s = false -> In (rename_state ren s) (s_states fin)).
Proof. exact demoted_among_inputs. Qed.
Print Assumptions C18_demoted_among_inputs.

(** Non-vacuity: a text with a demoted state that is read by the next function of another state, by a bad state
    and by an output, renamed through an alias with a [$], and a second demoted state labelled like an input. *)
Definition final_example_text : string :=
  text_of ["1 sort bitvec 8"; "2 sort bitvec 1"; "3 input 1 a"; "4 state 1 d"; "5 state 1 s"; "6 state 1 a";
           "7 add 1 3 4"; "8 next 1 5 7"; "9 output 4 o"; "10 uext 1 4 0 nice$name"; "11 eq 2 5 6"; "12 bad 11";
           "13 uext 1 5 0 better"; "14 init 1 5 -4"]%string.

Example C18_final_example :
  supported final_example_text = true /\
  match parse_text_v Fix true final_example_text, parse_text_v Fix false final_example_text with
  | POk fin, POk fin' =>
      String.eqb (String.concat "," (map sym_name (s_inputs fin))) "a,nice_name,a_0" &&
      String.eqb (String.concat "," (map (fun s => sym_name (st_sym s)) (s_states fin))) "better" &&
      String.eqb (String.concat "," (map sym_name (s_inputs fin'))) "a,nice_name,a_0" &&
      sys_ok fin && (List.length (s_states fin') =? 1)%nat
  | _, _ => false
  end = true.
Proof. vm_compute. split; reflexivity. Qed.
