(** * Props/C01.v — Simplification never changes the meaning or type of an expression.

    The model of simplify.rs / transform.rs is [Simplify.simplify] (one rule application on a
    node with replaced children), [Simplify.rebuild] ([update_expr_children]) and
    [Simplify.simp] (the fixed-point driver).  Semantics: [Eval.ebv]/[Eval.earr].
    The system-wide statement is C11's. *)
From Patronus Require Import Simplify SimplifyBuilders SimplifyProofs.
Open Scope N_scope.

(** Every rewrite rule: on a well-typed node, whatever the dispatcher returns is well-typed,
    has the node's type, and denotes the same value under every well-formed environment. *)
Theorem C01_rule_sound :
  forall (e r : expr), wt e = true -> simplify e (children e) = Ok (Some r) ->
    wt r = true /\ type_of r = type_of e /\
    forall rho, env_wf rho -> ebv rho r = ebv rho e /\ forall i, earr rho r i = earr rho e i.
Proof. exact simplify_sound. Qed.
Print Assumptions C01_rule_sound.

(** Rebuilding a node from equivalent, equally typed children gives an equivalent, equally
    typed node (and it is the node the dispatcher is applied to). *)
Theorem C01_rebuild_sound :
  forall (e : expr) (cs : list expr), wt e = true -> Forall2 ok_rw (children e) cs ->
    ok_rw e (rebuild e cs) /\ children (rebuild e cs) = cs /\ simplify e cs = simplify (rebuild e cs) cs.
Proof. exact rebuild_ok. Qed.
Print Assumptions C01_rebuild_sound.

(** The whole simplifier: for every fuel, every well-typed expression (all operators, all
    widths, arrays and div/rem passing through), if the driver returns [r] then [r] is
    well-typed throughout, has the same type and the same value under every assignment. *)
Theorem C01_simp_sound :
  forall (fuel : nat) (e r : expr), wt e = true -> simp fuel e = SOk r ->
    wt r = true /\ type_of r = type_of e /\
    forall rho, env_wf rho -> ebv rho r = ebv rho e /\ forall i, earr rho r i = earr rho e i.
Proof. exact simp_sound. Qed.
Print Assumptions C01_simp_sound.

(** Non-vacuity: a 129-bit mask expression and a shift by 2^32 are well-typed, the driver
    returns a result for them, and the result differs from the input. *)
Example C01_example_mask :
  let x := BVSymbol "x" 129 in
  let e := BVAnd x (BVLiteral 129 (2 ^ 128 + 2 ^ 70 - 2 ^ 3)) 129 in
  wt e = true /\ exists r, simp_default e = SOk r /\ expr_eqb r e = false.
Proof. vm_compute. split; [reflexivity|]. eexists. split; reflexivity. Qed.

Example C01_example_shift :
  let x := BVSymbol "x" 40 in
  let e := BVShiftLeft x (BVLiteral 40 (2 ^ 32)) 40 in
  wt e = true /\ simp_default e = SOk (BVLiteral 40 0).
Proof. vm_compute. split; reflexivity. Qed.
