(** * Props/C03.v — Every reported counterexample is a real execution that hits a bad state.

    [Witness.witness_ok sy w] (Spec/Witness.v): the witness names and orders states
    and inputs as the system does and gives each a value of its type at every
    step; the valuation of step 0 is initial; for SOME choice of the values of the
    states without next function at the later steps (the witness format has no
    place for them) the run of [Spec/System.v] through the witness' inputs
    satisfies all constraints at every step, and at its last step the bad states
    that hold are exactly those the witness lists, at least one.

    [Witness.check_witness] is the executable checker applied to every
    [Fail(witness)] the real [patronus::mc::bmc] returns. *)
From Coq Require Import List.
From Patronus Require Import SysExec ReachSpec Witness WitnessProofs.
Import ListNotations.
Open Scope N_scope.

(** check_witness_correct: the checker decides [witness_ok], for all well-formed
    systems and all witnesses. *)
Theorem C03_check_witness_correct :
  forall (sy : sys), sys_wf sy = true -> nodup_exprs (s_inputs sy) = true ->
  forall (w : witness), check_witness sy w = true <-> witness_ok sy w.
Proof. exact check_witness_correct. Qed.
Print Assumptions C03_check_witness_correct.

(** A witness accepted by the checker exhibits a bad state within its length:
    (with [bmc_spec_exact] this ties C03 to C02: the reference cannot answer
    "unreachable" at a depth for which an accepted witness exists). *)
Theorem C03_accepted_witness_is_execution :
  forall (sy : sys), sys_wf sy = true -> nodup_exprs (s_inputs sy) = true ->
  forall (w : witness), check_witness sy w = true ->
    exists frees : list env,
      is_initial_r sy (witness_env0 sy w) /\
      length frees = length (tl (w_inputs w)) /\
      forallb (constraints_hold sy) (run_from sy (witness_env0 sy w) frees) = true /\
      some_bad sy (last (run_from sy (witness_env0 sy w) frees) env0) = true.
Proof. exact accepted_witness_execution. Qed.
Print Assumptions C03_accepted_witness_is_execution.

(** Non-vacuity: a two-step witness of the counter system, and a wrong one. *)
Example C03_example :
  let c := BVSymbol "c" 2 in
  let en := BVSymbol "en" 1 in
  let sy := {| s_inputs := [en];
               s_states := [ {| st_sym := c; st_init := Some (BVLiteral 2 0);
                                st_next := Some (BVAdd c (BVZeroExt en 1 2) 2) |} ];
               s_outputs := []; s_bads := [BVEqual c (BVLiteral 2 1)]; s_constraints := [] |} in
  let w := {| w_init := [Some (VB 0)]; w_init_names := [Some "c"%string];
              w_inputs := [[Some (VB 1)]; [Some (VB 0)]]; w_input_names := [Some "en"%string];
              w_failed := [0] |} in
  let w_bad := {| w_init := [Some (VB 0)]; w_init_names := [Some "c"%string];
                  w_inputs := [[Some (VB 0)]; [Some (VB 0)]]; w_input_names := [Some "en"%string];
                  w_failed := [0] |} in
  sys_wf sy = true /\ check_witness sy w = true /\ check_witness sy w_bad = false.
Proof. vm_compute. repeat split. Qed.
