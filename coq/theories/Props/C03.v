(** * Props/C03.v — Every reported counterexample is a real execution that hits a bad state.

    [Witness.witness_ok sy w] (Spec/Witness.v): the witness names and orders states
    and inputs as the system does and gives each a value of its type at every
    step; the valuation of step 0 is initial; for SOME choice of the values of the
    states without next function at the later steps (the witness format has no
    place for them) the run of [Spec/System.v] through the witness' inputs
    satisfies all constraints at every step, and at its last step the bad states
    that hold are exactly those the witness lists, at least one.

    [Witness.check_witness] is the executable checker applied to every
    [Fail(witness)] the real [patronus::mc::bmc] returns. *)
From Coq Require Import List.
From Patronus Require Import SysExec ReachSpec Witness WitnessProofs.
Import ListNotations.
Open Scope N_scope.

(** check_witness_correct: the checker decides [witness_ok], for all well-formed
    systems and all witnesses. *)
Theorem C03_check_witness_correct :
  forall (sy : sys), sys_wf sy = true -> nodup_exprs (s_inputs sy) = true ->
  forall (w : witness), check_witness sy w = true <-> witness_ok sy w.
Proof. exact check_witness_correct. Qed.
Print Assumptions C03_check_witness_correct.

(** A witness accepted by the checker exhibits a bad state within its length:
    (with [bmc_spec_exact] this ties C03 to C02: the reference cannot answer
    "unreachable" at a depth for which an accepted witness exists). *)
Theorem C03_accepted_witness_is_execution :
  forall (sy : sys), sys_wf sy = true -> nodup_exprs (s_inputs sy) = true ->
  forall (w : witness), check_witness sy w = true ->
    exists frees : list env,
      is_initial_r sy (witness_env0 sy w) /\
      length frees = length (tl (w_inputs w)) /\
      forallb (constraints_hold sy) (run_from sy (witness_env0 sy w) frees) = true /\
      some_bad sy (last (run_from sy (witness_env0 sy w) frees) env0) = true.
Proof. exact accepted_witness_execution. Qed.
Print Assumptions C03_accepted_witness_is_execution.

(** Non-vacuity: a two-step witness of the counter system, and a wrong one. *)
Example C03_example :
  let c := BVSymbol "c" 2 in
  let en := BVSymbol "en" 1 in
  let sy := {| s_inputs := [en];
               s_states := [ {| st_sym := c; st_init := Some (BVLiteral 2 0);
                                st_next := Some (BVAdd c (BVZeroExt en 1 2) 2) |} ];
               s_outputs := []; s_bads := [BVEqual c (BVLiteral 2 1)]; s_constraints := [] |} in
  let w := {| w_init := [Some (VB 0)]; w_init_names := [Some "c"%string];
              w_inputs := [[Some (VB 1)]; [Some (VB 0)]]; w_input_names := [Some "en"%string];
              w_failed := [0] |} in
  let w_bad := {| w_init := [Some (VB 0)]; w_init_names := [Some "c"%string];
                  w_inputs := [[Some (VB 0)]; [Some (VB 0)]]; w_input_names := [Some "en"%string];
                  w_failed := [0] |} in
  sys_wf sy = true /\ check_witness sy w = true /\ check_witness sy w_bad = false.
Proof. vm_compute. repeat split. Qed.

(** ** the witness extraction itself ([get_witness] of bmc.rs)

    Model/BmcWit.v: [bmc_model_w] is the loop of bmc.rs with the encoding of /repo ([init_at3], then
    [unroll Fixed]) over an abstract solver that answers a query with [Some model] ("sat") or [None];
    on "sat" at step [k] it returns [WFail k (get_witness ..)]: the values the model - extended by the
    definitions of the script, as (get-value) does - gives to the step-[k] symbols of the bad states
    ([failed]), to the step-0 symbols of the states ([init]) and to the step symbols of the inputs at
    the steps [0..k] ([inputs]).

    For EVERY solver whose "sat" answers come with a model of the query ([is_model]: a well-formed
    valuation of the declared symbols under which all assertions and assumptions hold), every system
    in the domain of [C04_script3_wf] with pairwise distinct inputs, every bound and both checking
    modes: a returned witness is accepted by [check_witness] and has [k + 1] steps ... *)
From Patronus Require Import Encoding EncodingOrder Bmc BmcWit BmcProofs BmcWitProofs.
Theorem C03_bmc_witness_accepted :
  forall (solver_model : list cmd -> list expr -> list expr -> option env),
    (forall sc asserts assumps sigma0,
        solver_model sc asserts assumps = Some sigma0 -> is_model sc asserts assumps sigma0) ->
    forall (sy : sys) (nm : expr -> string) (k_max : nat) (individually : bool) (k : N) (w : witness),
      sys_wf sy = true -> nodup_exprs (s_inputs sy) = true ->
      names_ok (enc_new sy nm) = true -> init_deps_acyclic sy ->
      bmc_model_w solver_model sy nm individually k_max = WFail k w ->
      check_witness sy w = true /\
      exists j, k = N.of_nat j /\ (j <= k_max)%nat /\ length (w_inputs w) = S j.
Proof. exact bmc_witness_ok. Qed.
Print Assumptions C03_bmc_witness_accepted.

(** ... hence it is a real counterexample: its step-0 valuation is initial, and for some choice of the
    values of the states without next function the run through its inputs has exactly [k] steps
    ([k <= k_max]), satisfies all constraints at every step and ends in a bad state - the bad states
    that hold there are exactly the reported ones. *)
Theorem C03_bmc_witness_is_execution :
  forall (solver_model : list cmd -> list expr -> list expr -> option env),
    (forall sc asserts assumps sigma0,
        solver_model sc asserts assumps = Some sigma0 -> is_model sc asserts assumps sigma0) ->
    forall (sy : sys) (nm : expr -> string) (k_max : nat) (individually : bool) (k : N) (w : witness),
      sys_wf sy = true -> nodup_exprs (s_inputs sy) = true ->
      names_ok (enc_new sy nm) = true -> init_deps_acyclic sy ->
      bmc_model_w solver_model sy nm individually k_max = WFail k w ->
      witness_ok sy w /\
      exists frees : list env,
        is_initial_r sy (witness_env0 sy w) /\
        N.of_nat (length frees) = k /\ (length frees <= k_max)%nat /\
        forallb (constraints_hold sy) (run_from sy (witness_env0 sy w) frees) = true /\
        some_bad sy (last (run_from sy (witness_env0 sy w) frees) env0) = true /\
        bads_exactly sy (last (run_from sy (witness_env0 sy w) frees) env0) (w_failed w) = true.
Proof. exact bmc_witness_is_execution. Qed.
Print Assumptions C03_bmc_witness_is_execution.

(** Non-vacuity: the system of the (repaired) finding init-reads-later-state (state s init t+1 next s;
    state t next t; bad s == 3) satisfies the hypotheses (Props/C04.v,
    [C04_script3_hypotheses_satisfiable]); [checking_solver cand] answers "sat" with [cand] exactly
    when [cand] is a model of the query - it satisfies the hypothesis on the solver for every
    well-formed [cand]; with t = 2 the loop returns, in both modes, the witness s = 3, t = 2 at step 0. *)
Example C03_solver_hypothesis_satisfiable :
  forall cand, env_wf cand -> forall sc asserts assumps sigma0,
    checking_solver cand sc asserts assumps = Some sigma0 -> is_model sc asserts assumps sigma0.
Proof. exact checking_solver_sound. Qed.

Example C03_bmc_witness_example :
  bmc_model_w (checking_solver ex3_cand) EncodingExamples.ex3_sys EncodingExamples.ex_nm false 2 = WFail 0 ex3_witness /\
  bmc_model_w (checking_solver ex3_cand) EncodingExamples.ex3_sys EncodingExamples.ex_nm true 2 = WFail 0 ex3_witness /\
  check_witness EncodingExamples.ex3_sys ex3_witness = true /\
  nodup_exprs (s_inputs EncodingExamples.ex3_sys) = true.
Proof. exact ex3_bmc_witness. Qed.

Example C03_example_candidate_wf : env_wf ex3_cand.
Proof. exact ex3_cand_wf. Qed.

(** With a solver that is also complete ("unsat" only when the query has no model) the loop that
    returns witnesses is the loop of C02 ([Proofs/BmcWitProofs.v], [loop_w_forget]), so the step of a
    returned witness is the LEAST depth at which a bad state is reachable ([C02_bmc_model3_exact]). *)
Theorem C03_bmc_witness_shortest :
  forall (solver_model : list cmd -> list expr -> list expr -> option env),
    (forall sc asserts assumps,
        match solver_model sc asserts assumps with
        | Some sigma0 => is_model sc asserts assumps sigma0
        | None => ~ exists sigma0, is_model sc asserts assumps sigma0
        end) ->
    forall (sy : sys) (nm : expr -> string) (k_max : nat) (individually : bool) (k : N) (w : witness),
      sys_wf sy = true -> nodup_exprs (s_inputs sy) = true ->
      names_ok (enc_new sy nm) = true -> init_deps_acyclic sy ->
      bmc_model_w solver_model sy nm individually k_max = WFail k w ->
      exists j, k = N.of_nat j /\ (j <= k_max)%nat /\ reach_at sy j /\ forall m, (m < j)%nat -> ~ reach_at sy m.
Proof. exact bmc_witness_shortest. Qed.
Print Assumptions C03_bmc_witness_shortest.

(** ** the whole of [bmc] (Model/BmcWitFull.v): every parameter, every exit

    [bmc_model_full sv sy nm check_constraints individually k_max] models bmc.rs with
    [check_constraints] (the extra (check-sat) after the constraints of each step: "unknown" gives the
    verdict Unknown, "unsat" trips the [assert_eq!], an error is returned), both checking modes with the
    calls in the order of the code, solver answers [SSat m | SUnsat | SUnknown | SErr e], failing
    commands ([sv_fault]: set-logic, header, init_at, each assert, check_assuming_end, unroll), a
    (get-value) that may fail at every single symbol ([sv_value]), and [assert!(k_max <= 2000)]; results
    [FSuccess | FUnknown | FFail k w | FErr e | FPanic].

    Hypothesis on the solver: a "sat" answer comes with a model of the query, and a (get-value) answer is
    the value of the symbol under that model (extended by the definitions).  NOTHING is assumed about
    "unsat", "unknown", errors or failing commands.  Then, for every system in the domain of
    [C04_script3_wf] with pairwise distinct inputs, every bound, [check_constraints] on or off, both
    checking modes: a returned witness is accepted by [check_witness] and has [k + 1] steps ... *)
From Patronus Require Import BmcWitFull BmcWitFullProofs.
Theorem C03_bmc_full_witness_accepted :
  forall (EM : Type) (sv : solver EM),
    ((forall sc asserts assumps m, sv_check sv sc asserts assumps = SSat m -> is_model sc asserts assumps m) /\
     (forall sc m s x, sv_value sv sc m s = GVal x -> x = val_of (script_eval m sc) s)) ->
    forall (sy : sys) (nm : expr -> string) (k_max : nat) (check_constraints individually : bool) (k : N) (w : witness),
      sys_wf sy = true -> nodup_exprs (s_inputs sy) = true ->
      names_ok (enc_new sy nm) = true -> init_deps_acyclic sy ->
      bmc_model_full EM sv sy nm check_constraints individually k_max = FFail k w ->
      check_witness sy w = true /\
      exists j, k = N.of_nat j /\ (j <= k_max)%nat /\ length (w_inputs w) = S j.
Proof. exact bmc_full_witness_ok. Qed.
Print Assumptions C03_bmc_full_witness_accepted.

(** ... it is an execution from an initial valuation that satisfies every constraint at every step and
    ends, after exactly [k <= k_max] steps, in exactly the reported bad states (at least one) ... *)
Theorem C03_bmc_full_witness_is_execution :
  forall (EM : Type) (sv : solver EM),
    ((forall sc asserts assumps m, sv_check sv sc asserts assumps = SSat m -> is_model sc asserts assumps m) /\
     (forall sc m s x, sv_value sv sc m s = GVal x -> x = val_of (script_eval m sc) s)) ->
    forall (sy : sys) (nm : expr -> string) (k_max : nat) (check_constraints individually : bool) (k : N) (w : witness),
      sys_wf sy = true -> nodup_exprs (s_inputs sy) = true ->
      names_ok (enc_new sy nm) = true -> init_deps_acyclic sy ->
      bmc_model_full EM sv sy nm check_constraints individually k_max = FFail k w ->
      witness_ok sy w /\
      exists frees : list env,
        is_initial_r sy (witness_env0 sy w) /\
        N.of_nat (length frees) = k /\ (length frees <= k_max)%nat /\
        forallb (constraints_hold sy) (run_from sy (witness_env0 sy w) frees) = true /\
        some_bad sy (last (run_from sy (witness_env0 sy w) frees) env0) = true /\
        bads_exactly sy (last (run_from sy (witness_env0 sy w) frees) env0) (w_failed w) = true.
Proof. exact bmc_full_witness_is_execution. Qed.
Print Assumptions C03_bmc_full_witness_is_execution.

(** ... and of the LEAST depth at which a bad state is reachable, as soon as the solver's "unsat" answers
    are right as well (it may still answer unknown or fail: the result is then not a Fail). *)
Theorem C03_bmc_full_witness_shortest :
  forall (EM : Type) (sv : solver EM),
    ((forall sc asserts assumps m, sv_check sv sc asserts assumps = SSat m -> is_model sc asserts assumps m) /\
     (forall sc m s x, sv_value sv sc m s = GVal x -> x = val_of (script_eval m sc) s)) ->
    (forall sc asserts assumps, sv_check sv sc asserts assumps = SUnsat -> ~ exists m, is_model sc asserts assumps m) ->
    forall (sy : sys) (nm : expr -> string) (k_max : nat) (check_constraints individually : bool) (k : N) (w : witness),
      sys_wf sy = true -> nodup_exprs (s_inputs sy) = true ->
      names_ok (enc_new sy nm) = true -> init_deps_acyclic sy ->
      bmc_model_full EM sv sy nm check_constraints individually k_max = FFail k w ->
      exists j, k = N.of_nat j /\ (j <= k_max)%nat /\ reach_at sy j /\ forall m, (m < j)%nat -> ~ reach_at sy m.
Proof. exact bmc_full_witness_shortest. Qed.
Print Assumptions C03_bmc_full_witness_shortest.

(** The model of the previous section is the instance "[check_constraints = false], solver without unknown,
    errors and faults" of the full model ([lift_solver]: "sat + model" / "unsat", get-value reports the
    model's values), whenever it does not panic and [k_max <= 2000]: nothing was lost by the generalisation. *)
Theorem C03_bmc_full_extends_bmc_model :
  forall (EM : Type) (solver_model : list cmd -> list expr -> list expr -> option env)
         (sy : sys) (nm : expr -> string) (individually : bool) (k_max : nat),
    (k_max <= 2000)%nat ->
    bmc_model_w solver_model sy nm individually k_max <> WPanic ->
    bmc_model_full EM (lift_solver EM solver_model) sy nm false individually k_max =
    lift_result EM (bmc_model_w solver_model sy nm individually k_max).
Proof. exact bmc_full_is_bmc_w. Qed.
Print Assumptions C03_bmc_full_extends_bmc_model.

(** The last sentence of the property: the witness names and orders states and inputs as the system does
    and provides a value for every input at every step.  [has_value s ov]: [ov = Some x] with [x] a value
    of the type of [s] (a bit-vector in range, or an array with one in-range entry per index: array
    states are listed like the others).  One init value per state, in the order of the states; [k + 1]
    input steps, each with one value per input, in the order of the inputs; the failed indices are
    indices of bad states. *)
Theorem C03_witness_shape :
  forall (EM : Type) (sv : solver EM),
    ((forall sc asserts assumps m, sv_check sv sc asserts assumps = SSat m -> is_model sc asserts assumps m) /\
     (forall sc m s x, sv_value sv sc m s = GVal x -> x = val_of (script_eval m sc) s)) ->
    forall (sy : sys) (nm : expr -> string) (k_max : nat) (check_constraints individually : bool) (k : N) (w : witness),
      sys_wf sy = true -> nodup_exprs (s_inputs sy) = true ->
      names_ok (enc_new sy nm) = true -> init_deps_acyclic sy ->
      bmc_model_full EM sv sy nm check_constraints individually k_max = FFail k w ->
      w_init_names w = map (fun s => Some (sym_name_of s)) (state_syms sy) /\
      w_input_names w = map (fun s => Some (sym_name_of s)) (s_inputs sy) /\
      Forall2 has_value (state_syms sy) (w_init w) /\
      length (w_init w) = length (s_states sy) /\
      N.of_nat (length (w_inputs w)) = k + 1 /\
      Forall (fun vs => Forall2 has_value (s_inputs sy) vs /\ length vs = length (s_inputs sy)) (w_inputs w) /\
      Forall (fun i => i < N.of_nat (length (s_bads sy))) (w_failed w).
Proof. exact bmc_full_witness_shape. Qed.
Print Assumptions C03_witness_shape.

(** the same shape for EVERY witness the checker accepts (so also for the witnesses of the real runs) *)
Theorem C03_accepted_witness_shape :
  forall (sy : sys) (w : witness), witness_shape_ok sy w = true ->
    w_init_names w = map (fun s => Some (sym_name_of s)) (state_syms sy) /\
    w_input_names w = map (fun s => Some (sym_name_of s)) (s_inputs sy) /\
    Forall2 has_value (state_syms sy) (w_init w) /\
    length (w_init w) = length (s_states sy) /\
    w_inputs w <> [] /\
    Forall (fun vs => Forall2 has_value (s_inputs sy) vs /\ length vs = length (s_inputs sy)) (w_inputs w) /\
    Forall (fun i => i < N.of_nat (length (s_bads sy))) (w_failed w).
Proof. exact shape_ok_spec. Qed.
Print Assumptions C03_accepted_witness_shape.

(** Non-vacuity.  [enum_solver]: all valuations of the declared bit-vector constants, the first model is
    the answer - it satisfies the hypothesis on the solver.  The system [exw_sys] (input en:1; state c:2
    init 0 next c + zext(en); constraint en == 1; bad states c == 2, c > 2, c > 1) satisfies the
    hypotheses on the system; with every one of the four parameter combinations the model returns the
    two-step witness with failed = [0; 2]; with faulty solvers it takes the other exits (Unknown from the
    constraint check, the assert_eq! panic, an error from unroll, an error from get-value, Unknown from a
    bad-state query, the k_max assertion). *)
From Patronus Require Import WitFullExamples.
Example C03_full_solver_hypothesis_satisfiable :
  forall EM : Type,
    (forall sc asserts assumps m, sv_check (enum_solver EM) sc asserts assumps = SSat m -> is_model sc asserts assumps m) /\
    (forall sc m s x, sv_value (enum_solver EM) sc m s = GVal x -> x = val_of (script_eval m sc) s).
Proof. exact enum_solver_sound. Qed.

Example C03_full_system_hypotheses_satisfiable :
  sys_wf exw_sys = true /\ nodup_exprs (s_inputs exw_sys) = true /\
  names_ok (enc_new exw_sys exw_nm) = true /\ init_deps_acyclic exw_sys.
Proof. exact exw_hypotheses. Qed.

Example C03_bmc_full_example :
  (forall cc ind, bmc_model_full unit (enum_solver unit) exw_sys exw_nm cc ind 5 = FFail 2 exw_witness) /\
  check_witness exw_sys exw_witness = true /\
  bmc_model_full unit (enum_solver unit) exw_sys exw_nm true true 1 = FSuccess /\
  bmc_model_full unit exw_unknown_on_plain_check exw_sys exw_nm true false 5 = FUnknown /\
  bmc_model_full unit exw_unknown_on_plain_check exw_sys exw_nm false false 5 = FFail 2 exw_witness /\
  bmc_model_full unit exw_unsat_on_plain_check exw_sys exw_nm true true 5 = FPanic /\
  bmc_model_full unit (exw_error_at_step 1) exw_sys exw_nm false true 5 = FErr tt /\
  bmc_model_full unit exw_value_error exw_sys exw_nm false false 5 = FErr tt /\
  bmc_model_full unit exw_gives_up exw_sys exw_nm true true 5 = FUnknown /\
  bmc_model_full unit (enum_solver unit) exw_sys exw_nm false false 2001 = FPanic.
Proof. exact exw_bmc_runs. Qed.

(** ** PDR's witness path (Model/PdrWit.v)

    pdr.rs, when a cube that reaches the initial frame cannot be blocked, restarts the solver and calls
    [bmc(ctx, smt_ctx, sys, false, false, MAX_FRAMES)]; a Fail of that run is PDR's Fail, anything else
    is Unknown, errors are returned.  [pdr_wit] is the concrete PDR model of C10 (Model/PdrImpl.v, on
    the states of the system: Model/PdrSys.v) with this fallback INSTANTIATED by [bmc_model_full] over the
    restarted solver [sv] ([restart_fault]: the restart itself fails).

    Whenever the composed model returns Fail(w) - whatever the PDR conversation was (no hypothesis on the
    oracle [solve], the failing commands, the fuel) - [w] is accepted by [check_witness], i.e. it is an
    execution from an initial valuation that satisfies every constraint at every step, of at most
    MAX_FRAMES steps, whose last step has exactly the reported bad states.  Hypothesis on the restarted
    solver as above.  (That a bad state IS reachable when the PDR part gives up blocking is
    [C10_pdr_model_fail_real_sys], under the truthfulness of [solve].) *)
From Patronus Require Import PdrSys PdrImpl PdrWit PdrWitProofs.
Theorem C03_pdr_witness_is_execution :
  forall (EM : Type) (sy : sys) (nm : expr -> string)
         (solve : nat -> PdrImpl.query slit -> PdrImpl.answer slit (sstate sy) EM) (cmd_fail : nat -> option EM)
         (n_init : nat) (gen_on : bool) (restart_fault : option EM) (sv : solver EM),
    ((forall sc asserts assumps m, sv_check sv sc asserts assumps = SSat m -> is_model sc asserts assumps m) /\
     (forall sc m s x, sv_value sv sc m s = GVal x -> x = val_of (script_eval m sc) s)) ->
    sys_wf sy = true -> nodup_exprs (s_inputs sy) = true ->
    names_ok (enc_new sy nm) = true -> init_deps_acyclic sy ->
    forall (fuel bf : nat) (w : witness) (st' : pst slit (sstate sy) EM),
      pdr_wit EM sy nm solve cmd_fail n_init gen_on restart_fault sv fuel bf = @Ok _ _ _ _ (VFail witness w, st') ->
      check_witness sy w = true /\ witness_ok sy w /\
      exists frees : list env,
        is_initial_r sy (witness_env0 sy w) /\
        length (w_inputs w) = S (length frees) /\ (length frees <= MAX_FRAMES)%nat /\
        forallb (constraints_hold sy) (run_from sy (witness_env0 sy w) frees) = true /\
        some_bad sy (last (run_from sy (witness_env0 sy w) frees) env0) = true /\
        bads_exactly sy (last (run_from sy (witness_env0 sy w) frees) env0) (w_failed w) = true.
Proof. exact pdr_witness_is_execution. Qed.
Print Assumptions C03_pdr_witness_is_execution.

(** The BMC run starts at depth 0, so PDR's witness has the least possible length when the restarted
    solver's "unsat" answers are right. *)
Theorem C03_pdr_witness_shortest :
  forall (EM : Type) (sy : sys) (nm : expr -> string)
         (solve : nat -> PdrImpl.query slit -> PdrImpl.answer slit (sstate sy) EM) (cmd_fail : nat -> option EM)
         (n_init : nat) (gen_on : bool) (restart_fault : option EM) (sv : solver EM),
    ((forall sc asserts assumps m, sv_check sv sc asserts assumps = SSat m -> is_model sc asserts assumps m) /\
     (forall sc m s x, sv_value sv sc m s = GVal x -> x = val_of (script_eval m sc) s)) ->
    sys_wf sy = true -> nodup_exprs (s_inputs sy) = true ->
    names_ok (enc_new sy nm) = true -> init_deps_acyclic sy ->
    forall (fuel bf : nat) (w : witness) (st' : pst slit (sstate sy) EM),
      (forall sc asserts assumps, sv_check sv sc asserts assumps = SUnsat -> ~ exists m, is_model sc asserts assumps m) ->
      pdr_wit EM sy nm solve cmd_fail n_init gen_on restart_fault sv fuel bf = @Ok _ _ _ _ (VFail witness w, st') ->
      exists j, length (w_inputs w) = S j /\ (j <= MAX_FRAMES)%nat /\ reach_at sy j /\ forall m, (m < j)%nat -> ~ reach_at sy m.
Proof. exact pdr_witness_shortest. Qed.
Print Assumptions C03_pdr_witness_shortest.

(** Non-vacuity: on [exw_sys], with the exhaustive-search oracle of C10 for the PDR queries and the
    enumerating solver for the BMC run after the restart, the composed model returns Fail with the
    two-step witness; a failing restart is an error, a restarted solver that gives up makes the verdict
    Unknown, a failing get-value is an error. *)
Example C03_pdr_witness_example :
  (exists st, exw_pdr None (enum_solver unit) = @Ok _ _ _ _ (VFail witness exw_witness, st)) /\
  (match exw_pdr (Some tt) (enum_solver unit) with @Err _ _ _ _ (ESolver _ tt) _ => true | _ => false end) = true /\
  (match exw_pdr None exw_gives_up with @Ok _ _ _ _ (VUnknown _, _) => true | _ => false end) = true /\
  (match exw_pdr None exw_value_error with @Err _ _ _ _ (ESolver _ tt) _ => true | _ => false end) = true.
Proof. exact exw_pdr_runs. Qed.

(** ** the fallback finds the witness

    When the PDR part gives up blocking (the point where pdr.rs restarts the solver and calls [bmc]), a
    bad state is reachable within the frontier depth, which is at most MAX_FRAMES
    ([C10_pdr_model_unknown_only] / [C10_pdr_model_fail_real_sys]: the obligation chain that reached the
    initial frame is a real execution - this needs the truthfulness of the PDR oracle and the class
    [fin_class]).  The BMC run after the restart is exact up to MAX_FRAMES ([C02_bmc_full_exact]) when the
    restarted solver is truthful on sat and unsat, never says unknown, never fails.  Hence, with a
    successful restart, the composed model answers Unknown ONLY when the frame limit is exceeded: the
    fallback never comes back empty-handed, so whenever PDR gives up blocking the verdict is Fail(w) (and
    [w] is a real, shortest counterexample by the theorems above). *)
From Patronus Require Import BmcFullExact PdrImplProofs.
Theorem C03_pdr_fallback_finds_witness :
  forall (EM : Type) (sy : sys) (nm : expr -> string)
         (solve : nat -> PdrImpl.query slit -> PdrImpl.answer slit (sstate sy) EM) (cmd_fail : nat -> option EM)
         (n_init : nat) (gen_on : bool) (sv : solver EM),
    fin_class sy = true ->
    (forall n q, truthful slit slit_eqb (sstate sy) EM (slit_holds sy) (st_bad0 sy) (st_step0 sy) (st_trans sy) (st_bad sy)
                          q (solve n q)) ->
    ((forall sc asserts assumps m, sv_check sv sc asserts assumps = SSat m -> is_model sc asserts assumps m) /\
     (forall sc m s x, sv_value sv sc m s = GVal x -> x = val_of (script_eval m sc) s)) ->
    (forall sc asserts assumps, sv_check sv sc asserts assumps = SUnsat -> ~ exists m, is_model sc asserts assumps m) ->
    ((forall sc a b, sv_check sv sc a b <> SUnknown) /\ (forall sc a b e, sv_check sv sc a b <> SErr e) /\
     (forall sc m s e, sv_value sv sc m s <> GErr e) /\ (forall p, sv_fault sv p = None)) ->
    sys_wf sy = true -> nodup_exprs (s_inputs sy) = true ->
    names_ok (enc_new sy nm) = true -> init_deps_acyclic sy ->
    (forall k, (k <= MAX_FRAMES)%nat ->
       signals_at (enc_new sy nm) (s_constraints sy) (N.of_nat k) <> None /\
       signals_at (enc_new sy nm) (s_bads sy) (N.of_nat k) <> None) ->
    forall (fuel bf : nat) (st' : pst slit (sstate sy) EM),
      pdr_wit EM sy nm solve cmd_fail n_init gen_on None sv fuel bf = @Ok _ _ _ _ (VUnknown witness, st') ->
      (MAX_FRAMES < length (p_frames _ _ _ st'))%nat.
Proof. exact pdr_fallback_finds_witness. Qed.
Print Assumptions C03_pdr_fallback_finds_witness.

(** ... and the fallback neither returns an error nor panics (no hypothesis on the PDR part needed). *)
Theorem C03_pdr_fallback_definite :
  forall (EM : Type) (sy : sys) (nm : expr -> string) (sv : solver EM),
    ((forall sc asserts assumps m, sv_check sv sc asserts assumps = SSat m -> is_model sc asserts assumps m) /\
     (forall sc m s x, sv_value sv sc m s = GVal x -> x = val_of (script_eval m sc) s)) ->
    (forall sc asserts assumps, sv_check sv sc asserts assumps = SUnsat -> ~ exists m, is_model sc asserts assumps m) ->
    ((forall sc a b, sv_check sv sc a b <> SUnknown) /\ (forall sc a b e, sv_check sv sc a b <> SErr e) /\
     (forall sc m s e, sv_value sv sc m s <> GErr e) /\ (forall p, sv_fault sv p = None)) ->
    sys_wf sy = true -> nodup_exprs (s_inputs sy) = true ->
    names_ok (enc_new sy nm) = true -> init_deps_acyclic sy ->
    (forall k, (k <= MAX_FRAMES)%nat ->
       signals_at (enc_new sy nm) (s_constraints sy) (N.of_nat k) <> None /\
       signals_at (enc_new sy nm) (s_bads sy) (N.of_nat k) <> None) ->
    forall e, fallback EM sy nm None sv <> BmcErr (option witness) EM e /\
              fallback EM sy nm None sv <> PdrImpl.BmcFail (option witness) EM None.
Proof. exact pdr_fallback_definite. Qed.
Print Assumptions C03_pdr_fallback_definite.
