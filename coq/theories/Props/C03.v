(** * Props/C03.v — Every reported counterexample is a real execution that hits a bad state.

    [Witness.witness_ok sy w] (Spec/Witness.v): the witness names and orders states
    and inputs as the system does and gives each a value of its type at every
    step; the valuation of step 0 is initial; for SOME choice of the values of the
    states without next function at the later steps (the witness format has no
    place for them) the run of [Spec/System.v] through the witness' inputs
    satisfies all constraints at every step, and at its last step the bad states
    that hold are exactly those the witness lists, at least one.

    [Witness.check_witness] is the executable checker applied to every
    [Fail(witness)] the real [patronus::mc::bmc] returns. *)
From Coq Require Import List.
From Patronus Require Import SysExec ReachSpec Witness WitnessProofs.
Import ListNotations.
Open Scope N_scope.

(** check_witness_correct: the checker decides [witness_ok], for all well-formed
    systems and all witnesses. *)
Theorem C03_check_witness_correct :
  forall (sy : sys), sys_wf sy = true -> nodup_exprs (s_inputs sy) = true ->
  forall (w : witness), check_witness sy w = true <-> witness_ok sy w.
Proof. exact check_witness_correct. Qed.
Print Assumptions C03_check_witness_correct.

(** A witness accepted by the checker exhibits a bad state within its length:
    (with [bmc_spec_exact] this ties C03 to C02: the reference cannot answer
    "unreachable" at a depth for which an accepted witness exists). *)
Theorem C03_accepted_witness_is_execution :
  forall (sy : sys), sys_wf sy = true -> nodup_exprs (s_inputs sy) = true ->
  forall (w : witness), check_witness sy w = true ->
    exists frees : list env,
      is_initial_r sy (witness_env0 sy w) /\
      length frees = length (tl (w_inputs w)) /\
      forallb (constraints_hold sy) (run_from sy (witness_env0 sy w) frees) = true /\
      some_bad sy (last (run_from sy (witness_env0 sy w) frees) env0) = true.
Proof. exact accepted_witness_execution. Qed.
Print Assumptions C03_accepted_witness_is_execution.

(** Non-vacuity: a two-step witness of the counter system, and a wrong one. *)
Example C03_example :
  let c := BVSymbol "c" 2 in
  let en := BVSymbol "en" 1 in
  let sy := {| s_inputs := [en];
               s_states := [ {| st_sym := c; st_init := Some (BVLiteral 2 0);
                                st_next := Some (BVAdd c (BVZeroExt en 1 2) 2) |} ];
               s_outputs := []; s_bads := [BVEqual c (BVLiteral 2 1)]; s_constraints := [] |} in
  let w := {| w_init := [Some (VB 0)]; w_init_names := [Some "c"%string];
              w_inputs := [[Some (VB 1)]; [Some (VB 0)]]; w_input_names := [Some "en"%string];
              w_failed := [0] |} in
  let w_bad := {| w_init := [Some (VB 0)]; w_init_names := [Some "c"%string];
                  w_inputs := [[Some (VB 0)]; [Some (VB 0)]]; w_input_names := [Some "en"%string];
                  w_failed := [0] |} in
  sys_wf sy = true /\ check_witness sy w = true /\ check_witness sy w_bad = false.
Proof. vm_compute. repeat split. Qed.

(** ** the witness extraction itself ([get_witness] of bmc.rs)

    Model/BmcWit.v: [bmc_model_w] is the loop of bmc.rs with the encoding of /repo ([init_at3], then
    [unroll Fixed]) over an abstract solver that answers a query with [Some model] ("sat") or [None];
    on "sat" at step [k] it returns [WFail k (get_witness ..)]: the values the model - extended by the
    definitions of the script, as (get-value) does - gives to the step-[k] symbols of the bad states
    ([failed]), to the step-0 symbols of the states ([init]) and to the step symbols of the inputs at
    the steps [0..k] ([inputs]).

    For EVERY solver whose "sat" answers come with a model of the query ([is_model]: a well-formed
    valuation of the declared symbols under which all assertions and assumptions hold), every system
    in the domain of [C04_script3_wf] with pairwise distinct inputs, every bound and both checking
    modes: a returned witness is accepted by [check_witness] and has [k + 1] steps ... *)
From Patronus Require Import Encoding EncodingOrder Bmc BmcWit BmcProofs BmcWitProofs.
Theorem C03_bmc_witness_accepted :
  forall (solver_model : list cmd -> list expr -> list expr -> option env),
    (forall sc asserts assumps sigma0,
        solver_model sc asserts assumps = Some sigma0 -> is_model sc asserts assumps sigma0) ->
    forall (sy : sys) (nm : expr -> string) (k_max : nat) (individually : bool) (k : N) (w : witness),
      sys_wf sy = true -> nodup_exprs (s_inputs sy) = true ->
      names_ok (enc_new sy nm) = true -> init_deps_acyclic sy ->
      bmc_model_w solver_model sy nm individually k_max = WFail k w ->
      check_witness sy w = true /\
      exists j, k = N.of_nat j /\ (j <= k_max)%nat /\ length (w_inputs w) = S j.
Proof. exact bmc_witness_ok. Qed.
Print Assumptions C03_bmc_witness_accepted.

(** ... hence it is a real counterexample: its step-0 valuation is initial, and for some choice of the
    values of the states without next function the run through its inputs has exactly [k] steps
    ([k <= k_max]), satisfies all constraints at every step and ends in a bad state - the bad states
    that hold there are exactly the reported ones. *)
Theorem C03_bmc_witness_is_execution :
  forall (solver_model : list cmd -> list expr -> list expr -> option env),
    (forall sc asserts assumps sigma0,
        solver_model sc asserts assumps = Some sigma0 -> is_model sc asserts assumps sigma0) ->
    forall (sy : sys) (nm : expr -> string) (k_max : nat) (individually : bool) (k : N) (w : witness),
      sys_wf sy = true -> nodup_exprs (s_inputs sy) = true ->
      names_ok (enc_new sy nm) = true -> init_deps_acyclic sy ->
      bmc_model_w solver_model sy nm individually k_max = WFail k w ->
      witness_ok sy w /\
      exists frees : list env,
        is_initial_r sy (witness_env0 sy w) /\
        N.of_nat (length frees) = k /\ (length frees <= k_max)%nat /\
        forallb (constraints_hold sy) (run_from sy (witness_env0 sy w) frees) = true /\
        some_bad sy (last (run_from sy (witness_env0 sy w) frees) env0) = true /\
        bads_exactly sy (last (run_from sy (witness_env0 sy w) frees) env0) (w_failed w) = true.
Proof. exact bmc_witness_is_execution. Qed.
Print Assumptions C03_bmc_witness_is_execution.

(** Non-vacuity: the system of the (repaired) finding init-reads-later-state (state s init t+1 next s;
    state t next t; bad s == 3) satisfies the hypotheses (Props/C04.v,
    [C04_script3_hypotheses_satisfiable]); [checking_solver cand] answers "sat" with [cand] exactly
    when [cand] is a model of the query - it satisfies the hypothesis on the solver for every
    well-formed [cand]; with t = 2 the loop returns, in both modes, the witness s = 3, t = 2 at step 0. *)
Example C03_solver_hypothesis_satisfiable :
  forall cand, env_wf cand -> forall sc asserts assumps sigma0,
    checking_solver cand sc asserts assumps = Some sigma0 -> is_model sc asserts assumps sigma0.
Proof. exact checking_solver_sound. Qed.

Example C03_bmc_witness_example :
  bmc_model_w (checking_solver ex3_cand) EncodingExamples.ex3_sys EncodingExamples.ex_nm false 2 = WFail 0 ex3_witness /\
  bmc_model_w (checking_solver ex3_cand) EncodingExamples.ex3_sys EncodingExamples.ex_nm true 2 = WFail 0 ex3_witness /\
  check_witness EncodingExamples.ex3_sys ex3_witness = true /\
  nodup_exprs (s_inputs EncodingExamples.ex3_sys) = true.
Proof. exact ex3_bmc_witness. Qed.

Example C03_example_candidate_wf : env_wf ex3_cand.
Proof. exact ex3_cand_wf. Qed.

(** With a solver that is also complete ("unsat" only when the query has no model) the loop that
    returns witnesses is the loop of C02 ([Proofs/BmcWitProofs.v], [loop_w_forget]), so the step of a
    returned witness is the LEAST depth at which a bad state is reachable ([C02_bmc_model3_exact]). *)
Theorem C03_bmc_witness_shortest :
  forall (solver_model : list cmd -> list expr -> list expr -> option env),
    (forall sc asserts assumps,
        match solver_model sc asserts assumps with
        | Some sigma0 => is_model sc asserts assumps sigma0
        | None => ~ exists sigma0, is_model sc asserts assumps sigma0
        end) ->
    forall (sy : sys) (nm : expr -> string) (k_max : nat) (individually : bool) (k : N) (w : witness),
      sys_wf sy = true -> nodup_exprs (s_inputs sy) = true ->
      names_ok (enc_new sy nm) = true -> init_deps_acyclic sy ->
      bmc_model_w solver_model sy nm individually k_max = WFail k w ->
      exists j, k = N.of_nat j /\ (j <= k_max)%nat /\ reach_at sy j /\ forall m, (m < j)%nat -> ~ reach_at sy m.
Proof. exact bmc_witness_shortest. Qed.
Print Assumptions C03_bmc_witness_shortest.
