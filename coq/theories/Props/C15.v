(** * Props/C15.v — Solver faults surface as errors, never as verdicts or hangs.

    Only statements, [exact lemma] proofs, [Print Assumptions] and non-vacuity examples.
    The model is Model/SolverIO.v (module [SIO]): the solver's stdout is a finite list of lines
    followed by end of stream ([TEof]: read_line returns 0 bytes forever) or by a live, silent
    solver ([TAlive]); [read_response v fuel] is SmtLibSolverCtx::read_response with the loop
    bounded by [fuel] ([OutOfFuel] = the loop wants more than [fuel] iterations); [Cur] is today's
    code, [Fix] the repaired reader. *)
From Coq Require Import String List ZArith.
From Patronus Require Import SolverIO SolverIOProofs.
Import ListNotations.
Import SIO.
Open Scope string_scope.

(** read_total, repaired reader: for every stream the reader returns as soon as the fuel covers the
    number of lines; it cannot spin. *)
Theorem C15_read_total :
  forall (fuel : nat) (w : world),
    length (w_lines w) <= fuel -> read_response Fix fuel w <> OutOfFuel.
Proof. exact read_response_fix_total. Qed.
Print Assumptions C15_read_total.

(** ... and it returns after at most (number of lines + 1) calls of read_line: every read either
    consumes a line or is the one read that sees the end of the stream. *)
Theorem C15_read_total_reads :
  forall (fuel : nat) (w : world),
    match read_response Fix fuel w with
    | Ok _ w' | Err _ w' => w_reads w' + length (w_lines w') <= w_reads w + length (w_lines w) + 1
    | _ => True
    end.
Proof. exact read_response_fix_reads. Qed.
Print Assumptions C15_read_total_reads.

(** read_total is FALSE of today's reader: on the stream "((" + end of stream NO fuel suffices
    (solver.rs:258-261 keeps appending a blank and reading 0 bytes). *)
Theorem C15_read_total_refuted :
  exists w : world, forall fuel : nat, read_response Cur fuel w = OutOfFuel.
Proof. exists spinning_world. exact read_total_refuted_lemma. Qed.
Print Assumptions C15_read_total_refuted.

(** the same for every reply that is cut off while its parentheses are open *)
Theorem C15_cur_spins_on_truncated :
  forall (fuel : nat) (l : string) (w : world),
    w_lines w = [l] -> w_tail w = TEof -> (0 < count_parens l)%Z ->
    read_response Cur fuel w = OutOfFuel.
Proof. exact cur_spins_on_truncated. Qed.
Print Assumptions C15_cur_spins_on_truncated.

(** Non-vacuity: the repaired reader on the spinning stream returns SolverDead after 2 reads; on a
    two-line reply it joins the lines. *)
Example C15_example_total :
  read_response Fix 5 spinning_world = Err ESolverDead (mkW [] TEof [] None [] 2)
  /\ read_response Fix 5 (mkW ["((a" ; "#b1))" ; "sat"] TAlive [] None [] 0)
     = Ok "((a #b1))" (mkW ["sat"] TAlive [] None [] 2).
Proof. vm_compute. split; reflexivity. Qed.
