(** * Props/C15.v — Solver faults surface as errors, never as verdicts or hangs.

    Only statements, [exact lemma] proofs, [Print Assumptions] and non-vacuity examples.
    The model is Model/SolverIO.v (module [SIO]): the solver's stdout is a finite list of lines
    followed by end of stream ([TEof]: read_line returns 0 bytes forever) or by a live, silent
    solver ([TAlive]); what [try_wait] observes and whether a write hits a closed pipe are part of
    the [world] too.  [read_response v fuel] is SmtLibSolverCtx::read_response with the loop bounded
    by [fuel] ([OutOfFuel] = the loop wants more than [fuel] iterations); [Cur] is today's code,
    [Fix] the repaired reader (end of stream inside the balancing loop is an error; the message of
    an error reply is the text between the first and the last double quote; = /repo today),
    [Fix2] = [Fix] without the blank that is pushed before every continuation line of a reply
    (patches/0019-fix-read-response-no-extra-blank.diff; section "Fix2" below).
    A client of the solver interface that propagates every error with `?` is a [prog]; [run] is
    the error monad; [bmc_prog c] is the conversation of mc/bmc.rs; [session] adds Drop. *)
From Coq Require Import String List ZArith.
From Patronus Require Import SolverIO SolverIOProofs SolverIOFix2Proofs.
Import ListNotations.
Import SIO.
Open Scope string_scope.

(* ================================================================== read_total *)

(** read_total, repaired reader: for every stream the reader returns as soon as the fuel covers the
    number of lines; it cannot spin. *)
Theorem C15_read_total :
  forall (fuel : nat) (w : world),
    length (w_lines w) <= fuel -> read_response Fix fuel w <> OutOfFuel.
Proof. exact read_response_fix_total. Qed.
Print Assumptions C15_read_total.

(** ... and it returns after at most (number of lines + 1) calls of read_line: every read either
    consumes a line or is the one read that sees the end of the stream. *)
Theorem C15_read_total_reads :
  forall (fuel : nat) (w : world),
    match read_response Fix fuel w with
    | Ok _ w' | Err _ w' => w_reads w' + length (w_lines w') <= w_reads w + length (w_lines w) + 1
    | _ => True
    end.
Proof. exact read_response_fix_reads. Qed.
Print Assumptions C15_read_total_reads.

(** read_total is FALSE of today's reader: on the stream "((" + end of stream NO fuel suffices
    (solver.rs:258-261 keeps appending a blank and reading 0 bytes). *)
Theorem C15_read_total_refuted :
  exists w : world, forall fuel : nat, read_response Cur fuel w = OutOfFuel.
Proof. exists spinning_world. exact read_total_refuted_lemma. Qed.
Print Assumptions C15_read_total_refuted.

(** the same for every reply that is cut off while its parentheses are open *)
Theorem C15_cur_spins_on_truncated :
  forall (fuel : nat) (l : string) (w : world),
    w_lines w = [l] -> w_tail w = TEof -> (0 < count_parens l)%Z ->
    read_response Cur fuel w = OutOfFuel.
Proof. exact cur_spins_on_truncated. Qed.
Print Assumptions C15_cur_spins_on_truncated.

(** no client program - BMC, PDR, anything written against the interface - can spin with the
    repaired reader, Drop included, whatever the solver writes *)
Theorem C15_session_total :
  forall (pv pc : string -> bool) (fuel : nat) (A : Type) (p : prog A) (w : world),
    length (w_lines w) <= fuel -> session pv pc Fix fuel p w <> OutOfFuel.
Proof. exact session_fix_total. Qed.
Print Assumptions C15_session_total.

(** the repaired reader itself never panics, whatever it reads *)
Theorem C15_fix_never_panics :
  forall (fuel : nat) (w : world) (l : string), read_response Fix fuel w <> Panic l.
Proof. exact read_response_fix_no_panic. Qed.
Print Assumptions C15_fix_never_panics.

(** both readers: a command that hits a closed pipe is never reported as written (solver.rs:236-245) *)
Theorem C15_broken_pipe_is_error :
  forall (v : variant) (fuel : nat) (w w1 : world) (u : unit) (w' : world),
    pop_write w = (WBrokenPipe, w1) -> write_cmd v fuel w <> Ok u w'.
Proof. exact broken_pipe_is_error. Qed.
Print Assumptions C15_broken_pipe_is_error.

(* ================================================================== sat_only_on_exact *)

(** Both readers: [Sat]/[Unsat] is returned only when exactly one line was consumed and that line
    is `sat` / `unsat` up to surrounding white space.  So `unknown`, an empty line, garbage, a
    truncated word, an error reply, end of stream all give [Err] (or worse), never an answer. *)
Theorem C15_sat_only_on_exact :
  forall (v : variant) (fuel : nat) (w : world) (a : sat_resp) (w' : world),
    read_sat_response v fuel w = Ok a w' ->
    exists l rest, w_lines w = l :: rest /\ w_lines w' = rest /\ w_reads w' = S (w_reads w) /\
                   ((a = Sat /\ trim l = "sat") \/ (a = Unsat /\ trim l = "unsat")).
Proof. exact sat_only_on_exact_lemma. Qed.
Print Assumptions C15_sat_only_on_exact.

(** in particular the context never answers [Unknown]: `unknown` is an error (which is what bmc.rs,
    that only tests `res == Sat`, relies on) *)
Theorem C15_never_unknown :
  forall (v : variant) (fuel : nat) (w w' : world), read_sat_response v fuel w <> Ok Unknown w'.
Proof. exact never_unknown_lemma. Qed.
Print Assumptions C15_never_unknown.

(* ================================================================== error_unmangled *)

(** Repaired reader: for the reply `(error "msg")` (any white space around it, any length, any
    bytes) whose string-aware parenthesis count is not positive - i.e. the reply is lexically complete -
    the returned error carries exactly msg, and exactly one line was read. *)
Theorem C15_error_unmangled :
  forall (fuel : nat) (w : world) (pre post msg : string) (rest : list string),
    w_lines w = (pre ++ error_reply msg ++ post) :: rest ->
    all_ws pre = true -> all_ws post = true ->
    (count_parens_aware (pre ++ error_reply msg ++ post) <= 0)%Z ->
    read_response Fix fuel w = Err (EFromSolver msg) (after_one_line w rest).
Proof. exact error_unmangled_lemma. Qed.
Print Assumptions C15_error_unmangled.

(** ... which is the case for EVERY message without a double quote, whatever parentheses or bars it
    contains (`unexpected token, '(' expected` included) *)
Theorem C15_error_unmangled_plain :
  forall (fuel : nat) (w : world) (pre post msg : string) (rest : list string),
    w_lines w = (pre ++ error_reply msg ++ post) :: rest ->
    all_ws pre = true -> all_ws post = true -> has_quote msg = false ->
    read_response Fix fuel w = Err (EFromSolver msg) (after_one_line w rest).
Proof. exact error_unmangled_plain_lemma. Qed.
Print Assumptions C15_error_unmangled_plain.

(** When does the reader wait?  Only for a LIVE solver that has so far written nothing, or a reply
    that is still open under the reader's own parenthesis count (repaired reader: lexically open).
    That is the one class of "blocking" the property cannot forbid to a reader without a timeout.
    All three variants; [join_lines v l r] is the text the variant has joined from the lines
    ([Cur], [Fix]: a blank before every further line, [C15_join_lines_meaning]; [Fix2]: the lines as they are). *)
Theorem C15_blocked_only_on_open_reply :
  forall (v : variant) (fuel : nat) (w : world),
    read_response v fuel w = Blocked ->
    w_tail w = TAlive /\
    match w_lines w with
    | [] => True
    | l :: r => (0 < count_v v (join_lines v l r))%Z
    end.
Proof. exact read_response_blocked_open. Qed.
Print Assumptions C15_blocked_only_on_open_reply.

Theorem C15_join_lines_meaning :
  (forall (v : variant) (resp : string) (ls : list string), v <> Fix2 -> join_lines v resp ls = join_blank resp ls)
  /\ (forall (resp : string) (ls : list string), join_lines Fix2 resp ls = resp ++ concat_s ls).
Proof. exact (conj join_lines_blank join_lines_fix2). Qed.
Print Assumptions C15_join_lines_meaning.

(** Today's reader NEVER hands the message over: for every such reply the result is different from
    [Err (EFromSolver msg)] (solver.rs:267 cuts [7 .. len-8]: a panic, or 5 bytes too few) ... *)
Theorem C15_error_unmangled_refuted :
  forall (fuel : nat) (w : world) (pre post msg : string) (rest : list string) (w' : world),
    w_lines w = (pre ++ error_reply msg ++ post) :: rest ->
    all_ws pre = true -> all_ws post = true -> (count_parens msg <= 0)%Z ->
    read_response Cur fuel w <> Err (EFromSolver msg) w'.
Proof. exact error_mangled_always_lemma. Qed.
Print Assumptions C15_error_unmangled_refuted.

(** ... and for messages shorter than 5 bytes it is the panic at solver.rs:267 *)
Theorem C15_short_error_panics :
  forall (fuel : nat) (w : world) (pre post msg : string) (rest : list string),
    w_lines w = (pre ++ error_reply msg ++ post) :: rest ->
    all_ws pre = true -> all_ws post = true -> (count_parens msg <= 0)%Z ->
    String.length msg < 5 ->
    read_response Cur fuel w = Panic loc_slice.
Proof. exact error_short_panics_lemma. Qed.
Print Assumptions C15_short_error_panics.

(* ================================================================== bmc_propagates *)

(** For EVERY client program (so for [bmc_prog c], and for PDR in so far as it uses `?` on every
    call): a solver call that does not succeed is the last call of the run, and its failure - error,
    panic, block, spin - IS the result of the run.  No verdict after a failed call. *)
Theorem C15_client_propagates :
  forall (pv pc : string -> bool) (v : variant) (fuel : nat) (A : Type) (p : prog A) (w : world) (ev : event),
    In ev (fst (run pv pc v fuel p w)) -> ev_end ev <> COk ->
    end_of (snd (run pv pc v fuel p w)) = ev_end ev.
Proof. exact run_first_failure_lemma. Qed.
Print Assumptions C15_client_propagates.

(** bmc_propagates: if any solver interaction of a BMC session returns [Err e], the session does
    not return a verdict; it returns [Err e] (or Drop itself panics / blocks / spins). *)
Theorem C15_bmc_propagates :
  forall (pv : string -> bool) (v : variant) (fuel nopts : nat) (c : bmc_cfg) (w : world) (ev : event) (e : err),
    In ev (fst (run pv (fun _ => false) v fuel (writes nopts (bmc_prog c)) w)) -> ev_end ev = CErr e ->
    match bmc_session pv v fuel nopts c w with
    | Ok _ _ => False
    | Err e' _ => e' = e
    | _ => True
    end.
Proof. intros pv v fuel nopts c. exact (session_propagates_lemma pv (fun _ => false) v fuel verdict (writes nopts (bmc_prog c))). Qed.
Print Assumptions C15_bmc_propagates.

(** A verdict rests on intact answers only: when a BMC session returns a verdict, every call
    succeeded and every check-sat answer was one exact line `sat` / `unsat`. *)
Theorem C15_bmc_verdict_intact :
  forall (pv : string -> bool) (v : variant) (fuel nopts : nat) (c : bmc_cfg) (w : world) (r : verdict) (w' : world),
    bmc_session pv v fuel nopts c w = Ok r w' ->
    let tr := fst (run pv (fun _ => false) v fuel (writes nopts (bmc_prog c)) w) in
    Forall (fun ev => ev_end ev = COk) tr
    /\ forall ev, In ev tr -> ev_kind ev = KCheckSat ->
         exists w1 l rest, write_cmd v fuel (ev_before ev) = Ok tt w1 /\ w_lines w1 = l :: rest
                           /\ (trim l = "sat" \/ trim l = "unsat").
Proof. intros pv v fuel nopts c. exact (session_verdict_intact_lemma pv (fun _ => false) v fuel verdict (writes nopts (bmc_prog c))). Qed.
Print Assumptions C15_bmc_verdict_intact.

(* ================================================================== non-vacuity *)

Definition ex_cfg : bmc_cfg := mkCfg 2 1 1 1 false false 3 (fun _ => 0) (fun _ => 2).
Definition ex_parse (t : string) : bool := starts_with "((" t.
Definition ex_world (lines : list string) (t : tail) : world := mkW lines t [] None [] 0.

(** the repaired reader on the spinning stream returns SolverDead after 2 reads; a two-line reply
    is joined; a BMC conversation that fails at step 1 reads 1 + 1 + (1 + 1 + 2) replies;
    an `unknown`, an error reply and a reply cut off by end of stream all end the repaired session
    with an error - and the cut-off reply makes today's session spin. *)
Example C15_examples :
  read_response Fix 5 spinning_world = Err ESolverDead (mkW [] TEof [] None [] 2)
  /\ read_response Fix 5 (ex_world ["((a" ; "#b1))" ; "sat"] TAlive) = Ok "((a #b1))" (mkW ["sat"] TAlive [] None [] 2)
  /\ (exists w', bmc_session ex_parse Fix 50 1 ex_cfg
        (ex_world ["unsat
"; "sat
"; "((b true))
"; "((s #b01))
"; "((i #b1))
"; "((i #b0))
"] TAlive)
      = Ok (VFail 1 ["((b true))"; "((s #b01))"; "((i #b1))"; "((i #b0))"]) w')
  /\ (exists w', bmc_session ex_parse Fix 50 1 ex_cfg (ex_world ["unsat
"; "unknown
"] TAlive) = Err (EUnexpected "unknown") w')
  /\ (exists w', bmc_session ex_parse Fix 50 1 ex_cfg (ex_world ["unsat
"; "(error ""line 9 column 54: named expression already defined"")
"] TAlive)
      = Err (EFromSolver "line 9 column 54: named expression already defined") w')
  /\ (exists w', bmc_session ex_parse Cur 50 1 ex_cfg (ex_world ["unsat
"; "(error ""line 9 column 54: named expression already defined"")
"] TAlive)
      = Err (EFromSolver """line 9 column 54: named expression already d") w')
  /\ bmc_session ex_parse Cur 50 1 ex_cfg (ex_world ["unsat
"; "(error ""abc"")
"] TAlive) = Panic loc_slice
  /\ (exists w', bmc_session ex_parse Fix 50 1 ex_cfg (ex_world ["unsat
"; "sat
"; "((b tr"] TEof) = Err ESolverDead w')
  /\ bmc_session ex_parse Cur 50 1 ex_cfg (ex_world ["unsat
"; "sat
"; "((b tr"] TEof) = OutOfFuel.
Proof. vm_compute. repeat split; eexists; reflexivity. Qed.

(** the blocking class and its boundary: a live solver that wrote an error reply whose message consists
    of THREE double quotes in all (opening quote, one more, closing quote: the string literal is not
    terminated, the reply is lexically incomplete) keeps the repaired reader waiting; the same bytes
    followed by end of stream are an error; with FOUR quotes (the SMT-LIB spelling of the message that
    is one quote character) and for a message with an opening parenthesis the reply is complete and is
    reported, message intact - while the original reader blocked on the parenthesis. *)
Example C15_examples_blocking :
  read_response Fix 9 (ex_world ["(error """""")
"] TAlive) = Blocked
  /\ read_response Fix 9 (ex_world ["(error """""")
"] TEof) = Err ESolverDead (mkW [] TEof [] None [] 2)
  /\ read_response Fix 9 (ex_world ["(error """""""")
"] TAlive) = Err (EFromSolver """""") (mkW [] TAlive [] None [] 1)
  /\ read_response Fix 9 (ex_world ["(error ""unexpected token, '(' expected"")
"] TAlive) = Err (EFromSolver "unexpected token, '(' expected") (mkW [] TAlive [] None [] 1)
  /\ read_response Cur 9 (ex_world ["(error ""unexpected token, '(' expected"")
"] TAlive) = Blocked.
Proof. vm_compute. repeat split; reflexivity. Qed.

Definition trim_of (r : res string) : option string := match r with Ok t _ => Some (trim t) | _ => None end.

(* ================================================================== Fix2: the reader without the extra blank *)

(** ** [Fix2] = /repo after patches/0019-fix-read-response-no-extra-blank.diff

    The theorems above that quantify over the variant ([C15_sat_only_on_exact], [C15_never_unknown],
    [C15_blocked_only_on_open_reply], [C15_broken_pipe_is_error], [C15_client_propagates],
    [C15_bmc_propagates], [C15_bmc_verdict_intact]) cover [Fix2] as they stand.  Those stated of [Fix] are
    restated here of [Fix2], so that nothing is lost when [Fix2] becomes the model of /repo. *)

Theorem C15_fix2_read_total :
  forall (fuel : nat) (w : world),
    length (w_lines w) <= fuel -> read_response Fix2 fuel w <> OutOfFuel.
Proof. exact read_response_fix2_total. Qed.
Print Assumptions C15_fix2_read_total.

Theorem C15_fix2_read_total_reads :
  forall (fuel : nat) (w : world),
    match read_response Fix2 fuel w with
    | Ok _ w' | Err _ w' => w_reads w' + length (w_lines w') <= w_reads w + length (w_lines w) + 1
    | _ => True
    end.
Proof. exact read_response_fix2_reads. Qed.
Print Assumptions C15_fix2_read_total_reads.

Theorem C15_fix2_session_total :
  forall (pv pc : string -> bool) (fuel : nat) (A : Type) (p : prog A) (w : world),
    length (w_lines w) <= fuel -> session pv pc Fix2 fuel p w <> OutOfFuel.
Proof. exact session_fix2_total. Qed.
Print Assumptions C15_fix2_session_total.

Theorem C15_fix2_never_panics :
  forall (fuel : nat) (w : world) (l : string), read_response Fix2 fuel w <> Panic l.
Proof. exact read_response_fix2_no_panic. Qed.
Print Assumptions C15_fix2_never_panics.

Theorem C15_fix2_error_unmangled :
  forall (fuel : nat) (w : world) (pre post msg : string) (rest : list string),
    w_lines w = (pre ++ error_reply msg ++ post) :: rest ->
    all_ws pre = true -> all_ws post = true ->
    (count_parens_aware (pre ++ error_reply msg ++ post) <= 0)%Z ->
    read_response Fix2 fuel w = Err (EFromSolver msg) (after_one_line w rest).
Proof. exact error_unmangled_fix2_lemma. Qed.
Print Assumptions C15_fix2_error_unmangled.

Theorem C15_fix2_error_unmangled_plain :
  forall (fuel : nat) (w : world) (pre post msg : string) (rest : list string),
    w_lines w = (pre ++ error_reply msg ++ post) :: rest ->
    all_ws pre = true -> all_ws post = true -> has_quote msg = false ->
    read_response Fix2 fuel w = Err (EFromSolver msg) (after_one_line w rest).
Proof. exact error_unmangled_plain_fix2_lemma. Qed.
Print Assumptions C15_fix2_error_unmangled_plain.

(** error_unmangled for messages of SEVERAL lines (cvc5 prints such).  The reply  pre (error "msg") post,
    msg ANY bytes except the double quote - line breaks, blank lines, parentheses, bars included -, arrives
    split into the lines [first :: more] in any way ([concat_s] puts the text together again; where the
    solver breaks the lines is not restricted to the line breaks of the message).  Side conditions: no
    line is empty (read_line returns an empty line only at end of stream), and the first and the last
    line are not blank, i.e. the reply begins in the first and ends in the last of these lines.  Then the
    reader consumes exactly these lines and returns FromSolver(msg) with exactly msg. *)
Theorem C15_error_unmangled_multiline :
  forall (fuel : nat) (w : world) (pre post msg first : string) (more rest : list string),
    w_lines w = first :: (more ++ rest)%list ->
    concat_s (first :: more) = pre ++ error_reply msg ++ post ->
    all_ws pre = true -> all_ws post = true -> has_quote msg = false ->
    all_ws first = false ->
    Forall (fun l => l <> "") more ->
    (more = [] \/ all_ws (last more "") = false) ->
    length more <= fuel ->
    read_response Fix2 fuel w = Err (EFromSolver msg) (after_lines w (S (length more)) rest).
Proof. exact error_unmangled_multiline_lemma. Qed.
Print Assumptions C15_error_unmangled_multiline.

(** ... and this is FALSE of the reader that pushes a blank before every continuation line ([Fix] = /repo
    before patches/0019): the two-line reply [two_line_world] satisfies the hypotheses above, [Fix2] returns
    its message, [Fix] returns it with a blank after the line break, whatever the fuel. *)
Theorem C15_error_unmangled_multiline_refuted :
  read_response Fix2 9 two_line_world = Err (EFromSolver two_line_msg) (mkW [] TAlive [] None [] 2)
  /\ read_response Fix 9 two_line_world = Err (EFromSolver "first line of the message
 second line") (mkW [] TAlive [] None [] 2)
  /\ (forall fuel : nat, 1 <= fuel ->
        read_response Fix fuel two_line_world <> Err (EFromSolver two_line_msg) (mkW [] TAlive [] None [] 2)).
Proof. exact error_multiline_fix_blank. Qed.
Print Assumptions C15_error_unmangled_multiline_refuted.

(** non-vacuity: the two-line reply is an instance of the theorem; a message of four lines with a blank
    line, parentheses and a bar in it, followed by another reply: [Fix2] hands it over intact and leaves the
    next reply unread, [Fix] inserts three blanks; a get-value reply split over three lines reads the same
    under both (the line breaks separate the tokens), and so does a BMC session. *)
Example C15_fix2_examples :
  (w_lines two_line_world = "(error ""first line of the message
" :: (["second line"")
"] ++ [])%list
   /\ concat_s ["(error ""first line of the message
"; "second line"")
"] = ("" ++ error_reply two_line_msg ++ "
")%string
   /\ has_quote two_line_msg = false)
  /\ read_response Fix2 9 (ex_world ["(error ""Parse Error: <stdin>:3.7: Unexpected token: '('.
" ; "
" ; "  (assert (|a b| x))
" ; "          ^"")
" ; "sat
"] TAlive)
     = Err (EFromSolver "Parse Error: <stdin>:3.7: Unexpected token: '('.

  (assert (|a b| x))
          ^") (mkW ["sat
"] TAlive [] None [] 4)
  /\ read_response Fix 9 (ex_world ["(error ""Parse Error: <stdin>:3.7: Unexpected token: '('.
" ; "
" ; "  (assert (|a b| x))
" ; "          ^"")
" ; "sat
"] TAlive)
     = Err (EFromSolver "Parse Error: <stdin>:3.7: Unexpected token: '('.
 
   (assert (|a b| x))
           ^") (mkW ["sat
"] TAlive [] None [] 4)
  /\ trim_of (read_response Fix2 9 (ex_world ["((a
" ; "#b1
" ; "))
"] TAlive)) = Some "((a
#b1
))"
  /\ (exists w', bmc_session ex_parse Fix2 50 1 ex_cfg (ex_world ["unsat
"; "sat
"; "((b
 true))
"; "((s #b01))
"; "((i #b1))
"; "((i #b0))
"] TAlive) = Ok (VFail 1 ["((b
 true))"; "((s #b01))"; "((i #b1))"; "((i #b0))"]) w').
Proof. vm_compute. repeat split; try reflexivity. eexists; reflexivity. Qed.

(* ================================================================== PDR (added by the C10 work) *)

(** ** solver faults in the concrete model of pdr.rs (Model/PdrImpl.v)

    The model's oracle may answer [AErr e] or [AUnknown] at ANY query (a query = one call of pdr.rs'
    [query]: check-sat-assuming, the get-value calls of a model, get-unsat-assumptions), any
    declare/assert/define command may fail ([cmd_fail]), the BMC fallback (restart + bmc) may fail
    ([BmcErr]); the model does with them exactly what pdr.rs does (`?` everywhere;
    [CheckSatResponse::Unknown] site by site).  These theorems are about the control flow only: no
    hypothesis on the oracle at all.  Tie to the real code: ./check C10 injects `unknown` / an error at
    response-bearing calls of real PDR runs (a SolverContext wrapper, as in the C15 context-level fault
    harness) and replays the recorded trace, fault included, against the extracted model. *)
From Patronus Require Ic3 PdrImpl PdrImplProofs PdrFaultProofs.

(** Errors propagate.  (1) A verdict (Success, Fail or Unknown) is returned only by runs whose log is
    [clean]: no consulted answer was an error (and unknown answers occur only where (C15_pdr_model_unknown)
    allows them) - a verdict is never computed from answers that come after an error.  (2) When the model
    returns a solver error it is the FIRST error of the run, with the oracle's own message: the newest
    event of the log is the failing consultation (query answer, command, or BMC fallback), everything
    before it is clean. *)
Theorem C15_pdr_model_propagates :
  forall (lit : Type) (lit_eqb : lit -> lit -> bool) (St : Type) (cube_of_state : St -> list lit) (W EM : Type)
         (solve : nat -> PdrImpl.query lit -> PdrImpl.answer lit St EM) (cmd_fail : nat -> option EM) (n_init : nat)
         (gen_on has_bads : bool) (bmc_result : PdrImpl.bmc_answer W EM) (fuel bf : nat),
    (forall v st', PdrImpl.pdr lit lit_eqb St cube_of_state W EM solve cmd_fail n_init gen_on has_bads bmc_result fuel bf
                   = @PdrImpl.Ok lit St EM _ (v, st') ->
                   PdrFaultProofs.clean lit St EM (PdrImpl.p_log lit St EM st')) /\
    (forall m log, PdrImpl.pdr lit lit_eqb St cube_of_state W EM solve cmd_fail n_init gen_on has_bads bmc_result fuel bf
                   = @PdrImpl.Err lit St EM _ (PdrImpl.ESolver EM m) log ->
                   exists ev l0, log = ev :: l0 /\ PdrFaultProofs.clean lit St EM l0 /\
                                 PdrFaultProofs.consulted_error lit St W EM solve cmd_fail bmc_result ev m).
Proof. exact PdrFaultProofs.pdr_model_propagates. Qed.
Print Assumptions C15_pdr_model_propagates.

(** Unknown answers.  (1) [Err (EUnknown k)] is returned exactly as pdr.rs does: the run stopped at a
    query of kind k - get_bad_cube, fix_gen_cube's two queries, the obligation's own relative-induction
    query in block_cube - that was answered unknown, after a clean log.  (2) In a run that returns a
    verdict, unknown answers occur only at relative-induction queries (pushing loop, propagation) and
    at the query against the infinite frame: there pdr.rs treats "unknown" like "not unsat" (the cube is
    simply not pushed / not propagated) and goes on. *)
Theorem C15_pdr_model_unknown :
  forall (lit : Type) (lit_eqb : lit -> lit -> bool) (St : Type) (cube_of_state : St -> list lit) (W EM : Type)
         (solve : nat -> PdrImpl.query lit -> PdrImpl.answer lit St EM) (cmd_fail : nat -> option EM) (n_init : nat)
         (gen_on has_bads : bool) (bmc_result : PdrImpl.bmc_answer W EM) (fuel bf : nat),
    (forall k log, PdrImpl.pdr lit lit_eqb St cube_of_state W EM solve cmd_fail n_init gen_on has_bads bmc_result fuel bf
                   = @PdrImpl.Err lit St EM _ (PdrImpl.EUnknown EM k) log ->
                   exists q l0 n, log = PdrImpl.EvQuery lit St EM q (PdrImpl.AUnknown lit St EM) :: l0 /\
                                  PdrFaultProofs.clean lit St EM l0 /\ PdrImpl.q_kind lit q = k /\
                                  solve n q = PdrImpl.AUnknown lit St EM) /\
    (forall v st' q, PdrImpl.pdr lit lit_eqb St cube_of_state W EM solve cmd_fail n_init gen_on has_bads bmc_result fuel bf
                     = @PdrImpl.Ok lit St EM _ (v, st') ->
                     In (PdrImpl.EvQuery lit St EM q (PdrImpl.AUnknown lit St EM)) (PdrImpl.p_log lit St EM st') ->
                     PdrImpl.q_kind lit q = PdrImpl.KRelInd \/ PdrImpl.q_kind lit q = PdrImpl.KInf).
Proof. exact PdrFaultProofs.pdr_model_unknown. Qed.
Print Assumptions C15_pdr_model_unknown.

(** ... and such verdicts do not REST on the unknown answers: the soundness theorems of the model
    (Props/C10.v: C10_pdr_model_success_sound / _fail_real / their _sys forms) hold for every oracle whose
    sat and unsat answers are truthful - [AUnknown] and [AErr] answers carry no obligation ([truthful]
    is [True] for them).  The STRICT reading "an unknown answer is never followed by Success or Fail" is
    false of pdr.rs and of the model: *)
Definition c15x_lit : Type := (nat * bool)%type.
Definition c15x_lit_eqb (a b : c15x_lit) : bool := andb (Nat.eqb (fst a) (fst b)) (Bool.eqb (snd a) (snd b)).
Definition c15x_holds (l : c15x_lit) (s : nat) : bool := Bool.eqb (Nat.testbit s (fst l)) (snd l).
Definition c15x_cube (s : nat) : list c15x_lit := (0%nat, Nat.testbit s 0) :: (1%nat, Nat.testbit s 1) :: nil.
Definition c15x_step0 (s s' : nat) : bool := andb (Nat.eqb s 0) (Nat.eqb s' 1).
Definition c15x_trans (s s' : nat) : bool := Nat.eqb s' (if Nat.leb 2 s then 0%nat else S s).
Definition c15x_states : list nat := (0 :: 1 :: 2 :: 3 :: nil)%nat.
(** the exhaustive-search oracle of the counter 0 -> 1 -> 2 -> 0, except that query number k gets [a] *)
Definition c15x_oracle (bad : nat -> bool) (k : nat) (a : PdrImpl.answer c15x_lit nat unit)
           (n : nat) (q : PdrImpl.query c15x_lit) : PdrImpl.answer c15x_lit nat unit :=
  if Nat.eqb n k then a
  else PdrImpl.enum_solve c15x_lit nat unit c15x_holds (fun s => andb (Nat.eqb s 0) (bad s)) c15x_step0 c15x_trans bad c15x_states n q.
Definition c15x_run (bad : nat -> bool) (gen : bool) (k : nat) (a : PdrImpl.answer c15x_lit nat unit) :=
  PdrImpl.pdr c15x_lit c15x_lit_eqb nat c15x_cube unit unit (c15x_oracle bad k a) (fun _ => None) 3 gen true
              (PdrImpl.BmcFail unit unit tt) 50 50.
Definition c15x_has_unknown (l : list (PdrImpl.event c15x_lit nat unit)) : bool :=
  existsb (fun ev => match ev with PdrImpl.EvQuery _ _ _ _ (PdrImpl.AUnknown _ _ _) => true | _ => false end) l.

Theorem C15_pdr_unknown_never_verdict_refuted :
  (* bad = 3 (safe): query 4 - a propagation query - answered unknown, the run still returns Success *)
  (match c15x_run (fun s => Nat.eqb s 3) false 4 (PdrImpl.AUnknown _ _ _) with
   | PdrImpl.Ok (PdrImpl.VSuccess _, st) => c15x_has_unknown (PdrImpl.p_log _ _ _ st)
   | _ => false end) = true /\
  (* bad = 2 (unsafe): query 4 - a query of the pushing loop - answered unknown, the run still returns Fail *)
  (match c15x_run (fun s => Nat.eqb s 2) false 4 (PdrImpl.AUnknown _ _ _) with
   | PdrImpl.Ok (PdrImpl.VFail _ _, st) => c15x_has_unknown (PdrImpl.p_log _ _ _ st)
   | _ => false end) = true.
Proof. vm_compute. split; reflexivity. Qed.
Print Assumptions C15_pdr_unknown_never_verdict_refuted.

(** Non-vacuity of the two theorems above: an error answer at query 2 is returned as the run's result,
    an unknown answer to the first get_bad_cube query (query 0) gives [Err (EUnknown KBad)]. *)
Example C15_pdr_model_examples :
  (match c15x_run (fun s => Nat.eqb s 3) true 2 (PdrImpl.AErr _ _ _ tt) with
   | PdrImpl.Err (PdrImpl.ESolver _ tt) (PdrImpl.EvQuery _ _ _ _ (PdrImpl.AErr _ _ _ tt) :: _) => true | _ => false end) = true /\
  (match c15x_run (fun s => Nat.eqb s 3) true 0 (PdrImpl.AUnknown _ _ _) with
   | PdrImpl.Err (PdrImpl.EUnknown _ PdrImpl.KBad) _ => true | _ => false end) = true.
Proof. vm_compute. split; reflexivity. Qed.

(* ================================================================== PDR: faults at ANY position of a run *)
From Coq Require Import Bool Arith.
From Patronus Require PdrFaultPosProofs.

(** ** faults at ANY position of a run of the concrete PDR model (Proofs/PdrFaultPosProofs.v)

    [PdrFaultPosProofs.qlog l]: the queries of the log [l] with their answers, oldest first;
    [PdrFaultPosProofs.asked l n q a]: the n-th consultation of the oracle recorded in [l] was query [q]
    and got answer [a]; [PdrFaultPosProofs.numbered solve l]: every query recorded in [l] carries the
    oracle's answer for its running number ([asked l n q a -> a = solve n q]). *)

(** The log is complete and numbered.  (1) When a verdict is returned, the log records exactly the
    [p_q] consultations of the oracle, each with the oracle's answer for its running number, and the
    commands issued are the commands 0 .. p_c - 1, none of which failed.  (2) The log of an error is
    numbered too. *)
Theorem C15_pdr_model_log_complete :
  forall (lit : Type) (lit_eqb : lit -> lit -> bool) (St : Type) (cube_of_state : St -> list lit) (W EM : Type)
         (solve : nat -> PdrImpl.query lit -> PdrImpl.answer lit St EM) (cmd_fail : nat -> option EM) (n_init : nat)
         (gen_on has_bads : bool) (bmc_result : PdrImpl.bmc_answer W EM) (fuel bf : nat),
    (forall v st', PdrImpl.pdr lit lit_eqb St cube_of_state W EM solve cmd_fail n_init gen_on has_bads bmc_result fuel bf
                   = @PdrImpl.Ok lit St EM _ (v, st') ->
                   length (PdrFaultPosProofs.qlog lit St EM (PdrImpl.p_log lit St EM st')) = PdrImpl.p_q lit St EM st' /\
                   PdrFaultPosProofs.numbered lit St EM solve (PdrImpl.p_log lit St EM st') /\
                   (forall i, i < PdrImpl.p_c lit St EM st' -> cmd_fail i = None)) /\
    (forall e log, PdrImpl.pdr lit lit_eqb St cube_of_state W EM solve cmd_fail n_init gen_on has_bads bmc_result fuel bf
                   = @PdrImpl.Err lit St EM _ e log ->
                   PdrFaultPosProofs.numbered lit St EM solve log).
Proof. exact PdrFaultPosProofs.pdr_model_log_complete. Qed.
Print Assumptions C15_pdr_model_log_complete.

(** An error answer at ANY position: if the oracle answers query [q] as the n-th consultation with an
    error, then (1) no run that returns a verdict ever made that consultation; (2) a run that made it
    returns exactly this error, the failing query is the newest event of its log, exactly n queries were
    asked before it and everything before it is clean. *)
Theorem C15_pdr_model_error_any_position :
  forall (lit : Type) (lit_eqb : lit -> lit -> bool) (St : Type) (cube_of_state : St -> list lit) (W EM : Type)
         (solve : nat -> PdrImpl.query lit -> PdrImpl.answer lit St EM) (cmd_fail : nat -> option EM) (n_init : nat)
         (gen_on has_bads : bool) (bmc_result : PdrImpl.bmc_answer W EM) (fuel bf : nat)
         (n : nat) (q : PdrImpl.query lit) (m : EM),
    solve n q = PdrImpl.AErr lit St EM m ->
    (forall v st' a, PdrImpl.pdr lit lit_eqb St cube_of_state W EM solve cmd_fail n_init gen_on has_bads bmc_result fuel bf
                     = @PdrImpl.Ok lit St EM _ (v, st') ->
                     ~ PdrFaultPosProofs.asked lit St EM (PdrImpl.p_log lit St EM st') n q a) /\
    (forall e log a, PdrImpl.pdr lit lit_eqb St cube_of_state W EM solve cmd_fail n_init gen_on has_bads bmc_result fuel bf
                     = @PdrImpl.Err lit St EM _ e log ->
                     PdrFaultPosProofs.asked lit St EM log n q a ->
                     e = PdrImpl.ESolver EM m /\
                     exists l0, log = PdrImpl.EvQuery lit St EM q (PdrImpl.AErr lit St EM m) :: l0 /\
                                length (PdrFaultPosProofs.qlog lit St EM l0) = n /\
                                PdrFaultProofs.clean lit St EM l0).
Proof. exact PdrFaultPosProofs.pdr_model_error_any_position. Qed.
Print Assumptions C15_pdr_model_error_any_position.

(** A failing command at ANY position.  (1) A run that returns a verdict never issued a failing command:
    if command i fails, fewer than i+1 commands were issued.  (2) A run whose log ends with the failure
    of command idx returns that command's error, idx is the FIRST failing command, everything before the
    failure is clean. *)
Theorem C15_pdr_model_cmd_failure_any_position :
  forall (lit : Type) (lit_eqb : lit -> lit -> bool) (St : Type) (cube_of_state : St -> list lit) (W EM : Type)
         (solve : nat -> PdrImpl.query lit -> PdrImpl.answer lit St EM) (cmd_fail : nat -> option EM) (n_init : nat)
         (gen_on has_bads : bool) (bmc_result : PdrImpl.bmc_answer W EM) (fuel bf : nat),
    (forall v st' i m, PdrImpl.pdr lit lit_eqb St cube_of_state W EM solve cmd_fail n_init gen_on has_bads bmc_result fuel bf
                       = @PdrImpl.Ok lit St EM _ (v, st') ->
                       cmd_fail i = Some m -> PdrImpl.p_c lit St EM st' <= i) /\
    (forall e idx m l0, PdrImpl.pdr lit lit_eqb St cube_of_state W EM solve cmd_fail n_init gen_on has_bads bmc_result fuel bf
                        = @PdrImpl.Err lit St EM _ e (PdrImpl.EvCmdFail lit St EM idx m :: l0) ->
                        e = PdrImpl.ESolver EM m /\ cmd_fail idx = Some m /\
                        (forall i, i < idx -> cmd_fail i = None) /\ PdrFaultProofs.clean lit St EM l0).
Proof. exact PdrFaultPosProofs.pdr_model_cmd_failure_any_position. Qed.
Print Assumptions C15_pdr_model_cmd_failure_any_position.

(** An unknown answer at ANY position, to a query of a kind where pdr.rs does not go on (get_bad_cube,
    fix_gen_cube's two queries): (1) no run that returns a verdict made that consultation; (2) a run that
    made it returns [EUnknown] of that kind, the query is the newest event, n queries before it, clean
    before it.  (For relative-induction queries and the query against the infinite frame the run may
    go on: C15_pdr_model_unknown, C15_pdr_unknown_never_verdict_refuted.) *)
Theorem C15_pdr_model_unknown_any_position :
  forall (lit : Type) (lit_eqb : lit -> lit -> bool) (St : Type) (cube_of_state : St -> list lit) (W EM : Type)
         (solve : nat -> PdrImpl.query lit -> PdrImpl.answer lit St EM) (cmd_fail : nat -> option EM) (n_init : nat)
         (gen_on has_bads : bool) (bmc_result : PdrImpl.bmc_answer W EM) (fuel bf : nat)
         (n : nat) (q : PdrImpl.query lit),
    solve n q = PdrImpl.AUnknown lit St EM ->
    PdrImpl.q_kind lit q <> PdrImpl.KRelInd -> PdrImpl.q_kind lit q <> PdrImpl.KInf ->
    (forall v st' a, PdrImpl.pdr lit lit_eqb St cube_of_state W EM solve cmd_fail n_init gen_on has_bads bmc_result fuel bf
                     = @PdrImpl.Ok lit St EM _ (v, st') ->
                     ~ PdrFaultPosProofs.asked lit St EM (PdrImpl.p_log lit St EM st') n q a) /\
    (forall e log a, PdrImpl.pdr lit lit_eqb St cube_of_state W EM solve cmd_fail n_init gen_on has_bads bmc_result fuel bf
                     = @PdrImpl.Err lit St EM _ e log ->
                     PdrFaultPosProofs.asked lit St EM log n q a ->
                     e = PdrImpl.EUnknown EM (PdrImpl.q_kind lit q) /\
                     exists l0, log = PdrImpl.EvQuery lit St EM q (PdrImpl.AUnknown lit St EM) :: l0 /\
                                length (PdrFaultPosProofs.qlog lit St EM l0) = n /\
                                PdrFaultProofs.clean lit St EM l0).
Proof. exact PdrFaultPosProofs.pdr_model_unknown_any_position. Qed.
Print Assumptions C15_pdr_model_unknown_any_position.

(** A verdict rests on intact answers only: when a verdict is returned, EVERY consultation 0 .. p_q - 1
    of the oracle is in the log with the oracle's answer, none of these answers is an error, an unknown
    answer occurs only at a relative-induction query or at the query against the infinite frame; no
    command failed; a Fail verdict is the BMC fallback's own (so none when the fallback failed). *)
Theorem C15_pdr_model_verdict_intact :
  forall (lit : Type) (lit_eqb : lit -> lit -> bool) (St : Type) (cube_of_state : St -> list lit) (W EM : Type)
         (solve : nat -> PdrImpl.query lit -> PdrImpl.answer lit St EM) (cmd_fail : nat -> option EM) (n_init : nat)
         (gen_on has_bads : bool) (bmc_result : PdrImpl.bmc_answer W EM) (fuel bf : nat)
         (v : PdrImpl.verdict W) (st' : PdrImpl.pst lit St EM),
    PdrImpl.pdr lit lit_eqb St cube_of_state W EM solve cmd_fail n_init gen_on has_bads bmc_result fuel bf
    = @PdrImpl.Ok lit St EM _ (v, st') ->
    (forall n, n < PdrImpl.p_q lit St EM st' ->
       exists q, PdrFaultPosProofs.asked lit St EM (PdrImpl.p_log lit St EM st') n q (solve n q) /\
                 (forall m, solve n q <> PdrImpl.AErr lit St EM m) /\
                 (solve n q = PdrImpl.AUnknown lit St EM ->
                  PdrImpl.q_kind lit q = PdrImpl.KRelInd \/ PdrImpl.q_kind lit q = PdrImpl.KInf)) /\
    (forall i, i < PdrImpl.p_c lit St EM st' -> cmd_fail i = None) /\
    (forall w, v = PdrImpl.VFail W w -> bmc_result = PdrImpl.BmcFail W EM w) /\
    (forall m, bmc_result = PdrImpl.BmcErr W EM m -> forall w, v <> PdrImpl.VFail W w).
Proof. exact PdrFaultPosProofs.pdr_model_verdict_intact. Qed.
Print Assumptions C15_pdr_model_verdict_intact.

(** Non-vacuity, on the counter 0 -> 1 -> 2 -> 0 (bad = 3: safe, bad = 2: unsafe), with and without
    unsat-core generalisation: a fault injected at EVERY position of the fault-free run. *)
Definition c15p_lit : Type := (nat * bool)%type.
Definition c15p_lit_eqb (a b : c15p_lit) : bool := andb (Nat.eqb (fst a) (fst b)) (Bool.eqb (snd a) (snd b)).
Definition c15p_holds (l : c15p_lit) (s : nat) : bool := Bool.eqb (Nat.testbit s (fst l)) (snd l).
Definition c15p_cube (s : nat) : list c15p_lit := (0%nat, Nat.testbit s 0) :: (1%nat, Nat.testbit s 1) :: nil.
Definition c15p_step0 (s s' : nat) : bool := andb (Nat.eqb s 0) (Nat.eqb s' 1).
Definition c15p_trans (s s' : nat) : bool := Nat.eqb s' (if Nat.leb 2 s then 0%nat else S s).
Definition c15p_states : list nat := (0 :: 1 :: 2 :: 3 :: nil)%nat.
(** the exhaustive-search oracle of the counter, except that query number k gets [a] when [qf = Some (k, a)] *)
Definition c15p_oracle (bad : nat -> bool) (qf : option (nat * PdrImpl.answer c15p_lit nat unit))
           (n : nat) (q : PdrImpl.query c15p_lit) : PdrImpl.answer c15p_lit nat unit :=
  let honest := PdrImpl.enum_solve c15p_lit nat unit c15p_holds (fun s => andb (Nat.eqb s 0) (bad s)) c15p_step0 c15p_trans bad c15p_states n q in
  match qf with
  | Some (k, a) => if Nat.eqb n k then a else honest
  | None => honest
  end.
(** ... and command number k fails when [cf = Some k] *)
Definition c15p_run (bad : nat -> bool) (gen : bool) (qf : option (nat * PdrImpl.answer c15p_lit nat unit)) (cf : option nat) :=
  PdrImpl.pdr c15p_lit c15p_lit_eqb nat c15p_cube unit unit (c15p_oracle bad qf)
              (fun i => match cf with Some k => if Nat.eqb i k then Some tt else None | None => None end)
              3 gen true (PdrImpl.BmcFail unit unit tt) 50 50.
(** queries / commands of the fault-free run *)
Definition c15p_nq (bad : nat -> bool) (gen : bool) : nat :=
  match c15p_run bad gen None None with PdrImpl.Ok (_, st) => PdrImpl.p_q _ _ _ st | _ => 0%nat end.
Definition c15p_nc (bad : nat -> bool) (gen : bool) : nat :=
  match c15p_run bad gen None None with PdrImpl.Ok (_, st) => PdrImpl.p_c _ _ _ st | _ => 0%nat end.
(** 0 = an error is returned, 1 / 2 / 3 = verdict Success / Fail / Unknown, 4 = panic, 5 = out of fuel *)
Definition c15p_tag (r : PdrImpl.res c15p_lit nat unit (PdrImpl.verdict unit * PdrImpl.pst c15p_lit nat unit)) : nat :=
  match r with
  | PdrImpl.Ok (PdrImpl.VSuccess _, _) => 1%nat
  | PdrImpl.Ok (PdrImpl.VFail _ _, _) => 2%nat
  | PdrImpl.Ok (PdrImpl.VUnknown _, _) => 3%nat
  | PdrImpl.Err _ _ => 0%nat
  | PdrImpl.Panic _ => 4%nat
  | PdrImpl.Fuel => 5%nat
  end.
(** (a) an error answer at query k: the run returns it, newest event, k queries before it *)
Definition c15p_err_at (bad : nat -> bool) (gen : bool) (k : nat) : bool :=
  match c15p_run bad gen (Some (k, PdrImpl.AErr _ _ _ tt)) None with
  | PdrImpl.Err (PdrImpl.ESolver _ tt) (PdrImpl.EvQuery _ _ _ _ (PdrImpl.AErr _ _ _ tt) :: l0) =>
      Nat.eqb (length (PdrFaultPosProofs.qlog _ _ _ l0)) k
  | _ => false
  end.
(** (b) command k fails: the run returns it, newest event, with index k *)
Definition c15p_cmd_at (bad : nat -> bool) (gen : bool) (k : nat) : bool :=
  match c15p_run bad gen None (Some k) with
  | PdrImpl.Err (PdrImpl.ESolver _ tt) (PdrImpl.EvCmdFail _ _ _ idx tt :: _) => Nat.eqb idx k
  | _ => false
  end.
(** (c) an unknown answer at query k: an error, or the verdict of the fault-free run *)
Definition c15p_unk_at (bad : nat -> bool) (gen : bool) (k : nat) : bool :=
  let t := c15p_tag (c15p_run bad gen (Some (k, PdrImpl.AUnknown _ _ _)) None) in
  orb (Nat.eqb t 0) (Nat.eqb t (c15p_tag (c15p_run bad gen None None))).
Definition c15p_all (bad : nat -> bool) (gen : bool) : bool :=
  andb (forallb (c15p_err_at bad gen) (seq 0 (c15p_nq bad gen)))
       (andb (forallb (c15p_cmd_at bad gen) (seq 0 (c15p_nc bad gen)))
             (forallb (c15p_unk_at bad gen) (seq 0 (c15p_nq bad gen)))).
(** the fault-free runs: Success after 7 (5 without generalisation) queries and 20 commands on the safe
    system, Fail after 9 (8) queries and 30 commands on the unsafe one; then, for EVERY query position k
    of the fault-free run, (a) an error answer at k is returned as the run's result (newest event, k
    queries before it) and (c) an unknown answer at k gives an error or the verdict of the fault-free
    run - never Success for Fail or Fail for Success; (b) for EVERY command position k of the
    fault-free run, the failure of command k is returned as the run's result (newest event, index k). *)
Example C15_pdr_pos_examples :
  (c15p_tag (c15p_run (fun s => Nat.eqb s 3) true None None), c15p_nq (fun s => Nat.eqb s 3) true, c15p_nc (fun s => Nat.eqb s 3) true) = (1, 7, 20)%nat /\
  (c15p_tag (c15p_run (fun s => Nat.eqb s 3) false None None), c15p_nq (fun s => Nat.eqb s 3) false, c15p_nc (fun s => Nat.eqb s 3) false) = (1, 5, 20)%nat /\
  (c15p_tag (c15p_run (fun s => Nat.eqb s 2) true None None), c15p_nq (fun s => Nat.eqb s 2) true, c15p_nc (fun s => Nat.eqb s 2) true) = (2, 9, 30)%nat /\
  (c15p_tag (c15p_run (fun s => Nat.eqb s 2) false None None), c15p_nq (fun s => Nat.eqb s 2) false, c15p_nc (fun s => Nat.eqb s 2) false) = (2, 8, 30)%nat /\
  c15p_all (fun s => Nat.eqb s 3) true = true /\ c15p_all (fun s => Nat.eqb s 3) false = true /\
  c15p_all (fun s => Nat.eqb s 2) true = true /\ c15p_all (fun s => Nat.eqb s 2) false = true.
Proof. vm_compute. repeat split; reflexivity. Qed.
Print Assumptions C15_pdr_pos_examples.
