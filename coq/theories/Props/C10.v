(** * Props/C10.v — PDR verdicts are sound and definite, with genuine counterexamples.

    Only statements, [exact lemma] proofs, [Print Assumptions] and non-vacuity
    examples.

    Scope (DESIGN.md "### C10", section 9): patronus/src/mc/pdr.rs is modelled at
    the level of its VERDICT and of its ABSTRACT LOGIC, not line by line.
    - [reach_spec] (Spec/ReachFix.v) is the executable specification of the
      verdict: explicit-state forward reachability to a fixpoint.  The theorems
      [C10_reach_spec_*] say that it decides reachability of a bad state at ANY
      depth, in the execution semantics of Spec/System.v, for every system of the
      class [fin_class].  The real pdr is compared with it on every run of
      ./check (correspondence corr_C10_verdict).
    - [Ic3] (Model/Ic3.v) is the abstract IC3/PDR logic (frames = delta-encoded
      sets of blocked cubes, obligations, solver answers as parameters); the
      theorems [C10_ic3_*] are its soundness arguments with the side conditions
      made explicit. *)
From Patronus Require Import ReachFix BfsProofs ReachFixProofs.
Open Scope N_scope.

(** [reach_spec] always returns a verdict (the fuel [number of valuations + 1]
    is never exhausted). *)
Theorem C10_reach_spec_total :
  forall sy, fin_class sy = true -> reach_spec sy <> OutOfFuel.
Proof. exact reach_spec_total_sys. Qed.
Print Assumptions C10_reach_spec_total.

(** [Safe] iff no bad state is reachable at any depth by an execution that
    satisfies the constraints at every step ([bad_reachable] of Spec/System.v:
    exists k, exists an execution of at most k steps ...).  Completeness comes from
    the closure of the visited set, not from a depth bound. *)
Theorem C10_reach_spec_safe :
  forall sy, fin_class sy = true -> (reach_spec sy = Safe <-> ~ bad_reachable sy).
Proof. exact reach_spec_safe_iff. Qed.
Print Assumptions C10_reach_spec_safe.

(** [Unsafe d] iff [d] is the least depth at which a bad state is reachable. *)
Theorem C10_reach_spec_unsafe :
  forall sy, fin_class sy = true -> forall d,
    (reach_spec sy = Unsafe d <->
     (bad_reachable_within sy d /\ forall k, (k < d)%nat -> ~ bad_reachable_within sy k)).
Proof. exact reach_spec_unsafe_iff. Qed.
Print Assumptions C10_reach_spec_unsafe.

(** Non-vacuity: a 3-bit counter with an enable input is in the class; bad at 5 is
    reached at depth 5; a counter that wraps at 3 never reaches 6 (the invariant
    c <= 3 is not the property itself). *)
Open Scope string_scope.
Definition ex_c := BVSymbol "c" 3.
Definition ex_en := BVSymbol "en" 1.
Definition ex_counter (next bad : expr) : sys :=
  {| s_inputs := [ex_en];
     s_states := [ {| st_sym := ex_c; st_init := Some (BVLiteral 3 0); st_next := Some next |} ];
     s_outputs := []; s_bads := [bad]; s_constraints := [] |}.
Definition ex_unsafe := ex_counter (BVAdd ex_c (BVZeroExt ex_en 2 3) 3) (BVEqual ex_c (BVLiteral 3 5)).
Definition ex_safe :=
  ex_counter (BVIte (BVEqual ex_c (BVLiteral 3 3)) (BVLiteral 3 0) (BVAdd ex_c (BVZeroExt ex_en 2 3) 3))
             (BVEqual ex_c (BVLiteral 3 6)).

Example C10_example_class :
  fin_class ex_unsafe = true /\ fin_class ex_safe = true /\
  reach_spec ex_unsafe = Unsafe 5 /\ reach_spec ex_safe = Safe.
Proof. vm_compute. repeat split. Qed.

(** ** the abstract IC3/PDR logic (Model/Ic3.v) *)
From Patronus Require Import Ic3 Ic3Proofs.
Close Scope N_scope.
Close Scope string_scope.

(** If the frame sequence satisfies  Init => F_i,  F_i => F_{i+1},  F_i /\ T => F'_{i+1},
    F_i => not Bad  (below the frontier N)  and some F_i = F_{i+1}, no bad state is
    reachable.  Any state type, any boolean init / trans / bad. *)
Theorem C10_ic3_safe :
  forall (St : Type) (init bad : St -> bool) (trans : St -> St -> bool) (Fr : nat -> St -> bool) (N i : nat),
    frames_ok St init bad trans Fr N -> i < N ->
    (forall s, Fr (S i) s = true -> Fr i s = true) ->
    forall s, reachable St init trans s -> bad s = false.
Proof. exact ic3_safe_sem. Qed.
Print Assumptions C10_ic3_safe.

(** The same for the delta-encoded trace of the model ([trace_inv] = the four invariants for
    [frame_holds] plus "the infinite frame contains Init and is closed under T"). *)
Theorem C10_ic3_safe_trace :
  forall (St : Type) (init bad : St -> bool) (trans : St -> St -> bool) (tr : trace St) (i : nat),
    trace_inv St init bad trans tr -> i < frontier St tr ->
    (forall s, frame_holds St init tr (S i) s = true -> frame_holds St init tr i s = true) ->
    forall s, reachable St init trans s -> bad s = false.
Proof. exact ic3_safe_trace. Qed.
Print Assumptions C10_ic3_safe_trace.

(** Every operation preserves the invariants, PROVIDED the solver answer it is conditioned on
    is truthful ([rel_inductive], [inf_rel_inductive], [truthful_moves], the hypothesis of
    [add_frame]) AND the blocked cube excludes every initial state ([excludes_init]).  A
    fixpoint detected by the propagation proves safety. *)
Theorem C10_ic3_steps_preserve :
  forall (St : Type) (init bad : St -> bool) (trans : St -> St -> bool) (tr : trace St),
    trace_inv St init bad trans tr ->
    ((forall s, frame_holds St init tr (frontier St tr) s = true -> bad s = false) ->
     trace_inv St init bad trans (add_frame St tr)) /\
    (forall k g tr', add_blocked_cube St tr (FFinite k) g = Some tr' ->
                     excludes_init St init g -> rel_inductive St init trans tr k g ->
                     trace_inv St init bad trans tr') /\
    (forall g tr', add_blocked_cube St tr FInf g = Some tr' ->
                   excludes_init St init g -> inf_rel_inductive St trans tr g ->
                   trace_inv St init bad trans tr') /\
    (forall k ans tr' b, propagate_frame St tr k ans = Some (tr', b) ->
                         truthful_moves init trans tr k ans ->
                         trace_inv St init bad trans tr' /\
                         (b = true -> forall s, reachable St init trans s -> bad s = false)).
Proof. exact ic3_steps_preserve_lemma. Qed.
Print Assumptions C10_ic3_steps_preserve.

(** The obligation queue keeps its invariant (every obligation (s, j) has a bad state exactly
    frontier - j transitions away; at frame 0 it is an initial state) when SAT answers are truthful. *)
Theorem C10_ic3_obligations_preserve :
  forall (St : Type) (init bad : St -> bool) (trans : St -> St -> bool) (N : nat) (tr : trace St)
         (q : list (obligation St)) (ans : answer St) (tr' : trace St) (q' : list (obligation St)),
    List.Forall (obl_ok St init bad trans N) q ->
    block_step St tr q ans = Continue St tr' q' ->
    (forall s j rest p, pop_min St q = Some (s, S j, rest) -> ans = Sat St p ->
                        trans p s = true /\ (j = 0 -> init p = true)) ->
    List.Forall (obl_ok St init bad trans N) q'.
Proof. exact block_step_preserves. Qed.
Print Assumptions C10_ic3_obligations_preserve.

(** An obligation chain that reaches the initial frame is a real execution: the state is
    initial and a bad state is reachable from an initial state in exactly N transitions. *)
Theorem C10_ic3_chain_real :
  forall (St : Type) (init bad : St -> bool) (trans : St -> St -> bool) (N : nat) (tr : trace St)
         (q : list (obligation St)) (ans : answer St) (s : St),
    List.Forall (obl_ok St init bad trans N) q ->
    block_step St tr q ans = CounterExample St s ->
    init s = true /\ (exists s', reach_in St init trans N s' /\ bad s' = true).
Proof. exact ic3_chain_real. Qed.
Print Assumptions C10_ic3_chain_real.

(** Under the invariants an obligation at a frame >= 1 is never an initial state, so the side
    condition [excludes_init] of blocking a single-state cube holds automatically - as long as
    init, trans and bad are predicates of the state alone.  (pdr.rs relies on this: it never
    tests obligations against the initial states.  When an init expression reads an input, the
    projection to the states is not exact and the argument - and pdr.rs - fails: see the
    findings pdr:*:init-reads-input.) *)
Theorem C10_ic3_obligation_never_initial :
  forall (St : Type) (init bad : St -> bool) (trans : St -> St -> bool) (tr : trace St) (s : St) (j : nat),
    trace_inv St init bad trans tr ->
    obl_ok St init bad trans (frontier St tr) (s, j) -> 1 <= j -> init s = false.
Proof. exact obligation_never_initial. Qed.
Print Assumptions C10_ic3_obligation_never_initial.

(** The executable checker of the invariants over a listed state space is sound. *)
Theorem C10_ic3_check_inv_sound :
  forall (St : Type) (init bad : St -> bool) (trans : St -> St -> bool) (states : list St),
    (forall s, List.In s states) ->
    forall tr, check_inv St init bad trans states tr = true -> trace_inv St init bad trans tr.
Proof. exact check_inv_sound. Qed.
Print Assumptions C10_ic3_check_inv_sound.

(** Non-vacuity: the run of the logic on the counter 0 -> 1 -> 2 -> 0 (state 3 steps to 0),
    bad = 3.  Frontier 0: no bad initial state, add a frame.  Frontier 1: the bad state 3 is an
    obligation at frame 1; it has no predecessor in F_0, its cube is blocked at frame 1; no bad
    state is left in F_1, add a frame; the cube propagates from frame 1 to frame 2 and frame 1
    becomes empty: fixpoint.  Every intermediate trace passes [check_inv] (hence satisfies
    [trace_inv] by the theorem above), the side conditions hold, the fixpoint is reported. *)
Definition ex_states : list nat := 0 :: 1 :: 2 :: 3 :: nil.
Definition ex_init (s : nat) : bool := Nat.eqb s 0.
Definition ex_bad (s : nat) : bool := Nat.eqb s 3.
Definition ex_trans (s s' : nat) : bool := Nat.eqb s' (if Nat.leb 2 s then 0 else S s).
Definition ex_cube3 : cube nat := (fun s => Nat.eqb s 3) :: nil.

Example C10_ic3_example :
  let chk := check_inv nat ex_init ex_bad ex_trans ex_states in
  let tr0 := empty_trace nat in
  let tr1 := add_frame nat tr0 in
  chk tr0 = true /\ chk tr1 = true /\
  (* the obligation (3, 1) and the answer "UNSAT, block {3} at frame 1" *)
  match block_step nat tr1 ((3, 1) :: nil) (Unsat nat ex_cube3 1) with
  | Continue _ tr2 q2 =>
      chk tr2 = true /\ q2 = nil /\
      forallb (fun s => negb (ex_init s && cube_holds nat ex_cube3 s)) ex_states = true /\
      (let tr3 := add_frame nat tr2 in
       chk tr3 = true /\
       match propagate_frame nat tr3 1 (true :: nil) with
       | Some (tr4, fix_found) => chk tr4 = true /\ fix_found = true
       | None => False
       end)
  | _ => False
  end /\
  (* a counterexample chain: with bad = 2 the obligations (2,2) <- (1,1) <- (0,0) end at frame 0 *)
  block_step nat tr1 ((0, 0) :: (1, 1) :: nil) (Sat nat 0) = CounterExample nat 0.
Proof. vm_compute. repeat split. Qed.

(** Blocking a predicate [g] in the frames 0 .. k keeps the frame invariants for ANY representation
    of the frames: [g] must exclude every initial state and, for k >= 1, be inductive relative to
    frame k-1.  With [init] read as "successor of an initial valuation" and [Fr i] as R_{i+1} this
    is the side condition of the repaired pdr.rs (patches/0001-fix-pdr-init-reads-input.diff):
    blocking at R_1 needs only the query R_0 /\ T /\ g' to be unsatisfiable. *)
Theorem C10_ic3_block_sem :
  forall (St : Type) (init bad : St -> bool) (trans : St -> St -> bool) (Fr : nat -> St -> bool) (N k : nat)
         (g : St -> bool),
    frames_ok St init bad trans Fr N -> k <= N ->
    (forall s, init s = true -> g s = false) ->
    (forall s s', 1 <= k -> Fr (pred k) s = true -> g s = false -> trans s s' = true -> g s' = false) ->
    frames_ok St init bad trans (strengthen St Fr k g) N.
Proof. exact strengthen_frames_ok. Qed.
Print Assumptions C10_ic3_block_sem.

(** ** the CONCRETE model of pdr.rs (Model/PdrImpl.v): cubes, FrameId, frames with bookkeeping
    lists and permanently asserted clauses, get_bad_cube, rel_ind with unsat-core generalisation and
    fix_gen_cube, block_cube with its obligation queue and the pushing loop, add_frame,
    propagate_blocked_cubes, the main loop and the BMC fallback — over an abstract solver oracle
    [solve : nat -> query -> answer].

    [oracle_ok]: (1) a bit-level cube of a state describes exactly that state; (2) every answer is
    TRUTHFUL: a sat answer carries a model of the query, an unsat answer is right for the query
    restricted to the selectable literals of its core (whatever the core is); (3) a system without
    bad-state expressions has no bad state.  Semantics ([bad0], [step0], [trans], [bad]: see
    Proofs/PdrImplProofs.v): [safe] = no execution of any length reaches a bad state, [unsafe_at d] =
    some execution of exactly d steps does.  The proofs establish, for every state change of the
    model, the side conditions of the abstract logic (blocked cube excludes the successors of the
    initial states; relative induction; "no bad state in the frontier" before a new frame).

    Tie to the real pdr.rs: the cfg(patronus_verif) trace hook records every query with the real
    solver's answer, every blocked cube and every new frame; ./check replays the extracted model with
    these answers as the oracle and compares the runs event by event (correspondence corr_C10). *)
From Patronus Require Import PdrImpl PdrImplProofs.

(** Success of the concrete model is sound — for every oracle satisfying the hypothesis, every
    fuel, generalisation on or off. *)
Theorem C10_pdr_model_success_sound :
  forall (lit : Type) (lit_eqb : lit -> lit -> bool) (St : Type) (cube_of_state : St -> list lit) (W EM : Type)
         (solve : nat -> query lit -> answer lit St EM) (cmd_fail : nat -> option EM) (n_init : nat)
         (gen_on has_bads : bool) (bmc_result : bmc_answer W EM)
         (lit_holds : lit -> St -> bool) (bad0 : St -> bool) (step0 trans : St -> St -> bool) (bad : St -> bool)
         (fuel bf : nat) (st' : pst lit St EM),
    oracle_ok lit lit_eqb St cube_of_state EM solve has_bads lit_holds bad0 step0 trans bad ->
    pdr lit lit_eqb St cube_of_state W EM solve cmd_fail n_init gen_on has_bads bmc_result fuel bf = Ok (VSuccess W, st') ->
    safe St bad0 step0 trans bad.
Proof. exact pdr_model_success_sound. Qed.
Print Assumptions C10_pdr_model_success_sound.

(** Fail: the witness is the one the BMC fallback produced, and a bad state really is reachable in at
    most MAX_FRAMES steps (the obligation chain that reached the initial frame is a real execution),
    so an exact bounded model checker (C02) cannot come back empty-handed. *)
Theorem C10_pdr_model_fail_real :
  forall (lit : Type) (lit_eqb : lit -> lit -> bool) (St : Type) (cube_of_state : St -> list lit) (W EM : Type)
         (solve : nat -> query lit -> answer lit St EM) (cmd_fail : nat -> option EM) (n_init : nat)
         (gen_on has_bads : bool) (bmc_result : bmc_answer W EM)
         (lit_holds : lit -> St -> bool) (bad0 : St -> bool) (step0 trans : St -> St -> bool) (bad : St -> bool)
         (fuel bf : nat) (w : W) (st' : pst lit St EM),
    oracle_ok lit lit_eqb St cube_of_state EM solve has_bads lit_holds bad0 step0 trans bad ->
    pdr lit lit_eqb St cube_of_state W EM solve cmd_fail n_init gen_on has_bads bmc_result fuel bf = Ok (VFail W w, st') ->
    bmc_result = BmcFail W EM w /\ (exists d, d <= MAX_FRAMES /\ unsafe_at St bad0 step0 trans bad d).
Proof. exact pdr_model_fail_real. Qed.
Print Assumptions C10_pdr_model_fail_real.

(** Definite: with a truthful solver and no fault ([no_faults]: no "unknown", no error answer, no failing
    command, no failing BMC fallback) the model returns neither an error
    nor a panic (every Err / panic! / assert! / index path of pdr.rs is unreachable: "original cube is
    reachable from init", FrameId decrement/increment, frame indexing, the assert in fix_gen_cube);
    the fuel of fix_gen_cube's loop and of the pushing loop is computed and suffices.  This statement
    is conditional on the fuel of block_cube's loop and of the main loop ([Fuel] = the model's own fuel
    ran out); TERMINATION is the subject of the theorems [C10_pdr_block_loop_terminates],
    [C10_pdr_model_terminates], [C10_pdr_model_total_small] at the end of this file. *)
Theorem C10_pdr_model_definite :
  forall (lit : Type) (lit_eqb : lit -> lit -> bool) (St : Type) (cube_of_state : St -> list lit) (W EM : Type)
         (solve : nat -> query lit -> answer lit St EM) (cmd_fail : nat -> option EM) (n_init : nat)
         (gen_on has_bads : bool) (bmc_result : bmc_answer W EM)
         (lit_holds : lit -> St -> bool) (bad0 : St -> bool) (step0 trans : St -> St -> bool) (bad : St -> bool)
         (fuel bf : nat),
    oracle_ok lit lit_eqb St cube_of_state EM solve has_bads lit_holds bad0 step0 trans bad ->
    no_faults lit St W EM solve cmd_fail bmc_result ->
    match pdr lit lit_eqb St cube_of_state W EM solve cmd_fail n_init gen_on has_bads bmc_result fuel bf with
    | Err _ _ | Panic _ => False
    | Ok _ | Fuel => True
    end.
Proof. exact pdr_model_no_error. Qed.
Print Assumptions C10_pdr_model_definite.

(** ... and [Unknown] only when the frame limit is exceeded or the BMC fallback gives up although a
    counterexample within its bound exists. *)
Theorem C10_pdr_model_unknown_only :
  forall (lit : Type) (lit_eqb : lit -> lit -> bool) (St : Type) (cube_of_state : St -> list lit) (W EM : Type)
         (solve : nat -> query lit -> answer lit St EM) (cmd_fail : nat -> option EM) (n_init : nat)
         (gen_on has_bads : bool) (bmc_result : bmc_answer W EM)
         (lit_holds : lit -> St -> bool) (bad0 : St -> bool) (step0 trans : St -> St -> bool) (bad : St -> bool)
         (fuel bf : nat) (st' : pst lit St EM),
    oracle_ok lit lit_eqb St cube_of_state EM solve has_bads lit_holds bad0 step0 trans bad ->
    pdr lit lit_eqb St cube_of_state W EM solve cmd_fail n_init gen_on has_bads bmc_result fuel bf = Ok (VUnknown W, st') ->
    MAX_FRAMES < length (p_frames lit St EM st') \/
    (bmc_result = BmcOther W EM /\ (exists d, d <= MAX_FRAMES /\ unsafe_at St bad0 step0 trans bad d)).
Proof. exact pdr_model_unknown_only. Qed.
Print Assumptions C10_pdr_model_unknown_only.

(** The hypotheses are satisfiable: the exhaustive-search oracle over a listed state space is truthful
    and total. *)
Theorem C10_pdr_enum_oracle_truthful :
  forall (lit : Type) (lit_eqb : lit -> lit -> bool) (St EM : Type) (lit_holds : lit -> St -> bool) (bad0 : St -> bool)
         (step0 trans : St -> St -> bool) (bad : St -> bool) (states : list St),
    (forall s, List.In s states) -> (forall l, lit_eqb l l = true) ->
    forall n q, truthful lit lit_eqb St EM lit_holds bad0 step0 trans bad q
                         (enum_solve lit St EM lit_holds bad0 step0 trans bad states n q).
Proof. exact enum_solve_truthful. Qed.
Print Assumptions C10_pdr_enum_oracle_truthful.

(** The oracle hypothesis can be TESTED on a recorded answer: [answer_ok] (executable, applied by the
    driver to every answer of the real solver on systems with few states) decides [truthful]. *)
Theorem C10_pdr_answer_check_exact :
  forall (lit : Type) (lit_eqb : lit -> lit -> bool) (St EM : Type) (lit_holds : lit -> St -> bool) (bad0 : St -> bool)
         (step0 trans : St -> St -> bool) (bad : St -> bool) (states : list St),
    (forall s, List.In s states) ->
    forall q a, answer_ok lit St EM lit_holds bad0 step0 trans bad states lit_eqb q a = true <->
                truthful lit lit_eqb St EM lit_holds bad0 step0 trans bad q a.
Proof. exact answer_ok_truthful. Qed.
Print Assumptions C10_pdr_answer_check_exact.

(** Non-vacuity: the model runs.  Two-bit states 0..3, literals (bit, polarity); the counter
    0 -> 1 -> 2 -> 0 (3 steps to 0); with bad = 3 the model answers Success (generalisation on and
    off), with bad = 2 it answers Fail with the BMC oracle's witness. *)
Definition pex_lit : Type := (nat * bool)%type.
Definition pex_lit_eqb (a b : pex_lit) : bool := Nat.eqb (fst a) (fst b) && Bool.eqb (snd a) (snd b).
Definition pex_holds (l : pex_lit) (s : nat) : bool := Bool.eqb (Nat.testbit s (fst l)) (snd l).
Definition pex_cube (s : nat) : list pex_lit := (0, Nat.testbit s 0) :: (1, Nat.testbit s 1) :: nil.
Definition pex_step0 (s s' : nat) : bool := Nat.eqb s 0 && Nat.eqb s' 1.
Definition pex_run (bad : nat -> bool) (gen : bool) :=
  pdr pex_lit pex_lit_eqb nat pex_cube unit unit
      (enum_solve pex_lit nat unit pex_holds (fun s => Nat.eqb s 0 && bad s) pex_step0 ex_trans bad ex_states)
      (fun _ => None) 3 gen true (BmcFail unit unit tt) 50 50.

Example C10_pdr_model_example :
  (match pex_run (fun s => Nat.eqb s 3) true with Ok (VSuccess _, _) => true | _ => false end) = true /\
  (match pex_run (fun s => Nat.eqb s 3) false with Ok (VSuccess _, _) => true | _ => false end) = true /\
  (match pex_run (fun s => Nat.eqb s 2) true with Ok (VFail _ _, _) => true | _ => false end) = true /\
  (match pex_run (fun s => Nat.eqb s 2) false with Ok (VFail _ _, _) => true | _ => false end) = true.
Proof. vm_compute. repeat split. Qed.

(** ** the concrete model on the transition systems of Spec/System.v (Model/PdrSys.v)

    States = valuations of the state symbols (bounded numbers), literals = (bit, polarity),
    [st_bad0] / [st_step0] / [st_trans] / [st_bad] = the system's init equations, constraints,
    next-state functions and bad-state expressions with the inputs existentially quantified (the
    inputs of the initial step shared between the init equations and the first transition).
    For EVERY system of the class [fin_class], every oracle whose answers are truthful for these
    semantics, generalisation on or off, every fuel: if the concrete model of pdr.rs answers Success
    then no bad state is reachable by any execution of Spec/System.v that satisfies the constraints
    at every step ([bad_reachable], unbounded depth).

    Fail: a bad state is reachable by an execution of Spec/System.v of at most MAX_FRAMES steps (the
    state-level counterexample path is mapped back to an execution, choosing the inputs step by step);
    the witness itself is the one of the BMC fallback (C02/C03), replayed on every run of ./check. *)
From Patronus Require Import PdrSys PdrSysProofs.

Theorem C10_pdr_model_success_sound_sys :
  forall (sy : sys), fin_class sy = true ->
  forall (W EM : Type) (solve : nat -> query slit -> answer slit (sstate sy) EM) (cmd_fail : nat -> option EM) (n_init : nat)
         (gen_on : bool) (bmc_result : bmc_answer W EM) (fuel bf : nat) (st' : pst slit (sstate sy) EM),
    (forall n q, truthful slit slit_eqb (sstate sy) EM (slit_holds sy) (st_bad0 sy) (st_step0 sy) (st_trans sy) (st_bad sy)
                          q (solve n q)) ->
    pdr slit slit_eqb (sstate sy) (scube sy) W EM solve cmd_fail n_init gen_on (has_bads_of sy) bmc_result fuel bf = Ok (VSuccess W, st') ->
    ~ bad_reachable sy.
Proof. exact pdr_model_success_sound_sys. Qed.
Print Assumptions C10_pdr_model_success_sound_sys.

Theorem C10_pdr_model_fail_real_sys :
  forall (sy : sys), fin_class sy = true ->
  forall (W EM : Type) (solve : nat -> query slit -> answer slit (sstate sy) EM) (cmd_fail : nat -> option EM) (n_init : nat)
         (gen_on : bool) (bmc_result : bmc_answer W EM) (fuel bf : nat) (w : W) (st' : pst slit (sstate sy) EM),
    (forall n q, truthful slit slit_eqb (sstate sy) EM (slit_holds sy) (st_bad0 sy) (st_step0 sy) (st_trans sy) (st_bad sy)
                          q (solve n q)) ->
    pdr slit slit_eqb (sstate sy) (scube sy) W EM solve cmd_fail n_init gen_on (has_bads_of sy) bmc_result fuel bf = Ok (VFail W w, st') ->
    bmc_result = BmcFail W EM w /\ (exists d : nat, (d <= MAX_FRAMES)%nat /\ bad_reachable_within sy d).
Proof. exact pdr_model_fail_real_sys. Qed.
Print Assumptions C10_pdr_model_fail_real_sys.

Theorem C10_pdr_model_definite_sys :
  forall (sy : sys) (W EM : Type) (solve : nat -> query slit -> answer slit (sstate sy) EM) (cmd_fail : nat -> option EM) (n_init : nat)
         (gen_on : bool) (bmc_result : bmc_answer W EM) (fuel bf : nat),
    (forall n q, truthful slit slit_eqb (sstate sy) EM (slit_holds sy) (st_bad0 sy) (st_step0 sy) (st_trans sy) (st_bad sy)
                          q (solve n q)) ->
    no_faults slit (sstate sy) W EM solve cmd_fail bmc_result ->
    match pdr slit slit_eqb (sstate sy) (scube sy) W EM solve cmd_fail n_init gen_on (has_bads_of sy) bmc_result fuel bf with
    | Err _ _ | Panic _ => False
    | Ok _ | Fuel => True
    end.
Proof. exact pdr_model_definite_sys. Qed.
Print Assumptions C10_pdr_model_definite_sys.

(** ** TERMINATION of the concrete model (Proofs/PdrTermination*.v)

    Hypotheses: the state space is FINITE and listed ([finite_states]: every state occurs in [states] - for
    a system of Spec/System.v the 2^bits valuations of its state symbols - and a bit-level cube holds of
    its own state), the oracle is truthful ([oracle_ok]) and never answers "unknown" / never fails
    ([no_faults]).  Models and unsat cores are otherwise arbitrary; generalisation on or off.

    (a) block_cube's proof-obligation loop.  Measure: mu = |F_1| + .. + |F_N| (listed states per frame);
    an obligation (c, j) is fresh when the state of c is still in F_j; g = the frame of the smallest
    obligation if it is fresh, N + 1 otherwise; Phi = (2N+3) mu + |queue| + 2 g decreases in every
    iteration (a predecessor is a fresh obligation one frame lower; blocking a fresh obligation shrinks
    its frame).  [block_fuel_bound N n q = (2N+3) N n + q + 2(N+1)] bounds Phi. *)
From Patronus Require Import PdrTermination PdrTerminationMain PdrTerminationSys.
Open Scope nat_scope.

Theorem C10_pdr_block_loop_terminates :
  forall (lit : Type) (lit_eqb : lit -> lit -> bool) (St : Type) (cube_of_state : St -> list lit) (W EM : Type)
         (solve : nat -> query lit -> answer lit St EM) (cmd_fail : nat -> option EM)
         (gen_on has_bads : bool) (bmc_result : bmc_answer W EM)
         (lit_holds : lit -> St -> bool) (bad0 : St -> bool) (step0 trans : St -> St -> bool) (bad : St -> bool)
         (states : list St) (fuel : nat) (st : pst lit St EM) (work : list (tcube lit)),
    finite_states lit St cube_of_state lit_holds states ->
    oracle_ok lit lit_eqb St cube_of_state EM solve has_bads lit_holds bad0 step0 trans bad ->
    no_faults lit St W EM solve cmd_fail bmc_result ->
    pinv lit St EM lit_holds bad0 step0 trans bad st -> book lit St EM st ->
    List.Forall (obl_ok lit St cube_of_state bad0 step0 trans bad (length (p_frames lit St EM st))) work ->
    block_fuel_bound (length (p_frames lit St EM st)) (length states) (length work) < fuel ->
    match block_loop lit lit_eqb St cube_of_state EM solve cmd_fail gen_on fuel st work with
    | Ok _ => True
    | _ => False
    end.
Proof. exact pdr_block_loop_terminates. Qed.
Print Assumptions C10_pdr_block_loop_terminates.

(** (b) the whole run.  Main-loop measure: Psi = (MAX_FRAMES + 1 - frontier) (|states| + 1) + number of bad
    states in the frontier frame; [pdr_fuel_bound n = (MAX_FRAMES + 1) (n + 1) + n] bounds it;
    [pdr_block_fuel_bound n = block_fuel_bound (min MAX_FRAMES (n + 1)) n 1].  For EVERY fuel above the two
    bounds the model returns a verdict: not [Fuel], not an error, not a panic. *)
Theorem C10_pdr_model_terminates :
  forall (lit : Type) (lit_eqb : lit -> lit -> bool) (St : Type) (cube_of_state : St -> list lit) (W EM : Type)
         (solve : nat -> query lit -> answer lit St EM) (cmd_fail : nat -> option EM) (n_init : nat)
         (gen_on has_bads : bool) (bmc_result : bmc_answer W EM)
         (lit_holds : lit -> St -> bool) (bad0 : St -> bool) (step0 trans : St -> St -> bool) (bad : St -> bool)
         (states : list St) (fuel bf : nat),
    finite_states lit St cube_of_state lit_holds states ->
    oracle_ok lit lit_eqb St cube_of_state EM solve has_bads lit_holds bad0 step0 trans bad ->
    no_faults lit St W EM solve cmd_fail bmc_result ->
    pdr_fuel_bound (length states) < fuel -> pdr_block_fuel_bound (length states) < bf ->
    exists v st', pdr lit lit_eqb St cube_of_state W EM solve cmd_fail n_init gen_on has_bads bmc_result fuel bf = Ok (v, st').
Proof. exact pdr_model_terminates. Qed.
Print Assumptions C10_pdr_model_terminates.

(** Unknown (any fuel): only at the frame limit - which needs a state space of at least MAX_FRAMES states,
    because an unsuccessful propagation leaves a strictly increasing chain F_1 < F_2 < .. < F_frontier - or
    when the BMC fallback gives up although a counterexample within its bound exists. *)
Theorem C10_unknown_only_at_frame_limit :
  forall (lit : Type) (lit_eqb : lit -> lit -> bool) (St : Type) (cube_of_state : St -> list lit) (W EM : Type)
         (solve : nat -> query lit -> answer lit St EM) (cmd_fail : nat -> option EM) (n_init : nat)
         (gen_on has_bads : bool) (bmc_result : bmc_answer W EM)
         (lit_holds : lit -> St -> bool) (bad0 : St -> bool) (step0 trans : St -> St -> bool) (bad : St -> bool)
         (states : list St) (fuel bf : nat) (st' : pst lit St EM),
    finite_states lit St cube_of_state lit_holds states ->
    oracle_ok lit lit_eqb St cube_of_state EM solve has_bads lit_holds bad0 step0 trans bad ->
    no_faults lit St W EM solve cmd_fail bmc_result ->
    pdr lit lit_eqb St cube_of_state W EM solve cmd_fail n_init gen_on has_bads bmc_result fuel bf = Ok (VUnknown W, st') ->
    (MAX_FRAMES < length (p_frames lit St EM st') /\ MAX_FRAMES <= length states) \/
    (bmc_result = BmcOther W EM /\ exists d, d <= MAX_FRAMES /\ unsafe_at St bad0 step0 trans bad d).
Proof. exact pdr_model_unknown_only_at_limit. Qed.
Print Assumptions C10_unknown_only_at_frame_limit.

(** Small state spaces (|states| + 1 <= MAX_FRAMES = 1000): the run ends with Success and the system is
    safe, or with Fail and a bad state is reachable; the third case is the BMC ORACLE giving up although a
    counterexample within its bound exists (an exact bounded model checker, C02, does not). *)
Theorem C10_pdr_model_total_small :
  forall (lit : Type) (lit_eqb : lit -> lit -> bool) (St : Type) (cube_of_state : St -> list lit) (W EM : Type)
         (solve : nat -> query lit -> answer lit St EM) (cmd_fail : nat -> option EM) (n_init : nat)
         (gen_on has_bads : bool) (bmc_result : bmc_answer W EM)
         (lit_holds : lit -> St -> bool) (bad0 : St -> bool) (step0 trans : St -> St -> bool) (bad : St -> bool)
         (states : list St) (fuel bf : nat),
    finite_states lit St cube_of_state lit_holds states ->
    oracle_ok lit lit_eqb St cube_of_state EM solve has_bads lit_holds bad0 step0 trans bad ->
    no_faults lit St W EM solve cmd_fail bmc_result ->
    S (length states) <= MAX_FRAMES ->
    pdr_fuel_bound (length states) < fuel -> pdr_block_fuel_bound (length states) < bf ->
    let run := pdr lit lit_eqb St cube_of_state W EM solve cmd_fail n_init gen_on has_bads bmc_result fuel bf in
    (exists st', run = Ok (VSuccess W, st') /\ safe St bad0 step0 trans bad) \/
    (exists w st', run = Ok (VFail W w, st') /\ bmc_result = BmcFail W EM w /\
                   exists d, d <= MAX_FRAMES /\ unsafe_at St bad0 step0 trans bad d) \/
    (exists st', run = Ok (VUnknown W, st') /\ bmc_result = BmcOther W EM /\
                 exists d, d <= MAX_FRAMES /\ unsafe_at St bad0 step0 trans bad d).
Proof. exact pdr_model_total_small. Qed.
Print Assumptions C10_pdr_model_total_small.

(** The same on the transition systems of Spec/System.v: [nstates sy] = 2^(state bits). *)
Theorem C10_pdr_model_terminates_sys :
  forall (sy : sys) (W EM : Type) (solve : nat -> query slit -> answer slit (sstate sy) EM) (cmd_fail : nat -> option EM) (n_init : nat)
         (gen_on : bool) (bmc_result : bmc_answer W EM) (fuel bf : nat),
    (forall n q, truthful slit slit_eqb (sstate sy) EM (slit_holds sy) (st_bad0 sy) (st_step0 sy) (st_trans sy) (st_bad sy)
                          q (solve n q)) ->
    no_faults slit (sstate sy) W EM solve cmd_fail bmc_result ->
    pdr_fuel_bound (nstates sy) < fuel -> pdr_block_fuel_bound (nstates sy) < bf ->
    exists v st', pdr slit slit_eqb (sstate sy) (scube sy) W EM solve cmd_fail n_init gen_on (has_bads_of sy) bmc_result fuel bf = Ok (v, st').
Proof. exact pdr_model_terminates_sys. Qed.
Print Assumptions C10_pdr_model_terminates_sys.

Theorem C10_unknown_only_at_frame_limit_sys :
  forall (sy : sys) (W EM : Type) (solve : nat -> query slit -> answer slit (sstate sy) EM) (cmd_fail : nat -> option EM) (n_init : nat)
         (gen_on : bool) (bmc_result : bmc_answer W EM),
    fin_class sy = true ->
    forall (fuel bf : nat) (st' : pst slit (sstate sy) EM),
    (forall n q, truthful slit slit_eqb (sstate sy) EM (slit_holds sy) (st_bad0 sy) (st_step0 sy) (st_trans sy) (st_bad sy)
                          q (solve n q)) ->
    no_faults slit (sstate sy) W EM solve cmd_fail bmc_result ->
    pdr slit slit_eqb (sstate sy) (scube sy) W EM solve cmd_fail n_init gen_on (has_bads_of sy) bmc_result fuel bf = Ok (VUnknown W, st') ->
    (MAX_FRAMES < length (p_frames slit (sstate sy) EM st') /\ MAX_FRAMES <= nstates sy) \/
    (bmc_result = BmcOther W EM /\ exists d : nat, d <= MAX_FRAMES /\ bad_reachable_within sy d).
Proof. exact pdr_model_unknown_only_at_limit_sys. Qed.
Print Assumptions C10_unknown_only_at_frame_limit_sys.

(** the statement the property makes, for systems with 2^(state bits) + 1 <= MAX_FRAMES *)
Theorem C10_pdr_model_total_small_sys :
  forall (sy : sys) (W EM : Type) (solve : nat -> query slit -> answer slit (sstate sy) EM) (cmd_fail : nat -> option EM) (n_init : nat)
         (gen_on : bool) (bmc_result : bmc_answer W EM),
    fin_class sy = true ->
    forall (fuel bf : nat),
    (forall n q, truthful slit slit_eqb (sstate sy) EM (slit_holds sy) (st_bad0 sy) (st_step0 sy) (st_trans sy) (st_bad sy)
                          q (solve n q)) ->
    no_faults slit (sstate sy) W EM solve cmd_fail bmc_result ->
    S (nstates sy) <= MAX_FRAMES ->
    pdr_fuel_bound (nstates sy) < fuel -> pdr_block_fuel_bound (nstates sy) < bf ->
    let run := pdr slit slit_eqb (sstate sy) (scube sy) W EM solve cmd_fail n_init gen_on (has_bads_of sy) bmc_result fuel bf in
    (exists st', run = Ok (VSuccess W, st') /\ ~ bad_reachable sy) \/
    (exists w st', run = Ok (VFail W w, st') /\ bmc_result = BmcFail W EM w /\
                   exists d : nat, d <= MAX_FRAMES /\ bad_reachable_within sy d) \/
    (exists st', run = Ok (VUnknown W, st') /\ bmc_result = BmcOther W EM /\
                 exists d : nat, d <= MAX_FRAMES /\ bad_reachable_within sy d).
Proof. exact pdr_model_total_small_sys. Qed.
Print Assumptions C10_pdr_model_total_small_sys.

(** Completeness for counterexamples within the frame bound, whatever the number of state bits: if a bad state
    is reachable in at most MAX_FRAMES steps the model answers Fail (or its BMC oracle gives up). *)
Theorem C10_pdr_model_fail_complete_sys :
  forall (sy : sys) (W EM : Type) (solve : nat -> query slit -> answer slit (sstate sy) EM) (cmd_fail : nat -> option EM) (n_init : nat)
         (gen_on : bool) (bmc_result : bmc_answer W EM),
    fin_class sy = true ->
    forall (fuel bf k : nat),
    (forall n q, truthful slit slit_eqb (sstate sy) EM (slit_holds sy) (st_bad0 sy) (st_step0 sy) (st_trans sy) (st_bad sy)
                          q (solve n q)) ->
    no_faults slit (sstate sy) W EM solve cmd_fail bmc_result ->
    bad_reachable_within sy k -> k <= MAX_FRAMES ->
    pdr_fuel_bound (nstates sy) < fuel -> pdr_block_fuel_bound (nstates sy) < bf ->
    let run := pdr slit slit_eqb (sstate sy) (scube sy) W EM solve cmd_fail n_init gen_on (has_bads_of sy) bmc_result fuel bf in
    (exists w st', run = Ok (VFail W w, st') /\ bmc_result = BmcFail W EM w) \/
    (exists st', run = Ok (VUnknown W, st') /\ bmc_result = BmcOther W EM).
Proof. exact pdr_model_fail_complete_sys. Qed.
Print Assumptions C10_pdr_model_fail_complete_sys.

(** Beyond the frame bound the property FAILS for the model: when every counterexample is longer than
    MAX_FRAMES steps the answer is Unknown (at the frame limit) - for every truthful oracle.  Concrete
    instance: [deep_counter], the 11-bit counter c' = c + 1 from 0 with bad = (c == 1500). *)
Theorem C10_pdr_model_deep_unknown_sys :
  forall (sy : sys) (W EM : Type) (solve : nat -> query slit -> answer slit (sstate sy) EM) (cmd_fail : nat -> option EM) (n_init : nat)
         (gen_on : bool) (bmc_result : bmc_answer W EM),
    fin_class sy = true ->
    forall (fuel bf : nat),
    (forall n q, truthful slit slit_eqb (sstate sy) EM (slit_holds sy) (st_bad0 sy) (st_step0 sy) (st_trans sy) (st_bad sy)
                          q (solve n q)) ->
    no_faults slit (sstate sy) W EM solve cmd_fail bmc_result ->
    bad_reachable sy -> (forall k, k <= MAX_FRAMES -> ~ bad_reachable_within sy k) ->
    pdr_fuel_bound (nstates sy) < fuel -> pdr_block_fuel_bound (nstates sy) < bf ->
    exists st', pdr slit slit_eqb (sstate sy) (scube sy) W EM solve cmd_fail n_init gen_on (has_bads_of sy) bmc_result fuel bf = Ok (VUnknown W, st') /\
                MAX_FRAMES < length (p_frames slit (sstate sy) EM st').
Proof. exact pdr_model_deep_unknown_sys. Qed.
Print Assumptions C10_pdr_model_deep_unknown_sys.

Theorem C10_pdr_model_unknown_on_deep_counter :
  forall (W EM : Type) (solve : nat -> query slit -> answer slit (sstate deep_counter) EM) (cmd_fail : nat -> option EM) (n_init : nat)
         (gen_on : bool) (bmc_result : bmc_answer W EM) (fuel bf : nat),
    (forall n q, truthful slit slit_eqb (sstate deep_counter) EM (slit_holds deep_counter) (st_bad0 deep_counter) (st_step0 deep_counter)
                          (st_trans deep_counter) (st_bad deep_counter) q (solve n q)) ->
    no_faults slit (sstate deep_counter) W EM solve cmd_fail bmc_result ->
    pdr_fuel_bound (nstates deep_counter) < fuel -> pdr_block_fuel_bound (nstates deep_counter) < bf ->
    exists st', pdr slit slit_eqb (sstate deep_counter) (scube deep_counter) W EM solve cmd_fail n_init gen_on
                    (has_bads_of deep_counter) bmc_result fuel bf = Ok (VUnknown W, st') /\
                MAX_FRAMES < length (p_frames slit (sstate deep_counter) EM st').
Proof. exact pdr_model_unknown_on_deep_counter. Qed.
Print Assumptions C10_pdr_model_unknown_on_deep_counter.

Example C10_deep_counter_example : fin_class deep_counter = true /\ reach_spec deep_counter = Unsafe 1500.
Proof. vm_compute. split; reflexivity. Qed.

(** The hypotheses are satisfiable for EVERY small system of the class: with the exhaustive-search oracle
    over the listed valuations (truthful: [C10_pdr_enum_oracle_truthful]; it never answers "unknown") and a
    BMC oracle that returns a witness, the model decides the system. *)
Theorem C10_pdr_enum_total_small_sys :
  forall (sy : sys), fin_class sy = true ->
  forall (W : Type) (w : W) (n_init : nat) (gen_on : bool) (fuel bf : nat),
    S (nstates sy) <= MAX_FRAMES ->
    pdr_fuel_bound (nstates sy) < fuel -> pdr_block_fuel_bound (nstates sy) < bf ->
    let run := pdr slit slit_eqb (sstate sy) (scube sy) W unit
                   (enum_solve slit (sstate sy) unit (slit_holds sy) (st_bad0 sy) (st_step0 sy) (st_trans sy) (st_bad sy) (sstates sy))
                   (fun _ => None) n_init gen_on (has_bads_of sy) (BmcFail W unit w) fuel bf in
    (exists st', run = Ok (VSuccess W, st') /\ ~ bad_reachable sy) \/
    (exists st', run = Ok (VFail W w, st') /\ exists d : nat, d <= MAX_FRAMES /\ bad_reachable_within sy d).
Proof. exact pdr_enum_total_small_sys. Qed.
Print Assumptions C10_pdr_enum_total_small_sys.

(** Non-vacuity by computation: the 3-bit counters [ex_safe] / [ex_unsafe] above (8 state valuations, one
    input bit), the exhaustive-search oracle, the COMPUTED fuel bounds (main loop 1001 * 9 + 8 = 9017, block_cube 21 * 72 + 21 = 1533):
    the model returns Success / Fail - not Fuel - with generalisation on and off. *)
Definition tex_run (sy : sys) (gen : bool) :=
  pdr slit slit_eqb (sstate sy) (scube sy) unit unit
      (enum_solve slit (sstate sy) unit (slit_holds sy) (st_bad0 sy) (st_step0 sy) (st_trans sy) (st_bad sy) (sstates sy))
      (fun _ => None) 3 gen (has_bads_of sy) (BmcFail unit unit tt)
      (S (pdr_fuel_bound (nstates sy))) (S (pdr_block_fuel_bound (nstates sy))).

Example C10_pdr_termination_example :
  nstates ex_safe = 8 /\ Nat.leb (S (nstates ex_safe)) MAX_FRAMES = true /\
  pdr_fuel_bound 8 = 1001 * 9 + 8 /\ pdr_block_fuel_bound 8 = 21 * 72 + 21 /\
  (match tex_run ex_safe true with Ok (VSuccess _, _) => true | _ => false end) = true /\
  (match tex_run ex_safe false with Ok (VSuccess _, _) => true | _ => false end) = true /\
  (match tex_run ex_unsafe true with Ok (VFail _ _, _) => true | _ => false end) = true /\
  (match tex_run ex_unsafe false with Ok (VFail _ _, _) => true | _ => false end) = true.
Proof. vm_compute. repeat split. Qed.
