(** * Props/C10.v — PDR verdicts are sound and definite, with genuine counterexamples.

    Only statements, [exact lemma] proofs, [Print Assumptions] and non-vacuity
    examples.

    Scope (DESIGN.md "### C10", section 9): patronus/src/mc/pdr.rs is modelled at
    the level of its VERDICT and of its ABSTRACT LOGIC, not line by line.
    - [reach_spec] (Spec/ReachFix.v) is the executable specification of the
      verdict: explicit-state forward reachability to a fixpoint.  The theorems
      [C10_reach_spec_*] say that it decides reachability of a bad state at ANY
      depth, in the execution semantics of Spec/System.v, for every system of the
      class [fin_class].  The real pdr is compared with it on every run of
      ./check (correspondence corr_C10_verdict).
    - [Ic3] (Model/Ic3.v) is the abstract IC3/PDR logic (frames = delta-encoded
      sets of blocked cubes, obligations, solver answers as parameters); the
      theorems [C10_ic3_*] are its soundness arguments with the side conditions
      made explicit. *)
From Patronus Require Import ReachFix BfsProofs ReachFixProofs.
Open Scope N_scope.

(** [reach_spec] always returns a verdict (the fuel [number of valuations + 1]
    is never exhausted). *)
Theorem C10_reach_spec_total :
  forall sy, fin_class sy = true -> reach_spec sy <> OutOfFuel.
Proof. exact reach_spec_total_sys. Qed.
Print Assumptions C10_reach_spec_total.

(** [Safe] iff no bad state is reachable at any depth by an execution that
    satisfies the constraints at every step ([bad_reachable] of Spec/System.v:
    exists k, exists an execution of at most k steps ...).  Completeness comes from
    the closure of the visited set, not from a depth bound. *)
Theorem C10_reach_spec_safe :
  forall sy, fin_class sy = true -> (reach_spec sy = Safe <-> ~ bad_reachable sy).
Proof. exact reach_spec_safe_iff. Qed.
Print Assumptions C10_reach_spec_safe.

(** [Unsafe d] iff [d] is the least depth at which a bad state is reachable. *)
Theorem C10_reach_spec_unsafe :
  forall sy, fin_class sy = true -> forall d,
    (reach_spec sy = Unsafe d <->
     (bad_reachable_within sy d /\ forall k, (k < d)%nat -> ~ bad_reachable_within sy k)).
Proof. exact reach_spec_unsafe_iff. Qed.
Print Assumptions C10_reach_spec_unsafe.

(** Non-vacuity: a 3-bit counter with an enable input is in the class; bad at 5 is
    reached at depth 5; a counter that wraps at 3 never reaches 6 (the invariant
    c <= 3 is not the property itself). *)
Open Scope string_scope.
Definition ex_c := BVSymbol "c" 3.
Definition ex_en := BVSymbol "en" 1.
Definition ex_counter (next bad : expr) : sys :=
  {| s_inputs := [ex_en];
     s_states := [ {| st_sym := ex_c; st_init := Some (BVLiteral 3 0); st_next := Some next |} ];
     s_outputs := []; s_bads := [bad]; s_constraints := [] |}.
Definition ex_unsafe := ex_counter (BVAdd ex_c (BVZeroExt ex_en 2 3) 3) (BVEqual ex_c (BVLiteral 3 5)).
Definition ex_safe :=
  ex_counter (BVIte (BVEqual ex_c (BVLiteral 3 3)) (BVLiteral 3 0) (BVAdd ex_c (BVZeroExt ex_en 2 3) 3))
             (BVEqual ex_c (BVLiteral 3 6)).

Example C10_example_class :
  fin_class ex_unsafe = true /\ fin_class ex_safe = true /\
  reach_spec ex_unsafe = Unsafe 5 /\ reach_spec ex_safe = Safe.
Proof. vm_compute. repeat split. Qed.
