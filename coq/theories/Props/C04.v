(** * Props/C04.v — The unrolled SMT encoding is well-formed and faithful to the system.

    Model: [Encoding.script v en j n] = the abstract commands of
    [init_at j; unroll^n] ([v = Current]: encoding.rs as it is; [v = Fixed]: the
    proposed repair).  [Script.script_check] is the strict front end of a
    conforming solver, [Script.script_eval] the meaning of the definitions. *)
From Coq Require Import List.
From Patronus Require Import Encoding EncodingExamples.
Import ListNotations.
Open Scope N_scope.

(** The well-formedness claim is FALSE for the current code, from the initial
    state: a signal shared by an init and a next expression only is defined twice
    at step 0 (the repaired encoding passes on the same system). *)
Theorem C04_script_wf_refuted :
  exists (sy : sys) (nm : expr -> string) (n : nat),
    sys_ok sy = true /\ script_check [] (script Current (enc_new sy nm) 0 n) = false.
Proof. exists ex1_sys, ex_nm, 1%nat. split; apply ex1_current_ill_formed. Qed.
Print Assumptions C04_script_wf_refuted.

(** ... and from a later step: a signal used only by init expressions is defined
    over a signal that only the next [unroll] defines. *)
Theorem C04_script_wf_later_entry_refuted :
  exists (sy : sys) (nm : expr -> string) (j : N) (n : nat),
    0 < j /\ sys_ok sy = true /\ script_check [] (script Current (enc_new sy nm) j n) = false.
Proof. exists ex4_sys, ex_nm, 1, 1%nat. split; [reflexivity|]. split; apply ex4_current_ill_formed. Qed.
Print Assumptions C04_script_wf_later_entry_refuted.

(** Init expressions that read other states are outside what either variant
    handles: a shared init sub-term over a state, and an init that reads a later
    state, are used before they are declared. *)
Theorem C04_script_wf_init_reads_state_refuted :
  forall v : variant,
    (exists sy nm, sys_ok sy = true /\ script_check [] (script v (enc_new sy nm) 0 0) = false).
Proof.
  intros v. exists ex2_sys, ex_nm. split; [apply ex2_ill_formed|].
  destruct v; vm_compute; reflexivity.
Qed.
Print Assumptions C04_script_wf_init_reads_state_refuted.
