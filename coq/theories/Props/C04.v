(** * Props/C04.v — The unrolled SMT encoding is well-formed and faithful to the system.

    Model: [Encoding.script v en j n] = the abstract commands sent to the solver by
    [init_at j; unroll^n], with [en = enc_new sy nm] the state built by
    [UnrollSmtEncoding::new] ([v = Current]: encoding.rs as it is; [v = Fixed]:
    the proposed repair).  [Script.script_check] is the strict front end of a
    conforming solver (every name declared or defined exactly once, before its
    first use, every body well-typed at the declared sort); [Script.script_eval]
    is the meaning of the definitions.

    Hypotheses that appear below:
    - [sys_wf sy]: the system is well-typed and closed, its state symbols are
      pairwise distinct and are not inputs (Spec/SysExec.v; executable);
    - [names_ok en]: the names of signals and states are pairwise distinct and
      contain no ['@'] (Model/Encoding.v; executable);
    - [init_reads_ok en]: init expressions read states only directly (not through
      a sub-term shared between init expressions) and only earlier ones - outside
      this class BOTH variants produce ill-formed scripts (third theorem);
    - [known_class en j]: the use pattern on which the current code fails. *)
From Coq Require Import List.
From Patronus Require Import Encoding SysExec ReachBmc McBasics EncodingFaithful EncodingWf EncodingTheorems EncodingExamples C04Final.
Import ListNotations.
Open Scope N_scope.

(** The well-formedness claim is FALSE for the current code, from the initial
    state: a signal shared by an init and a next expression only is defined twice
    at step 0 (the repaired encoding passes on the same system). *)
Theorem C04_script_wf_refuted :
  exists (sy : sys) (nm : expr -> string) (n : nat),
    sys_wf sy = true /\ names_ok (enc_new sy nm) = true /\ inits_state_free sy = true /\
    script_check [] (script Current (enc_new sy nm) 0 n) = false.
Proof. exists ex1_sys, ex_nm, 1%nat. vm_compute. repeat split. Qed.
Print Assumptions C04_script_wf_refuted.

(** ... and from a later step: a signal used only by init expressions is defined
    over a signal that only the next [unroll] defines. *)
Theorem C04_script_wf_later_entry_refuted :
  exists (sy : sys) (nm : expr -> string) (j : N) (n : nat),
    0 < j /\ sys_wf sy = true /\ names_ok (enc_new sy nm) = true /\
    script_check [] (script Current (enc_new sy nm) j n) = false.
Proof. exists ex4_sys, ex_nm, 1, 1%nat. vm_compute. repeat split. Qed.
Print Assumptions C04_script_wf_later_entry_refuted.

(** Init expressions that read other states through a shared sub-term (or read a
    later state) are handled by neither variant: use before declaration. *)
Theorem C04_script_wf_init_reads_state_refuted :
  forall v : variant,
    exists sy nm, sys_wf sy = true /\ names_ok (enc_new sy nm) = true /\
                  script_check [] (script v (enc_new sy nm) 0 0) = false.
Proof. intros v. exists ex2_sys, ex_nm. destruct v; vm_compute; repeat split. Qed.
Print Assumptions C04_script_wf_init_reads_state_refuted.

(** script_wf for the REPAIRED encoding: for every well-formed system, every
    depth, both entry points. *)
Theorem C04_script_wf_fixed :
  forall (sy : sys) (nm : expr -> string) (j : N) (n : nat),
    sys_wf sy = true -> names_ok (enc_new sy nm) = true ->
    (j = 0 -> init_reads_ok (enc_new sy nm)) ->
    script_check [] (script Fixed (enc_new sy nm) j n) = true.
Proof. exact wf_fixed_final. Qed.
Print Assumptions C04_script_wf_fixed.

(** script_wf for the CURRENT code outside the known class. *)
Theorem C04_script_wf_outside_known :
  forall (sy : sys) (nm : expr -> string) (j : N) (n : nat),
    sys_wf sy = true -> names_ok (enc_new sy nm) = true ->
    (j = 0 -> init_reads_ok (enc_new sy nm)) ->
    ~ known_class (enc_new sy nm) j ->
    script_check [] (script Current (enc_new sy nm) j n) = true.
Proof. exact wf_outside_known_final. Qed.
Print Assumptions C04_script_wf_outside_known.

(** a simple sufficient condition for [init_reads_ok] *)
Theorem C04_inits_state_free_ok :
  forall (sy : sys) (nm : expr -> string),
    sys_wf sy = true -> inits_state_free sy = true -> init_reads_ok (enc_new sy nm).
Proof. exact inits_state_free_ok. Qed.
Print Assumptions C04_inits_state_free_ok.

(** script_faithful (both variants, both entry points): whenever the script is
    accepted by the strict checker, then for EVERY run of the system (from an
    initial valuation when [j = 0], from any valuation when [j > 0]; [frees] =
    the inputs and unconstrained states of the later steps) and every valuation
    [sigma0] that gives the declared constants their values in the run,
    evaluating the definitions gives the step symbols of all states, inputs,
    constraints and bad states the values these signals have in the run. *)
Theorem C04_script_faithful :
  forall (sy : sys) (nm : expr -> string) (v : variant) (j : N) (rho0 : env) (frees : list env) (sigma0 : env),
    sys_wf sy = true -> names_ok (enc_new sy nm) = true ->
    (j = 0 -> is_initial sy rho0) ->
    let en := enc_new sy nm in
    let n := length frees in
    let sc := script v en j n in
    let trace := run_from sy rho0 frees in
    let at_step := fun k => nth (N.to_nat (k - j)) trace env0 in
    script_check [] sc = true ->
    (forall nm' t e k, In (DeclareConst nm' t) sc -> j <= k <= j + N.of_nat n ->
        sig_sym en e k = Some (mk_sym nm' t) -> same_val sigma0 (mk_sym nm' t) (at_step k) e) ->
    forall e k s, observable sy e -> j <= k <= j + N.of_nat n -> get_signal_at en e k = Some s ->
      same_val (script_eval sigma0 sc) s (at_step k) e.
Proof. exact faithful_final. Qed.
Print Assumptions C04_script_faithful.

(** Non-vacuity: the system of the first finding satisfies every hypothesis of
    [C04_script_wf_fixed] and of [C04_script_faithful] (with the repaired
    encoding, depth 2, the run from the sequentially initialised valuation). *)
Example C04_hypotheses_satisfiable :
  sys_wf ex1_sys = true /\ names_ok (enc_new ex1_sys ex_nm) = true /\ inits_state_free ex1_sys = true /\
  script_check [] (script Fixed (enc_new ex1_sys ex_nm) 0 2) = true /\
  is_initial_b ex1_sys (init_seq ex1_sys env0) = true.
Proof. exact ex1_hypotheses. Qed.

(** Second proposed repair (patches/0002; [Encoding.init_at2] / [script2]): [init_at 0] defines a
    signal used by init expressions right before the first state whose init expression needs it.
    The script consists of the same commands as [script Fixed]; it is accepted as soon as every
    init expression reads EARLIER states only ([inits_read_earlier]) - a shared init sub-term may
    now read a state (finding use-before-declare:init-signal-reads-state) - and it is faithful. *)
From Patronus Require Import EncodingWf2 EncodingTheorems2.
Theorem C04_script2_wf :
  forall (sy : sys) (nm : expr -> string) (n : nat),
    sys_wf sy = true -> names_ok (enc_new sy nm) = true -> inits_read_earlier (enc_new sy nm) ->
    script_check [] (script2 (enc_new sy nm) n) = true.
Proof. exact script2_wf_sys. Qed.
Print Assumptions C04_script2_wf.

Theorem C04_script2_faithful :
  forall (sy : sys) (nm : expr -> string) (rho0 : env) (frees : list env) (sigma0 : env),
    sys_wf sy = true -> names_ok (enc_new sy nm) = true -> is_initial sy rho0 ->
    let en := enc_new sy nm in
    let n := length frees in
    let sc := script2 en n in
    let trace := run_from sy rho0 frees in
    let at_step := fun k => nth (N.to_nat k) trace env0 in
    script_check [] sc = true ->
    (forall nm' t e k, In (DeclareConst nm' t) sc -> k <= N.of_nat n ->
        sig_sym en e k = Some (mk_sym nm' t) -> same_val sigma0 (mk_sym nm' t) (at_step k) e) ->
    forall e k s, observable sy e -> k <= N.of_nat n -> get_signal_at en e k = Some s ->
      same_val (script_eval sigma0 sc) s (at_step k) e.
Proof. exact script2_faithful_sys. Qed.
Print Assumptions C04_script2_faithful.

(** the system of that finding: rejected with [script Fixed], accepted with [script2] *)
Example C04_script2_example :
  script_check [] (script2 (enc_new ex2_sys ex_nm) 2) = true /\
  script_check [] (script Fixed (enc_new ex2_sys ex_nm) 0 2) = false.
Proof. exact ex2_script2. Qed.

(** Third proposed repair (patches/0003; [Encoding.init_order] / [init_at3] / [script3]): at step 0
    the states are emitted in the dependency order of their init expressions (repeated passes over
    the declaration order, a state is emitted once every state its init expression reads has been
    emitted; states on a dependency cycle keep their declaration order at the end), combined with
    the lazy signal definitions of the second repair.  The script is accepted for EVERY well-formed
    system whose init dependencies are acyclic ([init_deps_acyclic]: some rank on the states
    decreases from a state to the states its init expression reads) - in particular an init
    expression may read a state declared later (finding use-before-declare:init-reads-later-state) -
    and it is faithful.  The hypothesis of [C04_script2_wf] is a special case. *)
From Patronus Require Import EncodingOrder.
Theorem C04_script3_wf :
  forall (sy : sys) (nm : expr -> string) (n : nat),
    sys_wf sy = true -> names_ok (enc_new sy nm) = true -> init_deps_acyclic sy ->
    script_check [] (script3 (enc_new sy nm) n) = true.
Proof. exact script3_wf_sys. Qed.
Print Assumptions C04_script3_wf.

(** the same with the executable test used by the driver: the passes order every state *)
Theorem C04_script3_wf_b :
  forall (sy : sys) (nm : expr -> string) (n : nat),
    sys_wf sy = true -> names_ok (enc_new sy nm) = true -> init_order_complete_b (enc_new sy nm) = true ->
    script_check [] (script3 (enc_new sy nm) n) = true.
Proof. exact script3_wf_b_sys. Qed.
Print Assumptions C04_script3_wf_b.

Theorem C04_script3_covers_script2 :
  forall (sy : sys) (nm : expr -> string),
    sys_wf sy = true -> inits_read_earlier (enc_new sy nm) -> init_deps_acyclic sy.
Proof. exact read_earlier_acyclic_sys. Qed.
Print Assumptions C04_script3_covers_script2.

Theorem C04_script3_faithful :
  forall (sy : sys) (nm : expr -> string) (rho0 : env) (frees : list env) (sigma0 : env),
    sys_wf sy = true -> names_ok (enc_new sy nm) = true -> is_initial sy rho0 ->
    let en := enc_new sy nm in
    let n := length frees in
    let sc := script3 en n in
    let trace := run_from sy rho0 frees in
    let at_step := fun k => nth (N.to_nat k) trace env0 in
    script_check [] sc = true ->
    (forall nm' t e k, In (DeclareConst nm' t) sc -> k <= N.of_nat n ->
        sig_sym en e k = Some (mk_sym nm' t) -> same_val sigma0 (mk_sym nm' t) (at_step k) e) ->
    forall e k s, observable sy e -> k <= N.of_nat n -> get_signal_at en e k = Some s ->
      same_val (script_eval sigma0 sc) s (at_step k) e.
Proof. exact script3_faithful_sys. Qed.
Print Assumptions C04_script3_faithful.

(** the system of that finding: rejected with [script Fixed] and [script2], accepted with [script3] *)
Example C04_script3_example :
  script_check [] (script3 (enc_new ex3_sys ex_nm) 2) = true /\
  script_check [] (script2 (enc_new ex3_sys ex_nm) 2) = false /\
  script_check [] (script Fixed (enc_new ex3_sys ex_nm) 0 2) = false.
Proof. exact ex3_script3. Qed.

(** ... and it satisfies the hypotheses of [C04_script3_wf] *)
Example C04_script3_hypotheses_satisfiable :
  sys_wf ex3_sys = true /\ names_ok (enc_new ex3_sys ex_nm) = true /\ init_deps_acyclic ex3_sys.
Proof. exact ex3_acyclic. Qed.
