(** * Props/C05.v — SMT-LIB output of an expression is well-sorted and means the same thing.

    Only statements, [exact lemma] proofs, [Print Assumptions] and non-vacuity examples.
    The model of smt/serialize.rs is [SmtSer.ser] / [ser_cmd] / [ser_type] / [escape_id]; the
    SMT-LIB side ([scheck], [seval], [cmd_check], [symbol_name], ...) is the reference front
    end of [Spec/Smt.v], written from the standard.  [ebv]/[earr] is the semantics of the IR.

    The model has the variants ([SmtSer.variant]) [Cur] = /repo before the repairs, [Fix] = /repo
    with patches/0014 (reserved words are quoted) and patches/0015 (set-info is written as
    set-info), [Fix2] = [Fix] for the writer (it differs in the reader, C14).  Theorems that hold for both are stated for every [v]; the recorded defects
    are [_refuted] theorems about [Cur], the full-strength statements are theorems about every [v <> Cur].
    The driver's constant [code_variant] says which variant the checked code is. *)
From Patronus Require Import SmtSer SmtSerLemmas SmtSemLemmas SmtSerProofs SmtCmdProofs SmtSpecProofs.
Open Scope string_scope.
Open Scope N_scope.

(** The term written for a well-typed expression (built by the public constructors, every
    symbol declared at the sort of its type) is well-sorted for the STRICT checker - Bool for
    a 1-bit expression unless a bit-vector is demanded ([mb]), [(_ BitVec w)], or an array
    sort - and under every assignment its SMT-LIB value is the value of the expression.
    All operators, division and remainder included. *)
Theorem C05_ser_sorted_sound :
  forall (v : variant) (G : sctx) (e : expr) (mb : bool),
    wt e = true -> built e = true -> symbols_declared v G e = true ->
    scheck G (ser v e mb) = Some (sort_for (type_of e) mb) /\
    forall rho, env_wf rho ->
      seval (smodel_of G rho) (ser v e mb) = Some (sval_for (type_of e) mb (ebv rho e) (earr rho e)).
Proof. exact ser_sorted_sound_lemma. Qed.
Print Assumptions C05_ser_sorted_sound.

(** The sort text written for a type denotes the sort at which the theorem above expects the
    symbols to be declared (1-bit = Bool, also inside arrays). *)
Theorem C05_ser_type_sound :
  forall t : ty, ty_pos t -> sort_of_sx (ser_type t) = Some (sort_of_ty t).
Proof. exact sort_of_sx_ser_type. Qed.
Print Assumptions C05_ser_type_sound.

(** Identifier quoting, repaired code (patches/0014): EVERY name made of characters that may
    appear between bars is written as one symbol token denoting exactly that name. *)
Theorem C05_escape_sound :
  forall (v : variant) (n : string), v <> Cur -> name_chars_ok n = true -> symbol_name (escape_id v n) = Some n.
Proof. exact escape_sound_repaired_lemma. Qed.
Print Assumptions C05_escape_sound.

(** ... current code: the same for names that are not reserved words (both variants). *)
Theorem C05_escape_sound_outside_known :
  forall (v : variant) (n : string), name_chars_ok n = true -> is_reserved n = false ->
    symbol_name (escape_id v n) = Some n.
Proof. exact escape_sound_lemma. Qed.
Print Assumptions C05_escape_sound_outside_known.

(** ... and such a name, if no theory owns it, satisfies the hypothesis [name_ok] that
    [symbols_declared] asks of every symbol. *)
Theorem C05_name_ok_intro :
  forall (v : variant) (n : string), name_chars_ok n = true -> is_reserved n = false -> is_theory_name n = false ->
    is_solver_reserved n = false -> name_ok v n = true.
Proof. exact name_ok_intro. Qed.
Print Assumptions C05_name_ok_intro.

(** Recorded defect of the current code: reserved words are written bare, which is not a symbol;
    the quoted form would have been one. *)
Theorem C05_escape_reserved_refuted :
  exists n, name_chars_ok n = true /\ symbol_name (escape_id Cur n) = None /\
            symbol_name (String.append "|" (String.append n "|")) = Some n.
Proof. exact escape_reserved_refuted. Qed.
Print Assumptions C05_escape_reserved_refuted.

(** Commands: declarations, definitions, assertions, assumption lists, get-value (and the
    argument-free ones) are accepted by the reference front end in the context of the declared
    symbols and leave the expected context. *)
Theorem C05_ser_cmd_wf :
  forall (v : variant) (G : sctx) (c : smt_cmd), cmd_pre v G c ->
    exists t, ser_cmd v c = Ok t /\ cmd_check G t = Some (cmd_post G c).
Proof. exact ser_cmd_wf_lemma. Qed.
Print Assumptions C05_ser_cmd_wf.

(** Assumptions that are 1-bit symbols or their negations are propositional literals in the
    strict sense of [check-sat-assuming]. *)
Theorem C05_assumption_literal :
  forall (v : variant) (n : string), name_ok v n = true ->
    is_prop_literal (ser v (BVSymbol n 1) false) = true /\
    is_prop_literal (ser v (BVNot (BVSymbol n 1) 1) false) = true.
Proof. exact assumption_literal. Qed.
Print Assumptions C05_assumption_literal.

(** Repaired code (patches/0015): every command carries the name SMT-LIB gives it. *)
Theorem C05_cmd_head :
  forall v c t, v <> Cur -> ser_cmd v c = Ok t -> sx_head t = Some (cmd_std_head c).
Proof. exact cmd_head_repaired. Qed.
Print Assumptions C05_cmd_head.

(** Recorded defect of the current code: [SetInfo] is written with the command name [set-option];
    every other command carries the name SMT-LIB gives it. *)
Theorem C05_cmd_head_refuted :
  exists c t, ser_cmd Cur c = Ok t /\ sx_head t <> Some (cmd_std_head c).
Proof. exact cmd_head_refuted. Qed.
Print Assumptions C05_cmd_head_refuted.

Theorem C05_cmd_head_outside_known :
  forall c t, (forall k v, c <> CSetInfo k v) -> ser_cmd Cur c = Ok t -> sx_head t = Some (cmd_std_head c).
Proof. exact cmd_head_outside_known. Qed.
Print Assumptions C05_cmd_head_outside_known.

(** The correspondence check compares token sequences; reading the tokens of an S-expression
    gives the S-expression back, so equal tokens mean equal terms. *)
Theorem C05_read_flatten : forall t : sx, read_one (flatten t) = Some t.
Proof. exact read_one_flatten. Qed.
Print Assumptions C05_read_flatten.

(** The reference front end itself is coherent: a term that evaluates (under a model whose values
    have the declared sorts) is accepted by the strict sort checker at the sort of its value. *)
Theorem C05_reference_coherent :
  forall (t : sx) (G : sctx) (M : smodel) (v : sval),
    model_sorted G M -> seval M t = Some v -> scheck G t = Some (sort_of_val v).
Proof. exact seval_scheck. Qed.
Print Assumptions C05_reference_coherent.

(** [built] cannot be dropped: for a 1-bit source, a no-op slice (not constructible through
    [Context::slice]) would be written ill-sorted even if the stray parenthesis were absent. *)
Theorem C05_noop_slice_latent :
  forall v : variant,
  exists G e, wt e = true /\ symbols_declared v G e = true /\ built e = false /\ scheck G (ser v e false) = None.
Proof. exact noop_slice_latent. Qed.
Print Assumptions C05_noop_slice_latent.

(** Non-vacuity: a concrete expression with a quoted name, a Bool-indexed array, a signed
    division by zero and a zero-extended Bool meets every hypothesis; the checker and the
    evaluator run on its output. *)
Example C05_example :
  let G := upd (upd (upd empty_ctx "a b" (SoBV 4)) "c" SoBool) "m" (SoArr SoBool (SoBV 4)) in
  let rho := {| rho_bv := fun n _ => if String.eqb n "c" then 1 else 9; rho_arr := fun _ _ _ i => 3 + i |} in
  let e := BVEqual (BVSignedDiv (BVSymbol "a b" 4) (BVLiteral 4 0) 4)
                   (BVAdd (BVZeroExt (BVSymbol "c" 1) 3 4) (BVArrayRead (ArraySymbol "m" 1 4) (BVSymbol "c" 1) 4) 4) in
  forall v : variant,
  wt e = true /\ built e = true /\ symbols_declared v G e = true /\
  scheck G (ser v e false) = Some SoBool /\
  seval (smodel_of G rho) (ser v e false) = Some (SVBool false) /\ ebv rho e = 0.
Proof. intros G rho e v. destruct v; vm_compute; repeat split. Qed.

Example C05_cmd_example :
  let G := upd empty_ctx "x" (SoBV 8) in
  let c := CDefineConst (BVSymbol "y z" 1) (BVGreater (BVSymbol "x" 8) (BVLiteral 8 3)) in
  forall v : variant,
  cmd_pre v G c /\
  exists t, ser_cmd v c = Ok t /\ cmd_check G t = Some (cmd_post G c) /\ cmd_post G c "y z" = Some SoBool.
Proof.
  intros G c v. destruct v.
  all: split.
  all: try (cbn [cmd_pre]; unfold fresh_sym, expr_ok; cbn [symbol_name_of]; repeat split; vm_compute; reflexivity).
  all: eexists; split; [reflexivity|]; split; vm_compute; reflexivity.
Qed.

(** Non-vacuity of the repaired quoting: a reserved word as a name. *)
Example C05_reserved_example :
  escape_id Cur "let" = "let" /\ symbol_name "let" = None /\
  escape_id Fix "let" = "|let|" /\ symbol_name "|let|" = Some "let".
Proof. vm_compute. repeat split. Qed.
