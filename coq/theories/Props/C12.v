(** * Props/C12.v — Expression references are canonical and stable.

    Only statements, [exact lemma] proofs, [Print Assumptions] and non-vacuity
    examples.  The model of context.rs is Model/Context.v: a context is
    (strings, node table with children as references, value interner, true, false);
    [cx_exec ops cx_default] is the context after the history [ops] of public builder
    calls on [Context::default()] (panicking calls included: the history goes on);
    [cx_run_op o] is one call.  All statements are for ARBITRARY histories. *)
From Coq Require Import NArith String List.
From Patronus Require Import Expr Context ContextOracle ContextTree ContextProofs ContextOracleProofs ContextDenotesProofs ContextTreeProofs.
Import ListNotations.
Open Scope N_scope.

(** canonical, node level: in every reachable context two references are equal
    exactly when they hold the same node (same operator, operand references,
    widths, name reference, interned value). *)
Theorem C12_canonical_node :
  forall ops r1 r2 n1 n2,
    let c := cx_exec ops cx_default in
    cx_lookup c r1 = Some n1 -> cx_lookup c r2 = Some n2 -> (r1 = r2 <-> n1 = n2).
Proof. exact canonical_node_lemma. Qed.
Print Assumptions C12_canonical_node.

(** canonical, as the property text has it: two references denoting the same
    operator / operand references / widths, the same symbol NAME (string) and type,
    or the same literal VALUE (width and words), are the same reference. *)
Theorem C12_canonical_structure :
  forall ops r1 r2 n1 n2,
    let c := cx_exec ops cx_default in
    cx_lookup c r1 = Some n1 -> cx_lookup c r2 = Some n2 ->
    key_resolved (cx_key_of c n1) ->
    cx_key_of c n1 = cx_key_of c n2 -> r1 = r2.
Proof. exact canonical_key_lemma. Qed.
Print Assumptions C12_canonical_structure.

(** canonical, call level: a call that has returned a reference returns the same
    reference when it is issued again after ANY further history, and that second
    call does not change the context at all (composite builders, literals and the
    normalising builders included). *)
Theorem C12_same_call_same_reference :
  forall ops1 o ops2 r,
    let c := cx_exec ops1 cx_default in
    forall c1, cx_run_op o c = (c1, CxOk r) ->
    let c2 := cx_exec ops2 c1 in
    cx_run_op o c2 = (c2, CxOk r).
Proof. exact same_call_lemma. Qed.
Print Assumptions C12_same_call_same_reference.

(** stable: whatever is built afterwards, an existing reference keeps its node, its
    type, its symbol name, and its resolved structure (name string / literal words). *)
Theorem C12_stable :
  forall ops1 ops2 r n,
    let c := cx_exec ops1 cx_default in
    let c' := cx_exec ops2 c in
    cx_lookup c r = Some n ->
    cx_lookup c' r = Some n /\
    (forall t, cx_type_of (cx_exprs c) r = CxOk t -> cx_type_of (cx_exprs c') r = CxOk t) /\
    (forall s, cx_symbol_name c r = Some s -> cx_symbol_name c' r = Some s) /\
    (key_resolved (cx_key_of c n) -> cx_key_of c' n = cx_key_of c n).
Proof. exact stable_lemma. Qed.
Print Assumptions C12_stable.

(** true / false: in every reachable context get_true is reference 1 and get_false
    reference 0, they hold the 1-bit literals with interner index 1 and 0, and for
    EVERY literal in the table the index test of nodes.rs ([is_true]: width 1 and
    index 1) agrees with the stored value. *)
Theorem C12_true_false_fixed :
  forall ops, let c := cx_exec ops cx_default in
    cx_true c = 1 /\ cx_false c = 0 /\
    cx_lookup c 1 = Some (CnBVLiteral 1 1) /\ cx_lookup c 0 = Some (CnBVLiteral 0 1) /\
    (forall r idx w, cx_lookup c r = Some (CnBVLiteral idx w) ->
       (cx_is_true (CnBVLiteral idx w) = true <-> w = 1 /\ cx_words_at (cx_values c) idx w = [1]) /\
       (cx_is_false (CnBVLiteral idx w) = true <-> w = 1 /\ cx_words_at (cx_values c) idx w = [0])).
Proof. exact true_false_lemma. Qed.
Print Assumptions C12_true_false_fixed.

(** literals: two [bv_lit] calls anywhere in a history return the same reference
    exactly when width and words agree, and the words read back through the
    reference are the words handed in. *)
Theorem C12_lit_words_canonical :
  forall ops1 ops2 w ws w' ws' r1 r2 c1 c3,
    let c := cx_exec ops1 cx_default in
    cx_bv_lit w ws c = (c1, CxOk r1) ->
    let c2 := cx_exec ops2 c1 in
    cx_bv_lit w' ws' c2 = (c3, CxOk r2) ->
    (r1 = r2 <-> (w = w' /\ ws = ws')) /\
    (exists idx, cx_lookup c3 r2 = Some (CnBVLiteral idx w') /\ cx_words_at (cx_values c3) idx w' = ws').
Proof. exact lit_canonical_lemma. Qed.
Print Assumptions C12_lit_words_canonical.

(** ... so, GIVEN canonical words ([cx_words_of w v], unused high bits zero: the
    hypothesis the correspondence checks on every generated literal), equal
    (width, value) pairs intern to the same reference and different pairs to
    different references, whichever computation produced the value. *)
Theorem C12_lit_canonical :
  forall ops1 ops2 w v w' v' r1 r2 c1 c3,
    v < 2 ^ w -> v' < 2 ^ w' ->
    let c := cx_exec ops1 cx_default in
    cx_lit_value w v c = (c1, CxOk r1) ->
    let c2 := cx_exec ops2 c1 in
    cx_lit_value w' v' c2 = (c3, CxOk r2) ->
    (r1 = r2 <-> (w = w' /\ v = v')).
Proof. exact lit_value_canonical_lemma. Qed.
Print Assumptions C12_lit_canonical.

(** every builder call that returns a reference, in any reachable context, returns a
    reference that DENOTES THE REQUEST in the context after the call: the requested operator,
    operand references and scalars, the stored width equal to the type of the operand the
    Rust code reads it from, the requested symbol name (string) and type, the requested
    literal words; the normalising builders return their argument exactly in the
    normalising case; composite builders (distinct, xor3, majority, zero_array,
    lit(array)) denote the whole requested structure.  [cx_denotes] is the executable
    predicate the driver evaluates on the implementation's observations. *)
Theorem C12_returned_reference_denotes_request :
  forall ops o c' out,
    let c := cx_exec ops cx_default in
    cx_run_op o c = (c', CxOk out) ->
    cx_denotes (cx_keys c') (cx_types c') (cx_strings c') o out = true.
Proof. exact denotes_lemma. Qed.
Print Assumptions C12_returned_reference_denotes_request.

(** DAG versus trees: [cx_tree] unfolds a reference into the tree type of Model/Expr.v
    (the type all other properties reason about; names and literal VALUES resolved, sharing
    expanded).  In every context reachable with machine-word literals, two references
    that unfold to the same tree are the same reference: reference equality IS structural
    equality of the denoted expressions, at any depth. *)
Theorem C12_tree_canonical :
  forall ops, forallb cx_op_words_ok ops = true ->
    let c := cx_exec ops cx_default in
    forall f1 r1 f2 r2 t, cx_tree f1 c r1 = Some t -> cx_tree f2 c r2 = Some t -> r1 = r2.
Proof. exact tree_canonical_lemma. Qed.
Print Assumptions C12_tree_canonical.

(** ... and the tree a reference stands for is never changed by a later history. *)
Theorem C12_tree_stable :
  forall ops1 ops2 f r t,
    let c := cx_exec ops1 cx_default in
    cx_tree f c r = Some t -> cx_tree f (cx_exec ops2 c) r = Some t.
Proof. exact tree_stable_lemma. Qed.
Print Assumptions C12_tree_stable.

(** The extracted property oracle (Model/ContextOracle.v), which the driver evaluates on
    the IMPLEMENTATION's observations, is passed by the model on every well-formed history
    ([cx_hist_ok]: [symbol(name, ..)] is only called with a name reference that exists, as the
    private constructor of [StringRef] enforces): no two references denote the same structure,
    every observation made when a call returned still holds at the end, true/false are fixed and
    the is_true / is_false flags agree with the values.  And [cx_keys_nodup] means [NoDup]. *)
Theorem C12_oracle_passed_by_model :
  forall ops, cx_hist_ok ops cx_default = true ->
    let c := cx_exec ops cx_default in
    cx_keys_nodup (cx_keys c) = true /\
    cx_obs_stable (cx_keys c) (cx_observe ops cx_default) = true /\
    cx_tf_ok (cx_keys c) (cx_true c) (cx_false c) = true /\
    cx_all_flags_ok (cx_keys c) (cx_flags c) = true.
Proof. exact model_oracle_lemma. Qed.
Print Assumptions C12_oracle_passed_by_model.

Theorem C12_oracle_nodup_is_NoDup : forall l, cx_keys_nodup l = true <-> NoDup l.
Proof. exact cx_keys_nodup_spec. Qed.
Print Assumptions C12_oracle_nodup_is_NoDup.

(** Non-vacuity: a history with symbols sharing a name, a 65-bit literal built
    twice, a normalising slice, a composite builder, a panicking call in the middle
    and a rebuild at the end; the hypotheses of the theorems above are met and the
    references are the ones the theorems predict. *)
Definition C12_example_history : list cx_op :=
  [ CoBvSymbol "a" 8; CoBvSymbol "a" 9; CoBvLit 65 [5; 1]; CoBin CxAnd 2 2; CoSlice 2 7 0;
    CoNot 7 (* dangling reference: panics *); CoXor3 2 2 2; CoBvLit 65 [5; 1]; CoBin CxAnd 2 2 ].

Example C12_example :
  let c := cx_exec C12_example_history cx_default in
  cx_trace C12_example_history cx_default =
    (c, [CxOk (CxExpr 2); CxOk (CxExpr 3); CxOk (CxExpr 4); CxOk (CxExpr 5); CxOk (CxExpr 2);
         CxPanic; CxOk (CxExpr 7); CxOk (CxExpr 4); CxOk (CxExpr 5)]) /\
  cx_lookup c 4 = Some (CnBVLiteral 8 65) /\ cx_words_at (cx_values c) 8 65 = [5; 1] /\
  cx_key_of c (CnBVSymbol 0 8) = CkSym (Some "a"%string) 8 /\
  cx_true c = 1 /\ cx_false c = 0 /\
  cx_hist_ok C12_example_history cx_default = true /\
  cx_observe C12_example_history cx_default <> [] /\
  forallb cx_op_words_ok C12_example_history = true /\
  cx_tree 5 c 7 =
    Some (BVXor (BVXor (BVSymbol "a" 8) (BVSymbol "a" 8) 8) (BVSymbol "a" 8) 8) /\
  cx_tree 5 c 4 = Some (BVLiteral 65 (2 ^ 64 + 5)).
Proof. vm_compute. repeat split. discriminate. Qed.

(** the recorded finding, in the model: the words baa's shift_left leaves for
    65'h3 << 64 are [0; 3], not the canonical [0; 1] of the value 2^64, and
    the two intern to different references (hypothesis of C12_lit_canonical is needed). *)
Example C12_noncanonical_words_intern_apart :
  cx_words_of 65 (2 ^ 64) = [0; 1] /\
  snd (cx_trace [CoBvLit 65 [0; 3]; CoBvLit 65 [0; 1]] cx_default) = [CxOk (CxExpr 2); CxOk (CxExpr 3)].
Proof. vm_compute. split; reflexivity. Qed.
