(** * Props/C14.v — the SMT-LIB reader inverts the writer and reads solver model values.

    Only statements, [exact lemma] proofs, [Print Assumptions] and non-vacuity examples.
    The model of smt/parser.rs is [SmtLex.lex_impl] (characters -> tokens) and
    [SmtParse.parse_expr_toks] / [run] (the token stack machine) with the builders of
    [Context]; the writer is [SmtSer.ser] (C05).  [rt e mb] is the expression the reader
    builds from the writer's output of [e]; [equiv] = well-typed, same type, same value
    under every well-formed assignment. *)
From Patronus Require Import SmtParse SmtParseLemmas SmtParseProofs SmtRoundTrip SmtLexProofs SmtValueProofs SmtCmdRoundTrip.
Open Scope string_scope.
Open Scope list_scope.
Open Scope N_scope.

(** Round trip: reading the tokens the writer produces for a well-typed expression (built by
    the public constructors, indices below 2^32, symbol table = the symbols of the
    expression, keys neither theory names nor numerals) gives an equivalent expression. *)
Theorem C14_parse_ser :
  forall (top : symtab) (e : expr) (mb : bool),
    wt e = true -> built e = true -> idx32 e = true -> table_for top e ->
    parse_expr_toks top (toks_of_sx (ser e mb)) = POk (rt e mb) /\ equiv e (rt e mb).
Proof. exact parse_ser_lemma. Qed.
Print Assumptions C14_parse_ser.

(** The same at the level of characters: the canonical text of the writer's tokens (every
    token followed by one space) goes through the lexer and the machine. *)
Theorem C14_parse_ser_text :
  forall (top : symtab) (e : expr) (mb : bool),
    wt e = true -> built e = true -> idx32 e = true -> table_for top e ->
    parse_expr_str top (render (flatten (ser e mb))) = POk (rt e mb) /\ equiv e (rt e mb).
Proof. exact parse_ser_text_lemma. Qed.
Print Assumptions C14_parse_ser_text.

(** lex_print: the lexer returns the printed tokens (plain tokens without delimiters, well-formed
    |quoted| symbols, parentheses). *)
Theorem C14_lex_print :
  forall ts : list stok, forallb stok_lexable ts = true -> lex_impl (render ts) = map ltok_of ts.
Proof. exact lex_print. Qed.
Print Assumptions C14_lex_print.

(** value_parse: for model values in the forms solvers print them ([#b..], [#x..], [true]/[false],
    [store] chains over [((as const (Array I D)) v)] with Bool or bit-vector index and data,
    single-binding [let]s with fresh plain names), whatever the reference evaluator says the text
    denotes, the reader returns an expression that denotes it. *)
Theorem C14_value_parse :
  forall (m : mval) (v : sval),
    mv_wf [] m -> seval (fun _ => None) (mv_sx m) = Some v ->
    exists e, parse_expr_toks [] (toks_of_sx (mv_sx m)) = POk e /\ ir_matches e v.
Proof. exact value_parse_lemma. Qed.
Print Assumptions C14_value_parse.

(** The machine on any token sequence that comes from an S-expression without [let]:
    what it computes is the bottom-up evaluation [sxi] (single tokens by
    [early_parse_single_token] / symbol lookup, groups by [parse_pattern]). *)
Theorem C14_machine_sx :
  forall (st : nst) (t : sx) (it : pitem),
    sxi st t = POk it -> runs_to st (toks_of_sx t) it /\ plain_item it = true.
Proof. exact machine_sx. Qed.
Print Assumptions C14_machine_sx.

(** Commands: declare-const, define-fun, assert, get-value, check-sat-assuming with exactly one
    assumption, push, pop, set-logic, set-option, exit, check-sat are read back by
    [parse_command] as the same command ([rt_cmd]: expressions replaced by the equivalent
    expression of [C14_parse_ser]). *)
Theorem C14_parse_cmd_ser :
  forall (top : symtab) (c : smt_cmd) (t : sx),
    cmd_rt_pre top c -> ser_cmd c = Ok t -> parse_command_toks top (toks_of_sx t) = POk (rt_cmd c).
Proof. exact parse_cmd_ser_lemma. Qed.
Print Assumptions C14_parse_cmd_ser.

(** ... the other commands the writer emits are NOT read back (recorded defects): more or fewer
    than one assumption, get-unsat-assumptions, set-info (read as set-option). *)
Theorem C14_cmd_not_read_back_refuted :
  (exists t, ser_cmd (CCheckSatAssuming [BVSymbol "a" 1; BVSymbol "b" 1]) = Ok t /\
             parse_command_toks [("a", BVSymbol "a" 1); ("b", BVSymbol "b" 1)] (toks_of_sx t) = PErr) /\
  (exists t, ser_cmd (CCheckSatAssuming []) = Ok t /\ parse_command_toks [] (toks_of_sx t) = PErr) /\
  (exists t, ser_cmd CGetUnsatAssumptions = Ok t /\ parse_command_toks [] (toks_of_sx t) = PErr) /\
  (exists t, ser_cmd (CSetInfo "status" "sat") = Ok t /\ parse_command_toks [] (toks_of_sx t) = POk (CSetOption "status" "sat")).
Proof. exact cmd_not_read_back_witness. Qed.
Print Assumptions C14_cmd_not_read_back_refuted.

(** Recorded defect: the hypothesis "no key of the symbol table is a numeral" of the round trip
    cannot be dropped. *)
Theorem C14_numeral_symbol_refuted :
  let e := BVSlice (BVSymbol "x" 8) 3 0 in
  let top := [("x", BVSymbol "x" 8); ("3", BVSymbol "3" 1)] in
  wt e = true /\ built e = true /\ parse_expr_toks top (toks_of_sx (ser e false)) = PErr.
Proof. exact numeral_symbol_witness. Qed.
Print Assumptions C14_numeral_symbol_refuted.

(** malformed_is_error is REFUTED by the model (and by the implementation): every proper
    prefix, in tokens, of the writer's output makes the reader panic ([todo!] at
    parser.rs:247) instead of returning an error ... *)
Theorem C14_truncated_panics :
  forall (top : symtab) (e : expr) (mb : bool) (p q : list ltok),
    wt e = true -> built e = true -> idx32 e = true -> table_for top e ->
    toks_of_sx (ser e mb) = p ++ q -> q <> [] ->
    parse_expr_toks top p = PPanic.
Proof. exact truncated_panics_lemma. Qed.
Print Assumptions C14_truncated_panics.

(** ... the concrete failing input of DESIGN (characters, through the lexer) *)
Theorem C14_malformed_is_error_refuted :
  exists s : string, parse_expr_str [] s = PPanic.
Proof. exact malformed_witness. Qed.
Print Assumptions C14_malformed_is_error_refuted.

(** What does hold for malformed variants: a token after the writer's complete output is
    reported as an error (never a value). *)
Theorem C14_trailing_token_error :
  forall (top : symtab) (e : expr) (mb : bool) (t : ltok) (q : list ltok),
    wt e = true -> built e = true -> idx32 e = true -> table_for top e ->
    t <> TkComment -> t <> TkLexPanic ->
    parse_expr_toks top (toks_of_sx (ser e mb) ++ t :: q) = PErr.
Proof. exact trailing_token_error_lemma. Qed.
Print Assumptions C14_trailing_token_error.

(** Recorded defects of the lexer and of read_command, as concrete witnesses in the model
    (each reproduced on the real code by the check): an empty comment line, a |quoted symbol
    open at the end of the input, read_command waiting for a closing parenthesis at the end
    of the input, a command swallowed after a symbol named "(". *)
Theorem C14_lexer_panics_refuted :
  parse_expr_str [] "true ;
" = PPanic /\ parse_expr_str [] "(bvnot |a" = PPanic.
Proof. exact lexer_panics_witness. Qed.
Print Assumptions C14_lexer_panics_refuted.

Theorem C14_read_command_refuted :
  read_command [] ["(assert (= a"] = RcHang /\
  (exists c top' rest,
      read_command [] ["(declare-const |(| Bool)
"; "(exit)
"; ")
"] = RcCmd c top' rest /\ rest = []) /\
  read_command [] ["(declare-const |(| Bool)
"; "(exit)
"] = RcHang /\
  read_command [] ["(get-unsat-assumptions)
"] = RcPanic.
Proof. exact read_command_witness. Qed.
Print Assumptions C14_read_command_refuted.

(** Non-vacuity: a concrete expression (quoted name, Bool-indexed array, zero-extended Bool,
    signed division) meets the hypotheses of the round trip; the reader's result is computed. *)
Example C14_example :
  let e := BVEqual (BVSignedDiv (BVSymbol "a b" 4) (BVLiteral 4 0) 4)
                   (BVAdd (BVZeroExt (BVSymbol "c" 1) 3 4) (BVArrayRead (ArraySymbol "m" 1 4) (BVSymbol "c" 1) 4) 4) in
  let top := [("a b", BVSymbol "a b" 4); ("c", BVSymbol "c" 1); ("m", ArraySymbol "m" 1 4)] in
  wt e = true /\ built e = true /\ idx32 e = true /\
  parse_expr_toks top (toks_of_sx (ser e false)) = POk (rt e false) /\
  parse_expr_str top "(= (bvsdiv |a b| #b0000) (bvadd (ite c #b0001 #b0000) (select m c)))" = POk (rt e false).
Proof. vm_compute. repeat split. Qed.

Example C14_value_example :
  mv_wf [] example_value /\
  exists f, seval (fun _ => None) (mv_sx example_value) = Some (SVArr SoBool (SoBV 8) f) /\ f 0 = 171 /\ f 1 = 3.
Proof. exact example_value_ok. Qed.
