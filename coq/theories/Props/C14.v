(** * Props/C14.v — the SMT-LIB reader inverts the writer and reads solver model values.

    Only statements, [exact lemma] proofs, [Print Assumptions] and non-vacuity examples.
    The model of smt/parser.rs is [SmtLex.lex_impl] (characters -> tokens) and
    [SmtParse.parse_expr_toks] / [run] (the token stack machine) with the builders of
    [Context]; the writer is [SmtSer.ser] (C05).  [rt e mb] is the expression the reader
    builds from the writer's output of [e]; [equiv] = well-typed, same type, same value
    under every well-formed assignment.

    The model has three variants ([SmtSer.variant]): [Cur] mirrors /repo before the repairs, [Fix]
    mirrors /repo with patches/0003..0015 (committed), [Fix2] mirrors [Fix] with patches/0016..0018
    (operands are checked before a builder of [Context] is called).  Theorems that hold for all are
    stated for every [v]; the recorded defects are [_refuted] theorems (and [C14_truncated_panics])
    about [Cur], [C14_builder_assertion_refuted] about [Fix]; the repaired behaviour is stated for
    every [v <> Cur]; the full-strength statement "the reader never panics" is about [Fix2].
    The driver's constant [code_variant] says which variant the checked code is. *)
From Patronus Require Import SmtParse SmtParseLemmas SmtParseProofs SmtRoundTrip SmtLexProofs SmtValueProofs SmtCmdRoundTrip SmtFixProofs SmtFix2Proofs.
Open Scope string_scope.
Open Scope list_scope.
Open Scope N_scope.

(** Round trip: reading the tokens the writer produces for a well-typed expression (built by
    the public constructors, indices below 2^32, symbol table = the symbols of the
    expression, keys not theory names; current code: keys not numerals, [_], [as] either) gives
    an equivalent expression. *)
Theorem C14_parse_ser :
  forall (v : variant) (top : symtab) (e : expr) (mb : bool),
    wt e = true -> built e = true -> idx32 e = true -> table_for v top e ->
    parse_expr_toks v top (toks_of_sx (ser v e mb)) = POk (rt e mb) /\ equiv e (rt e mb).
Proof. exact parse_ser_lemma. Qed.
Print Assumptions C14_parse_ser.

(** Repaired code (patches/0013): no condition on numerals; the only keys excluded are names no
    writer can write or that a theory owns. *)
Theorem C14_parse_ser_fix :
  forall (v : variant) (top : symtab) (e : expr) (mb : bool),
    v <> Cur -> wt e = true -> built e = true -> idx32 e = true -> table_for_fix v top e ->
    parse_expr_toks v top (toks_of_sx (ser v e mb)) = POk (rt e mb) /\ equiv e (rt e mb).
Proof. exact parse_ser_fix. Qed.
Print Assumptions C14_parse_ser_fix.

(** The same at the level of characters: the canonical text of the writer's tokens (every
    token followed by one space) goes through the lexer and the machine. *)
Theorem C14_parse_ser_text :
  forall (v : variant) (top : symtab) (e : expr) (mb : bool),
    wt e = true -> built e = true -> idx32 e = true -> table_for v top e ->
    parse_expr_str v top (render (flatten (ser v e mb))) = POk (rt e mb) /\ equiv e (rt e mb).
Proof. exact parse_ser_text_lemma. Qed.
Print Assumptions C14_parse_ser_text.

(** lex_print: the lexer returns the printed tokens (plain tokens without delimiters, well-formed
    |quoted| symbols, parentheses). *)
Theorem C14_lex_print :
  forall (v : variant) (ts : list stok), forallb stok_lexable ts = true -> lex_impl v (render ts) = map ltok_of ts.
Proof. exact lex_print. Qed.
Print Assumptions C14_lex_print.

(** value_parse: for model values in the forms solvers print them ([#b..], [#x..], [true]/[false],
    [store] chains over [((as const (Array I D)) v)] with Bool or bit-vector index and data,
    single-binding [let]s with fresh plain names), whatever the reference evaluator says the text
    denotes, the reader returns an expression that denotes it. *)
Theorem C14_value_parse :
  forall (v : variant) (m : mval) (x : sval),
    mv_wf v [] m -> seval (fun _ => None) (mv_sx m) = Some x ->
    exists e, parse_expr_toks v [] (toks_of_sx (mv_sx m)) = POk e /\ ir_matches e x.
Proof. exact value_parse_lemma. Qed.
Print Assumptions C14_value_parse.

(** The machine on any token sequence that comes from an S-expression without [let]:
    what it computes is the bottom-up evaluation [sxi] (single tokens by
    [early_parse_single_token] / symbol lookup, groups by [parse_pattern]). *)
Theorem C14_machine_sx :
  forall (v : variant) (st : nst) (t : sx) (it : pitem),
    sxi v st t = POk it -> runs_to v st (toks_of_sx t) it /\ plain_item it = true.
Proof. exact machine_sx. Qed.
Print Assumptions C14_machine_sx.

(** Commands: what the writer emits is read back by [parse_command] as the same command ([rt_cmd]:
    expressions replaced by the equivalent expression of [C14_parse_ser]).  [cmd_rt_pre v] says
    which: in the current code not set-info, get-unsat-assumptions, check-sat-assuming with a
    number of assumptions other than one. *)
Theorem C14_parse_cmd_ser :
  forall (v : variant) (top : symtab) (c : smt_cmd) (t : sx),
    cmd_rt_pre v top c -> ser_cmd v c = Ok t -> parse_command_toks v top (toks_of_sx t) = POk (rt_cmd c).
Proof. exact parse_cmd_ser_lemma. Qed.
Print Assumptions C14_parse_cmd_ser.

(** Repaired code (patches/0011, 0012, 0015): EVERY command of the writer is read back; the
    conditions left in [cmd_rt_pre_fix] are those on the expressions and names inside. *)
Theorem C14_parse_cmd_ser_fix :
  forall (v : variant) (top : symtab) (c : smt_cmd) (t : sx),
    v <> Cur -> cmd_rt_pre_fix v top c -> ser_cmd v c = Ok t -> parse_command_toks v top (toks_of_sx t) = POk (rt_cmd c).
Proof. exact parse_cmd_ser_repaired. Qed.
Print Assumptions C14_parse_cmd_ser_fix.

Theorem C14_cmd_read_back_fix :
  (exists t, ser_cmd Fix (CCheckSatAssuming [BVSymbol "a" 1; BVSymbol "b" 1]) = Ok t /\
             parse_command_toks Fix [("a", BVSymbol "a" 1); ("b", BVSymbol "b" 1)] (toks_of_sx t) =
             POk (CCheckSatAssuming [BVSymbol "a" 1; BVSymbol "b" 1])) /\
  (exists t, ser_cmd Fix (CCheckSatAssuming []) = Ok t /\ parse_command_toks Fix [] (toks_of_sx t) = POk (CCheckSatAssuming [])) /\
  (exists t, ser_cmd Fix CGetUnsatAssumptions = Ok t /\ parse_command_toks Fix [] (toks_of_sx t) = POk CGetUnsatAssumptions) /\
  (exists t, ser_cmd Fix (CSetInfo "status" "sat") = Ok t /\ parse_command_toks Fix [] (toks_of_sx t) = POk (CSetInfo "status" "sat")).
Proof. exact cmd_read_back_fix_witness. Qed.
Print Assumptions C14_cmd_read_back_fix.

(** ... in the current code the other commands the writer emits are NOT read back (recorded
    defects): more or fewer than one assumption, get-unsat-assumptions, set-info (read as set-option). *)
Theorem C14_cmd_not_read_back_refuted :
  (exists t, ser_cmd Cur (CCheckSatAssuming [BVSymbol "a" 1; BVSymbol "b" 1]) = Ok t /\
             parse_command_toks Cur [("a", BVSymbol "a" 1); ("b", BVSymbol "b" 1)] (toks_of_sx t) = PErr) /\
  (exists t, ser_cmd Cur (CCheckSatAssuming []) = Ok t /\ parse_command_toks Cur [] (toks_of_sx t) = PErr) /\
  (exists t, ser_cmd Cur CGetUnsatAssumptions = Ok t /\ parse_command_toks Cur [] (toks_of_sx t) = PErr) /\
  (exists t, ser_cmd Cur (CSetInfo "status" "sat") = Ok t /\ parse_command_toks Cur [] (toks_of_sx t) = POk (CSetOption "status" "sat")).
Proof. exact cmd_not_read_back_witness. Qed.
Print Assumptions C14_cmd_not_read_back_refuted.

(** Recorded defect of the current code: the hypothesis "no key of the symbol table is a numeral"
    of the round trip cannot be dropped; in the repaired code the same input round-trips. *)
Theorem C14_numeral_symbol_refuted :
  let e := BVSlice (BVSymbol "x" 8) 3 0 in
  let top := [("x", BVSymbol "x" 8); ("3", BVSymbol "3" 1)] in
  wt e = true /\ built e = true /\ parse_expr_toks Cur top (toks_of_sx (ser Cur e false)) = PErr.
Proof. exact numeral_symbol_witness. Qed.
Print Assumptions C14_numeral_symbol_refuted.

Theorem C14_numeral_symbol_fix :
  let e := BVSlice (BVSymbol "x" 8) 3 0 in
  let top := [("x", BVSymbol "x" 8); ("3", BVSymbol "3" 1)] in
  parse_expr_toks Fix top (toks_of_sx (ser Fix e false)) = POk e.
Proof. exact numeral_symbol_fix_witness. Qed.
Print Assumptions C14_numeral_symbol_fix.

(** malformed_is_error, repaired code (patches/0004): every proper prefix, in tokens, of the
    writer's output is reported as an error ... *)
Theorem C14_malformed_is_error :
  forall (v : variant) (top : symtab) (e : expr) (mb : bool) (p q : list ltok),
    v <> Cur -> wt e = true -> built e = true -> idx32 e = true -> table_for v top e ->
    toks_of_sx (ser v e mb) = p ++ q -> q <> [] ->
    parse_expr_toks v top p = PErr.
Proof. exact truncated_is_error_repaired. Qed.
Print Assumptions C14_malformed_is_error.

(** malformed_is_error in full, for the code with patches/0016..0018 ([Fix2]): on EVERY text - malformed, truncated,
    unbalanced, ill-sorted - every entry point of the reader returns a value or an error and never panics;
    [read_command] returns the end of the input, a command or an error.  (In the model the check of the operands is
    specified as "an error exactly where a builder would panic"; that the Rust function [check_operands] meets this
    specification is what the correspondence check tests.  What is proved here is the rest: the lexer never panics,
    the let-scope stack is never popped empty, sorts of width zero never reach [Context::symbol].) *)
Theorem C14_never_panics :
  forall (top : symtab) (s : string), parse_expr_str Fix2 top s <> PPanic.
Proof. exact parse_expr_fix2_never_panics. Qed.
Print Assumptions C14_never_panics.

Theorem C14_get_value_never_panics :
  forall s : string, parse_get_value_response_str Fix2 s <> PPanic.
Proof. exact parse_get_value_response_fix2_never_panics. Qed.
Print Assumptions C14_get_value_never_panics.

Theorem C14_unsat_assumptions_never_panics :
  forall (top : symtab) (s : string), parse_unsat_assumptions_str Fix2 top s <> PPanic.
Proof. exact parse_unsat_assumptions_fix2_never_panics. Qed.
Print Assumptions C14_unsat_assumptions_never_panics.

Theorem C14_parse_command_never_panics :
  forall (top : symtab) (s : string), parse_command_str Fix2 top s <> PPanic.
Proof. exact parse_command_fix2_never_panics. Qed.
Print Assumptions C14_parse_command_never_panics.

Theorem C14_read_command_total :
  forall (top : symtab) (lines : list string),
    read_command Fix2 top lines <> RcPanic /\ read_command Fix2 top lines <> RcHang.
Proof. exact read_command_fix2_total. Qed.
Print Assumptions C14_read_command_total.

(** the machine behind them: from a state whose let-scope stack is well formed it never panics on tokens of the lexer *)
Theorem C14_machine_never_panics :
  forall toks stk st o,
    inv stk st -> ~ In TkLexPanic toks ->
    match run Fix2 toks stk st o with POk (_, st', _) => st_ok st' | PErr => True | PPanic => False end.
Proof. exact run_fix2. Qed.
Print Assumptions C14_machine_never_panics.

(** the inputs on which [Fix] panics, in [Fix2] *)
Theorem C14_fix2_inputs :
  parse_expr_str Fix [] "(bvadd (concat #b01 #b1) #b01)" = PPanic /\
  parse_expr_str Fix2 [] "(bvadd (concat #b01 #b1) #b01)" = PErr /\
  parse_command_str Fix [] "(define-fun x () (_ BitVec 2) #b1)" = PPanic /\
  parse_command_str Fix2 [] "(define-fun x () (_ BitVec 2) #b1)" = PErr /\
  parse_command_str Fix [] "(declare-const x (_ BitVec 0))" = PPanic /\
  parse_command_str Fix2 [] "(declare-const x (_ BitVec 0))" = PErr.
Proof. exact fix2_witness. Qed.
Print Assumptions C14_fix2_inputs.

(** ... on EVERY text the repaired lexer (patches/0005, 0006) produces no panic ... *)
Theorem C14_lexer_never_panics :
  forall s : string, ~ In TkLexPanic (lex_impl Fix s).
Proof. exact lex_fix_no_panic. Qed.
Print Assumptions C14_lexer_never_panics.

(** ... and on EVERY text the only panic left in [parse_expr] (patches/0004, 0008) is a debug
    assertion of a builder of [Context] at a closing parenthesis: the machine has consumed [pre],
    is in the state [(stk, st)], and reducing the innermost open group panics in [parse_pattern]
    (or the let-scope stack is empty).  This is the finding repaired by patches/0016..0018. *)
Theorem C14_malformed_panics_only_in_builders :
  forall (top : symtab) (s : string),
    parse_expr_str Fix top s = PPanic ->
    exists pre post stk st o,
      lex_impl Fix s = pre ++ TkClose :: post /\
      run_state Fix pre [] (nst_new top) false = inr (stk, st, o) /\ builder_panic stk st.
Proof. exact parse_expr_fix_panic. Qed.
Print Assumptions C14_malformed_panics_only_in_builders.

Theorem C14_builder_assertion_refuted :
  parse_expr_str Fix [] "(bvadd (concat #b01 #b1) #b01)" = PPanic /\
  parse_expr_str Cur [] "(bvadd (concat #b01 #b1) #b01)" = PPanic.
Proof. exact builder_panic_witness. Qed.
Print Assumptions C14_builder_assertion_refuted.

(** read_command, repaired code (patches/0003, 0009, 0010): never waits at the end of the input,
    panics only if [parse_command] does. *)
Theorem C14_read_command_no_hang :
  forall (top : symtab) (lines : list string), read_command Fix top lines <> RcHang.
Proof. exact read_command_fix_no_hang. Qed.
Print Assumptions C14_read_command_no_hang.

Theorem C14_read_command_panic_only_in_parser :
  forall (top : symtab) (lines : list string),
    read_command Fix top lines = RcPanic -> exists cmd, parse_command_str Fix top cmd = PPanic.
Proof. exact read_command_fix_panic. Qed.
Print Assumptions C14_read_command_panic_only_in_parser.

(** malformed_is_error is REFUTED for the current code: every proper prefix, in tokens, of the
    writer's output makes the reader panic ([todo!] at parser.rs:247) instead of returning an error ... *)
Theorem C14_truncated_panics :
  forall (top : symtab) (e : expr) (mb : bool) (p q : list ltok),
    wt e = true -> built e = true -> idx32 e = true -> table_for Cur top e ->
    toks_of_sx (ser Cur e mb) = p ++ q -> q <> [] ->
    parse_expr_toks Cur top p = PPanic.
Proof. exact truncated_panics_lemma. Qed.
Print Assumptions C14_truncated_panics.

(** ... the concrete failing input of DESIGN (characters, through the lexer) *)
Theorem C14_malformed_is_error_refuted :
  exists s : string, parse_expr_str Cur [] s = PPanic.
Proof. exact malformed_witness. Qed.
Print Assumptions C14_malformed_is_error_refuted.

(** What holds for malformed variants in both: a token after the writer's complete output is
    reported as an error (never a value). *)
Theorem C14_trailing_token_error :
  forall (v : variant) (top : symtab) (e : expr) (mb : bool) (t : ltok) (q : list ltok),
    wt e = true -> built e = true -> idx32 e = true -> table_for v top e ->
    t <> TkComment -> t <> TkLexPanic ->
    parse_expr_toks v top (toks_of_sx (ser v e mb) ++ t :: q) = PErr.
Proof. exact trailing_token_error_lemma. Qed.
Print Assumptions C14_trailing_token_error.

(** Recorded defects of the current lexer and read_command, as concrete witnesses in the model
    (each reproduced on the real code by the check): an empty comment line, a |quoted symbol
    open at the end of the input, read_command waiting for a closing parenthesis at the end
    of the input, a command swallowed after a symbol named "(". *)
Theorem C14_lexer_panics_refuted :
  parse_expr_str Cur [] "true ;
" = PPanic /\ parse_expr_str Cur [] "(bvnot |a" = PPanic.
Proof. exact lexer_panics_witness. Qed.
Print Assumptions C14_lexer_panics_refuted.

Theorem C14_read_command_refuted :
  read_command Cur [] ["(assert (= a"] = RcHang /\
  (exists c top' rest,
      read_command Cur [] ["(declare-const |(| Bool)
"; "(exit)
"; ")
"] = RcCmd c top' rest /\ rest = []) /\
  read_command Cur [] ["(declare-const |(| Bool)
"; "(exit)
"] = RcHang /\
  read_command Cur [] ["(get-unsat-assumptions)
"] = RcPanic.
Proof. exact read_command_witness. Qed.
Print Assumptions C14_read_command_refuted.

(** ... the same inputs in the repaired code *)
Theorem C14_repaired_inputs :
  parse_expr_str Fix [] "(bvadd #b01 " = PErr /\
  parse_expr_str Fix [] "true ;
" = POk (BVLiteral 1 1) /\
  parse_expr_str Fix [] "(bvnot |a" = PErr /\
  read_command Fix [] ["(assert (= a"] = RcErr /\
  (exists top', read_command Fix [] ["(declare-const |(| Bool)
"; "(exit)
"] = RcCmd (CDeclareConst (BVSymbol "(" 1)) top' ["(exit)
"]) /\
  (exists top', read_command Fix [] ["(get-unsat-assumptions)
"] = RcCmd CGetUnsatAssumptions top' []).
Proof. exact repaired_witness. Qed.
Print Assumptions C14_repaired_inputs.

(** Non-vacuity: a concrete expression (quoted name, Bool-indexed array, zero-extended Bool,
    signed division) meets the hypotheses of the round trip; the reader's result is computed. *)
Example C14_example :
  let e := BVEqual (BVSignedDiv (BVSymbol "a b" 4) (BVLiteral 4 0) 4)
                   (BVAdd (BVZeroExt (BVSymbol "c" 1) 3 4) (BVArrayRead (ArraySymbol "m" 1 4) (BVSymbol "c" 1) 4) 4) in
  let top := [("a b", BVSymbol "a b" 4); ("c", BVSymbol "c" 1); ("m", ArraySymbol "m" 1 4)] in
  forall v : variant,
  wt e = true /\ built e = true /\ idx32 e = true /\
  parse_expr_toks v top (toks_of_sx (ser v e false)) = POk (rt e false) /\
  parse_expr_str v top "(= (bvsdiv |a b| #b0000) (bvadd (ite c #b0001 #b0000) (select m c)))" = POk (rt e false).
Proof. intros e top v. destruct v; vm_compute; repeat split. Qed.

Example C14_value_example :
  forall v : variant,
  mv_wf v [] example_value /\
  exists f, seval (fun _ => None) (mv_sx example_value) = Some (SVArr SoBool (SoBV 8) f) /\ f 0 = 171 /\ f 1 = 3.
Proof. exact example_value_ok. Qed.
