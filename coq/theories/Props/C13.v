(** * Props/C13.v — Simplification is a terminating, idempotent, cache-transparent canonicaliser.

    Proved here
    - TERMINATION of the cache-free driver model [Simplify.simp] on every well-typed expression
      ([C13_simp_terminates]: enough fuel gives [SOk] or [SPanic], never [SFuel]; the measure is the polynomial
      interpretation [SimplifyTermMeasure.mu], which every rule strictly decreases: [C13_rules_decrease]);
      on expressions without a multiplication wider than 128 bits (where [baa] panics, a recorded finding)
      the driver RETURNS a result ([C13_simp_returns]);
    - results are fixed points and do not depend on the fuel (so "the result" is well defined);
    - about the MEMOISING driver model [SimplifyCache.simplify_cached] (work stack, persistent cache,
      re-queuing, [get_fixed_point] with pointer updates, as written in transform.rs / meta.rs):
      whatever the instance simplified before (any cache satisfying [cache_inv], which the empty cache
      does and every call preserves), a returned result is the cache-free result of that expression
      alone: cache transparency, history independence, idempotence through the cache.
    - COMPLETENESS of the memoising driver ([C13_cached_complete], [C13_cached_iff]): from every cache
      reachable from a fresh instance by returning calls it returns exactly when the cache-free driver
      does, with the same result; with termination this gives [C13_simplifier_total]: on every
      well-typed expression without a product wider than 128 bits, after ANY history, the memoising
      driver returns (given enough fuel) THE result, which is well-typed, equivalent and a fixed point.
    The two cache
    CONTAINERS are abstracted to the finite-map interface they share; their agreement is checked by the
    correspondence (results and final cache contents of both containers against the model), not proved.
    Run time is not part of the statement: the fuel bound [2 * mu e] is exponential in the bit widths. *)
From Coq Require Import List.
From Patronus Require Import Simplify SimplifyFix SimplifyCache SimplifyCacheProofs SimplifyBuilders
     SimplifyTermMeasure SimplifyTermRules3 SimplifyTerm SimplifyTermNoPanic1 SimplifyTermNoPanic SimplifyCacheComplete.
Import ListNotations.

(** ** termination *)
Theorem C13_simp_terminates : forall e : expr, wt e = true -> exists n : nat, simp n e <> SFuel.
Proof. exact simp_terminates. Qed.
Print Assumptions C13_simp_terminates.

(** every rule application strictly decreases the measure [mu] (well-typed node, its own children) *)
Theorem C13_rules_decrease :
  forall (e r : expr), wt e = true -> simplify e (children e) = Ok (Some r) -> (mu r < mu e)%N.
Proof. exact simplify_decreases. Qed.
Print Assumptions C13_rules_decrease.

(** unless a literal product wider than 128 bits occurs ([nwm], the baa panic), the driver returns a result,
    which is well-typed, equivalent ([ok_rw]) and a fixed point *)
Theorem C13_simp_returns :
  forall e : expr, wt e = true -> nwm e = true ->
  forall n : nat, (2 * N.to_nat (mu e) <= n)%nat ->
  exists r, simp n e = SOk r /\ ok_rw e r /\ nwm r = true /\ (mu r <= mu e)%N /\ exists m, simp m r = SOk r.
Proof. exact simp_result. Qed.
Print Assumptions C13_simp_returns.

Theorem C13_simp_idempotent_partial :
  forall (n : nat) (e r : expr), simp n e = SOk r -> exists m, (m <= n)%nat /\ simp m r = SOk r.
Proof. exact simp_idempotent_lemma. Qed.
Print Assumptions C13_simp_idempotent_partial.

Theorem C13_simp_fuel_independent :
  forall (n m : nat) (e r r' : expr), simp n e = SOk r -> simp m e = SOk r' -> r = r'.
Proof. exact simp_deterministic. Qed.
Print Assumptions C13_simp_fuel_independent.

(** ** cache transparency *)
Theorem C13_cache_inv_empty : cache_inv [].
Proof. exact cache_inv_nil. Qed.
Print Assumptions C13_cache_inv_empty.

Theorem C13_cache_transparent :
  forall (fuel : nat) (c : cache) (e : expr) (c' : cache) (r : expr),
    cache_inv c -> simplify_cached fuel c e = (c', SOk r) ->
    cache_inv c' /\ exists n, simp n e = SOk r.
Proof. exact simplify_cached_sound. Qed.
Print Assumptions C13_cache_transparent.

(** a whole history through one instance, starting from any invariant cache (e.g. a fresh instance) *)
Theorem C13_history_transparent :
  forall (fuel : nat) (es : list expr) (c c' : cache) (rs : list sres),
    cache_inv c -> simplify_batch fuel c es = (c', rs) ->
    cache_inv c' /\ Forall2 (fun e s => forall r, s = SOk r -> exists n, simp n e = SOk r) es rs.
Proof. exact simplify_batch_sound. Qed.
Print Assumptions C13_history_transparent.

Theorem C13_history_independent :
  forall (f1 f2 : nat) (c1 c2 : cache) (e : expr) (c1' c2' : cache) (r1 r2 : expr),
    cache_inv c1 -> cache_inv c2 ->
    simplify_cached f1 c1 e = (c1', SOk r1) -> simplify_cached f2 c2 e = (c2', SOk r2) -> r1 = r2.
Proof. exact simplify_cached_history_independent. Qed.
Print Assumptions C13_history_independent.

Theorem C13_cached_idempotent :
  forall (f1 f2 : nat) (c1 c2 : cache) (e : expr) (c1' c2' : cache) (r r' : expr),
    cache_inv c1 -> cache_inv c2 ->
    simplify_cached f1 c1 e = (c1', SOk r) -> simplify_cached f2 c2 r = (c2', SOk r') -> r' = r.
Proof. exact simplify_cached_idempotent. Qed.
Print Assumptions C13_cached_idempotent.

(** ** completeness of the memoising driver, and the whole property in one statement *)
Theorem C13_reachable_good : forall c : cache, reachable c -> cache_good c /\ cache_inv c.
Proof. intros c H. pose proof (reachable_good c H) as G. split; [exact G|exact (cache_good_inv c G)]. Qed.
Print Assumptions C13_reachable_good.

Theorem C13_cached_complete :
  forall (c : cache) (e r : expr), reachable c -> (exists n, simp n e = SOk r) ->
  exists F, forall fuel, (F <= fuel)%nat -> exists c', simplify_cached fuel c e = (c', SOk r) /\ reachable c'.
Proof. exact simplify_cached_complete_reachable. Qed.
Print Assumptions C13_cached_complete.

Theorem C13_cached_iff :
  forall (c : cache) (e r : expr), cache_good c ->
  ((exists n, simp n e = SOk r) <-> exists fuel c', simplify_cached fuel c e = (c', SOk r)).
Proof. exact simplify_cached_iff. Qed.
Print Assumptions C13_cached_iff.

(** terminating, idempotent, cache-transparent: for every well-typed expression without a product wider than
    128 bits there is ONE result [r] (well-typed, equivalent, a fixed point of the driver) such that the
    memoising driver, after any history of returning calls with the same instance and with any sufficient fuel,
    returns [r] - and simplifying [r] again, with any instance reachable in this way, returns [r]. *)
Theorem C13_simplifier_total :
  forall e : expr, wt e = true -> nwm e = true ->
  exists r, ok_rw e r /\
    (forall c, reachable c -> exists F, forall fuel, (F <= fuel)%nat ->
        exists c', simplify_cached fuel c e = (c', SOk r) /\ reachable c') /\
    (forall c, reachable c -> exists F, forall fuel, (F <= fuel)%nat ->
        exists c', simplify_cached fuel c r = (c', SOk r) /\ reachable c') /\
    (forall c fuel c' r', cache_inv c -> simplify_cached fuel c e = (c', SOk r') -> r' = r).
Proof.
  intros e Hwt Hn.
  destruct (simp_result e Hwt Hn _ (Nat.le_refl _)) as (r & Hr & Hrw & _ & _ & (m & Hm)).
  exists r. split; [exact Hrw|]. split; [|split].
  - intros c Hc. apply simplify_cached_complete_reachable; [exact Hc|eexists; exact Hr].
  - intros c Hc. apply simplify_cached_complete_reachable; [exact Hc|eexists; exact Hm].
  - intros c fuel c' r' Hinv H. destruct (simplify_cached_sound _ _ _ _ _ Hinv H) as [_ [n Hn']].
    eapply simp_deterministic; eassumption.
Qed.
Print Assumptions C13_simplifier_total.

(** non-vacuity: a history in which the second member is rewritten through the entry of the first *)
Example C13_example_history :
  let x := BVSymbol "x" 4 in
  let a := BVNot (BVNot x 4) 4 in
  let b := BVAnd a a 4 in
  snd (simplify_batch 200 [] [a; b; a]) = [SOk x; SOk x; SOk x].
Proof. vm_compute. reflexivity. Qed.

Example C13_example :
  let e := BVNot (BVNot (BVAdd (BVSymbol "x" 1) (BVLiteral 1 1) 1) 1) 1 in
  let r := BVNot (BVSymbol "x" 1) 1 in
  simp_default e = SOk r /\ simp_default r = SOk r.
Proof. vm_compute. split; reflexivity. Qed.
