(** * Props/C13.v — Simplification is a terminating, idempotent, cache-transparent canonicaliser.

    Proved here about the functional driver model [Simplify.simp] (no cache):
    results are fixed points and do not depend on the fuel (so "the result" is well defined).
    NOT proved: termination for all inputs (the full statement is
      forall e, wt e = true -> exists n r, simp n e = SOk r
    and stays unproved; termination is observed under a watchdog by the correspondence check),
    and cache transparency (the memoising driver of transform.rs is compared with the
    cache-free model and with a fresh simplifier on every generated batch, not proved). *)
From Patronus Require Import Simplify SimplifyFix.

Theorem C13_simp_idempotent_partial :
  forall (n : nat) (e r : expr), simp n e = SOk r -> exists m, (m <= n)%nat /\ simp m r = SOk r.
Proof. exact simp_idempotent_lemma. Qed.
Print Assumptions C13_simp_idempotent_partial.

Theorem C13_simp_fuel_independent :
  forall (n m : nat) (e r r' : expr), simp n e = SOk r -> simp m e = SOk r' -> r = r'.
Proof. exact simp_deterministic. Qed.
Print Assumptions C13_simp_fuel_independent.

Example C13_example :
  let e := BVNot (BVNot (BVAdd (BVSymbol "x" 1) (BVLiteral 1 1) 1) 1) 1 in
  let r := BVNot (BVSymbol "x" 1) 1 in
  simp_default e = SOk r /\ simp_default r = SOk r.
Proof. vm_compute. split; reflexivity. Qed.
