(** * Props/C13.v — Simplification is a terminating, idempotent, cache-transparent canonicaliser.

    Proved here
    - TERMINATION of the cache-free driver model [Simplify.simp] on every well-typed expression
      ([C13_simp_terminates]: enough fuel gives [SOk] or [SPanic], never [SFuel]; the measure is the polynomial
      interpretation [SimplifyTermMeasure.mu], which every rule strictly decreases: [C13_rules_decrease]);
      on expressions without a multiplication wider than 128 bits (where [baa] panics, a recorded finding)
      the driver RETURNS a result ([C13_simp_returns]);
    - results are fixed points and do not depend on the fuel (so "the result" is well defined);
    - about the MEMOISING driver model [SimplifyCache.simplify_cached] (work stack, persistent cache,
      re-queuing, [get_fixed_point] with pointer updates, as written in transform.rs / meta.rs):
      whatever the instance simplified before (any cache satisfying [cache_inv], which the empty cache
      does and every call preserves), a returned result is the cache-free result of that expression
      alone: cache transparency, history independence, idempotence through the cache.
    - COMPLETENESS of the memoising driver ([C13_cached_complete], [C13_cached_iff]): from every cache
      reachable from a fresh instance by returning calls it returns exactly when the cache-free driver
      does, with the same result; with termination this gives [C13_simplifier_total]: on every
      well-typed expression without a product wider than 128 bits, after ANY history, the memoising
      driver returns (given enough fuel) THE result, which is well-typed, equivalent and a fixed point.
    The two cache
    CONTAINERS are abstracted to the finite-map interface they share; their agreement is checked by the
    correspondence (results and final cache contents of both containers against the model), not proved.
    Run time is not part of the statement: the fuel bound [2 * mu e] is exponential in the bit widths. *)
From Coq Require Import List NArith Sorted.
From Patronus Require Import ExprMeta ExprMetaSpec ExprMetaProofs SimplifyCacheRefs SimplifyCacheRefsProofs SimplifyCacheRefsSim SimplifyCacheRefsTotal ExprMetaFuel.
From Patronus Require Import Simplify SimplifyFix SimplifyCache SimplifyCacheProofs SimplifyBuilders
     SimplifyTermMeasure SimplifyTermRules3 SimplifyTerm SimplifyTermNoPanic1 SimplifyTermNoPanic SimplifyCacheComplete.
Import ListNotations.

(** ** termination *)
Theorem C13_simp_terminates : forall e : expr, wt e = true -> exists n : nat, simp n e <> SFuel.
Proof. exact simp_terminates. Qed.
Print Assumptions C13_simp_terminates.

(** every rule application strictly decreases the measure [mu] (well-typed node, its own children) *)
Theorem C13_rules_decrease :
  forall (e r : expr), wt e = true -> simplify e (children e) = Ok (Some r) -> (mu r < mu e)%N.
Proof. exact simplify_decreases. Qed.
Print Assumptions C13_rules_decrease.

(** unless a literal product wider than 128 bits occurs ([nwm], the baa panic), the driver returns a result,
    which is well-typed, equivalent ([ok_rw]) and a fixed point *)
Theorem C13_simp_returns :
  forall e : expr, wt e = true -> nwm e = true ->
  forall n : nat, (2 * N.to_nat (mu e) <= n)%nat ->
  exists r, simp n e = SOk r /\ ok_rw e r /\ nwm r = true /\ (mu r <= mu e)%N /\ exists m, simp m r = SOk r.
Proof. exact simp_result. Qed.
Print Assumptions C13_simp_returns.

Theorem C13_simp_idempotent_partial :
  forall (n : nat) (e r : expr), simp n e = SOk r -> exists m, (m <= n)%nat /\ simp m r = SOk r.
Proof. exact simp_idempotent_lemma. Qed.
Print Assumptions C13_simp_idempotent_partial.

Theorem C13_simp_fuel_independent :
  forall (n m : nat) (e r r' : expr), simp n e = SOk r -> simp m e = SOk r' -> r = r'.
Proof. exact simp_deterministic. Qed.
Print Assumptions C13_simp_fuel_independent.

(** ** cache transparency *)
Theorem C13_cache_inv_empty : cache_inv [].
Proof. exact cache_inv_nil. Qed.
Print Assumptions C13_cache_inv_empty.

Theorem C13_cache_transparent :
  forall (fuel : nat) (c : cache) (e : expr) (c' : cache) (r : expr),
    cache_inv c -> simplify_cached fuel c e = (c', SOk r) ->
    cache_inv c' /\ exists n, simp n e = SOk r.
Proof. exact simplify_cached_sound. Qed.
Print Assumptions C13_cache_transparent.

(** a whole history through one instance, starting from any invariant cache (e.g. a fresh instance) *)
Theorem C13_history_transparent :
  forall (fuel : nat) (es : list expr) (c c' : cache) (rs : list sres),
    cache_inv c -> simplify_batch fuel c es = (c', rs) ->
    cache_inv c' /\ Forall2 (fun e s => forall r, s = SOk r -> exists n, simp n e = SOk r) es rs.
Proof. exact simplify_batch_sound. Qed.
Print Assumptions C13_history_transparent.

Theorem C13_history_independent :
  forall (f1 f2 : nat) (c1 c2 : cache) (e : expr) (c1' c2' : cache) (r1 r2 : expr),
    cache_inv c1 -> cache_inv c2 ->
    simplify_cached f1 c1 e = (c1', SOk r1) -> simplify_cached f2 c2 e = (c2', SOk r2) -> r1 = r2.
Proof. exact simplify_cached_history_independent. Qed.
Print Assumptions C13_history_independent.

Theorem C13_cached_idempotent :
  forall (f1 f2 : nat) (c1 c2 : cache) (e : expr) (c1' c2' : cache) (r r' : expr),
    cache_inv c1 -> cache_inv c2 ->
    simplify_cached f1 c1 e = (c1', SOk r) -> simplify_cached f2 c2 r = (c2', SOk r') -> r' = r.
Proof. exact simplify_cached_idempotent. Qed.
Print Assumptions C13_cached_idempotent.

(** ** completeness of the memoising driver, and the whole property in one statement *)
Theorem C13_reachable_good : forall c : cache, reachable c -> cache_good c /\ cache_inv c.
Proof. intros c H. pose proof (reachable_good c H) as G. split; [exact G|exact (cache_good_inv c G)]. Qed.
Print Assumptions C13_reachable_good.

Theorem C13_cached_complete :
  forall (c : cache) (e r : expr), reachable c -> (exists n, simp n e = SOk r) ->
  exists F, forall fuel, (F <= fuel)%nat -> exists c', simplify_cached fuel c e = (c', SOk r) /\ reachable c'.
Proof. exact simplify_cached_complete_reachable. Qed.
Print Assumptions C13_cached_complete.

Theorem C13_cached_iff :
  forall (c : cache) (e r : expr), cache_good c ->
  ((exists n, simp n e = SOk r) <-> exists fuel c', simplify_cached fuel c e = (c', SOk r)).
Proof. exact simplify_cached_iff. Qed.
Print Assumptions C13_cached_iff.

(** terminating, idempotent, cache-transparent: for every well-typed expression without a product wider than
    128 bits there is ONE result [r] (well-typed, equivalent, a fixed point of the driver) such that the
    memoising driver, after any history of returning calls with the same instance and with any sufficient fuel,
    returns [r] - and simplifying [r] again, with any instance reachable in this way, returns [r]. *)
Theorem C13_simplifier_total :
  forall e : expr, wt e = true -> nwm e = true ->
  exists r, ok_rw e r /\
    (forall c, reachable c -> exists F, forall fuel, (F <= fuel)%nat ->
        exists c', simplify_cached fuel c e = (c', SOk r) /\ reachable c') /\
    (forall c, reachable c -> exists F, forall fuel, (F <= fuel)%nat ->
        exists c', simplify_cached fuel c r = (c', SOk r) /\ reachable c') /\
    (forall c fuel c' r', cache_inv c -> simplify_cached fuel c e = (c', SOk r') -> r' = r).
Proof.
  intros e Hwt Hn.
  destruct (simp_result e Hwt Hn _ (Nat.le_refl _)) as (r & Hr & Hrw & _ & _ & (m & Hm)).
  exists r. split; [exact Hrw|]. split; [|split].
  - intros c Hc. apply simplify_cached_complete_reachable; [exact Hc|eexists; exact Hr].
  - intros c Hc. apply simplify_cached_complete_reachable; [exact Hc|eexists; exact Hm].
  - intros c fuel c' r' Hinv H. destruct (simplify_cached_sound _ _ _ _ _ Hinv H) as [_ [n Hn']].
    eapply simp_deterministic; eassumption.
Qed.
Print Assumptions C13_simplifier_total.

(** non-vacuity: a history in which the second member is rewritten through the entry of the first *)
Example C13_example_history :
  let x := BVSymbol "x" 4 in
  let a := BVNot (BVNot x 4) 4 in
  let b := BVAnd a a 4 in
  snd (simplify_batch 200 [] [a; b; a]) = [SOk x; SOk x; SOk x].
Proof. vm_compute. reflexivity. Qed.

Example C13_example :
  let e := BVNot (BVNot (BVAdd (BVSymbol "x" 1) (BVLiteral 1 1) 1) 1) 1 in
  let r := BVNot (BVSymbol "x" 1) 1 in
  simp_default e = SOk r /\ simp_default r = SOk r.
Proof. vm_compute. split; reflexivity. Qed.

(** ** the cache containers of meta.rs (Model/ExprMeta.v) *)

(** [DenseExprMetaData<T>] (vector, [resize] on [index_mut]) implements the total map [ExprRef -> T] ([dense_abs], the
    function [index] computes): empty = everywhere the default; [m[k] = v] is the point update; a read through
    [index_mut] returns what [index] returns and leaves the map unchanged; [iter] enumerates the stored slots
    [0 .. len-1] in index order with the values [index] returns; [into_vec] is that vector, of length
    [max len (k+1)] after a store at [k]; [non_default_value_keys] lists, in increasing order, exactly the keys
    whose value is not the default. *)
Theorem C13_dense_map_refines : forall (T : Type) (dflt : T),
  fm_eq (dense_abs dflt dense_empty) (fm_empty dflt) /\
  (forall (d : dense T) k v, fm_eq (dense_abs dflt (dense_set dflt d k v)) (fm_set (dense_abs dflt d) k v)) /\
  (forall (d : dense T) k, snd (dense_index_mut dflt d k) = dense_abs dflt d k /\
               fm_eq (dense_abs dflt (fst (dense_index_mut dflt d k))) (dense_abs dflt d)) /\
  (forall (d : dense T), map fst (dense_iter d) = map N.of_nat (seq 0 (length d)) /\ map snd (dense_iter d) = dense_into_vec d) /\
  (forall (d : dense T) k v, In (k, v) (dense_iter d) <-> (k < len_N d /\ v = dense_abs dflt d k)%N) /\
  (forall (d : dense T) k, nth_N (dense_into_vec d) k dflt = dense_abs dflt d k) /\
  (forall (d : dense T) k v, len_N (dense_into_vec (dense_set dflt d k v)) = N.max (len_N (dense_into_vec d)) (k + 1)) /\
  (forall teqb, eqb_ok teqb -> forall (d : dense T),
      StronglySorted N.lt (dense_non_default_value_keys teqb dflt d) /\
      forall k, In k (dense_non_default_value_keys teqb dflt d) <-> dense_abs dflt d k <> dflt).
Proof. exact dense_map_refines. Qed.
Print Assumptions C13_dense_map_refines.

(** [SparseExprMap<T>] (hash map, one entry per key: [sparse_wf]) implements the same map: as above, and a read
    through [index_mut] ([entry(e).or_default()]) leaves the MAP unchanged although it stores an entry for the key;
    [iter] yields each stored key once with the value [index] returns; [non_default_value_keys] lists, without
    repetition, exactly the keys whose value is not the default. *)
Theorem C13_sparse_map_refines : forall (T : Type) (dflt : T),
  (sparse_wf (@sparse_empty T) /\ fm_eq (sparse_abs dflt sparse_empty) (fm_empty dflt)) /\
  (forall (s : sparse T) k v, sparse_wf s ->
      sparse_wf (sparse_set dflt s k v) /\ fm_eq (sparse_abs dflt (sparse_set dflt s k v)) (fm_set (sparse_abs dflt s) k v)) /\
  (forall (s : sparse T) k, sparse_wf s ->
      sparse_wf (fst (sparse_index_mut dflt s k)) /\
      snd (sparse_index_mut dflt s k) = sparse_abs dflt s k /\
      fm_eq (sparse_abs dflt (fst (sparse_index_mut dflt s k))) (sparse_abs dflt s) /\
      In k (map fst (sparse_iter (fst (sparse_index_mut dflt s k))))) /\
  (forall (s : sparse T), sparse_wf s -> NoDup (map fst (sparse_iter s)) /\
      forall k v, In (k, v) (sparse_iter s) -> v = sparse_abs dflt s k) /\
  (forall teqb, eqb_ok teqb -> forall (s : sparse T), sparse_wf s ->
      NoDup (sparse_non_default_value_keys teqb dflt s) /\
      forall k, In k (sparse_non_default_value_keys teqb dflt s) <-> sparse_abs dflt s k <> dflt).
Proof. exact sparse_map_refines. Qed.
Print Assumptions C13_sparse_map_refines.

(** [DenseExprSet] (64-bit words, shifts and masks) implements a set of [ExprRef]s, including the returned booleans *)
Theorem C13_dense_set_refines :
  fs_eq (dense_bits_abs dense_bits_empty) fs_empty /\
  (forall s k, snd (dense_bits_insert s k) = negb (dense_bits_abs s k) /\
               fs_eq (dense_bits_abs (fst (dense_bits_insert s k))) (fs_add (dense_bits_abs s) k)) /\
  (forall s k, snd (dense_bits_remove s k) = dense_bits_abs s k /\
               fs_eq (dense_bits_abs (fst (dense_bits_remove s k))) (fs_del (dense_bits_abs s) k)).
Proof. exact dense_set_refines. Qed.
Print Assumptions C13_dense_set_refines.

Theorem C13_sparse_set_refines :
  (NoDup sparse_bits_empty /\ fs_eq (sparse_bits_abs sparse_bits_empty) fs_empty) /\
  (forall s k, NoDup s ->
      NoDup (fst (sparse_bits_insert s k)) /\
      snd (sparse_bits_insert s k) = negb (sparse_bits_abs s k) /\
      fs_eq (sparse_bits_abs (fst (sparse_bits_insert s k))) (fs_add (sparse_bits_abs s) k)) /\
  (forall s k, NoDup s ->
      NoDup (fst (sparse_bits_remove s k)) /\
      snd (sparse_bits_remove s k) = sparse_bits_abs s k /\
      fs_eq (sparse_bits_abs (fst (sparse_bits_remove s k))) (fs_del (sparse_bits_abs s) k)).
Proof. exact sparse_set_refines. Qed.
Print Assumptions C13_sparse_set_refines.

(** [get_fixed_point] (fast path, chasing loop, pointer-update loop) run on a dense and on a sparse container that
    hold the same map: the same answer (the same [Some(v)], [None], or neither loop finished within the fuel) and
    the containers hold the same map afterwards; more fuel never changes an answer. *)
Theorem C13_get_fixed_point_container_irrelevant : forall fuel (d : dense (option N)) (s : sparse (option N)) key,
  fm_eq (dense_abs None d) (sparse_abs None s) ->
  match ExprMeta.get_fixed_point dense_ops fuel d key, ExprMeta.get_fixed_point sparse_ops fuel s key with
  | GfpSome d' v1, GfpSome s' v2 => v1 = v2 /\ fm_eq (dense_abs None d') (sparse_abs None s')
  | GfpNone d', GfpNone s' => fm_eq (dense_abs None d') (sparse_abs None s')
  | GfpFuel, GfpFuel => True
  | _, _ => False
  end.
Proof. exact get_fixed_point_dense_sparse. Qed.
Print Assumptions C13_get_fixed_point_container_irrelevant.

Theorem C13_get_fixed_point_fuel_monotone : forall (M : Type) (o : map_ops M) f m key,
  ExprMeta.get_fixed_point o f m key <> GfpFuel -> forall f', (f <= f')%nat -> ExprMeta.get_fixed_point o f' m key = ExprMeta.get_fixed_point o f m key.
Proof. exact get_fixed_point_mono. Qed.
Print Assumptions C13_get_fixed_point_fuel_monotone.

(** non-vacuity: the chain of the unit test of meta.rs (0 -> 1 -> 2 -> 2) in both containers, a read through
    [index_mut] that grows both containers, and a set history around the word boundary *)
Example C13_example_containers :
  let d := dense_set None (dense_set None (dense_set None dense_empty 0 (Some 1)) 1 (Some 2)) 2 (Some 2) in
  let s := sparse_set None (sparse_set None (sparse_set None sparse_empty 2 (Some 2)) 1 (Some 2)) 0 (Some 1) in
  dense_get_fixed_point d 0 = GfpSome [Some 2; Some 2; Some 2] 2 /\
  sparse_get_fixed_point s 0 = GfpSome [(2, Some 2); (1, Some 2); (0, Some 2)] 2 /\
  dense_index_mut None d 4 = ([Some 1; Some 2; Some 2; None; None], None) /\
  sparse_index_mut None s 4 = ([(2, Some 2); (1, Some 2); (0, Some 1); (4, None)], None) /\
  sparse_non_default_value_keys option_N_eqb None (fst (sparse_index_mut None s 4)) = [2; 1; 0] /\
  dense_get_fixed_point (dense_set None d 2 (Some 0)) 1 = GfpFuel /\
  (let '(b1, r1) := dense_bits_insert dense_bits_empty 64 in
   let '(b2, r2) := dense_bits_insert b1 63 in
   let '(b3, r3) := dense_bits_remove b2 64 in
   (b2, r1, r2, r3, dense_bits_contains b3 63, dense_bits_contains b3 64))
  = ([9223372036854775808; 1], true, true, true, true, false).
Proof. vm_compute. repeat split; reflexivity. Qed.

(** ** the memoising driver over the two cache containers (Model/SimplifyCacheRefs.v)

    [simplify_batch_dense] / [simplify_batch_sparse]: one [Simplifier] instance with a [DenseExprMetaData] /
    [SparseExprMap] cache (keys and values are [ExprRef] indices of an interning table, [get_fixed_point] is the one
    of meta.rs) fed the history [es].  For EVERY history and every fuel: the same list of results (the same
    expression, the same panic, or out of fuel in both), the same interning table, and the two caches hold the
    same map - hence the same [key -> value] entries. *)
Theorem C13_container_irrelevant : forall (fuel : nat) (es : list expr),
  match simplify_batch_dense fuel es, simplify_batch_sparse fuel es with
  | (cd, d, rd), (cs, s, rs) =>
      rd = rs /\ cd = cs /\ fm_eq (dense_abs None d) (sparse_abs None s) /\
      forall e, cache_entry dense_ops cd d e = cache_entry sparse_ops cs s e
  end.
Proof. exact container_irrelevant. Qed.
Print Assumptions C13_container_irrelevant.

(** the same from any interning table and any two containers holding the same map (instances with a past) *)
Theorem C13_container_irrelevant_from :
  forall (fuel : nat) (c : ctx) (d : dense (option N)) (s : sparse (option N)) (es : list expr),
  fm_eq (dense_abs None d) (sparse_abs None s) ->
  match simplify_batch_r dense_ops fuel c d es, simplify_batch_r sparse_ops fuel c s es with
  | (cd, d', rd), (cs, s', rs) => rd = rs /\ cd = cs /\ fm_eq (dense_abs None d') (sparse_abs None s')
  end.
Proof. exact container_irrelevant_from. Qed.
Print Assumptions C13_container_irrelevant_from.

(** non-vacuity: the history of [C13_example_history] through both containers: results, interning table, the raw
    dense vector and the raw sparse entries (different representations of the same map) *)
Example C13_example_container_history :
  let x := BVSymbol "x" 4 in
  let a := BVNot (BVNot x 4) 4 in
  let b := BVAnd a a 4 in
  simplify_batch_dense 200 [a; b; a] =
    ([a; BVNot x 4; x; b], [Some 2; Some 1; Some 2; Some 2]%N, [SOk x; SOk x; SOk x]) /\
  simplify_batch_sparse 200 [a; b; a] =
    ([a; BVNot x 4; x; b], [(2, Some 2); (1, Some 1); (0, Some 2); (3, Some 2)]%N, [SOk x; SOk x; SOk x]) /\
  snd (simplify_batch 200 [] [a; b; a]) = snd (simplify_batch_dense 200 [a; b; a]).
Proof. vm_compute. repeat split; reflexivity. Qed.

(** both instances compute what the same driver computes over the specification-level map [ExprRef -> Option<ExprRef>]
    ([fun_ops]: a read is an application, a store the point update) *)
Theorem C13_containers_refine_map : forall (fuel : nat) (es : list expr),
  match simplify_batch_r fun_ops fuel [] (fm_empty None) es with
  | (c, m, rs) =>
      (match simplify_batch_dense fuel es with (cd, d, rd) => rd = rs /\ cd = c /\ fm_eq (dense_abs None d) m end) /\
      (match simplify_batch_sparse fuel es with (cs, s, rs') => rs' = rs /\ cs = c /\ fm_eq (sparse_abs None s) m end)
  end.
Proof. exact containers_refine_map. Qed.
Print Assumptions C13_containers_refine_map.

(** ** the container-level driver IS the tree-keyed driver (interning is injective and stable)

    [cache_rel o c m a] ([SimplifyCacheRefsSim.Inv]): the interning table [c] is injective ([ctx_wf]: a tree stored
    at [k] is found at [k]), every key and value of the container [m] is a reference of the table, and for every tree
    [e] the association list [a] of [SimplifyCache.v] has exactly the entry the container has
    ([lookup a e = cache_entry o c m e]).  The relation holds for the fresh instances and is preserved through
    chase / compress / [get_fixed_point] / visit / every step of the work-stack loop / every call. *)
Theorem C13_refs_driver_refines_tree_driver : forall (fuel : nat) (es : list expr),
  match simplify_batch fuel [] es, simplify_batch_dense fuel es, simplify_batch_sparse fuel es with
  | (a, rs), (cd, d, rd), (cs, s, rs') =>
      rd = rs /\ rs' = rs /\ cache_rel dense_ops cd d a /\ cache_rel sparse_ops cs s a
  end.
Proof. exact refs_driver_refines_tree_driver. Qed.
Print Assumptions C13_refs_driver_refines_tree_driver.

(** one call, any lawful container, from any related states (instances with a past) *)
Theorem C13_refs_call_refines_tree_call : forall (M : Type) (o : map_ops M), ops_lawful o ->
  forall (fuel : nat) (c : ctx) (m : M) (a : cache) (e : expr), cache_rel o c m a ->
  match simplify_cached fuel a e, simplify_cached_r o fuel c m e with
  | (a', s), (c', m', s') => s = s' /\ cache_rel o c' m' a' /\ ctx_ext c c'
  end.
Proof. exact refs_call_refines_tree_call. Qed.
Print Assumptions C13_refs_call_refines_tree_call.

(** [C13_simplifier_total] for the driver over a cache container: for every well-typed expression without a product
    wider than 128 bits there is ONE well-typed equivalent result [r] that an instance over ANY lawful container
    (dense, sparse: [C13_example_container_hyps]) returns after any history of returning calls, given enough fuel;
    simplifying [r] returns [r]; no returning call returns anything else. *)
Theorem C13_container_driver_total :
  forall (M : Type) (o : map_ops M) (m0 : M), ops_lawful o -> holds_nothing o m0 ->
  forall e : expr, wt e = true -> nwm e = true ->
  exists r, ok_rw e r /\
    (forall c m, reachable_refs o m0 c m -> exists F, forall fuel, (F <= fuel)%nat ->
        exists c' m', simplify_cached_r o fuel c m e = (c', m', SOk r) /\ reachable_refs o m0 c' m') /\
    (forall c m, reachable_refs o m0 c m -> exists F, forall fuel, (F <= fuel)%nat ->
        exists c' m', simplify_cached_r o fuel c m r = (c', m', SOk r) /\ reachable_refs o m0 c' m') /\
    (forall c m fuel c' m' r', reachable_refs o m0 c m -> simplify_cached_r o fuel c m e = (c', m', SOk r') -> r' = r).
Proof. exact container_driver_total. Qed.
Print Assumptions C13_container_driver_total.

Example C13_example_container_hyps :
  (ops_lawful dense_ops /\ holds_nothing dense_ops dense_empty) /\
  (ops_lawful sparse_ops /\ holds_nothing sparse_ops sparse_empty).
Proof.
  split; split; [exact dense_ops_lawful|exact dense_holds_nothing|exact sparse_ops_lawful|exact sparse_holds_nothing].
Qed.

(** the fuel of [dense_get_fixed_point] / [sparse_get_fixed_point] (stored slots + 2, what the tie runs) is enough:
    whenever [get_fixed_point] answers within SOME fuel - i.e. the chain from the key does not run into a cycle of
    length >= 2, where the Rust loop would not terminate - it gives that answer (pigeonhole over the stored keys) *)
Theorem C13_get_fixed_point_fuel_suffices :
  (forall (d : dense (option N)) f key, ExprMeta.get_fixed_point dense_ops f d key <> GfpFuel ->
      dense_get_fixed_point d key = ExprMeta.get_fixed_point dense_ops f d key) /\
  (forall (s : sparse (option N)) f key, ExprMeta.get_fixed_point sparse_ops f s key <> GfpFuel ->
      sparse_get_fixed_point s key = ExprMeta.get_fixed_point sparse_ops f s key).
Proof. exact get_fixed_point_fuel_suffices. Qed.
Print Assumptions C13_get_fixed_point_fuel_suffices.
