(** * Props/C09.v — Writing a system as btor2 and reading it back preserves it.

    Models of the writer: [Btor2Ser.serialize] (token lines, no names) and [Btor2SerNames.serialize_named_v]
    (the same with the name bookkeeping of serialize.rs); model of the reader:
    [Btor2Parse.parse_raw] / [parse_lines]; reference meaning of a text: [Btor2Sem.sem_run].

    PROVED (Proofs/Btor2Rt*.v, Proofs/Btor2RoundTrip.v), for ALL systems:

      roundtrip_sem ([C09_roundtrip_sem], [C09_roundtrip_sem_repo]) : for every well-typed system
        [sy] with pairwise distinct declared symbols whose widths fit 32 bits, if the writer
        produces [lines] (fewer than 2^32 of them), the reader accepts [lines] in both build
        profiles, and the system [sy'] it returns corresponds to [demote sy] POSITION BY POSITION
        ([rt_agrees], Spec/Btor2RoundTripSpec.v): same number of inputs / states / outputs / bads /
        constraints, symbols of the same types in the same order (the positional renaming [tau]),
        and in EVERY well-formed environment every init / next / output / bad / constraint
        expression has the type and the value of the expression of [sy] at the same position,
        evaluated in the environment that gives each symbol of [sy] the value of its partner.
        Covered: negated references (the writer prints none), array states initialised by a
        constant array (printed as the element, broadcast by the reader), constant states,
        states that are also outputs (renamed by the reader: [tau] absorbs the renaming), states
        without init and next (demoted to inputs), shared sort declarations, the id cache, the
        builders' normal forms (slice of the whole operand, extension by 0).
        [C09_roundtrip_complete] adds, for closed systems, the converse direction (every environment of
        [sy] has a partner environment of [sy']) and that the symbols of [sy'] are pairwise distinct.
        Hypotheses that the lead's draft did not have: [NoDup (declared sy)] (with a symbol declared
        twice the writer's id cache and the reader's maps diverge: [c09_dup_symbol] below);
        [sys_closed] is NOT needed (the writer refuses undeclared symbols).

      roundtrip_sem for the writer WITH names ([C09_roundtrip_sem_named], [C09_roundtrip_sem_named_repo]) : the
        same statement for [Btor2SerNames.serialize_named_v] (name tokens, label names, alias lines; every
        writer variant, every name table) - the writer model the correspondence check compares token by
        token with serialize.rs.  (Proofs/Btor2RtTail.v, Proofs/Btor2RtNamed.v)

      names, PARTIAL ([C09_names_survive_inputs_partial], Proofs/Btor2NamesSurvive.v) : an input whose name
        the writer prints on its declaration comes back as the same symbol at the same position.

    NOT proved (false today in the recorded classes, covered by the name oracle of the correspondence run):

      roundtrip_full : roundtrip_sem plus: explicit, distinct names of inputs, states and outputs of
        a parsed system survive a further write/read cycle.   (names are string heuristics of
        serialize.rs: is_autogen_name, decl_name, label names, alias lines; FALSE in the classes
        [KnownClass] - known_findings.txt, keys starting with names: - each refuted by a witness
        below; Model/Btor2SerNames.v models the heuristics exactly, with one flag per repair prepared
        under patches/0008, 0010, 0011)

    Also proved, per node: the reader inverts the writer's SPELLING node by node - every operator node
    ([C09_node_roundtrip]: the operator name the writer prints selects, in the reader's tables,
    the lowering that rebuilds the node, e.g. a signed comparison printed as an unsigned one
    would break it) and every literal ([C09_literal_roundtrip]: zero / one / ones / const <bits>,
    all widths, both of baa's code paths); and [C09_reread_means_text_partial]: whatever the
    reader returns for the written lines has the meaning btor2 assigns to those lines. *)
From Coq Require Import List String NArith Bool.
From Patronus Require Import SysClosed Btor2Parse Btor2Ser Btor2Sem Btor2Agree Btor2Witness Btor2NoCrash Btor2Sound Btor2ParseProofs Btor2SerProofs
     Btor2RoundTripSpec Btor2RoundTrip Btor2RoundTripEnv Btor2SerNames Btor2RtNamed Btor2NamesSurvive Btor2NamesOutside Btor2NamesInUse Btor2NamesOutputs.
Import ListNotations.
Open Scope N_scope.

(** The reader inverts the writer's operator spelling, node by node: for every well-typed
    operator node [e] whose numeric attributes fit u32, the line the writer prints for [e]
    ([node_line]: operator name, extension amount, slice bounds), looked up in the reader's
    operator tables and lowered on the children of [e], rebuilds [e] itself - up to the normal
    form of the builders (a slice of the whole operand / an extension by 0 is the operand). *)
Theorem C09_node_roundtrip :
  forall e, wt e = true -> node_fits e = true ->
    match e with BVSymbol _ _ | ArraySymbol _ _ _ | BVLiteral _ _ | ArrayConstant _ _ _ => False | _ => True end ->
    reread_node true e = POk (norm_node e).
Proof. exact reread_node_correct. Qed.
Print Assumptions C09_node_roundtrip.

(** ... and every literal: the line printed for [BVLiteral w v] is read back as [BVLiteral w v]
    in any reader state in which the line's sort id denotes [bitvec w]. *)
Theorem C09_literal_roundtrip :
  forall st id sort w v toks,
    0 < w -> v < 2 ^ w ->
    node_line id sort (BVLiteral w v) [] = POk toks ->
    get_bv_width st (tokn toks 2) = POk w ->
    exists n, parse_format st toks (tokn toks 1) = POk (BVLiteral w v, n).
Proof. exact literal_roundtrip. Qed.
Print Assumptions C09_literal_roundtrip.

(** PARTIAL (see the header): the second half of the round trip.  If the reader accepts the lines
    the writer produced, the system it returns (before renaming/demotion) evaluates, for every
    environment, to what the reference interpreter assigns to the written text; and the returned
    system is well typed and closed. *)
Theorem C09_reread_means_text_partial :
  forall sy lines sy' ren rho S,
    serialize sy = POk lines ->
    parse_raw true lines = POk (sy', ren) ->
    env_wf rho ->
    sem_run (induced_sys rho sy') lines = B2Ok S ->
    sys_agrees rho sy' S.
Proof. intros sy lines sy' ren rho S _ H Hr Hs. eapply system_sound; eauto. Qed.
Print Assumptions C09_reread_means_text_partial.

(** Non-vacuity and a concrete whole-system round trip inside the kernel: a system with an array
    state initialised by a constant array, a state initialised from an earlier state, a constant
    state, a state without next, all literal shapes and a signed comparison is written and read
    back to exactly itself (its symbols carry the reader's default names). *)
Definition c09_sys : sys :=
  let a := BVSymbol "_input_0" 8 in
  let s := BVSymbol "_state_0" 8 in
  let t := BVSymbol "_state_1" 8 in
  let c := BVSymbol "_state_2" 1 in
  let m := ArraySymbol "_state_3" 2 8 in
  {| s_inputs := [a];
     s_states :=
       [ {| st_sym := s; st_init := Some (BVLiteral 8 0); st_next := Some (BVAdd s (BVNot a 8) 8) |};
         {| st_sym := t; st_init := Some (BVAdd s (BVLiteral 8 1) 8); st_next := None |};
         {| st_sym := c; st_init := Some (BVLiteral 1 1); st_next := Some c |};
         {| st_sym := m; st_init := Some (ArrayConstant (BVLiteral 8 255) 2 8);
            st_next := Some (ArrayStore m (BVSlice a 1 0) (BVLiteral 8 77)) |} ];
     s_outputs := [("_output_0", BVArrayRead m (BVSlice s 1 0) 8)];
     s_bads := [BVGreaterSigned s t 8];
     s_constraints := [BVEqual (BVZeroExt c 7 8) (BVLiteral 8 1)] |}.

Example C09_roundtrip_example :
  sys_ok c09_sys = true /\ roundtrip true c09_sys = POk c09_sys /\ roundtrip false c09_sys = POk c09_sys.
Proof. vm_compute. repeat split. Qed.

(** ** the whole-system round trip *)
(** The reader without the checks of the repair series ([parse_lines], the code before /repo bbc1196),
    both build profiles.  Well-formedness: [sys_ok_weak] (bad states and constraints of any width). *)
Theorem C09_roundtrip_sem :
  forall sy lines,
    sys_ok_weak sy = true -> NoDup (declared sy) -> sys_fits sy = true ->
    serialize sy = POk lines -> N.of_nat (List.length lines) <= U32MAX ->
    exists sy' tau pull, (forall dbg, parse_lines dbg lines = POk sy') /\ rt_agrees sy sy' tau pull.
Proof. exact roundtrip_sem. Qed.
Print Assumptions C09_roundtrip_sem.

(** The reader of /repo ([Fix], with the checks of patches 0001..0007) and the prepared [Fix2]: the
    writer's lines pass every check, provided bad states and constraints are Boolean ([sys_ok]). *)
Theorem C09_roundtrip_sem_repo :
  forall v sy lines,
    is_fix v = true ->
    sys_ok sy = true -> NoDup (declared sy) -> sys_fits sy = true ->
    serialize sy = POk lines -> N.of_nat (List.length lines) <= U32MAX ->
    exists sy' tau pull, (forall dbg, parse_lines_v v dbg lines = POk sy') /\ rt_agrees sy sy' tau pull.
Proof. exact roundtrip_sem_fix. Qed.
Print Assumptions C09_roundtrip_sem_repo.

(** ** the same for the writer WITH its name bookkeeping *)
(** [serialize_named_v wv sy nm] is the writer model that the correspondence check compares token by token
    with serialize.rs: name tokens on declarations and nodes, label names on output / bad / constraint
    lines, trailing alias lines [<id> uext <sort> <target> 0 <name>] (which shift the ids of the next
    section).  For EVERY writer variant [wv] (shipped or repaired) and EVERY name table [nm]: whenever it
    returns lines, the reader accepts them in both build profiles and the result corresponds to [sy]
    exactly as in [C09_roundtrip_sem] - names only feed the reader's name bookkeeping, and an alias line
    binds a fresh id, which nothing refers to, to its operand. *)
Theorem C09_roundtrip_sem_named :
  forall wv sy nm lines,
    sys_ok_weak sy = true -> NoDup (declared sy) -> sys_fits sy = true ->
    serialize_named_v wv sy nm = POk lines -> N.of_nat (List.length lines) <= U32MAX ->
    exists sy' tau pull, (forall dbg, parse_lines dbg lines = POk sy') /\ rt_agrees sy sy' tau pull.
Proof. exact roundtrip_sem_named. Qed.
Print Assumptions C09_roundtrip_sem_named.

(** The reader of /repo ([Fix]) and the prepared [Fix2].  [Fix2] (patches/0009) refuses an array operand
    of [uext], the idiom of the alias lines: it goes with a writer that prints no array alias
    (patches/0008, [w_no_array_alias]); with the shipped writer and [Fix2] an array alias line is an error
    ([C09_fix2_needs_no_array_alias] below). *)
Theorem C09_roundtrip_sem_named_repo :
  forall v wv sy nm lines,
    is_fix v = true -> (v = Fix2 -> w_no_array_alias wv = true) ->
    sys_ok sy = true -> NoDup (declared sy) -> sys_fits sy = true ->
    serialize_named_v wv sy nm = POk lines -> N.of_nat (List.length lines) <= U32MAX ->
    exists sy' tau pull, (forall dbg, parse_lines_v v dbg lines = POk sy') /\ rt_agrees sy sy' tau pull.
Proof. exact roundtrip_sem_named_fix. Qed.
Print Assumptions C09_roundtrip_sem_named_repo.

(** the hypothesis on [Fix2] is necessary: an array state named [mem] that an output with another name
    refers to directly gets an alias line, which [Fix2] refuses *)
Definition c09_arr_alias : sys :=
  let m := ArraySymbol "mem" 2 8 in
  {| s_inputs := [];
     s_states := [ {| st_sym := m; st_init := None; st_next := Some m |} ];
     s_outputs := [("o", m)]; s_bads := []; s_constraints := [] |}.

Example C09_fix2_needs_no_array_alias :
  sys_ok c09_arr_alias = true /\
  match serialize_named_v writer_cur c09_arr_alias [] with
  | POk ls => parse_lines_v Fix2 true ls = PErr /\ (exists sy', parse_lines_v Fix true ls = POk sy')
  | _ => False
  end.
Proof. vm_compute. split; [reflexivity|]. split; [reflexivity|]. eexists. reflexivity. Qed.

(** ** names through one write/read cycle *)
(** The full statement (NOT proved as a whole; [KnownClass] collects the recorded finding classes):

      names_survive_outside_known : forall v wv sy nm (sy parsed, KnownClass sy nm = false, explicit names
        pairwise distinct), cycle wv v sy nm = POk sy' ->
        every explicit (not [is_autogen_name]) name of an input, state and output of [sy] is the name at
        the same position of [sy'].

    PROVED, the part for INPUTS ([C09_names_survive_inputs_partial]), for every system (parsed or not),
    every writer variant, every reader variant, both build profiles and EVERY name table: if the raw
    names of the inputs are pairwise distinct, then every input whose name the writer prints on its
    declaration ([in_named]: the name is not empty, not of the reader's default shape, and is not used as
    a label - the writer's rule [decl_name], with the labels of [compute_labels]) comes back as THE SAME
    SYMBOL (name and type) at the same position.  The label condition is necessary: an input that carries
    the name of an output loses it ([C09_names_input_output_refuted], finding
    names:inputs:same-name-as-output).  States and outputs: their names depend on every name handed out
    before them in the order of the written text (node names, labels, alias lines); not proved - the
    classes in which they are lost are refuted below, outside them the name oracle of the correspondence
    run (exact model [serialize_named_v], token by token) is the evidence. *)
Theorem C09_names_survive_inputs_partial :
  forall v wv sy nm lines,
    sys_ok_weak sy = true -> (is_fix v = true -> props_1bit sy = true) -> (v = Fix2 -> w_no_array_alias wv = true) ->
    NoDup (declared sy) -> NoDup (map raw_name (s_inputs sy)) -> sys_fits sy = true ->
    serialize_named_v wv sy nm = POk lines -> N.of_nat (List.length lines) <= U32MAX ->
    exists sy', (forall dbg, parse_lines_v v dbg lines = POk sy') /\
      Forall2 (fun i i' => in_named (label_ctx wv sy nm) i = true -> i' = i)
              (s_inputs sy) (firstn (List.length (s_inputs sy)) (s_inputs sy')).
Proof. exact names_survive_inputs. Qed.
Print Assumptions C09_names_survive_inputs_partial.

(** Non-vacuity: two named inputs, a named state with a bad label on it, a named output.  Every hypothesis
    of [C09_names_survive_inputs_partial] and of [C09_roundtrip_sem_named_repo] holds for the writer and
    reader of /repo, both inputs are [in_named], the system is outside [KnownClass], and (computed) ALL
    its names survive: the state through the label of the bad line, the output through its label. *)
Definition c09_named : sys :=
  let a := BVSymbol "a" 1 in let b := BVSymbol "b" 1 in let s := BVSymbol "flag" 1 in
  {| s_inputs := [a; b];
     s_states := [ {| st_sym := s; st_init := Some (BVLiteral 1 0); st_next := Some (BVOr s a 1) |} ];
     s_outputs := [("both", BVAnd s b 1)];
     s_bads := [s];
     s_constraints := [] |}.

Example C09_names_hyps :
  sys_ok c09_named = true /\ sys_fits c09_named = true /\ KnownClass c09_named [] = false /\
  forallb (in_named (label_ctx writer_repo c09_named [])) (s_inputs c09_named) = true /\
  NoDup (declared c09_named) /\ NoDup (map raw_name (s_inputs c09_named)) /\
  (exists lines, serialize_named_v writer_repo c09_named [] = POk lines /\ N.of_nat (List.length lines) <= U32MAX) /\
  match cycle writer_repo Fix c09_named [] with
  | POk sy' => names_of sy' = names_of c09_named /\ names_of c09_named = (["a"; "b"], ["flag"], ["both"])%string
  | _ => False
  end.
Proof.
  split; [vm_compute; reflexivity|]. split; [vm_compute; reflexivity|]. split; [vm_compute; reflexivity|].
  split; [vm_compute; reflexivity|]. split.
  { cbn [declared c09_named s_inputs s_states map st_sym app].
    repeat (constructor; [cbn [In]; intros H; repeat (destruct H as [H|H]; [discriminate H|]); exact H|]). constructor. }
  split.
  { cbn [c09_named s_inputs map raw_name symbol_name].
    repeat (constructor; [cbn [In]; intros H; repeat (destruct H as [H|H]; [discriminate H|]); exact H|]). constructor. }
  split; [eexists; split; [vm_compute; reflexivity|vm_compute; discriminate]|].
  vm_compute. split; reflexivity.
Qed.

(** The same with conditions on the NAMES instead of the writer's label list: outside [KnownClass], if the
    raw input names are pairwise distinct and every explicit input name is [apart] (it is none of the state
    names and debug names, and is not [b_k] for an output, state or debug name [b] - the shape
    [unique_name] gives a label whose base is taken), then for a writer that does not name labels after
    inputs ([w_input_labels], /repo 196ebd7; without it: the fixed finding names:inputs:referenced-by-label)
    and a system whose bad states / constraints refer to declared symbols only, EVERY explicit input (name
    not empty, not of the reader's default shape) comes back as the same symbol at the same position. *)
Theorem C09_names_survive_inputs_outside_known :
  forall v wv sy nm lines,
    sys_ok_weak sy = true -> (is_fix v = true -> props_1bit sy = true) -> (v = Fix2 -> w_no_array_alias wv = true) ->
    NoDup (declared sy) -> NoDup (map raw_name (s_inputs sy)) -> sys_fits sy = true ->
    KnownClass sy nm = false ->
    (forall i, In i (s_inputs sy) -> explicit (raw_name i) = true -> apart sy nm (raw_name i)) ->
    w_input_labels wv = true ->
    (forall e, In e (s_constraints sy ++ s_bads sy) -> is_symbol e = true -> In e (declared sy)) ->
    serialize_named_v wv sy nm = POk lines -> N.of_nat (List.length lines) <= U32MAX ->
    exists sy', (forall dbg, parse_lines_v v dbg lines = POk sy') /\
      Forall2 (fun i i' => explicit (raw_name i) = true -> i' = i)
              (s_inputs sy) (firstn (List.length (s_inputs sy)) (s_inputs sy')).
Proof. exact names_survive_inputs_outside_known. Qed.
Print Assumptions C09_names_survive_inputs_outside_known.

(** Non-vacuity of the additional hypotheses on [c09_named] (the others: [C09_names_hyps]). *)
Example C09_names_outside_hyps :
  forallb (fun i => explicit (raw_name i)) (s_inputs c09_named) = true /\
  (forall i, In i (s_inputs c09_named) -> explicit (raw_name i) = true -> apart c09_named [] (raw_name i)) /\
  w_input_labels writer_repo = true /\
  (forall e, In e (s_constraints c09_named ++ s_bads c09_named) -> is_symbol e = true -> In e (declared c09_named)).
Proof.
  split; [vm_compute; reflexivity|]. split; [|split; [reflexivity|]].
  - intros i Hi _. cbn in Hi. destruct Hi as [<-|[<-|[]]]; (split; [cbn; intros H; repeat (destruct H as [H|H]; [discriminate H|]); exact H|]);
      intros b Hb; cbn in Hb; repeat (destruct Hb as [<-|Hb]; [vm_compute; reflexivity|]); contradiction.
  - intros e He _. cbn in He. destruct He as [<-|[]]. cbn. right. right. left. reflexivity.
Qed.


(** ** the name-in-use invariant of the reader, and the names of OUTPUTS *)
(** For EVERY text and reader variant: after reading, every name in use is of the reader's default shape,
    or a base some line asked for ([name_base]: the 4th token of a declaration / property line or the
    default of its kind, the cleaned name token of a node line), or [b_k] for such a base [b].  A
    declaration or label gets exactly the name it asks for iff that name is not in use; this invariant
    is what the names of states and outputs depend on. *)
Theorem C09_names_in_use :
  forall v dbg ls ps err,
    parse_fold_v v dbg ls p_empty false = POk (ps, err) ->
    forall x, In x (p_used ps) -> gen_ok (bases_of ls) x.
Proof. exact names_in_use. Qed.
Print Assumptions C09_names_in_use.

(** PROVED for outputs, for every system, writer variant, reader variant, name table, both profiles: if the
    output names are pairwise distinct and none is a reserved word, then every output whose name is
    [apart_from] the tokens the writer prints before the outputs ([printed]: the names on the input and
    state declarations - a state that takes its name from a label has none -, the cleaned debug names) and
    from the other output names (explicit; none of those tokens; not [b_k] for a token or another output
    name [b]) keeps its name at its position.  Necessary: [C09_names_default_output_refuted] (the output
    [_state_1_0] is [b_k] for the debug name [_state_1]). *)
Theorem C09_names_survive_outputs_partial :
  forall v wv sy nm lines,
    sys_ok_weak sy = true -> (is_fix v = true -> props_1bit sy = true) -> (v = Fix2 -> w_no_array_alias wv = true) ->
    NoDup (declared sy) -> sys_fits sy = true ->
    NoDup (map fst (s_outputs sy)) -> (forall o, In o (s_outputs sy) -> ~ In (fst o) reserved_names) ->
    serialize_named_v wv sy nm = POk lines -> N.of_nat (List.length lines) <= U32MAX ->
    exists sy', (forall dbg, parse_lines_v v dbg lines = POk sy') /\
      Forall2 (fun o o' => apart_from (printed (label_ctx wv sy nm) sy) (map fst (s_outputs sy)) (fst o) -> fst o' = fst o)
              (s_outputs sy) (s_outputs sy').
Proof. exact names_survive_outputs. Qed.
Print Assumptions C09_names_survive_outputs_partial.

(** Non-vacuity on [c09_named]: its output [both] satisfies the hypothesis. *)
Example C09_names_outputs_hyps :
  NoDup (map fst (s_outputs c09_named)) /\ (forall o, In o (s_outputs c09_named) -> ~ In (fst o) reserved_names) /\
  printed (label_ctx writer_repo c09_named []) c09_named = ["a"; "b"]%string /\
  apart_from (printed (label_ctx writer_repo c09_named []) c09_named) (map fst (s_outputs c09_named)) "both".
Proof.
  split; [cbn; constructor; [intros []|constructor]|]. split.
  { intros o Ho. cbn in Ho. destruct Ho as [<-|[]]. cbn. intros H. repeat (destruct H as [H|H]; [discriminate H|]). exact H. }
  assert (E : printed (label_ctx writer_repo c09_named []) c09_named = ["a"; "b"]%string) by (vm_compute; reflexivity).
  split; [exact E|]. rewrite E. split; [vm_compute; reflexivity|]. split.
  - cbn. intros H. repeat (destruct H as [H|H]; [discriminate H|]). exact H.
  - intros b Hb _. cbn in Hb. repeat (destruct Hb as [<-|Hb]; [vm_compute; reflexivity|]). contradiction.
Qed.

(** The excluded classes are necessary: in each of them a name changes (writer and reader of /repo). *)
(** names:states:dollar-cleanup - the alias line's name token goes through [clean_up_name] *)
Definition c09_dollar : sys :=
  let s := BVSymbol "$sig$8" 8 in
  {| s_inputs := []; s_states := [ {| st_sym := s; st_init := None; st_next := Some s |} ];
     s_outputs := [("o", s)]; s_bads := []; s_constraints := [] |}.

Example C09_names_dollar_refuted :
  sys_ok c09_dollar = true /\ kc_dollar c09_dollar [] = true /\
  match cycle writer_repo Fix c09_dollar [] with
  | POk sy' => names_of c09_dollar = ([], ["$sig$8"], ["o"])%string /\ names_of sy' = ([], ["_sig_8"], ["o"])%string
  | _ => False
  end.
Proof. vm_compute. repeat split. Qed.

(** names:inputs:same-name-as-output - the writer cannot print the name on the declaration *)
Definition c09_input_output : sys :=
  let a := BVSymbol "s2" 8 in
  {| s_inputs := [a]; s_states := []; s_outputs := [("s2", a)]; s_bads := []; s_constraints := [] |}.

Example C09_names_input_output_refuted :
  sys_ok c09_input_output = true /\ kc_input_output c09_input_output = true /\
  forallb (in_named (label_ctx writer_repo c09_input_output [])) (s_inputs c09_input_output) = false /\
  match cycle writer_repo Fix c09_input_output [] with
  | POk sy' => names_of c09_input_output = (["s2"], [], ["s2"])%string /\ names_of sy' = (["_input_0"], [], ["s2"])%string
  | _ => False
  end.
Proof. vm_compute. repeat split. Qed.

(** names:states:default-name-collision - a state [_state_1_0] next to a node named [_state_1] and two
    states with default names: the second unnamed state takes [_state_1], the node becomes [_state_1_0] *)
Definition c09_default_nm : names_map := [(BVNot (BVSymbol "_state_0" 8) 8, "_state_1"%string)].
Definition c09_default_state : sys :=
  let s0 := BVSymbol "_state_0" 8 in let s1 := BVSymbol "_state_2" 8 in let s2 := BVSymbol "_state_1_0" 8 in
  {| s_inputs := [];
     s_states := [ {| st_sym := s0; st_init := None; st_next := Some s0 |};
                   {| st_sym := s1; st_init := None; st_next := Some s1 |};
                   {| st_sym := s2; st_init := Some (BVNot s0 8); st_next := Some s2 |} ];
     s_outputs := []; s_bads := []; s_constraints := [] |}.

Example C09_names_default_state_refuted :
  sys_ok c09_default_state = true /\ kc_default_like c09_default_state c09_default_nm = true /\
  match cycle writer_repo Fix c09_default_state c09_default_nm with
  | POk sy' => names_of sy' = ([], ["_state_0"; "_state_1"; "_state_1_0_0"], [])%string
  | _ => False
  end.
Proof. vm_compute. repeat split. Qed.

(** names:outputs:suffix-drift - the same for an output [_state_1_0] *)
Definition c09_default_output : sys :=
  let s0 := BVSymbol "_state_0" 8 in let s1 := BVSymbol "_state_2" 8 in
  {| s_inputs := [];
     s_states := [ {| st_sym := s0; st_init := None; st_next := Some s0 |};
                   {| st_sym := s1; st_init := None; st_next := Some s1 |} ];
     s_outputs := [("_state_1_0", BVNegate (BVNot s0 8) 8)]; s_bads := []; s_constraints := [] |}.

Example C09_names_default_output_refuted :
  sys_ok c09_default_output = true /\ kc_default_like c09_default_output c09_default_nm = true /\
  match cycle writer_repo Fix c09_default_output c09_default_nm with
  | POk sy' => names_of sy' = ([], ["_state_0"; "_state_1"], ["_state_1_0_0"])%string
  | _ => False
  end.
Proof. vm_compute. repeat split. Qed.

(** The complete, symmetric statement for closed systems (any reader variant [v]: [Cur] needs [sys_ok_weak]
    only, [Fix] = /repo and [Fix2] also need Boolean bad states and constraints): the system read back has
    pairwise distinct symbols; every environment [rho'] of it induces an environment of [sy] under which
    the two systems mean the same ([rt_agrees]); and conversely for EVERY environment [rho] of [sy] there
    is an environment [rho'] of the system read back such that all positionally corresponding symbols,
    init / next / output / bad / constraint expressions have the same type and value ([rt_same]). *)
Theorem C09_roundtrip_complete :
  forall v sy lines,
    sys_ok_weak sy = true -> (is_fix v = true -> props_1bit sy = true) -> sys_closed sy ->
    NoDup (declared sy) -> sys_fits sy = true ->
    serialize sy = POk lines -> N.of_nat (List.length lines) <= U32MAX ->
    exists sy',
      (forall dbg, parse_lines_v v dbg lines = POk sy') /\
      NoDup (declared sy') /\
      (exists tau pull, rt_agrees sy sy' tau pull) /\
      (forall rho, env_wf rho -> exists rho', env_wf rho' /\ rt_same sy sy' rho rho').
Proof. exact roundtrip_complete. Qed.
Print Assumptions C09_roundtrip_complete.

(** A fact about the reader alone, used above: the inputs and state symbols of EVERY accepted system
    (any text, any reader variant, any build profile) are pairwise distinct - [unique_name] is fresh,
    and [improve_state_names] renames a state only to a name recorded for that state alone. *)
Theorem C09_accepted_symbols_distinct :
  forall v dbg ls sy, parse_lines_v v dbg ls = POk sy -> NoDup (declared sy).
Proof. exact accepted_distinct. Qed.
Print Assumptions C09_accepted_symbols_distinct.

(** Non-vacuity: the example system satisfies every hypothesis. *)
Example C09_roundtrip_hyps :
  sys_ok c09_sys = true /\ sys_ok_weak c09_sys = true /\ NoDup (declared c09_sys) /\ sys_fits c09_sys = true /\
  exists lines, serialize c09_sys = POk lines /\ N.of_nat (List.length lines) <= U32MAX.
Proof.
  split; [vm_compute; reflexivity|]. split; [vm_compute; reflexivity|]. split.
  - cbn [declared c09_sys s_inputs s_states map st_sym app].
    repeat (constructor; [cbn [In]; intros H; repeat (destruct H as [H|H]; [discriminate H|]); exact H|]). constructor.
  - split; [vm_compute; reflexivity|]. eexists. split; [vm_compute; reflexivity|]. vm_compute. discriminate.
Qed.

(** Why the declared symbols must be distinct: with a symbol that is both an input and a state, the
    expression cache of the writer hands out the id of an expression built over the INPUT for the
    same expression over the STATE. *)
Definition c09_dup_symbol : sys :=
  let a := BVSymbol "a" 1 in
  {| s_inputs := [a];
     s_states := [ {| st_sym := a; st_init := Some (BVNot a 1); st_next := Some (BVNot a 1) |} ];
     s_outputs := []; s_bads := []; s_constraints := [] |}.

Example C09_dup_symbol_diverges :
  sys_ok c09_dup_symbol = true /\
  match roundtrip true c09_dup_symbol with
  | POk sy' => match s_states sy' with
               | [s'] => st_next s' = Some (BVNot (BVSymbol "_input_0" 1) 1)   (* not the state: the input *)
               | _ => False
               end
  | _ => False
  end.
Proof. vm_compute. split; reflexivity. Qed.
