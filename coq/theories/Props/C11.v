(** * Props/C11.v — System-level transformations preserve observable behaviour.

    Model: [SysTransform.simplify_sys] / [SysTransform.replace_anonymous_inputs_with_zero]
    (transform.rs + TransitionSystem::update_expressions); semantics: Spec/System.v. *)
From Patronus Require Import SysTransform SimplifyBuilders SysTransformProofs CoiSpec SysReplaceRuns.
Open Scope N_scope.

(** Simplifying all expressions: same inputs, same state symbols, and every init / next /
    output / bad / constraint expression replaced by a well-typed expression of the same type
    and the same value under every valuation ([ok_rw]). *)
Theorem C11_simplify_sys_rel :
  forall (n : nat) (sy sy' : sys), sys_ok sy = true -> simplify_sys n sy = Some sy' -> sys_rel sy sy'.
Proof. exact simplify_sys_rel. Qed.
Print Assumptions C11_simplify_sys_rel.

(** ... so every execution is unchanged: the same initial valuation and the same choices of
    inputs / unconstrained states give pointwise equivalent traces, *)
Theorem C11_runs_unchanged :
  forall (sy sy' : sys), sys_ok sy = true -> sys_rel sy sy' ->
  forall frees rho rho', env_wf rho' -> Forall env_wf frees -> env_equiv rho rho' ->
    Forall2 env_equiv (run_from sy rho frees) (run_from sy' rho' frees).
Proof. exact run_from_rel. Qed.
Print Assumptions C11_runs_unchanged.

(** the same valuations are initial, *)
Theorem C11_initial_unchanged :
  forall (sy sy' : sys) (rho : env), sys_rel sy sy' -> env_wf rho -> is_initial sy rho <-> is_initial sy' rho.
Proof. exact is_initial_rel. Qed.
Print Assumptions C11_initial_unchanged.

(** the simulator's sequential initialisation gives equivalent valuations, *)
Theorem C11_init_seq_unchanged :
  forall (sy sy' : sys) (rho0 rho0' : env), sys_ok sy = true -> sys_rel sy sy' -> env_wf rho0' ->
    env_equiv rho0 rho0' -> env_equiv (init_seq sy rho0) (init_seq sy' rho0').
Proof. exact init_seq_rel. Qed.
Print Assumptions C11_init_seq_unchanged.

(** and constraints, bad states and outputs are observed identically. *)
Theorem C11_observations_unchanged :
  forall (sy sy' : sys) (r r' : env), sys_rel sy sy' -> env_wf r' -> env_equiv r r' ->
    constraints_hold sy r = constraints_hold sy' r' /\ some_bad sy r = some_bad sy' r' /\
    Forall2 (fun o o' => fst o' = fst o /\ ebv r (snd o) = ebv r' (snd o') /\
                         forall i, earr r (snd o) i = earr r' (snd o') i) (s_outputs sy) (s_outputs sy').
Proof.
  intros sy sy' r r' H1 H2 H3.
  exact (conj (constraints_hold_rel sy sy' r r' H1 H2 H3)
              (conj (some_bad_rel sy sy' r r' H1 H2 H3) (outputs_rel sy sy' r r' H1 H2 H3))).
Qed.
Print Assumptions C11_observations_unchanged.

(** Replacing anonymous inputs by zero is a map of [subst_zero] over the system without those
    inputs, *)
Theorem C11_replace_is_map :
  forall (sy : sys),
  let removed := filter is_anonymous (s_inputs sy) in
  replace_anonymous_inputs_with_zero sy =
  map_sys (subst_zero removed)
    {| s_inputs := filter (fun i => negb (is_anonymous i)) (s_inputs sy); s_states := s_states sy;
       s_outputs := s_outputs sy; s_bads := s_bads sy; s_constraints := s_constraints sy |}.
Proof. exact replace_anonymous_eq. Qed.
Print Assumptions C11_replace_is_map.

(** and each mapped expression is well-typed, has the same type, mentions none of the removed
    inputs, and has under every valuation the value the original has when the removed inputs
    are zero: the new system is the original restricted to executions with those inputs at 0. *)
Theorem C11_replace_zero_sound :
  forall (sy : sys) (e : expr),
  let removed := filter is_anonymous (s_inputs sy) in
  sys_ok sy = true -> wt e = true ->
  wt (subst_zero removed e) = true /\ type_of (subst_zero removed e) = type_of e /\
  (forall r, In r removed -> occurs r (subst_zero removed e) = false) /\
  forall rho, ebv rho (subst_zero removed e) = ebv (zero_env removed rho) e /\
              forall i, earr rho (subst_zero removed e) i = earr (zero_env removed rho) e i.
Proof. exact replace_zero_sound_lemma. Qed.
Print Assumptions C11_replace_zero_sound.


(** ** the same at the level of executions: the new system IS the original one restricted to executions in
    which the removed inputs are zero.  [zero_env removed r] is [r] with the removed inputs at zero.
    Domain: no anonymous input is at once a state symbol ([states_kept]). *)
Theorem C11_replace_inputs :
  forall (sy : sys), sys_ok sy = true ->
    s_inputs (replace_anonymous_inputs_with_zero sy) = filter (fun i => negb (is_anonymous i)) (s_inputs sy).
Proof. exact inputs'. Qed.
Print Assumptions C11_replace_inputs.

(** every run of the new system, seen through [zero_env], is the run of the original system from the
    zeroed start valuation and the zeroed free choices; *)
Theorem C11_replace_runs :
  forall (sy : sys), sys_ok sy = true -> states_kept sy ->
  forall frees rho,
    let removed := filter is_anonymous (s_inputs sy) in
    Forall2 (fun r' r => env_equiv (zero_env removed r') r)
            (run_from (replace_anonymous_inputs_with_zero sy) rho frees)
            (run_from sy (zero_env removed rho) (map (zero_env removed) frees)).
Proof. intros sy H1 H2 frees rho. exact (replace_run_from sy H1 H2 frees rho). Qed.
Print Assumptions C11_replace_runs.

(** conversely every run of the ORIGINAL system in which the removed inputs are zero is matched by the run of
    the new system from the same start valuation and the same free choices; *)
Theorem C11_replace_restriction :
  forall (sy : sys), sys_ok sy = true -> states_kept sy ->
  forall frees rho,
    let removed := filter is_anonymous (s_inputs sy) in
    env_equiv (zero_env removed rho) rho -> Forall (fun f => env_equiv (zero_env removed f) f) frees ->
    Forall2 (fun r' r => env_equiv (zero_env removed r') r)
            (run_from (replace_anonymous_inputs_with_zero sy) rho frees) (run_from sy rho frees).
Proof. intros sy H1 H2 frees rho. exact (replace_restriction sy H1 H2 frees rho). Qed.
Print Assumptions C11_replace_restriction.

(** related valuations are initial together and are observed identically (constraints, bad states, outputs). *)
Theorem C11_replace_initial :
  forall (sy : sys), sys_ok sy = true -> states_kept sy ->
  forall rho, is_initial (replace_anonymous_inputs_with_zero sy) rho <->
              is_initial sy (zero_env (filter is_anonymous (s_inputs sy)) rho).
Proof. intros sy H1 H2 rho. exact (replace_is_initial sy H1 H2 rho). Qed.
Print Assumptions C11_replace_initial.

Theorem C11_replace_observations :
  forall (sy : sys), sys_ok sy = true -> states_kept sy ->
  forall r' r, env_equiv (zero_env (filter is_anonymous (s_inputs sy)) r') r ->
    let sy' := replace_anonymous_inputs_with_zero sy in
    constraints_hold sy' r' = constraints_hold sy r /\ some_bad sy' r' = some_bad sy r /\
    Forall2 (fun o' o => fst o' = fst o /\ ebv r' (snd o') = ebv r (snd o) /\
                         forall i, earr r' (snd o') i = earr r (snd o) i) (s_outputs sy') (s_outputs sy).
Proof. intros sy H1 H2 r' r Hq. exact (replace_observations sy H1 r' r Hq). Qed.
Print Assumptions C11_replace_observations.

Example C11_example :
  let i0 := BVSymbol "_input_0" 4 in
  let s := BVSymbol "s" 4 in
  let sy := {| s_inputs := [i0; BVSymbol "en" 1];
               s_states := [{| st_sym := s; st_init := Some (BVLiteral 4 0);
                               st_next := Some (BVIte (BVSymbol "en" 1) (BVAdd s i0 4) (BVAnd s s 4)) |}];
               s_outputs := [("o"%string, BVNot (BVNot s 4) 4)];
               s_bads := [BVEqual s (BVLiteral 4 9)]; s_constraints := [] |} in
  sys_ok sy = true /\
  (exists sy', simplify_sys_default sy = Some sy' /\ s_outputs sy' = [("o"%string, s)]) /\
  s_inputs (replace_anonymous_inputs_with_zero sy) = [BVSymbol "en" 1] /\
  states_kept sy.
Proof.
  cbv zeta. split; [vm_compute; reflexivity|]. split; [eexists; split; vm_compute; reflexivity|].
  split; [vm_compute; reflexivity|]. intros st [<-|[]]. vm_compute. reflexivity.
Qed.
