(** * Props/C20.v — Value summaries denote a total function and operations preserve it.

    Model: Model/ValueSummary.v (guards = reduced ordered BDD trees, [expr_to_guard],
    [ValueSummary<ExprRef>] operations, histories [vrun debug fixed]).
    Meaning: Spec/GuardSem.v ([bdd_eval], [count_true], [denotes], [bsem], [tval]).
    [fixed = true] sorts the delete list of [coalesce_entries] (/repo e25c4dc; [false] = before).
    [rp : repairs] switches the three further repairs of patches/C20-1..3 on
    ([no_repairs] = /repo without them, [all_repairs] = with all of them).  Theorems that
    quantify over [rp] hold for every combination.

    Only statements, [exact lemma] proofs, [Print Assumptions], examples. *)
From Patronus Require Import GuardSem BddProofs GuardProofs SummaryProofs CoalesceProofs IteImportProofs HistoryProofs BddCanonProofs RepairProofs.
Open Scope N_scope.

(* ---------------------------------------------------------------- partition_inv *)

(** REFUTED for the code as it is: a history new/apply_ite/coalesce (no panics, debug or
    release) reaches a summary with two true guards under one valuation, whose values are
    not pairwise different.  Recorded as finding  key=coalesce:overlap. *)
Theorem C20_partition_inv_refuted :
  exists (prog : list vop) (st : vstate) (s : summary) (v : nat -> bool),
    (forall debug, vrun no_repairs debug false vinit prog = Ok st) /\ In s (vs_sums st) /\
    count_true v s = 2%nat /\ ~ NoDup (map snd s).
Proof. exact partition_refuted_lemma. Qed.
Print Assumptions C20_partition_inv_refuted.

(** [partition_inv] for the repaired code: in every summary reachable by any history of
    new / apply_bin_op (any operator, any node order) / apply_ite / coalesce /
    import_into_guard / expr_to_guard, exactly one guard is true under every valuation. *)
Theorem C20_partition_inv_fixed :
  forall (rp : repairs) (debug : bool) (prog : list vop) (st : vstate),
    vrun rp debug true vinit prog = Ok st ->
    forall s, In s (vs_sums st) -> forall v : nat -> bool, count_true v s = 1%nat.
Proof. exact partition_inv_lemma. Qed.
Print Assumptions C20_partition_inv_fixed.

(** What the code as it is does guarantee: every reachable summary denotes a total
    function - under every valuation some guard is true and all true entries carry the
    same value. *)
Theorem C20_functional_inv :
  forall (rp : repairs) (debug fixed : bool) (prog : list vop) (st : vstate),
    vrun rp debug fixed vinit prog = Ok st ->
    forall s, In s (vs_sums st) -> forall v : nat -> bool, exists x, denotes v s x.
Proof. exact functional_inv_lemma. Qed.
Print Assumptions C20_functional_inv.

(** Outside the known class the code as it is *is* the repaired code: whenever the delete
    list built by [coalesce_entries] is already sorted, both return the same entries. *)
Theorem C20_coalesce_outside_known :
  forall (es pre : summary) (dl : list nat),
    co_loop [] [] [] es = Ok (pre, dl) -> sort_nat dl = dl ->
    coalesce_entries false es = coalesce_entries true es.
Proof. exact coalesce_current_sorted. Qed.
Print Assumptions C20_coalesce_outside_known.

(** per operation: the partition is preserved (coalesce: repaired code) *)
Theorem C20_partition_ops :
  (forall x v, count_true v (vs_new x) = 1%nat) /\
  (forall rp debug rank op a b r v, apply_bin_op rp debug rank op a b = Ok r ->
     count_true v a = 1%nat -> count_true v b = 1%nat -> count_true v r = 1%nat) /\
  (forall rp debug t c tr fl t' r v, apply_ite rp debug t c tr fl = Ok (t', r) ->
     count_true v tr = 1%nat -> count_true v fl = 1%nat -> count_true v r = 1%nat) /\
  (forall es r v, coalesce_entries true es = Ok r -> count_true v es = 1%nat -> count_true v r = 1%nat) /\
  (forall es r, coalesce_entries true es = Ok r -> NoDup (map snd r)) /\
  (forall rp debug t s t' r v, import_into_guard rp debug t s = Ok (t', r) -> count_true v r = 1%nat).
Proof.
  exact (conj new_partition (conj bin_partition (conj ite_partition
        (conj coalesce_fixed_partition (conj coalesce_fixed_values_distinct import_partition))))).
Qed.
Print Assumptions C20_partition_ops.

(* ---------------------------------------------------------------- den_commutes *)

(** The value selected from the result is the operation applied to the values selected
    from the arguments, under every valuation.  Stated with [denotes], so it also covers
    summaries with overlapping entries; [C20_denotes_den] turns it into a statement about
    the selected value [vs_den]. *)
Theorem C20_den_commutes_bin_op :
  forall rp debug rank op a b r (v : nat -> bool) x y,
    apply_bin_op rp debug rank op a b = Ok r ->
    denotes v a x -> denotes v b y -> denotes v r (op x y).
Proof. exact bin_denotes. Qed.
Print Assumptions C20_den_commutes_bin_op.

Theorem C20_den_commutes_ite :
  forall rp debug t c tr fl t' r (v : nat -> bool) xc xt xf,
    apply_ite rp debug t c tr fl = Ok (t', r) ->
    denotes v c xc -> denotes v tr xt -> denotes v fl xf ->
    denotes v r (if bsem t' v xc then xt else xf).
Proof. exact ite_denotes. Qed.
Print Assumptions C20_den_commutes_ite.

(** for the code as it is ([fixed = false]) and the repaired code *)
Theorem C20_den_commutes_coalesce :
  forall fixed es r (v : nat -> bool) x,
    coalesce_entries fixed es = Ok r -> denotes v es x -> denotes v r x.
Proof. exact coalesce_denotes. Qed.
Print Assumptions C20_den_commutes_coalesce.

Theorem C20_den_commutes_import :
  forall rp debug t s t' r (v : nat -> bool) x,
    import_into_guard rp debug t s = Ok (t', r) -> denotes v s x ->
    denotes v r (if bsem t' v x then lit_true else lit_false).
Proof. exact import_denotes. Qed.
Print Assumptions C20_den_commutes_import.

Theorem C20_denotes_den :
  forall (v : nat -> bool) s x,
    (denotes v s x -> vs_den v s = Some x) /\
    (count_true v s = 1%nat -> vs_den v s = Some x -> denotes v s x).
Proof. exact (fun v s x => conj (denotes_den v s x) (den_denotes v s x)). Qed.
Print Assumptions C20_denotes_den.

(* ---------------------------------------------------------------- guard_equiv *)

(** Whenever [expr_to_guard] returns, the guard is true under the valuation induced by a
    symbol assignment [rho] iff the (well-typed, boolean) expression evaluates to 1. *)
Theorem C20_guard_equiv :
  forall (rho : env), env_wf rho ->
  forall rp debug t e t' g,
    wt e = true -> expr_is_bool e = true ->
    expr_to_guard rp debug t e = Ok (t', g) ->
    bdd_eval (tval rho t') g = (ebv rho e =? 1).
Proof. exact guard_equiv_lemma. Qed.
Print Assumptions C20_guard_equiv.

(** ... and for every valuation of the terminals (realisable by an assignment or not) it
    is the Boolean skeleton of the expression over the registered terminals; the terminal
    list only grows *)
Theorem C20_guard_equiv_skeleton :
  forall rp debug t e t' g,
    expr_to_guard rp debug t e = Ok (t', g) ->
    extends t t' /\ covered t' e = true /\ forall v : nat -> bool, bdd_eval v g = bsem t' v e.
Proof. exact expr_to_guard_sound. Qed.
Print Assumptions C20_guard_equiv_skeleton.

(** [expr_to_guard] returns exactly on the [guardable] expressions ... *)
Theorem C20_guard_total_on_guardable :
  forall debug e,
    (guardable debug e = true -> forall t, exists t' g, e2g no_repairs debug t e = Ok (t', g)) /\
    (guardable debug e = false -> forall t, e2g no_repairs debug t e = Panic).
Proof. exact (fun debug e => conj (fun H t => e2g_total debug e t H) (fun H t => e2g_panics debug e t H)). Qed.
Print Assumptions C20_guard_total_on_guardable.

(** ... REFUTED totality: a comparison of two 8-bit symbols is a well-typed boolean
    expression on which [expr_to_guard] panics in every build
    (finding key=panic@patronus/src/expr/traversal.rs:73) *)
Theorem C20_guard_total_refuted :
  exists e, wt e = true /\ expr_is_bool e = true /\ forall debug t, expr_to_guard no_repairs debug t e = Panic.
Proof. exact guard_panics_lemma. Qed.
Print Assumptions C20_guard_total_refuted.

(** the two debug assertions that fire on legitimate inputs
    (findings key=panic@patronus-dse/src/value_summary.rs:76 and :160) *)
Theorem C20_debug_asserts_refuted :
  (exists e, wt e = true /\ expr_is_bool e = true /\
     (forall t, expr_to_guard no_repairs true t e = Panic) /\ (forall t, exists r, expr_to_guard no_repairs false t e = Ok r)) /\
  (exists prog, vrun no_repairs true true vinit prog = Panic /\ exists st, vrun no_repairs false true vinit prog = Ok st).
Proof. exact (conj guard_debug_assert_lemma bin_debug_assert_lemma). Qed.
Print Assumptions C20_debug_asserts_refuted.

(** no other panics in these operations: [coalesce] never panics, [apply_bin_op] never
    panics in release builds *)
Theorem C20_no_panic :
  (forall fixed es, exists r, coalesce_entries fixed es = Ok r) /\
  (forall rp rank op a b, exists r, apply_bin_op rp false rank op a b = Ok r).
Proof. exact (conj coalesce_no_panic bin_no_panic_release). Qed.
Print Assumptions C20_no_panic.

(* ---------------------------------------------------------------- the repaired variant *)

(** [guard_equiv], unconditional: with the traversal and the closures repaired
    (patches/C20-1, C20-2) [expr_to_guard] returns, in debug and release builds, for EVERY
    well-typed boolean expression, and the guard it returns is equivalent to the expression
    (no [guardable] restriction; [C20_guard_total_refuted] is about [no_repairs]). *)
Theorem C20_guard_total_repaired :
  forall rp debug t e,
    r_traversal rp = true -> r_closures rp = true ->
    wt e = true -> expr_is_bool e = true ->
    exists t' g, expr_to_guard rp debug t e = Ok (t', g) /\
      extends t t' /\
      (forall v : nat -> bool, bdd_eval v g = bsem t' v e) /\
      (forall rho, env_wf rho -> bdd_eval (tval rho t') g = (ebv rho e =? 1)).
Proof. exact guard_total_repaired_lemma. Qed.
Print Assumptions C20_guard_total_repaired.

(** no panic left in either build: [apply_ite] / [import_into_guard] return whenever the
    condition values are boolean; with the adjusted assertion (patches/C20-3) [apply_bin_op]
    returns for every pair of summaries reachable by any history (any operator, any node
    order); the history of [C20_debug_asserts_refuted] runs through. *)
Theorem C20_no_panic_repaired :
  (forall rp debug t c tr fl, r_traversal rp = true -> r_closures rp = true ->
     (forall e, In e c -> expr_is_bool (snd e) = true) -> exists r, apply_ite rp debug t c tr fl = Ok r) /\
  (forall rp debug t s, r_traversal rp = true -> r_closures rp = true ->
     (forall e, In e s -> expr_is_bool (snd e) = true) -> exists r, import_into_guard rp debug t s = Ok r) /\
  (forall rp debug prog st, r_assert rp = true -> vrun rp debug true vinit prog = Ok st ->
     forall a b, In a (vs_sums st) -> In b (vs_sums st) ->
     forall rank op, exists r, apply_bin_op rp debug rank op a b = Ok r) /\
  (exists st, vrun all_repairs true true vinit binfalse_prog = Ok st).
Proof. exact (conj ite_total (conj import_total (conj bin_total_reachable binfalse_repaired))). Qed.
Print Assumptions C20_no_panic_repaired.

(* ---------------------------------------------------------------- canonical guards *)

(** The model's guards are canonical, as [boolean_expression::BDD] node numbers are: in
    every reachable state two guards that agree under every valuation are equal.  (So the
    guard-equality tests of the Rust code - common guards, is_true, is_false - are modelled
    by tests on the Boolean functions themselves.) *)
Theorem C20_guards_canonical :
  forall rp debug fixed prog st,
    vrun rp debug fixed vinit prog = Ok st ->
    forall g1 g2,
      (In g1 (vs_guards st) \/ exists s e, In s (vs_sums st) /\ In e s /\ fst e = g1) ->
      (In g2 (vs_guards st) \/ exists s e, In s (vs_sums st) /\ In e s /\ fst e = g2) ->
      (forall v : nat -> bool, bdd_eval v g1 = bdd_eval v g2) -> g1 = g2.
Proof. exact guards_canonical_lemma. Qed.
Print Assumptions C20_guards_canonical.

(* ---------------------------------------------------------------- examples (non-vacuity) *)

(** the history of the refutation, on the repaired code: four operations deep, a
    partition under every valuation *)
Example C20_example_fixed :
  forall v, count_true v (last_sum (vrun no_repairs false true vinit abba_prog)) = 1%nat.
Proof. exact abba_fixed. Qed.

(** a guard with a connective of every kind; the hypotheses of [C20_guard_equiv] hold and
    the guard is the expected truth table *)
Example C20_example_guard :
  let e := BVImplies (BVXor (BVSymbol "p" 1) (BVNot (BVSymbol "q" 1) 1) 1)
                     (BVOr (BVAnd (BVSymbol "p" 1) (BVSymbol "r" 1) 1) (BVLiteral 1 0) 1) in
  wt e = true /\ expr_is_bool e = true /\
  match expr_to_guard no_repairs true [] e with
  | Ok (t', g) => length t' = 3%nat /\
      map (fun k => bdd_eval (fun i => N.testbit k (N.of_nat i)) g) [0; 1; 2; 3; 4; 5; 6; 7]
      = [false; true; true; false; false; true; true; true]
  | Panic => False
  end.
Proof. vm_compute. repeat split. Qed.

(** a history with every operation succeeds in both builds and ends in a 2-entry partition *)
Example C20_example_history :
  let prog := [ONew (BVAnd t0 t1 1); ONew val0; ONew val1; OIte 0 1 2; ONew (BVOr t0 t1 1); OIte 4 3 2;
               OBin (fun _ => 0) (fun a b => BVAdd a b 8) 3 5; OCoalesce 6; OImport 4;
               OGuard (BVXor t0 t1 1)] in
  forall debug, match vrun no_repairs debug true vinit prog with
                | Ok st => length (vs_sums st) = 9%nat /\ length (last (vs_sums st) []) = 2%nat
                           /\ length (nth 6 (vs_sums st) []) = 3%nat /\ length (nth 7 (vs_sums st) []) = 2%nat /\ length (vs_terms st) = 2%nat
                | Panic => False
                end.
Proof. intros prog [|]; vm_compute; repeat split. Qed.

(** the hypotheses of the [den_commutes] theorems on concrete summaries: a bin-op through
    the common-guard fast path (summaries 4, 5 share the guards t0 / not t0), one through
    the cross product (7 x 5), an ite and a coalesce; under each of the four valuations of
    (t0, t1) the selected value of the result is the operation on the selected values *)
Example C20_example_den :
  let add := fun a b => BVAdd a b 8 in
  let prog := [ONew t0; ONew val0; ONew val1; ONew val2; OIte 0 1 2; OIte 0 2 3; ONew t1; OIte 6 4 3;
               OBin (fun _ => 0) add 4 5; OBin (fun _ => 0) add 7 5; OCoalesce 9] in
  match vrun all_repairs true true vinit prog with
  | Ok st =>
      let s := fun i => nth i (vs_sums st) [] in
      map (fun i => length (s i)) [4; 5; 7; 8; 9; 10]%nat = [2; 2; 3; 2; 4; 4]%nat /\
      forallb (fun k =>
        let v := fun i => N.testbit k (N.of_nat i) in
        let sel := fun i => match vs_den v (s i) with Some x => x | None => lit_false end in
        Nat.eqb (count_true v (s 9%nat)) 1 &&
        expr_eqb (sel 8%nat) (add (sel 4%nat) (sel 5%nat)) &&
        expr_eqb (sel 9%nat) (add (sel 7%nat) (sel 5%nat)) &&
        expr_eqb (sel 7%nat) (if bsem (vs_terms st) v (sel 6%nat) then sel 4%nat else sel 3%nat) &&
        expr_eqb (sel 10%nat) (sel 9%nat)) [0; 1; 2; 3] = true
  | Panic => False
  end.
Proof. vm_compute. split; reflexivity. Qed.

(** the two expressions of the refutations are plain terminals for the repaired variant, in
    the debug build: an and of an 8-bit comparison and a boolean if-then-else has two
    terminals and the truth table of the conjunction *)
Example C20_example_repaired_guard :
  let e := BVAnd cmp8 bool_ite 1 in
  wt e = true /\ expr_is_bool e = true /\
  expr_to_guard no_repairs true [] e = Panic /\ expr_to_guard no_repairs false [] e = Panic /\
  match expr_to_guard all_repairs true [] e with
  | Ok (t', g) => t' = [cmp8; bool_ite] /\
      map (fun k => bdd_eval (fun i => N.testbit k (N.of_nat i)) g) [0; 1; 2; 3] = [false; false; false; true]
  | Panic => False
  end.
Proof. vm_compute. repeat split. Qed.
