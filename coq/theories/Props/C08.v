(** * Props/C08.v — The btor2 reader gives every construct its btor2 meaning.

    Reference semantics: [Btor2Sem.sem_run val lines] (Spec/Btor2Sem.v), a line-by-line
    interpreter written from the definition of the format, computing VALUES under a valuation
    [val] of the input and state lines.  Model of the reader: [Btor2Parse.parse_raw dbg lines]
    (the system before [improve_state_names] renames state symbols and before states without
    init and next are moved to the inputs; [parse_lines = demote (rename_sys ..)] of it).
    Agreement predicates: Spec/Btor2Agree.v.  Only statements, [exact lemma] proofs,
    [Print Assumptions], examples. *)
From Coq Require Import List String NArith Bool.
From Patronus Require Import SysClosed Btor2Parse Btor2Sem Btor2Agree Btor2Witness Btor2SemWitness Btor2Refine Btor2NoCrash Btor2Sound Btor2Fix Btor2SoundFix.
Import ListNotations.
Open Scope N_scope.

(** Soundness, node by node (debug build): whenever the reader accepts all lines and the
    reference interpreter accepts them under a valuation that gives the k-th input / state line
    the value of the reader's k-th input / state symbol, then the sort tables coincide and
    EVERY signal of the reader evaluates to the interpreter's value of the same line (all
    operators, negated operands, operand order, derived operators, extensions, slices,
    constants of all three radixes incl. the >128-bit reader, arrays), and the recorded
    init / next / output / bad / constraint entries agree position by position. *)
Theorem C08_parse_sound :
  forall ls st rho val S,
    env_wf rho ->
    parse_fold true ls p_empty false = POk (st, false) ->
    agree rho val (p_inputs st) (map st_sym (p_states st)) ->
    sem_run val ls = B2Ok S ->
    R rho st S.
Proof. exact parse_sound. Qed.
Print Assumptions C08_parse_sound.

(** the same for a release build, whenever the debug build does not panic on the text *)
Theorem C08_parse_sound_release :
  forall ls st rho val S,
    env_wf rho ->
    no_panic (parse_fold true ls p_empty false) ->
    parse_fold false ls p_empty false = POk (st, false) ->
    agree rho val (p_inputs st) (map st_sym (p_states st)) ->
    sem_run val ls = B2Ok S ->
    R rho st S.
Proof. exact parse_sound_release. Qed.
Print Assumptions C08_parse_sound_release.

(** Soundness of the returned system: inputs counted, states typed with their declared sorts,
    init / next / output / bad / constraint functions equal to btor2's, for every environment. *)
Theorem C08_system_sound :
  forall ls sy ren rho S,
    env_wf rho ->
    parse_raw true ls = POk (sy, ren) ->
    sem_run (induced_sys rho sy) ls = B2Ok S ->
    sys_agrees rho sy S.
Proof. exact system_sound. Qed.
Print Assumptions C08_system_sound.

(** A text in which some line's declared sort disagrees with its operands, or an operator is
    applied outside its sort signature ([B2IllSorted]), is never accepted. *)
Theorem C08_rejects_ill_sorted :
  forall ls sy ren rho,
    env_wf rho ->
    parse_raw true ls = POk (sy, ren) ->
    sem_run (induced_sys rho sy) ls <> B2Err B2IllSorted.
Proof. exact system_rejects_ill_sorted. Qed.
Print Assumptions C08_rejects_ill_sorted.

(** The three further violations of the format that the interpreter reports under their own
    names ARE accepted: bad/constraint of a non-Boolean node, zero-width sorts, uext/sext by 0
    of an array (so "ill-formed texts are never accepted" is FALSE beyond [B2IllSorted]). *)
Theorem C08_rejects_ill_sorted_refuted :
  forallb (fun w => match sem_error (fst w) with
                    | Some e => accepted true (fst w) && accepted false (fst w) &&
                                match e, snd w with
                                | B2PropWidth, B2PropWidth | B2ZeroWidth, B2ZeroWidth | B2ExtArray, B2ExtArray => true
                                | _, _ => false
                                end
                    | None => false
                    end) ill_sorted_accepted = true.
Proof. exact ill_sorted_accepted_ok. Qed.
Print Assumptions C08_rejects_ill_sorted_refuted.

(** Completeness fails: well-formed hexadecimal constants wider than 128 bits are rejected. *)
Theorem C08_accepts_well_formed_refuted :
  forallb (fun t => match sem_error t, parse_text true t, parse_text false t with
                    | None, PErr, PErr => true
                    | _, _, _ => false
                    end) well_formed_rejected = true.
Proof. exact well_formed_rejected_ok. Qed.
Print Assumptions C08_accepts_well_formed_refuted.

(** ** the repaired reader ([Fix], see Props/C18.v): the rejection statement extends to the classes
    that are repaired - a text that is ill-sorted, declares a zero-width sort, or has a bad/constraint
    over a non-Boolean node ([strict_err]) is never accepted.  What remains accepted although the
    interpreter refuses it: uext/sext by 0 of an array ([B2ExtArray], the writer's alias idiom). *)
Theorem C08_rejects_ill_formed_fix :
  forall ls sy ren rho e,
    env_wf rho ->
    parse_raw_v Fix true ls = POk (sy, ren) ->
    sem_run (induced_sys rho sy) ls = B2Err e -> strict_err e = false.
Proof. exact fix_rejects_ill_formed. Qed.
Print Assumptions C08_rejects_ill_formed_fix.

Theorem C08_system_sound_fix :
  forall ls sy ren rho S,
    env_wf rho ->
    parse_raw_v Fix true ls = POk (sy, ren) ->
    sem_run (induced_sys rho sy) ls = B2Ok S -> sys_agrees rho sy S.
Proof. exact fix_system_sound. Qed.
Print Assumptions C08_system_sound_fix.

(** ** [Fix2] = [Fix] + patches/0008 (writer: no alias line for an array) and patches/0009 (reader:
    uext/sext take a bit-vector operand whatever the amount), prepared but not applied in /repo.
    The rejection statement then covers EVERY violation the interpreter reports under a name of its
    own: [strict_err2] = [strict_err] plus [B2ExtArray].  (The two remaining error classes,
    [B2Unsupported] and [B2Syntax], are about operators outside the supported set and the lenient
    number syntax of the reader; they are not violations of the sort discipline.) *)
Theorem C08_rejects_ill_formed_fix2 :
  forall ls sy ren rho e,
    env_wf rho ->
    parse_raw_v Fix2 true ls = POk (sy, ren) ->
    sem_run (induced_sys rho sy) ls = B2Err e -> strict_err2 e = false.
Proof. exact fix2_rejects_ill_formed. Qed.
Print Assumptions C08_rejects_ill_formed_fix2.

Theorem C08_system_sound_fix2 :
  forall ls sy ren rho S,
    env_wf rho ->
    parse_raw_v Fix2 true ls = POk (sy, ren) ->
    sem_run (induced_sys rho sy) ls = B2Ok S -> sys_agrees rho sy S.
Proof. exact fix2_system_sound. Qed.
Print Assumptions C08_system_sound_fix2.

(** the accepted witness for [B2ExtArray] is accepted by [Cur] and [Fix] and rejected by [Fix2];
    an alias of a bit-vector node is still accepted *)
Example C08_ext_array_witness :
  let w := text_of ["1 sort bitvec 2"; "2 sort bitvec 4"; "3 sort array 1 2"; "4 input 3 m"; "5 uext 3 4 0"; "6 input 1 i"; "7 read 2 5 6"; "8 output 7"]%string in
  let a := text_of ["1 sort bitvec 2"; "2 state 1 s"; "3 output 2 o"; "4 uext 1 2 0 s"]%string in
  (match parse_text_v Cur true w, parse_text_v Fix true w, parse_text_v Fix2 true w, parse_text_v Fix2 false w with
   | POk _, POk _, PErr, PErr => true | _, _, _, _ => false end) = true /\
  (match parse_text_v Fix2 true a with POk _ => true | _ => false end) = true.
Proof. vm_compute. split; reflexivity. Qed.

(** Non-vacuity: the example text of Props/C18.v (array state initialised from a bit-vector,
    negated operands, slice, extension, 129-bit negative decimal constant, signed/unsigned
    comparisons) is accepted by the reader and by the reference interpreter under the valuation
    induced by a concrete environment. *)
Definition c08_rho : env := {| rho_bv := fun _ w => 5 mod 2 ^ w; rho_arr := fun _ _ dw i => (i + 3) mod 2 ^ dw |}.
Definition c08_text : string :=
  text_of ["1 sort bitvec 8"; "2 sort bitvec 1"; "3 sort array 1 1"; "4 sort bitvec 129";
           "5 input 1 a"; "6 state 1 s"; "7 state 3 mem"; "8 zero 1"; "9 init 3 7 8";
           "10 add 1 5 -6"; "11 next 1 6 10 ; comment"; "12 read 1 7 6"; "13 write 3 7 -5 12";
           "14 next 3 7 13"; "15 slice 2 10 7 7"; "16 uext 1 6 0 better_name"; "17 constd 4 -340282366920938463463374607431768211457";
           "18 redor 2 17"; "19 and 2 15 -18"; "20 bad 19"; "21 slt 2 5 6"; "22 constraint 21"; "23 output 12 o"]%string.

Example C08_example :
  match parse_raw true (lines_of c08_text) with
  | POk (sy, _) =>
      match sem_run (induced_sys c08_rho sy) (lines_of c08_text) with
      | B2Ok M => (List.length (m_states M) =? 2)%nat && (List.length (m_bads M) =? 1)%nat
      | B2Err _ => false
      end
  | _ => false
  end = true.
Proof. vm_compute. reflexivity. Qed.
