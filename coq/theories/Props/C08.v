(** * Props/C08.v — The btor2 reader gives every construct its btor2 meaning.

    Reference semantics: [Btor2Sem.sem_text val text] (Spec/Btor2Sem.v), a line-by-line
    interpreter written from the definition of the format.  Model of the reader:
    [Btor2Parse.parse_text dbg text].  Only statements, [exact lemma] proofs,
    [Print Assumptions], examples. *)
From Coq Require Import List String NArith Bool.
From Patronus Require Import SysClosed Btor2Parse Btor2Sem Btor2Witness Btor2SemWitness.
Import ListNotations.
Open Scope N_scope.

(** The statement "a text that is ill-sorted according to btor2 is never accepted" is FALSE of
    the faithful model and of the code in three explicit classes: bad/constraint of a node that
    is not Boolean, zero-width sorts, and uext/sext by 0 of an array. *)
Theorem C08_rejects_ill_sorted_refuted :
  forallb (fun w => match sem_error (fst w) with
                    | Some e => accepted true (fst w) && accepted false (fst w) &&
                                match e, snd w with
                                | B2PropWidth, B2PropWidth | B2ZeroWidth, B2ZeroWidth | B2ExtArray, B2ExtArray => true
                                | _, _ => false
                                end
                    | None => false
                    end) ill_sorted_accepted = true.
Proof. exact ill_sorted_accepted_ok. Qed.
Print Assumptions C08_rejects_ill_sorted_refuted.

(** Completeness fails too: well-formed hexadecimal constants wider than 128 bits are rejected. *)
Theorem C08_accepts_well_formed_refuted :
  forallb (fun t => match sem_error t, parse_text true t, parse_text false t with
                    | None, PErr, PErr => true
                    | _, _, _ => false
                    end) well_formed_rejected = true.
Proof. exact well_formed_rejected_ok. Qed.
Print Assumptions C08_accepts_well_formed_refuted.
