(** * Props/C08.v — The btor2 reader gives every construct its btor2 meaning.

    Reference semantics: [Btor2Sem.sem_run val lines] (Spec/Btor2Sem.v), a line-by-line
    interpreter written from the definition of the format, computing VALUES under a valuation
    [val] of the input and state lines.  Model of the reader: [Btor2Parse.parse_raw dbg lines]
    (the system before [improve_state_names] renames state symbols and before states without
    init and next are moved to the inputs; [parse_lines = demote (rename_sys ..)] of it).
    Agreement predicates: Spec/Btor2Agree.v.  Only statements, [exact lemma] proofs,
    [Print Assumptions], examples. *)
From Coq Require Import List String NArith Bool.
From Patronus Require Import SysClosed Btor2Parse Btor2Sem Btor2Agree Btor2Witness Btor2SemWitness Btor2Refine Btor2NoCrash Btor2Sound Btor2Fix Btor2SoundFix Btor2FinalSpec Btor2Final Btor2FinalInputs.
Import ListNotations.
Open Scope N_scope.

(** Soundness, node by node (debug build): whenever the reader accepts all lines and the
    reference interpreter accepts them under a valuation that gives the k-th input / state line
    the value of the reader's k-th input / state symbol, then the sort tables coincide and
    EVERY signal of the reader evaluates to the interpreter's value of the same line (all
    operators, negated operands, operand order, derived operators, extensions, slices,
    constants of all three radixes incl. the >128-bit reader, arrays), and the recorded
    init / next / output / bad / constraint entries agree position by position. *)
Theorem C08_parse_sound :
  forall ls st rho val S,
    env_wf rho ->
    parse_fold true ls p_empty false = POk (st, false) ->
    agree rho val (p_inputs st) (map st_sym (p_states st)) ->
    sem_run val ls = B2Ok S ->
    R rho st S.
Proof. exact parse_sound. Qed.
Print Assumptions C08_parse_sound.

(** the same for a release build, whenever the debug build does not panic on the text *)
Theorem C08_parse_sound_release :
  forall ls st rho val S,
    env_wf rho ->
    no_panic (parse_fold true ls p_empty false) ->
    parse_fold false ls p_empty false = POk (st, false) ->
    agree rho val (p_inputs st) (map st_sym (p_states st)) ->
    sem_run val ls = B2Ok S ->
    R rho st S.
Proof. exact parse_sound_release. Qed.
Print Assumptions C08_parse_sound_release.

(** Soundness of the returned system: inputs counted, states typed with their declared sorts,
    init / next / output / bad / constraint functions equal to btor2's, for every environment. *)
Theorem C08_system_sound :
  forall ls sy ren rho S,
    env_wf rho ->
    parse_raw true ls = POk (sy, ren) ->
    sem_run (induced_sys rho sy) ls = B2Ok S ->
    sys_agrees rho sy S.
Proof. exact system_sound. Qed.
Print Assumptions C08_system_sound.

(** A text in which some line's declared sort disagrees with its operands, or an operator is
    applied outside its sort signature ([B2IllSorted]), is never accepted. *)
Theorem C08_rejects_ill_sorted :
  forall ls sy ren rho,
    env_wf rho ->
    parse_raw true ls = POk (sy, ren) ->
    sem_run (induced_sys rho sy) ls <> B2Err B2IllSorted.
Proof. exact system_rejects_ill_sorted. Qed.
Print Assumptions C08_rejects_ill_sorted.

(** The three further violations of the format that the interpreter reports under their own
    names ARE accepted: bad/constraint of a non-Boolean node, zero-width sorts, uext/sext by 0
    of an array (so "ill-formed texts are never accepted" is FALSE beyond [B2IllSorted]). *)
Theorem C08_rejects_ill_sorted_refuted :
  forallb (fun w => match sem_error (fst w) with
                    | Some e => accepted true (fst w) && accepted false (fst w) &&
                                match e, snd w with
                                | B2PropWidth, B2PropWidth | B2ZeroWidth, B2ZeroWidth | B2ExtArray, B2ExtArray => true
                                | _, _ => false
                                end
                    | None => false
                    end) ill_sorted_accepted = true.
Proof. exact ill_sorted_accepted_ok. Qed.
Print Assumptions C08_rejects_ill_sorted_refuted.

(** Completeness fails: well-formed hexadecimal constants wider than 128 bits are rejected. *)
Theorem C08_accepts_well_formed_refuted :
  forallb (fun t => match sem_error t, parse_text true t, parse_text false t with
                    | None, PErr, PErr => true
                    | _, _, _ => false
                    end) well_formed_rejected = true.
Proof. exact well_formed_rejected_ok. Qed.
Print Assumptions C08_accepts_well_formed_refuted.

(** ** the repaired reader ([Fix], see Props/C18.v): the rejection statement extends to the classes
    that are repaired - a text that is ill-sorted, declares a zero-width sort, or has a bad/constraint
    over a non-Boolean node ([strict_err]) is never accepted.  What remains accepted although the
    interpreter refuses it: uext/sext by 0 of an array ([B2ExtArray], the writer's alias idiom). *)
Theorem C08_rejects_ill_formed_fix :
  forall ls sy ren rho e,
    env_wf rho ->
    parse_raw_v Fix true ls = POk (sy, ren) ->
    sem_run (induced_sys rho sy) ls = B2Err e -> strict_err e = false.
Proof. exact fix_rejects_ill_formed. Qed.
Print Assumptions C08_rejects_ill_formed_fix.

Theorem C08_system_sound_fix :
  forall ls sy ren rho S,
    env_wf rho ->
    parse_raw_v Fix true ls = POk (sy, ren) ->
    sem_run (induced_sys rho sy) ls = B2Ok S -> sys_agrees rho sy S.
Proof. exact fix_system_sound. Qed.
Print Assumptions C08_system_sound_fix.

(** ** [Fix2] = [Fix] + patches/0008 (writer: no alias line for an array) and patches/0009 (reader:
    uext/sext take a bit-vector operand whatever the amount), prepared but not applied in /repo.
    The rejection statement then covers EVERY violation the interpreter reports under a name of its
    own: [strict_err2] = [strict_err] plus [B2ExtArray].  (The two remaining error classes,
    [B2Unsupported] and [B2Syntax], are about operators outside the supported set and the lenient
    number syntax of the reader; they are not violations of the sort discipline.) *)
Theorem C08_rejects_ill_formed_fix2 :
  forall ls sy ren rho e,
    env_wf rho ->
    parse_raw_v Fix2 true ls = POk (sy, ren) ->
    sem_run (induced_sys rho sy) ls = B2Err e -> strict_err2 e = false.
Proof. exact fix2_rejects_ill_formed. Qed.
Print Assumptions C08_rejects_ill_formed_fix2.

Theorem C08_system_sound_fix2 :
  forall ls sy ren rho S,
    env_wf rho ->
    parse_raw_v Fix2 true ls = POk (sy, ren) ->
    sem_run (induced_sys rho sy) ls = B2Ok S -> sys_agrees rho sy S.
Proof. exact fix2_system_sound. Qed.
Print Assumptions C08_system_sound_fix2.

(** the accepted witness for [B2ExtArray] is accepted by [Cur] and [Fix] and rejected by [Fix2];
    an alias of a bit-vector node is still accepted *)
Example C08_ext_array_witness :
  let w := text_of ["1 sort bitvec 2"; "2 sort bitvec 4"; "3 sort array 1 2"; "4 input 3 m"; "5 uext 3 4 0"; "6 input 1 i"; "7 read 2 5 6"; "8 output 7"]%string in
  let a := text_of ["1 sort bitvec 2"; "2 state 1 s"; "3 output 2 o"; "4 uext 1 2 0 s"]%string in
  (match parse_text_v Cur true w, parse_text_v Fix true w, parse_text_v Fix2 true w, parse_text_v Fix2 false w with
   | POk _, POk _, PErr, PErr => true | _, _, _, _ => false end) = true /\
  (match parse_text_v Fix2 true a with POk _ => true | _ => false end) = true.
Proof. vm_compute. split; reflexivity. Qed.

(** Non-vacuity: the example text of Props/C18.v (array state initialised from a bit-vector,
    negated operands, slice, extension, 129-bit negative decimal constant, signed/unsigned
    comparisons) is accepted by the reader and by the reference interpreter under the valuation
    induced by a concrete environment. *)
Definition c08_rho : env := {| rho_bv := fun _ w => 5 mod 2 ^ w; rho_arr := fun _ _ dw i => (i + 3) mod 2 ^ dw |}.
Definition c08_text : string :=
  text_of ["1 sort bitvec 8"; "2 sort bitvec 1"; "3 sort array 1 1"; "4 sort bitvec 129";
           "5 input 1 a"; "6 state 1 s"; "7 state 3 mem"; "8 zero 1"; "9 init 3 7 8";
           "10 add 1 5 -6"; "11 next 1 6 10 ; comment"; "12 read 1 7 6"; "13 write 3 7 -5 12";
           "14 next 3 7 13"; "15 slice 2 10 7 7"; "16 uext 1 6 0 better_name"; "17 constd 4 -340282366920938463463374607431768211457";
           "18 redor 2 17"; "19 and 2 15 -18"; "20 bad 19"; "21 slt 2 5 6"; "22 constraint 21"; "23 output 12 o"]%string.

Example C08_example :
  match parse_raw true (lines_of c08_text) with
  | POk (sy, _) =>
      match sem_run (induced_sys c08_rho sy) (lines_of c08_text) with
      | B2Ok M => (List.length (m_states M) =? 2)%nat && (List.length (m_bads M) =? 1)%nat
      | B2Err _ => false
      end
  | _ => false
  end = true.
Proof. vm_compute. reflexivity. Qed.

(** ** THE FINAL SYSTEM.  [parse_str] returns [parse_lines_v v dbg ls = demote (rename_sys ren raw)]: after the last
    line [improve_state_names] renames state symbols that carry a later name, and every state without init and
    next is appended to the inputs and removed from the states (parse.rs:113-143).  The theorems below are about
    THAT system, for the reader of /repo ([Fix]) and the prepared [Fix2] ([is_fix v = true]).
    Definitions: Spec/Btor2FinalSpec.v.

    Environment correspondence ([final_env_agrees rho val fin nin pat]): the interpreter's valuation gives the
    k-th INPUT line the value [rho] gives to the k-th input of the final system, and the j-th STATE line the
    value [rho] gives to
       - input number [nin + #(plain state lines before j)] of the final system if line j has neither init
         nor next (it was demoted: it is read from the INPUT valuation),
       - the state symbol number [#(other state lines before j)] otherwise;
    [(nin, pat) = reader_shape v dbg ls]: the number of input lines and the plain-pattern of the state lines
    as the reader saw them - the conclusion says they ARE the interpreter's ([m_nin S], [plain_ss]).
    Conclusion [final_agrees rho fin S]: the final inputs are the input lines followed by the plain state
    lines, the latter with their declared sorts; the final states are the remaining state lines with their
    declared sorts and the VALUES of their init and next lines; outputs, bad states and constraints have the
    sorts and VALUES of the referenced lines, position by position, in every well-formed environment. *)
Theorem C08_final_system_sound :
  forall v ls fin nin pat rho val S,
    is_fix v = true -> env_wf rho ->
    parse_lines_v v true ls = POk fin ->
    reader_shape v true ls = Some (nin, pat) ->
    final_env_agrees rho val fin nin pat ->
    sem_run val ls = B2Ok S ->
    m_nin S = nin /\ map plain_ss (m_states S) = pat /\ final_agrees rho fin S.
Proof. exact final_system_sound. Qed.
Print Assumptions C08_final_system_sound.

(** inputs get their declared sorts: the k-th input of the final system (k below the number of input lines) has
    the sort that the sort token of the k-th input line denotes in the interpreter's sort table at that line
    ([input_sorts val ls], Spec/Btor2FinalSpec.v); demoted and kept states: see [final_agrees] above *)
Theorem C08_final_input_sorts :
  forall v ls fin nin pat rho val S,
    is_fix v = true -> env_wf rho ->
    parse_lines_v v true ls = POk fin ->
    reader_shape v true ls = Some (nin, pat) ->
    final_env_agrees rho val fin nin pat ->
    sem_run val ls = B2Ok S ->
    Forall2 (fun e t => type_of e = t) (line_inputs fin nin) (input_sorts val ls).
Proof. exact final_input_sorts. Qed.
Print Assumptions C08_final_input_sorts.

(** the same in both build profiles for texts over the supported operators *)
Theorem C08_final_system_sound_profiles :
  forall v dbg ls fin nin pat rho val S,
    is_fix v = true -> forallb supported_line ls = true -> env_wf rho ->
    parse_lines_v v dbg ls = POk fin ->
    reader_shape v dbg ls = Some (nin, pat) ->
    final_env_agrees rho val fin nin pat ->
    sem_run val ls = B2Ok S ->
    m_nin S = nin /\ map plain_ss (m_states S) = pat /\ final_agrees rho fin S.
Proof. exact final_system_sound_profiles. Qed.
Print Assumptions C08_final_system_sound_profiles.

(** with the valuation induced by an arbitrary environment of the final system (no hypothesis on a valuation) *)
Theorem C08_final_system_sound_induced :
  forall v ls fin nin pat rho S,
    is_fix v = true -> env_wf rho ->
    parse_lines_v v true ls = POk fin ->
    reader_shape v true ls = Some (nin, pat) ->
    sem_run (final_val rho fin nin pat) ls = B2Ok S ->
    m_nin S = nin /\ map plain_ss (m_states S) = pat /\ final_agrees rho fin S.
Proof. exact final_system_sound_induced. Qed.
Print Assumptions C08_final_system_sound_induced.

(** rejection, stated with the final system: a text that the interpreter refuses as ill-sorted, for a zero-width
    sort or for a non-Boolean bad/constraint ([Fix2]: or for an extension of an array) is never accepted *)
Theorem C08_final_rejects_ill_formed :
  forall v ls fin nin pat rho val e,
    is_fix v = true -> env_wf rho ->
    parse_lines_v v true ls = POk fin ->
    reader_shape v true ls = Some (nin, pat) ->
    final_env_agrees rho val fin nin pat ->
    sem_run val ls = B2Err e -> strict_err_v v e = false.
Proof. exact final_rejects_ill_formed. Qed.
Print Assumptions C08_final_rejects_ill_formed.

(** The post-processing changes no expression except through the symbol renaming: the final system IS
    [post_process ren raw] (every expression of the raw system with [rename ren] applied, plain states moved
    behind the inputs, nothing else); [rename ren] replaces symbols by [rename_sym ren] and keeps the rest of
    the tree (types, well-typedness, symbol occurrences); [rename_sym ren] keeps types, is injective on the
    declared symbols, and the declared symbols of the final system have pairwise different NAMES.
    Any text, any reader variant, any build profile. *)
Theorem C08_final_renaming :
  forall v dbg ls sy ren,
    parse_raw_v v dbg ls = POk (sy, ren) ->
    demote (rename_sys ren sy) = post_process ren sy /\
    (forall x, is_symbol x = true -> is_symbol (rename_sym ren x) = true /\ type_of (rename_sym ren x) = type_of x) /\
    (forall e, type_of (rename ren e) = type_of e /\ wt (rename ren e) = wt e /\ syms (rename ren e) = map (rename_sym ren) (syms e)) /\
    (forall x y, In x (declared sy) -> In y (declared sy) -> rename_sym ren x = rename_sym ren y -> x = y) /\
    NoDup (map sym_name (declared (demote (rename_sys ren sy)))).
Proof. exact final_renaming. Qed.
Print Assumptions C08_final_renaming.

(** Non-vacuity: state [d] (line 4) has neither init nor next, is read by the next function of [s] and by an
    output (whose label [o] it would take as its name if no later name came), and is renamed through the alias of line 10 (with a [$]); state line 6 is plain and labelled like
    the input [a] (it becomes [a_0]); state [s] is renamed [better].  The final system has the inputs
    [a; nice_name; a_0] and the state [better]; the reader's shape is (1, [plain; kept; plain]); the reference
    interpreter accepts the text under the valuation induced by a concrete environment of the FINAL system. *)
Definition c08_final_text : string :=
  text_of ["1 sort bitvec 8"; "2 sort bitvec 1"; "3 input 1 a"; "4 state 1 d"; "5 state 1 s"; "6 state 1 a";
           "7 add 1 3 4"; "8 next 1 5 7"; "9 output 4 o"; "10 uext 1 4 0 nice$name"; "11 eq 2 5 6"; "12 bad 11";
           "13 uext 1 5 0 better"; "14 init 1 5 -4"]%string.

Example C08_final_example :
  match parse_lines_v Fix true (lines_of c08_final_text), reader_shape Fix true (lines_of c08_final_text) with
  | POk fin, Some (nin, pat) =>
      match sem_run (final_val c08_rho fin nin pat) (lines_of c08_final_text) with
      | B2Ok M =>
          (nin =? 1)%nat && match pat with [true; false; true] => true | _ => false end &&
          String.eqb (String.concat "," (map sym_name (s_inputs fin))) "a,nice_name,a_0" &&
          String.eqb (String.concat "," (map (fun s => sym_name (st_sym s)) (s_states fin))) "better" &&
          (List.length (m_states M) =? 3)%nat && (m_nin M =? 1)%nat &&
          match input_sorts (final_val c08_rho fin nin pat) (lines_of c08_final_text) with [TBV 8] => true | _ => false end
      | B2Err _ => false
      end
  | _, _ => false
  end = true.
Proof. vm_compute. reflexivity. Qed.
