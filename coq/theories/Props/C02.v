(** * Props/C02.v — Bounded model checking returns the exact verdict up to the bound.

    Specification layer: [ReachBmc.bmc_spec sy k] is the explicit-state reference
    answer (all values enumerated; it is RUN by the check only on small systems,
    the theorems hold for all systems).  The correspondence check compares the
    verdict and counterexample length of the real [patronus::mc::bmc] with it.

    [reach_at sy j]: some execution of [Spec/System.v] of exactly [j] steps, from an
    initial valuation, satisfying all constraints at every step, ends in a bad
    state.  [reach_at_r] is the same with array states compared with their init
    expressions on the index range only (Spec/ReachSpec.v): the two coincide unless
    an ARRAY state has an init expression (then [reach_at] implies [reach_at_r]).

    Hypotheses: [sys_wf sy] (well-typed, closed, distinct state symbols that are
    not inputs) and pairwise distinct inputs. *)
From Coq Require Import List.
From Patronus Require Import SysExec ReachSpec ReachBmcProofs.
Import ListNotations.
Open Scope N_scope.

(** bmc_spec_exact: the reference returns [Some j] exactly when [j] is the least
    depth [<= k] at which a constrained execution from an initial valuation is in a
    bad state. *)
Theorem C02_bmc_spec_exact :
  forall (sy : sys), sys_wf sy = true -> nodup_exprs (s_inputs sy) = true -> no_array_init sy = true ->
  forall (k j : nat),
    bmc_spec sy k = Some j <->
    ((j <= k)%nat /\ reach_at sy j /\ forall i, (i < j)%nat -> ~ reach_at sy i).
Proof. intros sy Hwf Hni Hna k j. exact (bmc_spec_exact sy Hwf Hni k j Hna). Qed.
Print Assumptions C02_bmc_spec_exact.

(** the same for ALL well-formed systems (array states with init expressions
    included), with arrays compared on their index range *)
Theorem C02_bmc_spec_exact_range :
  forall (sy : sys), sys_wf sy = true -> nodup_exprs (s_inputs sy) = true ->
  forall (k j : nat),
    bmc_spec sy k = Some j <->
    ((j <= k)%nat /\ reach_at_r sy j /\ forall i, (i < j)%nat -> ~ reach_at_r sy i).
Proof. exact bmc_spec_exact_r. Qed.
Print Assumptions C02_bmc_spec_exact_range.

(** relation with [bad_reachable_within] of Spec/System.v *)
Theorem C02_bmc_spec_complete :
  forall (sy : sys), sys_wf sy = true -> nodup_exprs (s_inputs sy) = true ->
  forall k, bad_reachable_within sy k -> bmc_spec sy k <> None.
Proof. exact bmc_spec_complete. Qed.
Print Assumptions C02_bmc_spec_complete.

Theorem C02_bmc_spec_verdict :
  forall (sy : sys), sys_wf sy = true -> nodup_exprs (s_inputs sy) = true -> no_array_init sy = true ->
  forall k, bmc_spec sy k <> None <-> bad_reachable_within sy k.
Proof. intros sy Hwf Hni Hna k. exact (bmc_spec_verdict sy Hwf Hni k Hna). Qed.
Print Assumptions C02_bmc_spec_verdict.

(** Non-vacuity: a 2-bit counter with an enable input reaches its bad state at depth 3 and not before. *)
Example C02_example :
  let c := BVSymbol "c" 2 in
  let en := BVSymbol "en" 1 in
  let sy := {| s_inputs := [en];
               s_states := [ {| st_sym := c; st_init := Some (BVLiteral 2 0);
                                st_next := Some (BVAdd c (BVZeroExt en 1 2) 2) |} ];
               s_outputs := []; s_bads := [BVEqual c (BVLiteral 2 3)]; s_constraints := [] |} in
  sys_wf sy = true /\ nodup_exprs (s_inputs sy) = true /\ no_array_init sy = true /\
  bmc_spec sy 2 = None /\ bmc_spec sy 5 = Some 3%nat.
Proof. vm_compute. repeat split. Qed.

(** Algorithm layer (Model/Bmc.v: the loop of bmc.rs over an abstract solver).
    Over any solver that answers "sat" exactly when the query has a model,
    checking the bad states individually or jointly gives the same result - for
    the repaired encoding of every well-formed system. *)
From Patronus Require Import Encoding EncodingWf Bmc BmcProofs.
Theorem C02_bmc_modes_agree :
  forall (solver_sat : list cmd -> list expr -> list expr -> bool),
    (forall sc asserts assumps,
        solver_sat sc asserts assumps = true <-> exists sigma0, is_model sc asserts assumps sigma0) ->
    forall (sy : sys) (nm : expr -> string) (k_max : nat),
      sys_wf sy = true -> names_ok (enc_new sy nm) = true -> init_reads_ok (enc_new sy nm) ->
      bmc_model Fixed solver_sat sy nm true k_max = bmc_model Fixed solver_sat sy nm false k_max.
Proof. exact bmc_modes_agree_final. Qed.
Print Assumptions C02_bmc_modes_agree.

(** ... and it never misses a counterexample: if some constrained execution from an
    initial valuation reaches a bad state within the bound, the loop (either
    mode) does not answer [BmcSuccess] - it answers [BmcFail] at some depth, or
    panics in [get_signal_at].  This is the "no wrong SAFE verdict" half of
    exactness; the full statement follows. *)
Theorem C02_bmc_no_missed_counterexample :
  forall (solver_sat : list cmd -> list expr -> list expr -> bool),
    (forall sc asserts assumps,
        solver_sat sc asserts assumps = true <-> exists sigma0, is_model sc asserts assumps sigma0) ->
    forall (sy : sys) (nm : expr -> string) (k_max j : nat) (individually : bool),
      sys_wf sy = true -> names_ok (enc_new sy nm) = true -> init_reads_ok (enc_new sy nm) ->
      (j <= k_max)%nat -> reach_at sy j ->
      bmc_model Fixed solver_sat sy nm individually k_max <> BmcSuccess.
Proof. exact bmc_no_miss_final. Qed.
Print Assumptions C02_bmc_no_missed_counterexample.

(** bmc_model_exact: over a correct solver, for the repaired encoding of every
    well-formed system with pairwise distinct inputs whose init expressions are in
    the class the encoding handles, and unless [get_signal_at] panics, the loop of
    bmc.rs (either checking mode) answers [BmcFail j] exactly when [j] is the least
    depth [<= k_max] at which a constrained execution from an initial valuation is
    in a bad state, and [BmcSuccess] exactly when there is no such depth.
    (Uses: C04's well-formedness and faithfulness, and its converse - every model
    of the definitions is an execution, Proofs/BmcSound.v.) *)
From Patronus Require Import BmcSound.
Theorem C02_bmc_model_exact :
  forall (solver_sat : list cmd -> list expr -> list expr -> bool),
    (forall sc asserts assumps,
        solver_sat sc asserts assumps = true <-> exists sigma0, is_model sc asserts assumps sigma0) ->
    forall (sy : sys) (nm : expr -> string) (k_max : nat) (individually : bool),
      sys_wf sy = true -> nodup_exprs (s_inputs sy) = true ->
      names_ok (enc_new sy nm) = true -> init_reads_ok (enc_new sy nm) ->
      let res := bmc_model Fixed solver_sat sy nm individually k_max in
      res <> BmcPanic ->
      (forall j, res = BmcFail (N.of_nat j) <->
                 (j <= k_max)%nat /\ reach_at sy j /\ forall m, (m < j)%nat -> ~ reach_at sy m) /\
      (res = BmcSuccess <-> forall j, (j <= k_max)%nat -> ~ reach_at sy j).
Proof. exact bmc_model_exact_final. Qed.
Print Assumptions C02_bmc_model_exact.

(** the loop and the explicit-state reference give the same answer *)
Theorem C02_bmc_model_is_spec :
  forall (solver_sat : list cmd -> list expr -> list expr -> bool),
    (forall sc asserts assumps,
        solver_sat sc asserts assumps = true <-> exists sigma0, is_model sc asserts assumps sigma0) ->
    forall (sy : sys) (nm : expr -> string) (k_max : nat) (individually : bool),
      sys_wf sy = true -> nodup_exprs (s_inputs sy) = true -> no_array_init sy = true ->
      names_ok (enc_new sy nm) = true -> init_reads_ok (enc_new sy nm) ->
      let res := bmc_model Fixed solver_sat sy nm individually k_max in
      res <> BmcPanic ->
      (forall j, res = BmcFail (N.of_nat j) <-> bmc_spec sy k_max = Some j) /\
      (res = BmcSuccess <-> bmc_spec sy k_max = None).
Proof. exact bmc_model_is_spec. Qed.
Print Assumptions C02_bmc_model_is_spec.

(** the same for the loop over the CURRENT encoding, outside the known class *)
From Patronus Require Import EncodingTheorems.
Theorem C02_bmc_model_exact_current :
  forall (solver_sat : list cmd -> list expr -> list expr -> bool),
    (forall sc asserts assumps,
        solver_sat sc asserts assumps = true <-> exists sigma0, is_model sc asserts assumps sigma0) ->
    forall (sy : sys) (nm : expr -> string) (k_max : nat) (individually : bool),
      sys_wf sy = true -> nodup_exprs (s_inputs sy) = true ->
      names_ok (enc_new sy nm) = true -> init_reads_ok (enc_new sy nm) -> ~ known_class (enc_new sy nm) 0 ->
      let res := bmc_model Current solver_sat sy nm individually k_max in
      res <> BmcPanic ->
      (forall j, res = BmcFail (N.of_nat j) <->
                 (j <= k_max)%nat /\ reach_at sy j /\ forall m, (m < j)%nat -> ~ reach_at sy m) /\
      (res = BmcSuccess <-> forall j, (j <= k_max)%nat -> ~ reach_at sy j).
Proof. exact bmc_model_exact_current. Qed.
Print Assumptions C02_bmc_model_exact_current.

(** ** the same for the encoding /repo has now (patches 0001-0003)

    [bmc_model3] (Model/Bmc.v) is the loop started from [init_at3] - the step-0 states in the
    dependency order of their init expressions, init-only signals right before the first state that
    needs them - and continued with [unroll Fixed].  The hypothesis on the init expressions weakens
    from [init_reads_ok] to [init_deps_acyclic] (Props/C04.v, [C04_script3_wf]): an init expression
    may read other states, declared earlier or later, as long as the dependencies are acyclic. *)
From Patronus Require Import EncodingOrder BmcWitProofs.
Theorem C02_bmc_model3_exact :
  forall (solver_sat : list cmd -> list expr -> list expr -> bool),
    (forall sc asserts assumps,
        solver_sat sc asserts assumps = true <-> exists sigma0, is_model sc asserts assumps sigma0) ->
    forall (sy : sys) (nm : expr -> string),
      sys_wf sy = true -> nodup_exprs (s_inputs sy) = true ->
      names_ok (enc_new sy nm) = true -> init_deps_acyclic sy ->
    forall (k_max : nat) (individually : bool),
      let res := bmc_model3 solver_sat sy nm individually k_max in
      res <> BmcPanic ->
      (forall j, res = BmcFail (N.of_nat j) <->
                 (j <= k_max)%nat /\ reach_at sy j /\ forall m, (m < j)%nat -> ~ reach_at sy m) /\
      (res = BmcSuccess <-> forall j, (j <= k_max)%nat -> ~ reach_at sy j).
Proof. exact bmc_model3_exact. Qed.
Print Assumptions C02_bmc_model3_exact.

Theorem C02_bmc_model3_is_spec :
  forall (solver_sat : list cmd -> list expr -> list expr -> bool),
    (forall sc asserts assumps,
        solver_sat sc asserts assumps = true <-> exists sigma0, is_model sc asserts assumps sigma0) ->
    forall (sy : sys) (nm : expr -> string),
      sys_wf sy = true -> nodup_exprs (s_inputs sy) = true ->
      names_ok (enc_new sy nm) = true -> init_deps_acyclic sy ->
    forall (k_max : nat) (individually : bool), no_array_init sy = true ->
      let res := bmc_model3 solver_sat sy nm individually k_max in
      res <> BmcPanic ->
      (forall j, res = BmcFail (N.of_nat j) <-> bmc_spec sy k_max = Some j) /\
      (res = BmcSuccess <-> bmc_spec sy k_max = None).
Proof. exact bmc_model3_is_spec. Qed.
Print Assumptions C02_bmc_model3_is_spec.

Theorem C02_bmc_model3_modes_agree :
  forall (solver_sat : list cmd -> list expr -> list expr -> bool),
    (forall sc asserts assumps,
        solver_sat sc asserts assumps = true <-> exists sigma0, is_model sc asserts assumps sigma0) ->
    forall (sy : sys) (nm : expr -> string),
      sys_wf sy = true ->
      names_ok (enc_new sy nm) = true -> init_deps_acyclic sy ->
    forall (k_max : nat),
      bmc_model3 solver_sat sy nm true k_max = bmc_model3 solver_sat sy nm false k_max.
Proof. exact bmc_model3_modes. Qed.
Print Assumptions C02_bmc_model3_modes_agree.

Theorem C02_bmc_model3_no_missed_counterexample :
  forall (solver_sat : list cmd -> list expr -> list expr -> bool),
    (forall sc asserts assumps,
        solver_sat sc asserts assumps = true <-> exists sigma0, is_model sc asserts assumps sigma0) ->
    forall (sy : sys) (nm : expr -> string),
      sys_wf sy = true ->
      names_ok (enc_new sy nm) = true -> init_deps_acyclic sy ->
    forall (k_max j : nat) (individually : bool),
      (j <= k_max)%nat -> reach_at sy j ->
      bmc_model3 solver_sat sy nm individually k_max <> BmcSuccess.
Proof. exact bmc_model3_no_miss. Qed.
Print Assumptions C02_bmc_model3_no_missed_counterexample.

(** ** the whole of [bmc]: every parameter (Model/BmcWitFull.v, [bmc_model_full])

    [bmc_model_full sv sy nm check_constraints individually k_max] models bmc.rs with the extra
    (check-sat) of [check_constraints], both checking modes, the solver answers unknown / error, failing
    commands, the witness extraction and [assert!(k_max <= 2000)] (see Props/C03.v).  Here the solver is
    the one of the property: "sat" comes with a model, get-value reports its values, "unsat" is right,
    and it never says unknown, never fails, no command fails, every get-value is answered.

    [exec_at sy j]: some execution of exactly [j] steps from an initial valuation satisfies all
    constraints at every step (the constraints are "satisfiable up to step j").  Hypotheses on the
    system as for [C02_bmc_model3_exact], at least one bad state, [k_max <= 2000], and [get_signal_at]
    does not panic on the constraints and bad states up to the bound (a computation).

    Then the result is EXACTLY determined, for [check_constraints] on or off and both modes:
      - [FFail j w] (for some witness [w], see C03) iff [j <= k_max] is the least depth at which a bad
        state is reachable - independent of [check_constraints];
      - [FSuccess] iff no bad state is reachable within [k_max] steps (and, with [check_constraints],
        the constraints are satisfiable up to every step [<= k_max]);
      - [FPanic] iff [check_constraints] is on and at some step [j <= k_max] the constraints are not
        satisfiable up to [j] while no bad state is reachable before: the documented
        [assert_eq!(res, Sat, "Found unsatisfiable constraints in cycle j")] - a crash in place of the
        verdict Success that the same call gives with [check_constraints = false];
      - never Unknown, never an error. *)
From Patronus Require Import BmcWitFull BmcWitFullProofs BmcFullExact.
Theorem C02_bmc_full_exact :
  forall (EM : Type) (sv : solver EM),
    ((forall sc asserts assumps m, sv_check sv sc asserts assumps = SSat m -> is_model sc asserts assumps m) /\
     (forall sc m s x, sv_value sv sc m s = GVal x -> x = val_of (script_eval m sc) s)) ->
    (forall sc asserts assumps, sv_check sv sc asserts assumps = SUnsat -> ~ exists m, is_model sc asserts assumps m) ->
    ((forall sc a b, sv_check sv sc a b <> SUnknown) /\ (forall sc a b e, sv_check sv sc a b <> SErr e) /\
     (forall sc m s e, sv_value sv sc m s <> GErr e) /\ (forall p, sv_fault sv p = None)) ->
    forall (sy : sys) (nm : expr -> string),
      sys_wf sy = true -> nodup_exprs (s_inputs sy) = true ->
      names_ok (enc_new sy nm) = true -> init_deps_acyclic sy -> s_bads sy <> [] ->
    forall (k_max : nat), (k_max <= 2000)%nat ->
      (forall k, (k <= k_max)%nat ->
         signals_at (enc_new sy nm) (s_constraints sy) (N.of_nat k) <> None /\
         signals_at (enc_new sy nm) (s_bads sy) (N.of_nat k) <> None) ->
    forall (check_constraints individually : bool),
      let res := bmc_model_full EM sv sy nm check_constraints individually k_max in
      (forall j, (exists w, res = FFail (N.of_nat j) w) <->
                 (j <= k_max)%nat /\ reach_at sy j /\ forall m, (m < j)%nat -> ~ reach_at sy m) /\
      (res = FSuccess <-> forall j, (j <= k_max)%nat -> ~ reach_at sy j /\ (check_constraints = true -> exec_at sy j)) /\
      (res = FPanic <-> check_constraints = true /\
                        exists j, (j <= k_max)%nat /\ ~ exec_at sy j /\ forall m, (m < j)%nat -> ~ reach_at sy m) /\
      (forall k w, res = FFail k w -> exists j, k = N.of_nat j) /\
      res <> FUnknown /\ (forall e, res <> FErr e).
Proof. exact bmc_full_exact. Qed.
Print Assumptions C02_bmc_full_exact.

(** "reports a failure if and only if some execution reaches a bad state within k steps" *)
Theorem C02_bmc_full_fail_iff_reachable :
  forall (EM : Type) (sv : solver EM),
    ((forall sc asserts assumps m, sv_check sv sc asserts assumps = SSat m -> is_model sc asserts assumps m) /\
     (forall sc m s x, sv_value sv sc m s = GVal x -> x = val_of (script_eval m sc) s)) ->
    (forall sc asserts assumps, sv_check sv sc asserts assumps = SUnsat -> ~ exists m, is_model sc asserts assumps m) ->
    ((forall sc a b, sv_check sv sc a b <> SUnknown) /\ (forall sc a b e, sv_check sv sc a b <> SErr e) /\
     (forall sc m s e, sv_value sv sc m s <> GErr e) /\ (forall p, sv_fault sv p = None)) ->
    forall (sy : sys) (nm : expr -> string),
      sys_wf sy = true -> nodup_exprs (s_inputs sy) = true ->
      names_ok (enc_new sy nm) = true -> init_deps_acyclic sy -> s_bads sy <> [] ->
    forall (k_max : nat), (k_max <= 2000)%nat ->
      (forall k, (k <= k_max)%nat ->
         signals_at (enc_new sy nm) (s_constraints sy) (N.of_nat k) <> None /\
         signals_at (enc_new sy nm) (s_bads sy) (N.of_nat k) <> None) ->
    forall (check_constraints individually : bool),
      (exists k w, bmc_model_full EM sv sy nm check_constraints individually k_max = FFail k w) <->
      (exists j, (j <= k_max)%nat /\ reach_at sy j).
Proof. exact bmc_full_fail_iff_reachable. Qed.
Print Assumptions C02_bmc_full_fail_iff_reachable.

(** "the verdict does not depend on whether bad states are checked individually or jointly" (the
    witnesses of the two modes may differ: the solver is asked different questions) *)
Theorem C02_bmc_full_modes_agree :
  forall (EM : Type) (sv : solver EM),
    ((forall sc asserts assumps m, sv_check sv sc asserts assumps = SSat m -> is_model sc asserts assumps m) /\
     (forall sc m s x, sv_value sv sc m s = GVal x -> x = val_of (script_eval m sc) s)) ->
    (forall sc asserts assumps, sv_check sv sc asserts assumps = SUnsat -> ~ exists m, is_model sc asserts assumps m) ->
    ((forall sc a b, sv_check sv sc a b <> SUnknown) /\ (forall sc a b e, sv_check sv sc a b <> SErr e) /\
     (forall sc m s e, sv_value sv sc m s <> GErr e) /\ (forall p, sv_fault sv p = None)) ->
    forall (sy : sys) (nm : expr -> string),
      sys_wf sy = true -> nodup_exprs (s_inputs sy) = true ->
      names_ok (enc_new sy nm) = true -> init_deps_acyclic sy -> s_bads sy <> [] ->
    forall (k_max : nat), (k_max <= 2000)%nat ->
      (forall k, (k <= k_max)%nat ->
         signals_at (enc_new sy nm) (s_constraints sy) (N.of_nat k) <> None /\
         signals_at (enc_new sy nm) (s_bads sy) (N.of_nat k) <> None) ->
    forall (check_constraints : bool),
      let r1 := bmc_model_full EM sv sy nm check_constraints true k_max in
      let r2 := bmc_model_full EM sv sy nm check_constraints false k_max in
      (forall j, (exists w, r1 = FFail (N.of_nat j) w) <-> (exists w, r2 = FFail (N.of_nat j) w)) /\
      (r1 = FSuccess <-> r2 = FSuccess) /\ (r1 = FPanic <-> r2 = FPanic).
Proof. exact bmc_full_modes_agree. Qed.
Print Assumptions C02_bmc_full_modes_agree.

(** exactly when [bmc] panics (instead of returning a verdict) under a perfect solver *)
Theorem C02_bmc_full_check_constraints_panic_iff :
  forall (EM : Type) (sv : solver EM),
    ((forall sc asserts assumps m, sv_check sv sc asserts assumps = SSat m -> is_model sc asserts assumps m) /\
     (forall sc m s x, sv_value sv sc m s = GVal x -> x = val_of (script_eval m sc) s)) ->
    (forall sc asserts assumps, sv_check sv sc asserts assumps = SUnsat -> ~ exists m, is_model sc asserts assumps m) ->
    ((forall sc a b, sv_check sv sc a b <> SUnknown) /\ (forall sc a b e, sv_check sv sc a b <> SErr e) /\
     (forall sc m s e, sv_value sv sc m s <> GErr e) /\ (forall p, sv_fault sv p = None)) ->
    forall (sy : sys) (nm : expr -> string),
      sys_wf sy = true -> nodup_exprs (s_inputs sy) = true ->
      names_ok (enc_new sy nm) = true -> init_deps_acyclic sy -> s_bads sy <> [] ->
    forall (k_max : nat), (k_max <= 2000)%nat ->
      (forall k, (k <= k_max)%nat ->
         signals_at (enc_new sy nm) (s_constraints sy) (N.of_nat k) <> None /\
         signals_at (enc_new sy nm) (s_bads sy) (N.of_nat k) <> None) ->
    forall (check_constraints individually : bool),
      bmc_model_full EM sv sy nm check_constraints individually k_max = FPanic <->
      check_constraints = true /\
      exists j, (j <= k_max)%nat /\ ~ exec_at sy j /\ forall m, (m < j)%nat -> ~ reach_at sy m.
Proof. exact bmc_full_panic_iff. Qed.
Print Assumptions C02_bmc_full_check_constraints_panic_iff.

(** a counterexample is reported at the same depth with and without [check_constraints] *)
Theorem C02_bmc_full_fail_independent_of_check_constraints :
  forall (EM : Type) (sv : solver EM),
    ((forall sc asserts assumps m, sv_check sv sc asserts assumps = SSat m -> is_model sc asserts assumps m) /\
     (forall sc m s x, sv_value sv sc m s = GVal x -> x = val_of (script_eval m sc) s)) ->
    (forall sc asserts assumps, sv_check sv sc asserts assumps = SUnsat -> ~ exists m, is_model sc asserts assumps m) ->
    ((forall sc a b, sv_check sv sc a b <> SUnknown) /\ (forall sc a b e, sv_check sv sc a b <> SErr e) /\
     (forall sc m s e, sv_value sv sc m s <> GErr e) /\ (forall p, sv_fault sv p = None)) ->
    forall (sy : sys) (nm : expr -> string),
      sys_wf sy = true -> nodup_exprs (s_inputs sy) = true ->
      names_ok (enc_new sy nm) = true -> init_deps_acyclic sy -> s_bads sy <> [] ->
    forall (k_max : nat), (k_max <= 2000)%nat ->
      (forall k, (k <= k_max)%nat ->
         signals_at (enc_new sy nm) (s_constraints sy) (N.of_nat k) <> None /\
         signals_at (enc_new sy nm) (s_bads sy) (N.of_nat k) <> None) ->
    forall (individually : bool) (j : nat),
      (exists w, bmc_model_full EM sv sy nm true individually k_max = FFail (N.of_nat j) w) <->
      (exists w, bmc_model_full EM sv sy nm false individually k_max = FFail (N.of_nat j) w).
Proof. exact bmc_full_fail_independent_of_cc. Qed.
Print Assumptions C02_bmc_full_fail_independent_of_check_constraints.

(** Non-vacuity.  The enumerating solver never says unknown and never fails (that its "unsat" is right is
    the completeness of the enumeration, not proved; the runs below agree with the theorems).
    [exp_sys b]: state c:2 init 0 next c + 1; constraint not (c == 2); bad state c == b.  With b = 3:
    Success without [check_constraints], the assert_eq! panic with it (bound 5; Success again with bound
    1, before the constraints become contradictory); with b = 1: Fail at depth 1 for all four parameter
    combinations. *)
From Patronus Require Import WitFullExamples.
Example C02_full_solver_hypotheses_satisfiable :
  forall EM : Type,
    ((forall sc asserts assumps m, sv_check (enum_solver EM) sc asserts assumps = SSat m -> is_model sc asserts assumps m) /\
     (forall sc m s x, sv_value (enum_solver EM) sc m s = GVal x -> x = val_of (script_eval m sc) s)) /\
    ((forall sc a b, sv_check (enum_solver EM) sc a b <> SUnknown) /\ (forall sc a b e, sv_check (enum_solver EM) sc a b <> SErr e) /\
     (forall sc m s e, sv_value (enum_solver EM) sc m s <> GErr e) /\ (forall p, sv_fault (enum_solver EM) p = None)).
Proof. exact enum_solver_sound_total. Qed.

Example C02_bmc_full_example :
  (sys_wf (exp_sys 3) = true /\ nodup_exprs (s_inputs (exp_sys 3)) = true /\ names_ok (enc_new (exp_sys 3) exp_nm) = true /\
   exp_signals_ok 3 5 = true /\ exp_signals_ok 1 5 = true) /\
  (forall ind, bmc_model_full unit (enum_solver unit) (exp_sys 3) exp_nm false ind 5 = FSuccess) /\
  (forall ind, bmc_model_full unit (enum_solver unit) (exp_sys 3) exp_nm true ind 5 = FPanic) /\
  (forall ind, bmc_model_full unit (enum_solver unit) (exp_sys 3) exp_nm true ind 1 = FSuccess) /\
  (forall cc ind, exists w, bmc_model_full unit (enum_solver unit) (exp_sys 1) exp_nm cc ind 5 = FFail 1 w).
Proof. exact exp_runs. Qed.
