(** * Props/C19.v — Arithmetic e-graph rewrites are value-preserving under their side conditions.

    Only statements, [exact lemma] proofs, [Print Assumptions] and non-vacuity examples.

    Model (Model/Arith.v): the [Arith] term language of patronus-egraphs, [from_arith]
    (lowering to the expression IR, with every [todo!]/[unreachable!]/debug assertion/u32
    overflow as [Panic]), [to_arith], the rule table [rules] of [create_rewrites()] with the
    side-condition closures ([eval_condition]), pattern instantiation ([inst], [subst_of]).
    Semantics: [Eval.ebv] (SMT-LIB).

    Vocabulary of the statements:
      [width_ok w]      1 <= w <= u32::MAX
      [operand_ok w t]  the operand term [t] lowers (expected width [w]) to a well-typed
                        expression of width [w]  - e.g. any symbol ([C19_operand_symbol])
      [same_value wo l r]  both terms lower without panic to well-typed expressions of width
                        [wo] with equal value under every environment.

    All rule theorems are for ALL widths (up to u32::MAX), both signs, ALL operand terms and
    ALL environments - no bound. *)
From Patronus Require Import Arith ArithLemmas ArithProofs ArithRoundtrip ArithRoundtripFix ArithRulesFix.
Open Scope N_scope.

(** ** the denotation of a node is derived from what [from_arith] builds *)

(** A binary node over lowered operands lowers to [bin_expr] (extend both operands to
    [W = max wo wa wb], operate at [W], slice to [wo]), which is well typed of width [wo] and
    whose value is [den_bin] = [trunc wo (op_W (ext_sa a) (ext_sb b))]. *)
Theorem C19_node_denotation :
  forall op two wo twa wa sa ta twb wb sb tb ea eb ew,
  wterm two wo -> wterm twa wa -> wterm twb wb -> 1 <= wo -> 1 <= wa -> 1 <= wb ->
  from_arith wa ta = Ok ea -> type_of ea = TBV wa -> wt ea = true ->
  from_arith wb tb = Ok eb -> type_of eb = TBV wb -> wt eb = true ->
  let e := bin_expr op wo wa sa ea wb sb eb in
  from_arith ew (ABin op two twa (ASign sa) ta twb (ASign sb) tb) = Ok e /\
  type_of e = TBV wo /\ wt e = true /\
  forall rho, env_wf rho ->
    ebv rho e = den_bin op wo wa sa (ebv rho ea) wb sb (ebv rho eb) /\ ebv rho e < 2 ^ wo.
Proof. exact node_ok_lowered. Qed.
Print Assumptions C19_node_denotation.

(** symbols are operands (the instance checked by tools/egraphs-cond-synth) *)
Theorem C19_operand_symbol : forall w n, 1 <= w -> operand_ok w (ASymbol n).
Proof. exact operand_symbol. Qed.
Print Assumptions C19_operand_symbol.

(** ** the six rules *)

(** a + b => b + a *)
Theorem rule_commute_add_sound : forall wo wa wb sa sb ta tb,
  width_ok wo -> width_ok wa -> width_ok wb -> operand_ok wa ta -> operand_ok wb tb ->
  let asg := asg_commute wo wa wb sa sb in
  let sigma := subst_of asg (ops2 ta tb) in
  eval_condition rule_commute_add asg = Ok true ->
  same_value wo (inst sigma (r_lhs rule_commute_add)) (inst sigma (r_rhs rule_commute_add)).
Proof. exact rule_commute_add_sound_lemma. Qed.
Print Assumptions rule_commute_add_sound.

(** a * b => b * a *)
Theorem rule_commute_mul_sound : forall wo wa wb sa sb ta tb,
  width_ok wo -> width_ok wa -> width_ok wb -> operand_ok wa ta -> operand_ok wb tb ->
  let asg := asg_commute wo wa wb sa sb in
  let sigma := subst_of asg (ops2 ta tb) in
  eval_condition rule_commute_mul asg = Ok true ->
  same_value wo (inst sigma (r_lhs rule_commute_mul)) (inst sigma (r_rhs rule_commute_mul)).
Proof. exact rule_commute_mul_sound_lemma. Qed.
Print Assumptions rule_commute_mul_sound.

(** a * 2 => a + a   (the constant 2 is truncated to ?wb bits and read with sign ?sb) *)
Theorem rule_mult_to_add_sound : forall wo wa wb sa sb ta,
  width_ok wo -> width_ok wa -> width_ok wb -> operand_ok wa ta ->
  let asg := asg_commute wo wa wb sa sb in
  let sigma := subst_of asg (ops1 ta) in
  eval_condition rule_mult_to_add asg = Ok true ->
  same_value wo (inst sigma (r_lhs rule_mult_to_add)) (inst sigma (r_rhs rule_mult_to_add)).
Proof. exact rule_mult_to_add_sound_lemma. Qed.
Print Assumptions rule_mult_to_add_sound.

(** (a << b) << c => a << (b + c).  The derived width [max+1 ?wb ?wc] of the right-hand side
    must itself be a u32 (see [C19_merge_left_shift_rhs_overflow_refuted]). *)
Theorem rule_merge_left_shift_sound : forall wo wab wa wb wc sa ta tb tc,
  width_ok wo -> width_ok wab -> width_ok wa -> width_ok wb -> width_ok wc ->
  operand_ok wa ta -> operand_ok wb tb -> operand_ok wc tc ->
  let asg := asg_merge wo wab wa wb wc sa in
  let sigma := subst_of asg (ops3 ta tb tc) in
  eval_condition rule_merge_left_shift asg = Ok true ->
  N.max wb wc + 1 <= u32_max ->
  same_value wo (inst sigma (r_lhs rule_merge_left_shift)) (inst sigma (r_rhs rule_merge_left_shift)).
Proof. exact rule_merge_left_shift_sound_lemma. Qed.
Print Assumptions rule_merge_left_shift_sound.

(** a << (b + c) => (a << b) << c.  The derived width [wlsh ?wa ?wb] of the right-hand side
    must itself be a u32 (see [C19_unmerge_left_shift_rhs_overflow_refuted]); this includes
    the saturated case ?wb >= 32, where it is u32::MAX. *)
Theorem rule_unmerge_left_shift_sound : forall wo wa wbc wb wc sa ta tb tc,
  width_ok wo -> width_ok wa -> width_ok wbc -> width_ok wb -> width_ok wc ->
  operand_ok wa ta -> operand_ok wb tb -> operand_ok wc tc ->
  let asg := asg_unmerge wo wa wbc wb wc sa in
  let sigma := subst_of asg (ops3 ta tb tc) in
  eval_condition rule_unmerge_left_shift asg = Ok true ->
  eval_width_left_shift wa wb <> Panic ->
  same_value wo (inst sigma (r_lhs rule_unmerge_left_shift)) (inst sigma (r_rhs rule_unmerge_left_shift)).
Proof. exact rule_unmerge_left_shift_sound_lemma. Qed.
Print Assumptions rule_unmerge_left_shift_sound.

(** (a * b) << c => (a << c) * b, all unsigned (the side condition implies that the derived
    width of the right-hand side is a u32) *)
Theorem rule_left_shift_mult_sound : forall wo wab wa wb wc ta tb tc,
  width_ok wo -> width_ok wab -> width_ok wa -> width_ok wb -> width_ok wc ->
  operand_ok wa ta -> operand_ok wb tb -> operand_ok wc tc ->
  let asg := asg_lsm wo wab wa wb wc in
  let sigma := subst_of asg (ops3 ta tb tc) in
  eval_condition rule_left_shift_mult asg = Ok true ->
  same_value wo (inst sigma (r_lhs rule_left_shift_mult)) (inst sigma (r_rhs rule_left_shift_mult)).
Proof. exact rule_left_shift_mult_sound_lemma. Qed.
Print Assumptions rule_left_shift_mult_sound.

(** the rule set of the model is exactly these six (tied to [create_rewrites()] by the
    generated-facts comparison of the check) *)
Theorem C19_rules_are_the_six :
  rules = [ rule_commute_add; rule_commute_mul; rule_merge_left_shift; rule_unmerge_left_shift;
            rule_mult_to_add; rule_left_shift_mult ].
Proof. exact eq_refl. Qed.
Print Assumptions C19_rules_are_the_six.

(** ** known findings: a derived right-hand-side width leaves u32 *)

(** widths (1, 1, 1, u32::MAX, 1): side condition true, left side lowers, right side panics
    ([max+1] overflows, arithmetic.rs:40) *)
Theorem C19_merge_left_shift_rhs_overflow_refuted :
  exists wo wab wa wb wc sa,
    width_ok wo /\ width_ok wab /\ width_ok wa /\ width_ok wb /\ width_ok wc /\
    let asg := asg_merge wo wab wa wb wc sa in
    let sigma := subst_of asg [] in
    eval_condition rule_merge_left_shift asg = Ok true /\
    (exists e, from_arith 0 (inst sigma (r_lhs rule_merge_left_shift)) = Ok e) /\
    from_arith 0 (inst sigma (r_rhs rule_merge_left_shift)) = Panic.
Proof. exact merge_left_shift_rhs_overflow_lemma. Qed.
Print Assumptions C19_merge_left_shift_rhs_overflow_refuted.

(** widths (wo 1, wa u32::MAX, wbc 2, wb 1, wc 1): side condition true, left side lowers,
    right side panics ([wlsh] overflows, arithmetic.rs:49) *)
Theorem C19_unmerge_left_shift_rhs_overflow_refuted :
  exists wo wa wbc wb wc sa,
    width_ok wo /\ width_ok wa /\ width_ok wbc /\ width_ok wb /\ width_ok wc /\
    let asg := asg_unmerge wo wa wbc wb wc sa in
    let sigma := subst_of asg [] in
    eval_condition rule_unmerge_left_shift asg = Ok true /\
    (exists e, from_arith 0 (inst sigma (r_lhs rule_unmerge_left_shift)) = Ok e) /\
    from_arith 0 (inst sigma (r_rhs rule_unmerge_left_shift)) = Panic.
Proof. exact unmerge_left_shift_rhs_overflow_lemma. Qed.
Print Assumptions C19_unmerge_left_shift_rhs_overflow_refuted.

(** ** the repaired side conditions ([rules_v Fix] =
    patches/0016-fix-egraph-rules-derived-width-fits-u32.diff: checked u32 arithmetic in the
    conditions, which also require the derived right-hand-side width to fit a u32).
    The two [_refuted] theorems above stay theorems about the shipped rules ([rules_v Cur] = [rules]);
    for [Fix] the three shift rules are sound at FULL strength - no extra hypothesis. *)

Theorem C19_rules_fixed_are_the_six :
  rules_v Cur = rules /\
  rules_v Fix = [ rule_commute_add; rule_commute_mul; rule_merge_left_shift_fix; rule_unmerge_left_shift_fix;
                  rule_mult_to_add; rule_left_shift_mult_fix ] /\
  map r_name (rules_v Fix) = map r_name rules /\ map r_lhs (rules_v Fix) = map r_lhs rules /\
  map r_rhs (rules_v Fix) = map r_rhs rules.
Proof. repeat split. Qed.
Print Assumptions C19_rules_fixed_are_the_six.

Theorem rule_merge_left_shift_sound_fixed : forall wo wab wa wb wc sa ta tb tc,
  width_ok wo -> width_ok wab -> width_ok wa -> width_ok wb -> width_ok wc ->
  operand_ok wa ta -> operand_ok wb tb -> operand_ok wc tc ->
  let asg := asg_merge wo wab wa wb wc sa in
  let sigma := subst_of asg (ops3 ta tb tc) in
  eval_condition rule_merge_left_shift_fix asg = Ok true ->
  same_value wo (inst sigma (r_lhs rule_merge_left_shift_fix)) (inst sigma (r_rhs rule_merge_left_shift_fix)).
Proof. exact rule_merge_left_shift_fixed_lemma. Qed.
Print Assumptions rule_merge_left_shift_sound_fixed.

Theorem rule_unmerge_left_shift_sound_fixed : forall wo wa wbc wb wc sa ta tb tc,
  width_ok wo -> width_ok wa -> width_ok wbc -> width_ok wb -> width_ok wc ->
  operand_ok wa ta -> operand_ok wb tb -> operand_ok wc tc ->
  let asg := asg_unmerge wo wa wbc wb wc sa in
  let sigma := subst_of asg (ops3 ta tb tc) in
  eval_condition rule_unmerge_left_shift_fix asg = Ok true ->
  same_value wo (inst sigma (r_lhs rule_unmerge_left_shift_fix)) (inst sigma (r_rhs rule_unmerge_left_shift_fix)).
Proof. exact rule_unmerge_left_shift_fixed_lemma. Qed.
Print Assumptions rule_unmerge_left_shift_sound_fixed.

Theorem rule_left_shift_mult_sound_fixed : forall wo wab wa wb wc ta tb tc,
  width_ok wo -> width_ok wab -> width_ok wa -> width_ok wb -> width_ok wc ->
  operand_ok wa ta -> operand_ok wb tb -> operand_ok wc tc ->
  let asg := asg_lsm wo wab wa wb wc in
  let sigma := subst_of asg (ops3 ta tb tc) in
  eval_condition rule_left_shift_mult_fix asg = Ok true ->
  same_value wo (inst sigma (r_lhs rule_left_shift_mult_fix)) (inst sigma (r_rhs rule_left_shift_mult_fix)).
Proof. exact rule_left_shift_mult_fixed_lemma. Qed.
Print Assumptions rule_left_shift_mult_sound_fixed.

(** the repaired conditions never panic (the shipped left-shift-mult condition does: wa + wb) ... *)
Theorem C19_fixed_conditions_total :
  (forall wo wab wa wb wc sa, eval_condition rule_merge_left_shift_fix (asg_merge wo wab wa wb wc sa) <> Panic) /\
  (forall wo wa wbc wb wc sa, eval_condition rule_unmerge_left_shift_fix (asg_unmerge wo wa wbc wb wc sa) <> Panic) /\
  (forall wo wab wa wb wc, eval_condition rule_left_shift_mult_fix (asg_lsm wo wab wa wb wc) <> Panic).
Proof. exact fixed_conditions_total_lemma. Qed.
Print Assumptions C19_fixed_conditions_total.

(** ... coincide with the shipped ones wherever the derived widths fit ... *)
Theorem C19_fixed_conditions_agree :
  (forall wo wab wa wb wc sa, N.max wb wc + 1 <= u32_max ->
     eval_condition rule_merge_left_shift_fix (asg_merge wo wab wa wb wc sa)
     = eval_condition rule_merge_left_shift (asg_merge wo wab wa wb wc sa)) /\
  (forall wo wa wbc wb wc sa, N.max wb wc + 1 <= u32_max -> eval_width_left_shift wa wb <> Panic ->
     eval_condition rule_unmerge_left_shift_fix (asg_unmerge wo wa wbc wb wc sa)
     = eval_condition rule_unmerge_left_shift (asg_unmerge wo wa wbc wb wc sa)).
Proof. exact fixed_conditions_agree_lemma. Qed.
Print Assumptions C19_fixed_conditions_agree.

(** ... and reject exactly the witnesses of the two [_refuted] theorems *)
Theorem C19_refutation_witnesses_rejected :
  eval_condition rule_merge_left_shift (asg_merge 1 1 1 u32_max 1 false) = Ok true /\
  eval_condition rule_merge_left_shift_fix (asg_merge 1 1 1 u32_max 1 false) = Ok false /\
  eval_condition rule_unmerge_left_shift (asg_unmerge 1 u32_max 2 1 1 false) = Ok true /\
  eval_condition rule_unmerge_left_shift_fix (asg_unmerge 1 u32_max 2 1 1 false) = Ok false.
Proof. exact refutation_witnesses_rejected_lemma. Qed.
Print Assumptions C19_refutation_witnesses_rejected.

(** ** conversion to the e-graph language and back *)

(** [convertible e]: rooted at add/sub/mul/shl/lshr/ashr, operands are symbols or such
    operations under a (possibly empty) chain of extensions OF ONE KIND, stored widths fit u32.
    Then [from_arith (to_arith e)] exists, is well typed, has the width of [e] and the value of
    [e] under every environment. *)
Theorem arith_roundtrip : forall e, wt e = true -> convertible e = true ->
  exists e', roundtrip e = Ok e' /\ wt e' = true /\ type_of e' = type_of e /\
    forall rho, env_wf rho -> ebv rho e' = ebv rho e.
Proof. exact arith_roundtrip_lemma. Qed.
Print Assumptions arith_roundtrip.

(** the hypothesis of the plan, "at most one extension per operand", is a special case *)
Theorem arith_roundtrip_one_ext : forall e, wt e = true -> convertible_one_ext e = true ->
  exists e', roundtrip e = Ok e' /\ wt e' = true /\ type_of e' = type_of e /\
    forall rho, env_wf rho -> ebv rho e' = ebv rho e.
Proof. exact arith_roundtrip_one_ext_lemma. Qed.
Print Assumptions arith_roundtrip_one_ext.

(** known finding: without the restriction on the chains the statement is false -
    [to_arith] records only the outermost extension kind.
    Witness: add(zext(sext(x:bv<2>, 2), 3), y:bv<7>), x = 0b10, y = 0: 14 becomes 2.
    (The unrestricted statement - NOT a theorem - would read:
       forall e, wt e = true -> convertible_shape e = true -> exists e', roundtrip e = Ok e' /\ ... same value.) *)
Theorem arith_roundtrip_nested_refuted :
  exists e rho, wt e = true /\ convertible_shape e = true /\ env_wf rho /\
    exists e', roundtrip e = Ok e' /\ ebv rho e' <> ebv rho e.
Proof. exact arith_roundtrip_nested_refuted_lemma. Qed.
Print Assumptions arith_roundtrip_nested_refuted.

(** ** the repaired conversion ([Fix] = patches/0001-fix-to_arith-mixed-extension-chain.diff:
    [remove_ext] strips a run of ONE kind; an extension visited as a node becomes [ext(x) + 0]) *)

(** [roundtrip_v Cur] is the shipped round trip: the refutation above is about [Cur] *)
Theorem C19_roundtrip_cur_is_shipped : forall e, roundtrip_v Cur e = roundtrip e.
Proof. exact roundtrip_cur. Qed.
Print Assumptions C19_roundtrip_cur_is_shipped.

(** UNRESTRICTED round trip of the repaired code: any well-typed tree of add/sub/mul/shifts over
    symbols under ANY extensions (mixed chains, extension at the root), stored widths in u32, not a
    bare symbol: the result exists, is well typed, has the same width and the same value. *)
Theorem arith_roundtrip_fixed : forall e, wt e = true -> convertible_fix e = true ->
  exists e', roundtrip_v Fix e = Ok e' /\ wt e' = true /\ type_of e' = type_of e /\
    forall rho, env_wf rho -> ebv rho e' = ebv rho e.
Proof. exact arith_roundtrip_fix_lemma. Qed.
Print Assumptions arith_roundtrip_fixed.

(** in particular on exactly the domain on which the shipped code is refuted
    ([convertible_shape], no hypothesis on the extension chains) *)
Theorem arith_roundtrip_fixed_shape : forall e, wt e = true -> convertible_shape e = true ->
  exists e', roundtrip_v Fix e = Ok e' /\ wt e' = true /\ type_of e' = type_of e /\
    forall rho, env_wf rho -> ebv rho e' = ebv rho e.
Proof. exact arith_roundtrip_fix_shape_lemma. Qed.
Print Assumptions arith_roundtrip_fixed_shape.

(** the witness of [arith_roundtrip_nested_refuted] through the repaired code *)
Theorem C19_refutation_witness_repaired :
  roundtrip_v Fix rt_cex
  = Ok (BVAdd (BVZeroExt (BVAdd (BVSignExt (BVSymbol "x" 2) 2 4) (BVZeroExt (BVLiteral 1 0) 3 4) 4) 3 7)
              (BVSymbol "y" 7) 7) /\
  (forall e', roundtrip_v Fix rt_cex = Ok e' -> ebv rt_cex_env e' = ebv rt_cex_env rt_cex).
Proof. exact rt_cex_fixed_lemma. Qed.
Print Assumptions C19_refutation_witness_repaired.

(** outside the fragment the implementation has [todo!]/debug assertions: the model panics
    (literal operand; root symbol; root extension) *)
Theorem C19_to_arith_unsupported_panics :
  to_arith (BVAdd (BVLiteral 4 3) (BVSymbol "y" 4) 4) = Panic /\
  roundtrip (BVSymbol "y" 4) = Panic /\
  to_arith (BVZeroExt (BVAdd (BVSymbol "x" 4) (BVSymbol "y" 4) 4) 2 6) = Panic.
Proof. exact to_arith_unsupported_lemma. Qed.
Print Assumptions C19_to_arith_unsupported_panics.

(** ** non-vacuity *)

(** the hypotheses of the shift rules are satisfiable on symbols, and the lowered sides are
    the expected expressions (widths wo 5, wab 6, wa 3, wb 2, wc 2, signed a) *)
Example C19_example_merge :
  let asg := asg_merge 5 6 3 2 2 true in
  let sigma := subst_of asg [] in
  eval_condition rule_merge_left_shift asg = Ok true /\
  from_arith 0 (inst sigma (r_lhs rule_merge_left_shift))
    = Ok (BVSlice (BVShiftLeft
            (BVShiftLeft (BVSignExt (BVSymbol "a" 3) 3 6) (BVZeroExt (BVSymbol "b" 2) 4 6) 6)
            (BVZeroExt (BVSymbol "c" 2) 4 6) 6) 4 0) /\
  from_arith 0 (inst sigma (r_rhs rule_merge_left_shift))
    = Ok (BVShiftLeft (BVSignExt (BVSymbol "a" 3) 2 5)
            (BVZeroExt (BVAdd (BVZeroExt (BVSymbol "b" 2) 1 3) (BVZeroExt (BVSymbol "c" 2) 1 3) 3) 2 5) 5).
Proof. vm_compute. repeat split. Qed.

Example C19_example_unmerge_lsm_mult :
  eval_condition rule_unmerge_left_shift (asg_unmerge 9 3 3 2 2 true) = Ok true /\
  eval_width_left_shift 3 2 = Ok 6 /\
  eval_condition rule_left_shift_mult (asg_lsm 8 5 2 3 2) = Ok true /\
  eval_condition rule_mult_to_add (asg_commute 4 4 2 true false) = Ok true /\
  eval_condition rule_mult_to_add (asg_commute 4 4 2 true true) = Ok false /\
  (* the saturated width: wb >= 32 *)
  eval_width_left_shift 7 32 = Ok u32_max.
Proof. vm_compute. repeat split. Qed.

(** the repository's own example (arithmetic.rs verification_fig_1, the implementation side)
    is in the fragment and the round trip returns it unchanged *)
Example C19_example_roundtrip :
  let a := BVSymbol "A" 16 in let b := BVSymbol "B" 16 in
  let m := BVSymbol "M" 4 in let n := BVSymbol "N" 4 in
  let e := BVShiftLeft (BVZeroExt (BVMul (BVZeroExt a 16 32) (BVZeroExt b 16 32) 32) 31 63)
                       (BVZeroExt (BVAdd (BVZeroExt m 1 5) (BVZeroExt n 1 5) 5) 58 63) 63 in
  wt e = true /\ convertible e = true /\ convertible_one_ext e = true /\ roundtrip e = Ok e.
Proof. vm_compute. repeat split. Qed.

(** a uniform chain of two sign extensions is in the fragment (and comes back as one) *)
Example C19_example_roundtrip_chain :
  let e := BVAdd (BVSignExt (BVSignExt (BVSymbol "x" 2) 2 4) 3 7) (BVSymbol "y" 7) 7 in
  wt e = true /\ convertible e = true /\ convertible_one_ext e = false /\
  roundtrip e = Ok (BVAdd (BVSignExt (BVSymbol "x" 2) 5 7) (BVSymbol "y" 7) 7).
Proof. vm_compute. repeat split. Qed.

(** the repaired conversion leaves the repository's example unchanged and converts a root extension *)
Example C19_example_roundtrip_fixed :
  let a := BVSymbol "A" 16 in let b := BVSymbol "B" 16 in
  let m := BVSymbol "M" 4 in let n := BVSymbol "N" 4 in
  let e := BVShiftLeft (BVZeroExt (BVMul (BVZeroExt a 16 32) (BVZeroExt b 16 32) 32) 31 63)
                       (BVZeroExt (BVAdd (BVZeroExt m 1 5) (BVZeroExt n 1 5) 5) 58 63) 63 in
  roundtrip_v Fix e = Ok e /\
  convertible_fix (BVSignExt (BVAdd a b 16) 2 18) = true /\
  roundtrip_v Fix (BVSignExt (BVAdd a b 16) 2 18)
    = Ok (BVAdd (BVSignExt (BVAdd a b 16) 2 18) (BVZeroExt (BVLiteral 1 0) 17 18) 18).
Proof. vm_compute. repeat split. Qed.

(** the repaired conditions hold on ordinary widths (same instances as above) and on the saturated wlsh *)
Example C19_example_fixed_conditions :
  eval_condition rule_merge_left_shift_fix (asg_merge 5 6 3 2 2 true) = Ok true /\
  eval_condition rule_unmerge_left_shift_fix (asg_unmerge 9 3 3 2 2 true) = Ok true /\
  eval_condition rule_unmerge_left_shift_fix (asg_unmerge 9 7 33 32 3 true) = Ok true /\
  eval_condition rule_left_shift_mult_fix (asg_lsm 8 5 2 3 2) = Ok true /\
  eval_condition rule_left_shift_mult (asg_lsm 1 1 u32_max 1 1) = Panic /\
  eval_condition rule_left_shift_mult_fix (asg_lsm 1 1 u32_max 1 1) = Ok false.
Proof. vm_compute. repeat split. Qed.
