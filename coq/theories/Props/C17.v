(** * Props/C17.v — The cone of influence is sufficient and syntactically tight.

    Only statements, [exact lemma] proofs, [Print Assumptions] and non-vacuity examples.

    Model of patronus/src/system/analysis.rs:56-130: [Coi.coi_opt v sy root] (fuelled worklist,
    [v] = [VFull] / [VInit] / [VComb] for cone_of_influence / _init / _comb).
    Specification: Spec/CoiSpec.v ([reach], [sys_symbol], [agree_on], [same_value]) over the
    transition-system semantics of Spec/System.v ([init_seq], [next_env], [run_from]).

    Domain: the tightness and sufficiency theorems assume [states_distinct sy] (no two states share
    a symbol); nothing else - no typing assumption, any root (not only expressions of the system),
    symbols that are neither inputs nor states allowed anywhere. *)
From Patronus Require Import Coi CoiProofs.
Open Scope N_scope.

(** The default fuel always suffices: the model never runs out of fuel. *)
Theorem C17_coi_total :
  forall (v : variant) (sy : sys) (root : expr), exists C, coi_opt v sy root = Some C.
Proof. exact coi_total_lemma. Qed.
Print Assumptions C17_coi_total.

(** The cone contains only symbols that are inputs or states of the system, each once. *)
Theorem C17_coi_only_inputs_states :
  forall (v : variant) (sy : sys) (root : expr) (C : list expr),
    coi_opt v sy root = Some C -> (forall s, In s C -> sys_symbol sy s) /\ NoDup C.
Proof. exact coi_only_inputs_states_lemma. Qed.
Print Assumptions C17_coi_only_inputs_states.

(** Tight and complete: the cone is EXACTLY the set of input/state symbols syntactically
    reachable from the root through children and the variant's init/next links. *)
Theorem C17_coi_tight :
  forall (v : variant) (sy : sys) (root : expr) (C : list expr),
    states_distinct sy -> coi_opt v sy root = Some C ->
    forall s, In s C <-> reach v sy root s /\ sys_symbol sy s.
Proof. exact coi_tight_lemma. Qed.
Print Assumptions C17_coi_tight.

(** Tightness alone needs no assumption on the system. *)
Theorem C17_coi_members_reachable :
  forall (v : variant) (sy : sys) (root : expr) (C : list expr),
    coi_opt v sy root = Some C -> forall s, In s C -> reach v sy root s.
Proof. exact coi_members_reachable_lemma. Qed.
Print Assumptions C17_coi_members_reachable.

(** The three cones are nested: comb within init within full (no assumption on the system). *)
Theorem C17_coi_nested :
  forall (sy : sys) (root : expr) (Cc Ci Cf : list expr),
    coi_opt VComb sy root = Some Cc -> coi_opt VInit sy root = Some Ci -> coi_opt VFull sy root = Some Cf ->
    (forall s, In s Cc -> In s Ci) /\ (forall s, In s Ci -> In s Cf).
Proof. exact coi_nested_lemma. Qed.
Print Assumptions C17_coi_nested.

(** The key lemma: the value of an expression depends only on the symbols occurring in it. *)
Theorem C17_eval_ext :
  forall (r1 r2 : env) (e : expr),
    (forall s, In s (subexprs e) -> agree_on s r1 r2) -> same_value e r1 r2.
Proof. exact eval_ext. Qed.
Print Assumptions C17_eval_ext.

(** Sufficiency, combinational cone: two valuations that agree on the cone (and on the symbols that
    do not belong to the system) give the root the same value within the current step. *)
Theorem C17_coi_sufficient_comb :
  forall (sy : sys) (root : expr) (C : list expr) (r1 r2 : env),
    coi_opt VComb sy root = Some C ->
    agree_on_all C r1 r2 -> agree_non_sys sy r1 r2 -> same_value root r1 r2.
Proof. exact coi_sufficient_comb_lemma. Qed.
Print Assumptions C17_coi_sufficient_comb.

(** Sufficiency, init cone: right after the (sequential) initialisation. *)
Theorem C17_coi_sufficient_init :
  forall (sy : sys) (root : expr) (C : list expr) (r1 r2 : env),
    states_distinct sy -> coi_opt VInit sy root = Some C ->
    agree_on_all C r1 r2 -> agree_non_sys sy r1 r2 ->
    same_value root (init_seq sy r1) (init_seq sy r2).
Proof. exact coi_sufficient_init_lemma. Qed.
Print Assumptions C17_coi_sufficient_init.

(** Sufficiency, full cone: two runs of any length whose pre-initialisation valuations agree on
    the cone and whose per-step free valuations (new inputs, new values of states without next)
    agree on the cone give the root the same value at EVERY step. *)
Theorem C17_coi_sufficient_full :
  forall (sy : sys) (root : expr) (C : list expr) (r1 r2 : env) (fs1 fs2 : list env),
    states_distinct sy -> coi_opt VFull sy root = Some C ->
    agree_on_all C r1 r2 -> agree_non_sys sy r1 r2 ->
    Forall2 (agree_free sy C) fs1 fs2 ->
    Forall2 (same_value root) (run_from sy (init_seq sy r1) fs1) (run_from sy (init_seq sy r2) fs2).
Proof. exact coi_sufficient_full_lemma. Qed.
Print Assumptions C17_coi_sufficient_full.

(** The same from arbitrary start valuations (e.g. any two [is_initial] valuations that agree on
    the cone's states). *)
Theorem C17_coi_sufficient_full_from :
  forall (sy : sys) (root : expr) (C : list expr) (r1 r2 : env) (fs1 fs2 : list env),
    states_distinct sy -> coi_opt VFull sy root = Some C ->
    agree_on_all C r1 r2 -> agree_non_sys sy r1 r2 ->
    Forall2 (agree_free sy C) fs1 fs2 ->
    Forall2 (same_value root) (run_from sy r1 fs1) (run_from sy r2 fs2).
Proof. exact coi_sufficient_full_from_lemma. Qed.
Print Assumptions C17_coi_sufficient_full_from.

(** Perturbation forms - literally what the check's oracle evaluates on the implementation's cones:
    replacing the values of ALL inputs and states outside the cone by arbitrary other values
    ([perturb], [perturb_all]) never changes the root's value. *)
Theorem C17_coi_comb_perturb :
  forall (sy : sys) (root : expr) (C : list expr) (base alt : env),
    coi_opt VComb sy root = Some C -> same_value root base (perturb sy C base alt).
Proof. exact coi_comb_perturb_lemma. Qed.
Print Assumptions C17_coi_comb_perturb.

Theorem C17_coi_init_perturb :
  forall (sy : sys) (root : expr) (C : list expr) (base alt : env),
    states_distinct sy -> coi_opt VInit sy root = Some C ->
    same_value root (init_seq sy base) (init_seq sy (perturb sy C base alt)).
Proof. exact coi_init_perturb_lemma. Qed.
Print Assumptions C17_coi_init_perturb.

Theorem C17_coi_full_perturb :
  forall (sy : sys) (root : expr) (C : list expr) (base alt : env) (bases alts : list env),
    states_distinct sy -> coi_opt VFull sy root = Some C ->
    Forall2 (same_value root) (run_from sy (init_seq sy base) bases)
            (run_from sy (init_seq sy (perturb sy C base alt)) (perturb_all sy C bases alts)) /\
    Forall2 (same_value root) (run_from sy base bases)
            (run_from sy (perturb sy C base alt) (perturb_all sy C bases alts)).
Proof. exact coi_full_perturb_lemma. Qed.
Print Assumptions C17_coi_full_perturb.

(** The oracle's domain test decides the domain of the theorems. *)
Theorem C17_states_distinct_decided :
  forall sy : sys, states_distinct_b sy = true <-> states_distinct sy.
Proof. exact states_distinct_b_iff. Qed.
Print Assumptions C17_states_distinct_decided.

(** ** Non-vacuity *)
Module Ex.
  Definition i0 := BVSymbol "i0" 2.
  Definition i1 := BVSymbol "i1" 2.
  Definition a := BVSymbol "a" 2.
  Definition b := BVSymbol "b" 2.
  Definition c := BVSymbol "c" 2.
  Definition k := BVSymbol "k" 2.
  Definition z := BVSymbol "z" 2.   (* neither input nor state *)
  Definition m := ArraySymbol "m" 1 2.
  (** a: init i0, next a + i1;  b: init a, no next;  c: next c + 1 (never used by the root);
      k: constant (next = own symbol), init z;  m: array state, next stores b at index 0 *)
  Definition sy : sys :=
    {| s_inputs := [i0; i1];
       s_states := [ {| st_sym := a; st_init := Some i0; st_next := Some (BVAdd a i1 2) |};
                     {| st_sym := b; st_init := Some a; st_next := None |};
                     {| st_sym := c; st_init := None; st_next := Some (BVAdd c (BVLiteral 2 1) 2) |};
                     {| st_sym := k; st_init := Some z; st_next := Some k |};
                     {| st_sym := m; st_init := None; st_next := Some (ArrayStore m (BVLiteral 1 0) b) |} ];
       s_outputs := []; s_bads := []; s_constraints := [] |}.
  Definition root : expr := BVXor (BVArrayRead m (BVLiteral 1 0) 2) (BVXor k z 2) 2.
  Definition base : env := {| rho_bv := fun _ _ => 1; rho_arr := fun _ _ _ _ => 2 |}.
  Definition alt : env := {| rho_bv := fun _ _ => 3; rho_arr := fun _ _ _ _ => 0 |}.
  Definition vals (r : list env) : list N := map (fun rho => ebv rho root) r.
End Ex.

(** the three variants differ on this system; the order is the implementation's report order *)
Example C17_example_cones :
  coi_opt VFull Ex.sy Ex.root = Some [Ex.k; Ex.m; Ex.b; Ex.a; Ex.i1; Ex.i0] /\
  coi_opt VInit Ex.sy Ex.root = Some [Ex.k; Ex.m] /\
  coi_opt VComb Ex.sy Ex.root = Some [Ex.k; Ex.m] /\
  coi_opt VInit Ex.sy Ex.b = Some [Ex.b; Ex.a; Ex.i0] /\
  coi_opt VComb Ex.sy Ex.z = Some [] /\
  states_distinct_b Ex.sy = true.
Proof. vm_compute. repeat split. Qed.

(** the hypotheses of the perturbation theorems hold on it, the perturbation really changes a
    state outside the cone, and the root's values along a 3-step run are not constant *)
Example C17_example_run :
  let C := [Ex.k; Ex.m; Ex.b; Ex.a; Ex.i1; Ex.i0] in
  let p := perturb Ex.sy C Ex.base Ex.alt in
  coi_opt VFull Ex.sy Ex.root = Some C /\
  rho_bv p "c" 2 = 3 /\ rho_bv Ex.base "c" 2 = 1 /\ rho_bv p "z" 2 = 1 /\
  Ex.vals (run_from Ex.sy (init_seq Ex.sy Ex.base) [Ex.base; Ex.alt; Ex.base]) = [2; 1; 3; 3] /\
  Ex.vals (run_from Ex.sy (init_seq Ex.sy p) (perturb_all Ex.sy C [Ex.base; Ex.alt; Ex.base] [Ex.alt; Ex.base; Ex.alt])) = [2; 1; 3; 3].
Proof. vm_compute. repeat split. Qed.

(** domain boundary: with two states for one symbol the hash-map lookup of the implementation
    (last state wins) and the list semantics part ways: the init cone of [s] is {s}, yet the
    initial value of [s] depends on the input [i0].  Such systems are outside the property. *)
Example C17_duplicate_states_outside_domain :
  let s := BVSymbol "s" 2 in
  let sy := {| s_inputs := [Ex.i0];
               s_states := [ {| st_sym := s; st_init := Some Ex.i0; st_next := None |};
                             {| st_sym := s; st_init := None; st_next := None |} ];
               s_outputs := []; s_bads := []; s_constraints := [] |} in
  states_distinct_b sy = false /\
  coi_opt VInit sy s = Some [s] /\
  ebv (init_seq sy Ex.base) s = 1 /\ ebv (init_seq sy (perturb sy [s] Ex.base Ex.alt)) s = 3.
Proof. vm_compute. repeat split. Qed.
