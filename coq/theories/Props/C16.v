(** * Props/C16.v — btor2 witness text round-trips.

    Only statements, [exact lemma] proofs, [Print Assumptions] and non-vacuity examples.
    The model of patronus/src/btor2/witness.rs is Model/WitnessIO.v: [wit_print_text] is
    [witness_to_string], [wit_parse_text pm] is [parse_witnesses(_, pm)] (line splitting,
    trimming, the tokeniser, number parsing and the line state machine included),
    [wit_parse_single] is [parse_witness].  [wit_complete] is the boolean completeness
    predicate; [wit_canon w] is the witness that is read back. *)
From Coq Require Import NArith Ascii String List.
From Patronus Require Import WitnessIO WitnessTextLemmas WitnessIOProofs.
Import ListNotations.
Open Scope N_scope.

(** Printing a complete witness never panics, and reading the text back (with any
    [parse_max], and through [parse_witness]) yields exactly one witness, [wit_canon w]. *)
Theorem C16_roundtrip_canon :
  forall w, wit_complete w = true ->
  exists text, wit_print_text w = WOk text /\
               (forall pm, wit_parse_text pm text = WOk [wit_canon w]) /\
               wit_parse_single text = WOk (wit_canon w).
Proof. exact roundtrip_canon_lemma. Qed.
Print Assumptions C16_roundtrip_canon.

(** Several complete witnesses written one after another are read back one by one, in
    order: all of them when [parse_max] is at least their number, otherwise the first
    [max 1 parse_max] (the reader always finishes the witness it has started). *)
Theorem C16_witness_stream :
  forall ws pm, Forall (fun w => wit_complete w = true) ws ->
  exists text, print_stream ws = WOk text /\
               wit_parse_text pm text = WOk (map wit_canon (firstn (Nat.max 1 (N.to_nat pm)) ws)).
Proof. exact witness_stream_lemma. Qed.
Print Assumptions C16_witness_stream.

Theorem C16_witness_stream_all :
  forall ws pm, Forall (fun w => wit_complete w = true) ws -> N.of_nat (length ws) <= pm ->
  exists text, print_stream ws = WOk text /\ wit_parse_text pm text = WOk (map wit_canon ws).
Proof. exact witness_stream_all. Qed.
Print Assumptions C16_witness_stream_all.

(** Non-vacuity: a witness with two failed properties, a bit-vector state, a state without
    value, an array state with three recorded indices (one stored as zero, one never stored,
    so equal to the non-zero default), an unnamed state, names with odd characters, and
    two steps of two inputs (one of them 65 bits wide) is complete; its text is read back
    as [wit_canon]. *)
Definition ex_array : array_value :=
  mk_array 2 [false; false; true]
           [([true; false], [true; true; true]); ([false; false], [false; false; false])].
Definition ex_wide : bits := true :: repeat false 64.
Definition ex_witness : btor_witness :=
  mk_btor_witness
    [IVBitVec [true; false]; IVNone; IVArray ex_array [[true; false]; [false; false]; [true; true]; [true; false]]; IVBitVec [true]]
    [Some (lit "top.st[3]"); Some (lit "unused"); None; Some (lit "a""b\c")]
    [[Some (WVBitVec [true]); Some (WVBitVec ex_wide)]; [Some (WVBitVec [false]); Some (WVBitVec ex_wide)]]
    [None; Some (lit "in$1")]
    [3; 4294967295].

Example C16_example_complete : wit_complete ex_witness = true.
Proof. vm_compute. reflexivity. Qed.

Example C16_example_roundtrip :
  exists text, wit_print_text ex_witness = WOk text /\
               wit_parse_single text = WOk (wit_canon ex_witness) /\
               wit_parse_text 5 (text ++ text) = WOk [wit_canon ex_witness; wit_canon ex_witness].
Proof. eexists. split; [vm_compute; reflexivity|]. split; vm_compute; reflexivity. Qed.
