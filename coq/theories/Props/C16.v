(** * Props/C16.v — btor2 witness text round-trips.

    Only statements, [exact lemma] proofs, [Print Assumptions] and non-vacuity examples.
    The model of patronus/src/btor2/witness.rs is Model/WitnessIO.v: [wit_print_text] is
    [witness_to_string], [wit_parse_text pm] is [parse_witnesses(_, pm)] (line splitting,
    trimming, the tokeniser, number parsing and the line state machine included),
    [wit_parse_single] is [parse_witness].  [wit_complete] is the boolean completeness
    predicate; [wit_canon w] is the witness that is read back. *)
From Coq Require Import NArith Ascii String List.
From Patronus Require Import WitnessIO WitnessTextLemmas WitnessIOProofs WitnessEquivProofs.
Import ListNotations.
Open Scope N_scope.

(** THE PROPERTY.  Printing a complete witness never panics; reading the text back (through
    [parse_witness], or [parse_witnesses] with any [parse_max]) yields exactly one witness
    [w'], and [w'] is equivalent to [w] ([wit_equiv], WitnessEquivProofs.v): same failed
    properties, same input values at every step, the display names (a missing name reads
    back as the printed default "state_<i>" / "input_<i>"), every bit-vector state with its
    value, every array state with the same index and data widths, the same set of recorded
    indices and the same contents at every recorded index (also entries equal to zero and
    entries that were never stored), states without value (and arrays without recorded
    index) without value. *)
Theorem C16_witness_roundtrip :
  forall w, wit_complete w = true ->
  exists text w', wit_print_text w = WOk text /\ wit_parse_single text = WOk w' /\
                  (forall pm, wit_parse_text pm text = WOk [w']) /\ wit_equiv w w'.
Proof. exact witness_roundtrip_lemma. Qed.
Print Assumptions C16_witness_roundtrip.

(** The same with the witness that is read back given explicitly: [wit_canon w]. *)
Theorem C16_roundtrip_canon :
  forall w, wit_complete w = true ->
  exists text, wit_print_text w = WOk text /\
               (forall pm, wit_parse_text pm text = WOk [wit_canon w]) /\
               wit_parse_single text = WOk (wit_canon w).
Proof. exact roundtrip_canon_lemma. Qed.
Print Assumptions C16_roundtrip_canon.

(** Several complete witnesses written one after another are read back one by one, in
    order: all of them when [parse_max] is at least their number, otherwise the first
    [max 1 parse_max] (the reader always finishes the witness it has started). *)
Theorem C16_witness_stream :
  forall ws pm, Forall (fun w => wit_complete w = true) ws ->
  exists text, print_stream ws = WOk text /\
               wit_parse_text pm text = WOk (map wit_canon (firstn (Nat.max 1 (N.to_nat pm)) ws)).
Proof. exact witness_stream_lemma. Qed.
Print Assumptions C16_witness_stream.

Theorem C16_witness_stream_all :
  forall ws pm, Forall (fun w => wit_complete w = true) ws -> N.of_nat (length ws) <= pm ->
  exists text, print_stream ws = WOk text /\ wit_parse_text pm text = WOk (map wit_canon ws).
Proof. exact witness_stream_all. Qed.
Print Assumptions C16_witness_stream_all.

(** [wit_canon w] is equivalent to [w] according to the boolean oracle that the tie evaluates
    on the implementation's own results ... *)
Theorem C16_canon_equiv :
  forall w, wit_complete w = true -> wit_equiv_b w (wit_canon w) = true.
Proof. exact canon_equiv_b_lemma. Qed.
Print Assumptions C16_canon_equiv.

(** ... and that oracle means [wit_equiv]. *)
Theorem C16_equiv_b_meaning :
  forall w w', length (w_init w) = length (w_init_names w) ->
  wit_equiv_b w w' = true -> wit_equiv w w'.
Proof. exact wit_equiv_b_sound_lemma. Qed.
Print Assumptions C16_equiv_b_meaning.

(** KNOWN FINDING (baa 0.19.3, bv/borrowed.rs:120, see [baa_lookup_panics]).  The property
    as stated ([wit_complete_spec], any widths) does not hold: [wit_complete] is
    [wit_complete_spec] minus array states with an index width above 64 bits, and for those
    the model (like the code) panics: in the printer when a recorded index is stored in the
    array, in the reader on the second line of the array otherwise. *)
Definition ex_idx65 (lsb : bool) : bits := repeat false 64 ++ [lsb].
Definition ex_big_stored : btor_witness :=
  mk_btor_witness [IVArray (mk_array 65 [false] [(ex_idx65 true, [true])]) [ex_idx65 true]]
                  [Some (lit "m")] [] [] [0].
Definition ex_big_default : btor_witness :=
  mk_btor_witness [IVArray (mk_array 65 [true] []) [ex_idx65 false; ex_idx65 true]]
                  [Some (lit "m")] [] [] [0].

Theorem C16_big_index_refuted :
  (exists w, wit_complete_spec w = true /\ wit_print_text w = WPanic) /\
  (exists w text, wit_complete_spec w = true /\ wit_print_text w = WOk text /\
                  wit_parse_text 1 text = WPanic).
Proof.
  split.
  - exists ex_big_stored. split; vm_compute; reflexivity.
  - exists ex_big_default. eexists. split; [vm_compute; reflexivity|]. split.
    + vm_compute. reflexivity.
    + vm_compute. reflexivity.
Qed.
Print Assumptions C16_big_index_refuted.

(** Why the other clauses of [wit_complete] are there (boundary of the property):
    without a failed property no "b" line is written and the reader panics on "#0";
    a name containing '#' is cut at that character; an input without value shifts nothing
    but is lost (the frame that is read back is shorter). *)
Example C16_boundary_no_failed_property :
  let w := mk_btor_witness [IVBitVec [true]] [Some (lit "s")] [] [] [] in
  exists text, wit_print_text w = WOk text /\ wit_parse_text 1 text = WPanic.
Proof. eexists. split. { vm_compute. reflexivity. } vm_compute. reflexivity. Qed.

Example C16_boundary_hash_in_name :
  let w := mk_btor_witness [IVBitVec [true]] [Some (lit "a#b")] [] [] [0] in
  exists text, wit_print_text w = WOk text /\
               wit_parse_text 1 text = WOk [mk_btor_witness [IVBitVec [true]] [Some (lit "a")] [] [] [0]].
Proof. eexists. split. { vm_compute. reflexivity. } vm_compute. reflexivity. Qed.

Example C16_boundary_missing_input :
  let w := mk_btor_witness [] [] [[Some (WVBitVec [true]); None]] [Some (lit "i"); Some (lit "j")] [0] in
  exists text, wit_print_text w = WOk text /\
               wit_parse_text 1 text = WOk [mk_btor_witness [] [] [[Some (WVBitVec [true])]] [Some (lit "i")] [0]].
Proof. eexists. split. { vm_compute. reflexivity. } vm_compute. reflexivity. Qed.

(** Non-vacuity: a witness with two failed properties, a bit-vector state, a state without
    value, an array state with three recorded indices (one stored as zero, one never stored,
    so equal to the non-zero default), an unnamed state, names with odd characters, and
    two steps of two inputs (one of them 65 bits wide) is complete; its text is read back
    as [wit_canon]. *)
Definition ex_array : array_value :=
  mk_array 2 [false; false; true]
           [([true; false], [true; true; true]); ([false; false], [false; false; false])].
Definition ex_wide : bits := true :: repeat false 64.
Definition ex_witness : btor_witness :=
  mk_btor_witness
    [IVBitVec [true; false]; IVNone; IVArray ex_array [[true; false]; [false; false]; [true; true]; [true; false]]; IVBitVec [true]]
    [Some (lit "top.st[3]"); Some (lit "unused"); None; Some (lit "a""b\c")]
    [[Some (WVBitVec [true]); Some (WVBitVec ex_wide)]; [Some (WVBitVec [false]); Some (WVBitVec ex_wide)]]
    [None; Some (lit "in$1")]
    [3; 4294967295].

Example C16_example_complete : wit_complete ex_witness = true.
Proof. vm_compute. reflexivity. Qed.

Example C16_example_roundtrip :
  exists text, wit_print_text ex_witness = WOk text /\
               wit_parse_single text = WOk (wit_canon ex_witness) /\
               wit_parse_text 5 (text ++ text) = WOk [wit_canon ex_witness; wit_canon ex_witness].
Proof.
  eexists. split. { vm_compute. reflexivity. }
  split. { vm_compute. reflexivity. } vm_compute. reflexivity.
Qed.
