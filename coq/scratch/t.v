From Patronus Require Import Simplify.
Open Scope N_scope.
Open Scope string_scope.
Eval vm_compute in simp_default (BVSymbol "x" 5).
Eval vm_compute in simp_default (BVShiftRight (BVSymbol "x" 5) (BVConcat (BVLiteral 2 3) (BVSymbol "y" 3) 5) 5).
