From Patronus Require Import EncodingFaithful.
Check at_step_next. Check next_env_state. Check script_faithful_gen. Check tau_spec. Check script_origin. Check in_steps. Check sig_sym_state. Check find_state_of.
