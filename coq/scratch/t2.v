From Coq Require Import List.
From Patronus Require Import Encoding.
Import ListNotations.
Open Scope N_scope.
Open Scope string_scope.
Definition i := BVSymbol "i" 4.
Definition s := BVSymbol "s" 4.
Definition t := BVSymbol "t" 4.
Definition i1 := BVAdd i (BVLiteral 4 1) 4.
Definition sy := {| s_inputs := [i]; s_states := [ {| st_sym := s; st_init := Some i1; st_next := Some s |};
   {| st_sym := t; st_init := Some (BVLiteral 4 0); st_next := Some (BVMul i1 i1 4) |} ];
   s_outputs := []; s_bads := [BVEqual t (BVLiteral 4 9)]; s_constraints := [] |}.
Definition nm (e : expr) := if expr_eqb e i then "i" else if expr_eqb e i1 then "__n6" else "__n10".
Definition en := enc_new sy nm.
Compute (map (fun s => (sg_name s, sg_uses s)) (e_sigs en)).
Compute script Current en 0 1.
Compute script_first_bad [] (script Current en 0 1).
Compute script_check [] (script Fixed en 0 2).
