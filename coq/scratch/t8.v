From Coq Require Import List Bool Lia.
From Patronus Require Import EvalImpl Analysis SysExec ExprLemmas McBasics EncodingBasics.
Import ListNotations.
Open Scope N_scope.
Lemma proper_subterm_parent : forall r x, In x (subterms r) -> x <> r ->
  exists p, In p (subterms r) /\ In x (children p).
Proof.
  induction r; intros x Hx Hne; cbn [subterms] in Hx; (destruct Hx as [<-|Hx]; [contradiction|]);
    repeat (rewrite in_app_iff in Hx);
    repeat match goal with H : _ \/ _ |- _ => destruct H end;
    try (now destruct Hx).
  all: match goal with
    | H : In ?y (subterms ?a) |- _ =>
        destruct (expr_eq_dec y a) as [->|Hd];
        [ eexists; split; [apply subterms_self|cbn [children In]; auto]
        | match goal with IH : _ |- _ => destruct (IH y H Hd) as (p & Hp & Hc) end; exists p; split; [|assumption];
          cbn [subterms]; right; rewrite ?in_app_iff; auto ]
    end.
Qed.
