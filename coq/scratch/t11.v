From Patronus Require Import ReachBmcProofs.
Check assign_wf.
