From Coq Require Import List.
Check map_eq_app. Check map_eq_cons.
