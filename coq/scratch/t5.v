From Coq Require Import List Bool Lia.
From Patronus Require Import Encoding SysExec ExprLemmas McBasics ScriptProofs.
Import ListNotations.
Open Scope N_scope.

Ltac inv_same_in H :=
  first [apply wt_and in H | apply wt_or in H | apply wt_xor in H | apply wt_shl in H | apply wt_ashr in H
        | apply wt_lshr in H | apply wt_add in H | apply wt_mul in H | apply wt_sdiv in H | apply wt_udiv in H
        | apply wt_smod in H | apply wt_srem in H | apply wt_urem in H | apply wt_sub in H].

Lemma wt_ty_pos e : wt e = true -> ty_pos (type_of e) = true.
Proof.
  induction e; intros H; cbn [type_of ty_pos].
  all: try (apply N.ltb_lt; lia).
  all: try (inv_same_in H; destruct H as (Ha & _ & Hta & _); specialize (IHe1 Ha); rewrite Hta in IHe1; exact IHe1).
  - apply wt_sym in H. now apply N.ltb_lt.
  - apply wt_lit in H. apply N.ltb_lt. tauto.
  - apply wt_zext in H. apply N.ltb_lt. lia.
  - apply wt_sext in H. apply N.ltb_lt. lia.
  - apply wt_not in H. destruct H as [Ha Ht]. specialize (IHe Ha). now rewrite Ht in IHe.
  - apply wt_neg in H. destruct H as [Ha Ht]. specialize (IHe Ha). now rewrite Ht in IHe.
  - apply wt_concat in H. destruct H as (Ha & Hb & wa & wb & Hta & Htb & ->).
    specialize (IHe1 Ha). rewrite Hta in IHe1. cbn [ty_pos] in IHe1. apply N.ltb_lt in IHe1. apply N.ltb_lt. lia.
  - apply wt_read in H. destruct H as (Ha & Hb & iw & Hta & Htb). specialize (IHe1 Ha). rewrite Hta in IHe1.
    cbn [ty_pos] in IHe1. apply andb_true_iff in IHe1. tauto.
  - apply wt_ite in H. destruct H as (_ & _ & Hc & _). now apply IHe3.
  - cbn [wt] in H. unfold node_ok in H. cbn [check1 leaf_ok is_some] in H. rewrite !andb_true_iff in H. apply andb_true_iff. tauto.
  - apply wt_aconst in H. destruct H as (Ha & Hta & Hiw). specialize (IHe Ha). rewrite Hta in IHe.
    cbn [ty_pos] in IHe. apply andb_true_iff. split; [now apply N.ltb_lt|exact IHe].
  - apply wt_store in H. destruct H as (Ha & _). now apply IHe1.
  - apply wt_aite in H. destruct H as (_ & _ & Hc & _). now apply IHe3.
Qed.

Section SubstWt.
  Variable sg : expr -> option expr.
  Hypothesis Hsg : forall x s, sg x = Some s -> wt s = true /\ type_of s = type_of x.

  Lemma subst_wt : forall e top, wt e = true ->
    wt (subst sg top e) = true /\ type_of (subst sg top e) = type_of e.
  Proof.
    induction e; intros top H; cbn [subst];
      (destruct top; [|destruct (sg _) as [s0|] eqn:Es; [now apply Hsg|]]);
      try (split; [assumption|reflexivity]).
    all: cbn [wt] in H; repeat match goal with Hx : _ && _ = true |- _ => apply andb_true_iff in Hx; destruct Hx end;
      repeat match goal with
             | IH : forall top, wt ?a = true -> _, Ha : wt ?a = true |- _ =>
                 let A := fresh "Hw" in let B := fresh "Ht" in
                 destruct (IH false Ha) as [A B]; clear IH
             end;
      cbn [wt type_of]; unfold node_ok in *; cbn [check1 leaf_ok] in *;
      unfold expect_same_width_bvs_of, expect_same_width_bvs, expect_same_size_arrays in *;
      repeat match goal with Ht : type_of (subst _ _ _) = _ |- _ => rewrite Ht end;
      repeat match goal with Hw : wt (subst _ _ _) = true |- _ => rewrite Hw end;
      repeat match goal with Hx : ?p = true |- context [?p] => rewrite Hx end; auto.
    all: idtac "left".
    Show.
  Abort.
End SubstWt.
