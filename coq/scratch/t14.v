From Patronus Require Import EncodingTheorems.
Check observable_covered.
