From Coq Require Import List Bool Lia.
From Patronus Require Import Encoding SysExec McBasics ScriptProofs.
Import ListNotations.
Open Scope N_scope.

Section Subst.
  Variables (sg : expr -> option expr) (tau rho : env).
  Hypothesis Hsg : forall x s, sg x = Some s -> same_val tau s rho x /\ type_of s = type_of x.

  Lemma subst_val : forall e top,
    (forall y, In y (symbols_of e) -> sg y <> None) ->
    (top = true -> is_symbol e = false) ->
    same_val tau (subst sg top e) rho e /\ type_of (subst sg top e) = type_of e.
  Proof.
    induction e; intros top Hcl Htop; cbn [subst];
      (destruct top; [|destruct (sg _) as [s0|] eqn:Es; [now apply Hsg|]]);
      cbn [symbols_of] in Hcl;
      repeat match goal with
             | IH : forall top, (forall y, In y (symbols_of ?a) -> _) -> _ -> _ |- _ =>
                 let A := fresh "Hv" in let B := fresh "Ht" in
                 destruct (IH false) as [A B];
                 [intros y' Hy'; apply Hcl; rewrite ?in_app_iff; tauto|discriminate|]; clear IH
             end.
    all: try (exfalso; specialize (Htop eq_refl); discriminate Htop).
    all: try (exfalso; apply (Hcl _ (or_introl eq_refl)); assumption).
    all: try (split; [apply same_val_refl|reflexivity]).
    all: unfold same_val in *; cbn [ebv earr type_of]; unfold width, index_width;
      repeat match goal with H : _ /\ _ |- _ => destruct H end;
      repeat match goal with H : type_of (subst _ _ _) = _ |- _ => rewrite H; clear H end;
      repeat match goal with H : ebv tau (subst _ _ _) = _ |- _ => rewrite H; clear H end.
    all: try (split; [split; [reflexivity|intros; reflexivity]|reflexivity]).
    all: repeat split; intros; try reflexivity;
      try match goal with
          | H : forall i, earr tau ?a i = earr rho ?b i |- earr tau ?a _ = earr rho ?b _ => apply H
          | |- b2n (arr_eqb _ _ _) = b2n (arr_eqb _ _ _) => f_equal; apply arr_eqb_ext; assumption
          | |- arr_store _ _ _ _ = arr_store _ _ _ _ => unfold arr_store; destruct (_ =? _); auto
          | |- (if ?c then _ else _) _ = (if ?c then _ else _) _ => destruct c; auto
          | |- (if ?c then _ else _) = (if ?c then _ else _) => destruct c; auto
          end.
    all: idtac "left".
    Show.
  Abort.
End Subst.
