From Coq Require Import String Ascii List NArith ZArith Bool Arith Lia.
From Patronus Require Import SolverIO.
Import ListNotations.
Import SIO.
Open Scope string_scope.
Open Scope nat_scope.
Fixpoint all_ws (s : string) : bool :=
  match s with EmptyString => true | String c r => is_ws c && all_ws r end.
Fixpoint ends_solid (s : string) : bool :=
  match s with
  | EmptyString => false
  | String c EmptyString => negb (is_ws c)
  | String _ r => ends_solid r
  end.
Lemma trim_end_all_ws : forall s, all_ws s = true -> trim_end s = "".
Proof.
  induction s as [|c s IH]; intros H; cbn in *; [reflexivity|].
  apply andb_prop in H. destruct H as [W H]. rewrite (IH H), W. reflexivity.
Qed.
Lemma trim_end_solid_app : forall s t, ends_solid s = true -> all_ws t = true -> trim_end (s ++ t) = s.
Proof.
  induction s as [|c s IH]; intros t Hs Ht; [discriminate|].
  cbn [append trim_end].
  destruct s as [|d s'].
  - cbn [append]. rewrite (trim_end_all_ws t Ht). destruct (is_ws c) eqn:W. Show. all: cbn in *. Show.
