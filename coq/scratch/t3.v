From Coq Require Import List Bool Lia.
From Patronus Require Import Script SysExec Analysis McBasics.
Import ListNotations.
Open Scope N_scope.
Lemma syms_ok_symbols d e x :
  syms_ok d e = true -> In x (symbols_of e) -> exists n ty, x = mk_sym n ty /\ lookup n d = Some ty.
Proof.
  induction e; cbn [syms_ok symbols_of]; intros H Hin;
    repeat match goal with
           | H : _ && _ = true |- _ => apply andb_true_iff in H; destruct H
           end;
    repeat (rewrite in_app_iff in Hin);
    try (destruct Hin as [Hin|Hin]; [|destruct Hin]);
    try (now destruct Hin);
    try (repeat match goal with H : _ \/ _ |- _ => destruct H end; eauto; fail).
  all: idtac "remaining".
  Show.
Abort.
