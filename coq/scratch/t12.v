From Patronus Require Import EncodingFaithful EncodingTheorems C04Final.
Check tau. Check tau_spec. Check faithful_final. Check observable.
Print observable.
