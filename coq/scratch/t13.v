From Patronus Require Import EncodingFaithful EncodingTheorems C04Final ReachBmcProofs.
Check coherent. Check signal_wf. Check sig_sym_type. Check sig_sym_signal.
